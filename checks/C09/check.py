#!/usr/bin/env python3
"""C09 - output files lay out banks and segments exactly as configured.

spec/Banks/Banks.tla       declarative reading (Analyse/Reject) + the code's algorithm step by step (Finalize, BankMerge,
                           SizeBank, HeaderBank, WriteOne, Outcome) + narrow witnesses of the known deviations
spec/Banks/MC_Banks.tla    design level: the algorithm as a state machine over every configuration of two small families,
                           invariants Strict/Refines (refinement of the declarative reading), MergePrefix, NoPartialOutput
spec/Banks/BanksTrace.tla  judge: files written by the real code (in-process write_banks and `mos build`) vs Banks!Reject
"""
import copy
import os
import sys
from concurrent.futures import ThreadPoolExecutor

sys.path.insert(0, os.path.join(os.path.dirname(os.path.abspath(__file__)), "..", "..", "lib"))
import vplib as V
import bankslib as B

SPEC = os.path.join(V.SPEC, "Banks")
MC = os.path.join(SPEC, "MC_Banks.tla")
TRACE = os.path.join(SPEC, "BanksTrace.tla")
TRACE_CFG = os.path.join(SPEC, "BanksTrace.cfg")

# witness invariants that must be VIOLATED (the situation occurs in the explored space), per small profile
VAC_LAYOUT = ["NoSuccess", "NoOverlapWin", "NoPrepend", "NoPadding", "NoOversize", "NoShort", "NoWriteOff"]
VAC_ASSIGN = ["NoTwoFiles", "NoSharedFile", "NoUnknownBank", "NoNoBank", "NoPrgMulti", "NoHeader", "Strict"]
VAC_EDGE = ["NoSizeRange", "NoUndefSeg", "NoZeroSize", "NoRangeErr"]
VAC_EMPTY = ["NoEmptyLater", "Strict"]
ALL_DEVS = ["SingleSegmentBankOverridden", "PrgHeaderInSeparateFile", "EmptySegmentStretchesBank"]


def mc_cfg_text(profile, mb, ms, devs, base, starts, lens, sizes, invs, export):
    q = lambda xs: ", ".join('"%s"' % x for x in xs)
    return ("SPECIFICATION Spec\nCONSTANT Profile = \"%s\"\nCONSTANT MaxBanks = %d\nCONSTANT MaxSegs = %d\nCONSTANT Deviations = {%s}\n"
            "CONSTANT Base = %d\nCONSTANT Starts = {%s}\nCONSTANT Lens = {%s}\nCONSTANT Sizes = {%s}\n%s%s" %
            (profile, mb, ms, q(devs), base, q(starts), ", ".join(map(str, lens)), ", ".join(map(str, sizes)),
             "".join("INVARIANT %s\n" % i for i in invs), "POSTCONDITION Export\n" if export else ""))


def design_level(rep, tier, open_devs):
    """Model-check the pipeline on both families, ideal and as-is; export the configurations as cases."""
    wd = V.workdir("C09")
    runs = [("layout", "MC_Banks_layout_%s.cfg" % tier, True), ("range", "MC_Banks_range.cfg", True), ("sizes", "MC_Banks_sizes.cfg", True),
            ("assign-ideal", "MC_Banks_assign_ideal_%s.cfg" % tier, False)]
    if tier == "thorough":
        runs.append(("layout4", "MC_Banks_layout4_thorough.cfg", True))
    # the as-is run uses exactly the deviations that are open findings (a fixed finding's disjunct is switched off)
    src = open(os.path.join(SPEC, "MC_Banks_assign_impl_%s.cfg" % tier)).read()
    impl_cfg = os.path.join(wd, "MC_Banks_assign_impl.cfg")
    with open(impl_cfg, "w") as f:
        f.write("\n".join(('CONSTANT Deviations = {%s}' % ", ".join('"%s"' % d for d in open_devs)) if l.startswith("CONSTANT Deviations") else l
                          for l in src.splitlines()) + "\n")
    runs.append(("assign-impl", impl_cfg, True))
    # segments without bytes (they write no address): ideal reading, and the code as it is under the open findings
    runs.append(("empty-ideal", "MC_Banks_empty_ideal.cfg", False))
    src = open(os.path.join(SPEC, "MC_Banks_empty_impl.cfg")).read()
    empty_cfg = os.path.join(wd, "MC_Banks_empty_impl.cfg")
    with open(empty_cfg, "w") as f:
        f.write("\n".join(('CONSTANT Deviations = {%s}' % ", ".join('"%s"' % d for d in open_devs)) if l.startswith("CONSTANT Deviations") else l
                          for l in src.splitlines()) + "\n")
    runs.append(("empty-impl", empty_cfg, True))

    def one(run):
        name, cfg, export = run
        out = os.path.join(wd, "cases-%s.ndjson" % name)
        if os.path.exists(out):
            os.remove(out)
        r = V.tlc(MC, cfg=cfg if os.path.isabs(cfg) else os.path.join(SPEC, cfg), env={"OUT": out}, workers=3 if tier == "quick" else 4,
                  timeout=3000, tag="C09-mc-" + name, xmx="8g")
        return name, r, out if export else None
    with ThreadPoolExecutor(max_workers=2) as ex:
        results = list(ex.map(one, runs))
    exported = {}
    for name, r, out in results:
        rep.add_tlc(r)
        if r.invariant_violated:
            rep.violations.append({"why": "design level: MC_Banks (%s) - the merge algorithm does not refine the declarative layout" % name,
                                   "replay": {"tlc_output": V.tail(r.out, 80), "cfg": name}, "id": "MC_Banks-" + name})
            continue
        if r.rc != 0 or "Error:" in r.out:
            raise V.ToolError("MC_Banks %s failed:\n%s" % (name, V.tail(r.out, 40)))
        rep.notes.append("MC_Banks %s: %d distinct states, depth %d, invariants hold" % (name, r.distinct, r.depth))
        if out:
            exported[name] = V.read_ndjson(out)
            if not exported[name]:
                raise V.ToolError("MC_Banks %s exported no cases" % name)
    # vacuity: every situation the property talks about occurs in the explored space
    vac = [("layout", i) for i in VAC_LAYOUT] + [("assign", i) for i in VAC_ASSIGN if not (i == "Strict" and not set(open_devs) & {"SingleSegmentBankOverridden", "PrgHeaderInSeparateFile"})] + [("edge", i) for i in VAC_EDGE] \
        + [("empty", i) for i in VAC_EMPTY if not (i == "Strict" and "EmptySegmentStretchesBank" not in open_devs)]

    def witness(pi):
        prof, inv = pi
        path = os.path.join(wd, "vac-%s-%s.cfg" % (prof, inv))
        with open(path, "w") as f:
            if prof == "layout":
                f.write(mc_cfg_text("layout", 1, 2, [], 4096, ["0", "2", "4", "prev"], [1, 3], [99999, 5], [inv], False))
            elif prof == "empty":  # "Strict" here = the code's reading of Bank::merge against the property: must be refuted while the finding is open
                f.write(mc_cfg_text("layout", 1, 2, [d for d in open_devs if d == "EmptySegmentStretchesBank"], 4096, ["0", "5"], [0, 2], [99999], [inv], False))
            elif prof == "edge":   # at the top of the address space, with sizes on both sides of 0..65536
                f.write(mc_cfg_text("layout", 1, 2, [], 65530, ["0", "5", "7", "prev"], [1, 3], [88888, 0, 65537], [inv], False))
            else:
                f.write(mc_cfg_text("assign", 2, 2, open_devs, 4096, [], [], [], [inv], False))
        r = V.tlc(MC, cfg=path, workers=2, timeout=600, tag="C09-vac-%s-%s" % (prof, inv))
        return prof, inv, r
    with ThreadPoolExecutor(max_workers=4) as ex:
        for prof, inv, r in ex.map(witness, vac):
            if not r.invariant_violated:
                raise V.ToolError("vacuous MC_Banks space: witness %s/%s is never reached\n%s" % (prof, inv, V.tail(r.out, 15)))
    rep.notes.append("vacuity witnesses reached: " + ", ".join("%s/%s" % v for v in vac))
    return exported


def drive(rep, tier, cfgs, nproc_ids, devs):
    """cfgs: {id: cfg}. In-process for all, `mos build` for nproc_ids. Returns (records, meta)."""
    rnd = V.rng("C09-render")
    meta, cases, jobs = {}, [], []
    for cid, cfg in cfgs.items():
        src, toml = B.render(cfg, rnd)
        meta[cid] = {"cfg": cfg, "src": src, "toml": toml}
        cases.append({"id": cid, "files": {"main.asm": src}, "pc": 0x2000, "default_name": "out.bin"})
        if cid in nproc_ids:
            jobs.append((cid, cfg, src, toml))
    obs, p = V.run_harness("bankdrive", cases, "C09-drive", extra_args=[os.path.join(V.workdir("C09-drive"), "scratch")])
    if len(obs) != len(cases):
        raise V.ToolError("bankdrive produced %d of %d observations: %s" % (len(obs), len(cases), p.stderr[-2000:]))
    recs = []
    for o in obs:
        meta[o["id"]]["lib"] = o
        recs.append(dict(B.lib_record(o["id"], cfgs[o["id"]], o), devs=devs))
    pobs = B.run_mos_many(V.MOS_BIN, jobs, "C09-proc", threads=4)
    for cid, o in pobs.items():
        meta[cid]["proc"] = o
        recs.append(dict(B.proc_record("p%d" % cid, cfgs[cid], o), devs=devs))
    return recs, meta


def self_test(good):
    """Binding demonstration: corrupt one recorded field of accepted records; TLC must reject each."""
    bad = []
    g = copy.deepcopy(good)
    g["id"] = "st-byte"
    f = max(g["files"], key=lambda x: len(x["data"]))
    f["data"][len(f["data"]) // 2] ^= 0x40
    g["hasBanks"] = False
    bad.append(g)
    g = copy.deepcopy(good)
    g["id"] = "st-trunc"
    f = max(g["files"], key=lambda x: len(x["data"]))
    f["data"].pop()
    g["hasBanks"] = False
    bad.append(g)
    g = copy.deepcopy(good)
    g["id"] = "st-range"
    if g["mode"] == "lib" and g["banks"]:
        b = max(g["banks"], key=lambda x: len(x["data"]))
        b["lo"] += 1
        b["hi"] += 1
        bad.append(g)
    verdicts, _ = V.judge(TRACE, bad, cfg=TRACE_CFG, tag="C09-selftest")
    got = {v["id"] for v in verdicts if v["verdict"] == "violation"}
    if got != {b["id"] for b in bad}:
        raise V.ToolError("judge self-test failed: corrupted records %s, rejected %s" % ([b["id"] for b in bad], sorted(got)))


def load_local_findings(rep):
    """Findings of this check that the maintainer has not merged into known_findings.jsonl yet (read-only; the merged file wins)."""
    import json
    merged = {f["deviation"] for f in V.load_findings() if f.get("property") == "C09"}
    path = os.path.join(os.path.dirname(os.path.abspath(__file__)), "findings.jsonl")
    if os.path.exists(path):
        for line in open(path):
            line = line.strip()
            if line:
                f = json.loads(line)
                if f.get("property") == "C09" and f.get("status") == "open" and f["deviation"] not in merged:
                    rep.open[f["deviation"]] = f


def main(tier):
    rep = V.Report("C09", tier)
    load_local_findings(rep)
    devs = sorted(d for d in ALL_DEVS if d in rep.open)
    B.build_harness(["bankdrive"])
    V.build_mos()
    exported = design_level(rep, tier, devs)
    if rep.violations:
        return rep.finish()

    rnd = V.rng("C09")
    quick = tier == "quick"
    cfgs, fam = {}, {}
    n = 0

    def add(cfg, family):
        nonlocal n
        n += 1
        cfgs[n] = cfg
        fam[n] = family
        return n

    # (a) TLC's configurations, each moved to a seeded base address and given layout-irrelevant options
    take = {"layout": 2500 if quick else 60000, "layout4": 0 if quick else 30000, "range": 700 if quick else 5160, "sizes": 400 if quick else 10000, "empty-impl": 1500 if quick else 20000, "assign-impl": 2500 if quick else 40000}
    for name, cases in exported.items():
        cases = list(cases)
        rnd.shuffle(cases)
        for c in cases[:take.get(name, 0)]:
            if name != "range":
                c = B.shift(c, rnd.choice([rnd.randrange(-4096, 61000 - 4096), rnd.randrange(-4096, -4080), 0x00fa - 4096, 0xff00 - 4096]))
            add(B.decorate(c, rnd), name)
    # (b) seeded random configurations beyond the model's bounds: <= 4 banks, <= 6 segments, forward start dependencies, interleaved definitions
    for i in range(5000 if quick else 40000):
        add(B.decorate(B.random_cfg(rnd, faults=(i % 4 == 0)), rnd), "random")
    # (c) corners of the size rule and a bank that fills the whole address space (always also through `mos build`)
    ids_edge = [add(c, "edge") for c in B.edge_cfgs(rnd)]
    # process level: every format x filename combination lives in the assign family and the random family
    ids_assign = [i for i in cfgs if fam[i] == "assign-impl"]
    ids_random = [i for i in cfgs if fam[i] == "random"]
    ids_layout = [i for i in cfgs if fam[i] in ("layout", "range", "empty-impl")]
    rnd.shuffle(ids_assign)
    rnd.shuffle(ids_layout)
    nproc = set(ids_assign[:200 if quick else 1200] + ids_random[:250 if quick else 1500] + ids_layout[:80 if quick else 600] + ids_edge)

    V.log("[C09] %d configurations in-process, %d of them also through `mos build`" % (len(cfgs), len(nproc)))
    recs, meta = drive(rep, tier, cfgs, nproc, devs)

    verdicts, st = V.judge(TRACE, recs, cfg=TRACE_CFG, tag="C09-judge", batch=6000, timeout=3000)
    rep.add_stats(st)
    bad_ids = {v["id"] for v in verdicts}
    for v in verdicts:
        if v["verdict"] == "malformed":
            raise V.ToolError("generator bug: malformed configuration %s" % v["id"])
    for v in verdicts:
        sid = str(v["id"])
        cid = int(sid[1:]) if sid.startswith("p") else int(sid)
        m = meta[cid]
        rep.verdict(v, {"main.asm": m["src"], "mos.toml": m["toml"] if sid.startswith("p") else "(in-process: write_banks(.., 'out.bin'))", "cfg": m["cfg"],
                        "observation": m.get("proc") if sid.startswith("p") else m.get("lib"), "family": fam[cid], "judge": "spec/Banks/BanksTrace.tla", "why": v.get("why")})
    if not rep.violations:
        # binding demonstration (only meaningful on a run without alarms): corrupted copies of accepted records must be rejected
        def candidates(mode):
            return [r for r in recs if r["ok"] and r["id"] not in bad_ids and r["mode"] == mode and len(r["cfg"]["segs"]) >= 2
                    and all(s["write"] for s in r["cfg"]["segs"]) and sum(len(f["data"]) for f in r["files"]) >= 4]
        good, pgood = candidates("lib"), candidates("proc")
        if not good or not pgood:
            raise V.ToolError("no accepted successful build to run the judge self-test on")
        self_test(good[0])
        self_test(pgood[0])
        rep.notes.append("judge self-test: flipped byte / dropped byte / shifted bank range in accepted records were all rejected")

    nok = sum(1 for r in recs if r["ok"])
    rep.cov["traces_validated_against_impl"] = len(recs)
    rep.cov["evaluations"] = len(recs)
    rep.cov["distinct_nontrivial"] = len({(meta[i]["src"], meta[i]["toml"] if i in nproc else "") for i in cfgs
                                           if len(cfgs[i]["segs"]) >= 2 or len(cfgs[i]["banks"]) >= 2})
    rep.cov["built_ok"] = nok
    rep.cov["rejected"] = len(recs) - nok
    rep.cov["process_level_runs"] = len(nproc)
    rep.cov["families"] = {k: sum(1 for i in fam if fam[i] == k) for k in sorted(set(fam.values()))}
    rep.cov["rule"] = ("TLC-enumerated configurations (layout family: one bank x size/fill x every placement of <= 3 (4) segments on a 16-address line incl. "
                       "start = previous end, write on/off; range family at $FFFA; assign family: <= 2 (3) banks x filename/size/create-segment options x "
                       "<= 3 segments x every bank reference x format x output-filename), sampled with the seed and moved to seeded base addresses, plus seeded random "
                       "configurations of <= 4 banks and <= 6 segments; non-trivial = at least two segments or two banks (something to lay out), "
                       "distinct = distinct (source text, mos.toml) pairs among those")
    for r in [x for x in recs if x["ok"] and x["mode"] == "proc"][:3]:
        i = int(str(r["id"])[1:])
        rep.sample({"main.asm": meta[i]["src"], "mos.toml": meta[i]["toml"], "files": {f["name"]: bytes(f["data"]).hex() for f in r["files"]}})
    rep.assumptions += ["segments are contiguous runs of .byte data (no '* =' holes inside a segment); a segment without bytes writes no address and belongs to no image",
                        "a lone user segment without a bank, and format prg with several banks, may be rejected or built (property silent); the prg header of a bank without bytes is unspecified",
                        "format unset means prg iff exactly one bank exists; default file name = entry stem + .prg/.bin (documented behaviour, supplied to TLC as data)",
                        "in-process runs call write_banks with the default name out.bin (no header exists in mos-core); header, format and file name selection are judged on `mos build` runs only"]
    return rep.finish()


if __name__ == "__main__":
    V.main_wrapper(main)
