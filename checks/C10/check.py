#!/usr/bin/env python3
"""C10 - builds are reproducible.

spec/Repro/Repro.tla       hash-ordered stages with explicit iteration order; Reproducible for all permutations (TLC)
spec/Repro/ReproTrace.tla  judge: N fresh-process builds of a project give one observation
"""
import concurrent.futures
import hashlib
import os
import shutil
import subprocess
import sys

sys.path.insert(0, os.path.join(os.path.dirname(os.path.abspath(__file__)), "..", "..", "lib"))
import vplib as V
import asmgen as G

SPEC = os.path.join(V.SPEC, "Repro")


def projects(rnd, n):
    """valid and invalid, single- and multi-file projects; several imports per file; repeated undefined names; parse errors
    in several files; labels sharing an address; anonymous scopes inside imported files"""
    out = []
    for i in range(n):
        kind = i % 11
        files = {}
        if kind == 0:      # the same undefined name used several times, in several files
            files["main.asm"] = '.import * as ma from "a.asm"\n.import * as mb from "b.asm"\nlda nosuch\nsta nosuch\n{ ldx nosuch }\njmp other\n'
            files["a.asm"] = "la: lda nosuch\nldy other\n"
            files["b.asm"] = "lb: sta nosuch\n{ lda nosuch }\n"
        elif kind == 1:    # parse errors in several imported files
            files["main.asm"] = "".join('.import * as m%d from "f%d.asm"\n' % (k, k) for k in range(4)) + "nop\n"
            for k in range(4):
                files["f%d.asm" % k] = "l%d: nop\n!!! %d\nlda #\n" % (k, k)
        elif kind == 2:    # several missing imports
            files["main.asm"] = "".join('.import * as q%d from "missing%d.asm"\n' % (k, k) for k in range(4)) + "nop\n"
        elif kind == 3:    # valid, several imports each with anonymous scopes and labels at shared addresses
            files["main.asm"] = "".join('.import * as m%d from "g%d.asm"\n' % (k, k) for k in range(3)) + "start: init:\n{ nop\n { inx } }\nalias1: alias2: rts\n"
            for k in range(3):
                files["g%d.asm" % k] = "e%d: f%d:\n{ lda #%d\n { iny }\n}\n{ dex }\nrts\n" % (k, k, k)
        elif kind == 4:    # import * conflicts
            files["main.asm"] = '.import * from "c1.asm"\n.import * from "c2.asm"\nnop\n'
            files["c1.asm"] = "xa: nop\nxb: nop\nxc: nop\n"
            files["c2.asm"] = "xa: rts\nxb: rts\nxc: rts\n"
        elif kind == 8:    # source files that share their name in different directories (and with the entry file): which listing gets which name
            files["main.asm"] = 'lda #1\n.import * as lu from "lib/util.asm"\n.import * as gu from "gfx/util.asm"\n.import * as su from "snd/util.asm"\n.import * as lm from "lib/main.asm"\nrts\n'
            files["lib/util.asm"] = "lu1: lda #%d\nrts\n" % (i % 200)
            files["gfx/util.asm"] = "gu1: ldx #2\nrts\n"
            files["snd/util.asm"] = "su1: ldy #3\nrts\n"
            files["lib/main.asm"] = "lm1: nop\nrts\n"
        elif kind == 9:    # a scope with symbols of its own that only an early pass defines (Prune.tla): the clean-up of the next pass meets
            # the scope and its symbols in hash order; the outer symbol of the same name must be found afterwards
            inner = "".join("x%d: nop\n" % k for k in range(1 + (i // 11) % 3))
            files["main.asm"] = "foo: nop\nlda fwd\nend:\ns: {\n    .if end < $2003 {\n        foo: { %s }\n    }\n    jmp foo\n}\nfwd: nop\n" % inner
        elif kind == 10:   # two listings that would get the same file name (lib/main.asm and lib_main.asm next to main.asm)
            files["main.asm"] = 'lda #1\n.import * as a from "lib/main.asm"\n.import * as b from "lib_main.asm"\nrts\n'
            files["lib/main.asm"] = "am: ldx #%d\nrts\n" % (i % 200)
            files["lib_main.asm"] = "bm: ldy #3\nrts\n"
        elif kind == 5:    # several different undefined names and bad config keys
            files["main.asm"] = '.define segment { name = "s" start = $1000 bogus = 1 other = 2 third = 3 }\nlda u1\nlda u2\nlda u3\nlda u1\n'
        else:              # generated programs (valid or not), with listing and symbols
            if kind == 6:
                prog = G.Gen(rnd, rnd.randrange(8, 30), segments=rnd.random() < 0.5).program()
                pf = {}
            else:
                prog, pf = G.Gen7(rnd, depth=3).program()
            files["main.asm"] = G.render(prog)
            for fn, p in pf.items():
                files[fn] = G.render(p)
        out.append(files)
    return out


def build_once(mos, d):
    tgt = os.path.join(d, "target")
    shutil.rmtree(tgt, ignore_errors=True)
    try:
        p = subprocess.run([mos, "--no-color", "-e", "Short", "build"], cwd=d, capture_output=True, timeout=60)
        rc, out = p.returncode, p.stdout.decode("utf-8", "replace")
    except subprocess.TimeoutExpired:
        rc, out = -9, "<timeout>"
    files = []
    if os.path.isdir(tgt):
        for name in sorted(os.listdir(tgt)):
            files.append({"name": name, "sha": hashlib.sha256(open(os.path.join(tgt, name), "rb").read()).hexdigest()})
    return {"exit": rc, "stdout": out, "files": files}


def main(tier):
    rep = V.Report("C10", tier)
    mos = V.build_mos()
    r1 = V.tlc_must_pass(os.path.join(SPEC, "Repro.tla"), cfg=os.path.join(SPEC, "MC_Repro.cfg"), workers=4, coverage=True, timeout=600, tag="C10-mc")
    rep.add_tlc(r1)
    r2 = V.tlc(os.path.join(SPEC, "Repro.tla"), cfg=os.path.join(SPEC, "MC_Repro_pinned.cfg"), workers=2, timeout=600, tag="C10-pinned")
    if not r2.invariant_violated:
        raise V.ToolError("binding demonstration failed: the pinned reading (name-only sort key, hash-ordered imports) should not be reproducible")
    r3 = V.tlc_must_pass(os.path.join(SPEC, "Prune.tla"), cfg=os.path.join(SPEC, "MC_Prune.cfg"), workers=4, timeout=600, tag="C10-prune")
    rep.add_tlc(r3)
    r4 = V.tlc(os.path.join(SPEC, "Prune.tla"), cfg=os.path.join(SPEC, "MC_Prune_pinned.cfg"), workers=2, timeout=600, tag="C10-prune-pinned")
    if not r4.invariant_violated:
        raise V.ToolError("binding demonstration failed: the one-sweep clean-up in listing order should not be reproducible")
    rnd = V.rng("C10")
    nproj, nruns = (55, 10) if tier == "quick" else (242, 32)
    root = V.fresh_dir("C10-proj")
    projs = projects(rnd, nproj)
    dirs = []
    for i, files in enumerate(projs):
        d = os.path.join(root, "p%d" % i)
        os.makedirs(d)
        open(os.path.join(d, "mos.toml"), "w").write('[build]\nentry = "main.asm"\nlisting = true\nsymbols = ["vice"]\n')
        for fn, t in files.items():
            os.makedirs(os.path.dirname(os.path.join(d, fn)), exist_ok=True)
            open(os.path.join(d, fn), "w").write(t)
        dirs.append(d)

    def runs(d):
        return [build_once(mos, d) for _ in range(nruns)]
    with concurrent.futures.ThreadPoolExecutor(max_workers=8) as ex:
        allruns = list(ex.map(runs, dirs))
    recs = [{"id": i + 1, "runs": rs} for i, rs in enumerate(allruns)]
    verdicts, st = V.judge(os.path.join(SPEC, "ReproTrace.tla"), recs, cfg=os.path.join(SPEC, "ReproTrace.cfg"), tag="C10-judge", batch=500)
    rep.add_stats(st)
    rep.cov["traces_validated_against_impl"] = len(recs)
    rep.cov["evaluations"] = nproj * nruns
    rep.cov["distinct_nontrivial"] = len({tuple(sorted(p.items())) for p in projs})
    rep.cov["rule"] = ("%d projects (repeated undefined names across files, parse errors in several imported files, several missing imports, import-* conflicts, bad config keys, "
                       "labels sharing an address, anonymous scopes in imported files, files sharing their name in different directories, generated valid/invalid programs) each built %d times by fresh `mos build` processes with listing "
                       "and VICE symbols on; observation = exit status, stdout, sha256 of every file in target/; distinct = distinct projects" % (nproj, nruns))
    rep.cov["builds_ok"] = sum(1 for rs in allruns if rs[0]["exit"] == 0)
    rep.sample({"project": projs[0], "first_run": allruns[0][0]})
    rep.sample({"project": projs[3], "first_run": {"exit": allruns[3][0]["exit"], "files": allruns[3][0]["files"]}})
    rep.assumptions += ["hash seeds cannot be chosen, only re-drawn per process: coverage of the seed space is statistical (%d draws per project)" % nruns]
    for v in verdicts:
        i = v["id"] - 1
        distinct = []
        for o in allruns[i]:
            if o not in distinct:
                distinct.append(o)
        rep.verdict(v, {"project": projs[i], "distinct_observations": distinct[:4], "why": v.get("why")})
    shutil.rmtree(root, ignore_errors=True)
    return rep.finish()


if __name__ == "__main__":
    V.main_wrapper(main)
