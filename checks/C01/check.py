#!/usr/bin/env python3
"""C01 - every instruction is encoded as the 6502 ISA prescribes; neighbours do not matter.

spec/Isa/Isa6502.tla  reference encoder (Encode), model-checked by MC_Isa over the whole form space
spec/Isa/IsaTrace.tla judge: observed bytes of the real assembler vs Encode, pair law
"""
import os
import sys

sys.path.insert(0, os.path.join(os.path.dirname(os.path.abspath(__file__)), "..", "..", "lib"))
import vplib as V

SPEC = os.path.join(V.SPEC, "Isa")

FORM_TMPL = {
    "imp": "{mn}", "imm": "{mn} #{e}", "dir": "{mn} {e}", "dirx": "{mn} {e},x", "diry": "{mn} {e},y",
    "indx": "{mn} ({e},x)", "indy": "{mn} ({e}),y", "ind": "{mn} ({e})",
    "indy_inner": "{mn} ({e},y)", "indx_outer": "{mn} ({e}),x",
    "indx_y": "{mn} ({e},x),y", "indx_x": "{mn} ({e},x),x", "indy_x": "{mn} ({e},y),x", "indy_y": "{mn} ({e},y),y",
    "imm_x": "{mn} #{e},x", "imm_y": "{mn} #{e},y",
}


def render_val(v, rnd):
    k = rnd.randrange(3)
    if k == 0:
        return str(v)
    if k == 1:
        return "$%x" % v if rnd.random() < 0.5 else "$%X" % v
    return "%" + bin(v)[2:]


def render_stmt(mn, form, v, rnd):
    mn2 = mn.upper() if rnd.random() < 0.3 else mn
    return FORM_TMPL[form].format(mn=mn2, e=render_val(v, rnd))


def seg_bytes_at(obs, addr, n):
    """bytes the assembler placed at [addr, addr+n) of the (single) segment, as far as they exist."""
    segs = obs.get("segments") or []
    if not segs:
        return []
    s = segs[0]
    lo = addr - s["start"]
    if lo < 0:
        return []
    return s["bytes"][lo:lo + n]


def gen_cases(tier, rep):
    rnd = V.rng("C01")
    extra = sorted({rnd.randrange(0, 256) for _ in range(4)} | {rnd.randrange(256, 65536) for _ in range(6)} |
                   {rnd.randrange(65536, 1 << 24) for _ in range(2)})
    if tier == "thorough":
        extra = sorted(set(extra) | {rnd.randrange(0, 65536) for _ in range(24)})
    wd = V.workdir("C01")
    cfg = os.path.join(wd, "MC_Isa.cfg")
    with open(cfg, "w") as f:
        f.write(open(os.path.join(SPEC, "MC_Isa.cfg")).read().replace("ExtraVals = {}", "ExtraVals = {%s}" % ", ".join(map(str, extra))))
    out = os.path.join(wd, "tlc-cases.ndjson")
    if os.path.exists(out):
        os.remove(out)
    r = V.tlc_must_pass(os.path.join(SPEC, "MC_Isa.tla"), cfg=cfg, env={"OUT": out}, workers=4, coverage=True, timeout=900, tag="C01-mc")
    rep.add_tlc(r)
    if r.coverage.get("Assemble", (0, 0))[0] == 0:
        raise V.ToolError("vacuous MC_Isa run: action Assemble never taken")
    rep.notes.append("MC_Isa: %d distinct states, seeded extra operand values %s" % (r.distinct, extra))
    return V.read_ndjson(out), rnd


def legal_statements():
    """All legal position-independent statement forms (non-branch instructions + 12 other forms) with a representative operand."""
    import re
    tla = open(os.path.join(SPEC, "Isa6502.tla")).read()
    rows = re.findall(r'<<"(\w+)","(\w+)",\\h([0-9A-Fa-f]{2})>>', tla)
    mode2form = {"imp": ("imp", 0), "imm": ("imm", 0x12), "zp": ("dir", 0x34), "abs": ("dir", 0x1234), "zpx": ("dirx", 0x34),
                 "absx": ("dirx", 0x1234), "zpy": ("diry", 0x34), "absy": ("diry", 0x1234), "indx": ("indx", 0x34),
                 "indy": ("indy", 0x34), "ind": ("ind", 0x1234)}
    st = []
    for mn, mode, _ in rows:
        if mode == "rel":
            continue
        form, v = mode2form[mode]
        st.append({"mn": mn, "form": form, "text": FORM_TMPL[form].format(mn=mn, e="$%x" % v), "cls": "%s/%s" % (form, "shift" if mn in ("asl", "lsr", "rol", "ror") else "insn")})
    others = [("data", ".byte 1,2"), ("data", ".word $1234, 7"), ("data", ".dword $12345678"), ("text", '.text "ab"'),
              ("data", ".byte <vw, >vw"), ("braces", "{ nop }"), ("if", ".if 1 { inx }"), ("loop", ".loop 2 { iny }"),
              ("macrocall", "vm()"), ("constuse", "lda #vc"), ("constuse", "lda vc"), ("text", '.text petscii "A"')]
    for cls, text in others:
        st.append({"mn": "", "form": cls, "text": text, "cls": cls})
    return st


PRELUDE = ".macro vm() { dey }\n.const vc = 7\n.const vw = $1234\n"
SEPS = ["\n", "\n\n", "\n// lda #1\n"]


def main(tier):
    rep = V.Report("C01", tier)
    V.build_harness(["asmdrive"])
    tcases, rnd = gen_cases(tier, rep)

    cases, meta = [], {}
    n = 0

    def add(src, m, pc=0x1000):
        nonlocal n
        n += 1
        cases.append({"id": n, "files": {"main.asm": src}, "pc": pc, "want": ["segments", "symbols"]})
        meta[n] = m
        m["src"] = src
        return n

    for c in tcases:
        if c["kind"] == "enc":
            add(render_stmt(c["mn"], c["form"], c["v"], rnd) + "\n", dict(c), pc=c["addr"])
        else:
            a, t, mn = c["addr"], c["v"], c["mn"]
            d = t - (a + 2)
            # label defined before the branch in the source (backward reference) ...
            add("* = $%x\ntgt:\n* = $%x\n%s tgt\n" % (t, a, mn), dict(c, order="back", pcafter_known=True))
            # ... and after it (forward reference)
            add("* = $%x\n%s tgt\n* = $%x\ntgt:\n" % (a, mn, t), dict(c, order="fwd", pcafter_known=False))
            # ... and inside a relocated segment (stored at S, running at its pc): the distance is one of run addresses
            if -128 <= d <= 127 and (d % 3 == 0 or abs(d) > 120 or mn in ("bne", "bvs")):
                S = 0x4000 if not (0x3000 <= a <= 0x5000) else 0x9000
                if d <= -2 and t >= 0:
                    add('.define segment { name = "r" start = $%x pc = $%x }\n.segment "r" {\ntgt:\n.loop %d { nop }\n%s tgt\n}\n' % (S, t, a - t, mn),
                        dict(c, order="reloc-back", pcafter_known=False, at=a - t))
                elif d >= 0:
                    add('.define segment { name = "r" start = $%x pc = $%x }\n.segment "r" {\n%s tgt\n.loop %d { nop }\ntgt:\n}\n' % (S, a, mn, d),
                        dict(c, order="reloc-fwd", pcafter_known=False, at=0))
            if 0 <= d <= 140 and mn in ("bne", "bcc"):
                add("* = $%x\n%s tgt\n.loop %d { nop }\ntgt:\n" % (a, mn, d), dict(c, order="fwd-nops", pcafter_known=False))

    # neighbour independence
    stmts = legal_statements()
    if tier == "quick":
        # representatives: three per class (seeded) plus every shift/implied form
        by = {}
        for s in stmts:
            by.setdefault(s["cls"], []).append(s)
        chosen = []
        for cls, lst in sorted(by.items()):
            rnd.shuffle(lst)
            chosen += lst[:3] if not cls.startswith("imp/") else lst[:6]
        stmts_q = chosen
    else:
        stmts_q = stmts
    single_id = {}
    for s in stmts_q:
        single_id[s["text"]] = add(PRELUDE + s["text"] + "\n", {"kind": "single"})
    pair_ids = []
    for s in stmts_q:
        for t in stmts_q:
            for si, sep in enumerate(SEPS):
                pid = add(PRELUDE + s["text"] + sep + t["text"] + "\n",
                          {"kind": "pair", "s": s, "t": t, "sep": si})
                pair_ids.append(pid)

    # one statement, several operand values: loop iterations (`index` in the operand) and macro calls (the parameter as operand) that
    # cross the zero-page boundary / the immediate range; every instance is encoded on its own
    import re as _re
    rows = _re.findall(r'<<"(\w+)","(\w+)",\\h([0-9A-Fa-f]{2})>>', open(os.path.join(SPEC, "Isa6502.tla")).read())
    modes = {}
    for mn, mode, _ in rows:
        modes.setdefault(mn, set()).add(mode)
    seq_forms = []
    for mn in sorted(modes):
        for zp, ab, form in (("zp", "abs", "dir"), ("zpx", "absx", "dirx"), ("zpy", "absy", "diry")):
            if zp in modes[mn] and ab in modes[mn]:
                seq_forms.append((mn, form))
    if tier == "quick":
        rnd.shuffle(seq_forms)
        seq_forms = sorted(seq_forms[:24])
    for mn, form in seq_forms:
        for base, cnt in ((0xfe, 4), (0x100, 2), (0xfd, 3)):
            items = [{"mn": mn, "form": form, "v": base + i} for i in range(cnt)]
            add("* = $1000\n.loop %d { %s }\n" % (cnt, FORM_TMPL[form].format(mn=mn, e="$%x + index" % base)), {"kind": "seq", "items": items})
            add("* = $1000\n.loop %d { %s }\n" % (cnt, FORM_TMPL[form].format(mn=mn, e="$%x - index" % (base + cnt - 1))),
                {"kind": "seq", "items": list(reversed(items))})
            add("* = $1000\n.macro sq(v) { %s }\n%s\n" % (FORM_TMPL[form].format(mn=mn, e="v"), "\n".join("sq($%x)" % it["v"] for it in items)),
                {"kind": "seq", "items": items})
    V.log("[C01] %d programs to assemble" % len(cases))
    obs, p = V.run_harness("asmdrive", cases, "C01-drive")
    if len(obs) != len(cases):
        raise V.ToolError("asmdrive produced %d of %d observations: %s" % (len(obs), len(cases), p.stderr[-2000:]))
    obs = {o["id"]: o for o in obs}

    def whole(o):
        segs = o.get("segments") or []
        return segs[0]["bytes"] if segs else []

    recs = []
    for cid, m in meta.items():
        o = obs[cid]
        ndiags = len(o["parse_diags"]) + len(o["diags"]) + (1 if o["panic"] else 0)
        if m["kind"] == "enc":
            recs.append({"id": cid, "kind": "enc", "mn": m["mn"], "form": m["form"], "v": m["v"], "addr": m["addr"],
                         "ok": o["ok"], "bytes": whole(o) if o["ok"] else [], "ndiags": ndiags, "pcafter": -1})
        elif m["kind"] == "br":
            b = seg_bytes_at(o, m["addr"], 2) if o["ok"] else []
            if o["ok"] and "at" in m:
                b = whole(o)[m["at"]:m["at"] + 2]
            recs.append({"id": cid, "kind": "br", "mn": m["mn"], "form": "dir", "v": m["v"], "addr": m["addr"],
                         "ok": o["ok"], "bytes": b, "ndiags": ndiags,
                         "pcafter": (o["segments"][0]["pc"] if (o["ok"] and m["pcafter_known"]) else -1)})
        elif m["kind"] == "seq":
            recs.append({"id": cid, "kind": "seq", "mn": "", "form": "", "v": 0, "addr": 0x1000, "items": m["items"],
                         "ok": o["ok"], "bytes": whole(o) if o["ok"] else [], "ndiags": ndiags, "pcafter": -1})
        elif m["kind"] == "pair":
            sa, sb = obs[single_id[m["s"]["text"]]], obs[single_id[m["t"]["text"]]]
            if not (sa["ok"] and sb["ok"]):
                raise V.ToolError("a statement that should be legal alone was rejected: %r / %r" % (m["s"]["text"], m["t"]["text"]))
            recs.append({"id": cid, "kind": "pair", "mn": "", "form": "", "v": 0, "addr": 0,
                         "ok": o["ok"], "bytes": whole(o) if o["ok"] else [], "ndiags": ndiags, "pcafter": -1,
                         "a": whole(sa), "b": whole(sb), "smn": m["s"]["mn"], "sform": m["s"]["form"], "tform": m["t"]["form"]})
    # process level: a seeded sample of the encoding cases through the `mos build` command (binds the CLI path and the PRG writer)
    import subprocess, shutil
    mos = V.build_mos()
    root = V.fresh_dir("C01-proc")
    sample = [c for c in tcases if c["kind"] == "enc"]
    rnd.shuffle(sample)
    for k, c in enumerate(sample[:120 if tier == "quick" else 1200]):
        d = os.path.join(root, "p%d" % k)
        os.makedirs(d)
        open(os.path.join(d, "mos.toml"), "w").write('[build]\nentry = "main.asm"\n')
        open(os.path.join(d, "main.asm"), "w").write("* = $%x\n%s\n" % (c["addr"], render_stmt(c["mn"], c["form"], c["v"], rnd)))
        p = subprocess.run([mos, "--no-color", "-e", "Short", "build"], cwd=d, capture_output=True, timeout=60)
        prg = os.path.join(d, "target", "main.prg")
        data = list(open(prg, "rb").read()) if os.path.exists(prg) else []
        recs.append({"id": 10_000_000 + k, "kind": "proc", "mn": c["mn"], "form": c["form"], "v": c["v"], "addr": c["addr"], "exit": p.returncode, "file": data})
        meta[10_000_000 + k] = {"kind": "proc", "src": open(os.path.join(d, "main.asm")).read()}
        obs[10_000_000 + k] = {"exit": p.returncode, "stdout": p.stdout.decode("utf-8", "replace")[-400:], "file": data}
    shutil.rmtree(root, ignore_errors=True)
    # single statements: judged as enc cases were; here they only feed the pairs
    verdicts, st = V.judge(os.path.join(SPEC, "IsaTrace.tla"), recs, cfg=os.path.join(SPEC, "IsaTrace.cfg"), tag="C01-judge", batch=20000)
    rep.add_stats(st)
    rep.cov["traces_validated_against_impl"] = len(recs)
    rep.cov["evaluations"] = len(cases)
    rep.cov["distinct_nontrivial"] = len({m["src"] for m in meta.values()})
    rep.cov["rule"] = ("TLC enumerates 56 mnemonics x 10 operand forms x boundary+seeded values and 8 branches x distances -140..140 "
                       "(two source orders); pairs of legal position-independent statements x 3 separators; distinct = distinct program texts")
    rep.cov["exhaustive"] = tier == "thorough"
    rep.cov["pairs"] = len(pair_ids)
    for cid in list(meta)[:2] + pair_ids[:2]:
        rep.sample({"program": meta[cid]["src"], "observed_ok": obs[cid]["ok"], "bytes": whole(obs[cid])[:8]})
    rep.assumptions += ["operand values beyond 16 bits in absolute forms and negative operands are unspecified by C01 (accepted either way)",
                        "in-process assembly through mos_core::parser::parse + codegen (default segment at the case's origin); a seeded sample of 120 / 1200 cases also through the `mos build` process"]
    for v in verdicts:
        cid = v["id"]
        rep.verdict(v, {"program": meta[cid]["src"], "case": {k: x for k, x in meta[cid].items() if k != "src"}, "observation": obs[cid],
                        "judge": "spec/Isa/IsaTrace.tla", "why": v.get("why")})
    return rep.finish()


if __name__ == "__main__":
    V.main_wrapper(main)
