#!/usr/bin/env python3
"""C20 - shutdown of `mos lsp` is clean in every session state.

spec/Debugger/ShutdownOps.tla    server state + steps of the main thread and the debug-server thread (operators on one record)
spec/Debugger/Shutdown.tla       closed system with the LSP and DAP clients; CleanExit (safety), Terminates (liveness, weak fairness)
spec/Debugger/MC_Shutdown*.cfg   ideal reading, implementation-shaped reading, counterexamples of the three deviations, vacuity
spec/Debugger/ShutdownTrace.tla  judge: process observables (tier 1) and lifecycle hook log (tier 2) of real `mos lsp` runs
lib/dapdrive.py                  process driver
"""
import json
import os
import re
import socket
import sys
import threading
import time

sys.path.insert(0, os.path.join(os.path.dirname(os.path.abspath(__file__)), "..", "..", "lib"))
import vplib as V
import dapdrive as D

HERE = os.path.dirname(os.path.abspath(__file__))
SPEC = os.path.join(V.SPEC, "Debugger")
SOURCE = '.test "t" {\n    ldx #1\n    w: jmp w\n    brk\n}\n'      # never ends: the test is still running (or paused) at shutdown
LOOP_LINE = 3
# fifth session state: the session thread is busy inside DAP `next` over a call that never returns
BUSY_SOURCE = '.test "t" {\n    ldx #1\n    jsr spin\n    brk\n    spin: jmp spin\n}\n'
JSR_LINE = 3


# latent deviations that stand behind the open UnwrapSharedContext finding (the unwrap panic hides them); repaired together with it
UNWRAP_GROUP = ["UnwrapSharedContext", "JoinBlockedInAccept", "SessionIgnoresFlag", "UnboundedJoin"]


def pinned(rep, prop):
    """Open findings decide which reading of Shutdown.tla is pinned: open -> deviation on, fixed -> off
    (known_findings.jsonl, or VERIF_FINDINGS for trial runs; rows only in checks/C20/findings.jsonl count too)."""
    rep.open = D.open_rows(D.findings_view((prop,), V.VERIF), prop)
    devs = set()
    if "UnwrapSharedContext" in rep.open:
        devs |= set(UNWRAP_GROUP)
    if "SignalPanicsDebugThread" in rep.open:
        devs.add("SignalPanicsDebugThread")
    if "DeadDebugThreadFailsShutdown" in rep.open:
        devs.add("DeadThreadFailsJoin")
    if "PauseWhileLaunchingPanics" in rep.open or "LaunchWithoutConfigPanics" in rep.open:
        devs.add("HandlerPanics")
    if "LaunchWithoutConfigPanics" in rep.open:
        devs.add("HandlerPanicPoisons")
    if "HugeContentLengthAbortsProcess" in rep.open:
        devs.add("HugeMessageAborts")
    return sorted(devs)


def scenarios(rnd, reps):
    out, i = [], 0
    for rep in range(reps):
        for state in ("none", "idle", "running", "paused", "busy", "launchpause", "notoml", "portbusy", "hugeheader"):
            for mode in ("shutdown_exit", "close", "shutdown_close", "shutdown_request_exit"):
                if mode == "shutdown_request_exit" and state not in ("none", "idle", "paused"):
                    continue
                for order in (("no_dap",) if state in ("none", "portbusy") else ("dap_never",) if state in ("launchpause", "notoml", "hugeheader") or mode == "shutdown_request_exit"
                              else ("dap_never", "dap_drop_first") if state == "busy" else ("dap_never", "dap_first", "dap_between", "dap_drop_first")):
                    if order == "dap_between" and mode == "close":
                        continue
                    i += 1
                    out.append({"id": i, "state": state, "mode": mode, "order": order,
                                "delays": [rnd.choice([0, 0, 0.002, 0.01, 0.03]) for _ in range(4)]})
    return out


def panics(stderr):
    """[(thread name, "file|message")] of every panic reported on stderr; registry paths are cut to <crate>/src/..."""
    out = []
    for m in re.finditer(r"thread '([^']*)'[^\n]*panicked at ([^:\n]+):\d+:\d+:\n([^\n]*)", stderr):
        f = m.group(2)
        r = re.search(r"/registry/src/[^/]+/([^/]+?)-\d[^/]*/(.*)$", f)
        if r:
            f = "%s/%s" % (r.group(1), r.group(2))
        out.append((m.group(1), "%s|%s" % (f, re.sub(r"on port \d+", "on port N", m.group(3).strip()))))
    return out


def run_one(mos, sc, bound):
    d = V.fresh_dir("C20-run-%d" % sc["id"])
    src = D.write_project(d, BUSY_SOURCE if sc["state"] == "busy" else SOURCE)
    trace = os.path.join(d, "life.ndjson")
    port, squat = D.free_port(), None
    if sc["state"] == "notoml":
        os.remove(os.path.join(d, "mos.toml"))       # the server runs in a directory without configuration
    if sc["state"] == "portbusy":
        squat = socket.socket()                      # somebody else already listens on the debug port
        squat.bind(("127.0.0.1", 0))
        squat.listen(1)
        port = squat.getsockname()[1]
    m = D.MosLsp(mos, d, port, env={"MOS_VERIF_TRACE": trace})
    obs = {"id": sc["id"], "state": sc["state"], "mode": sc["mode"], "order": sc["order"], "setup": "ok", "shutdownReply": True}
    dap = None
    try:
        if not m.initialize():
            obs["setup"] = "LSP initialize failed"
        dl = sc["delays"]
        if sc["state"] == "portbusy":
            time.sleep(0.15)
        if sc["state"] not in ("none", "portbusy") and obs["setup"] == "ok":
            dap = D.Dap(port)
            r = dap.request("initialize", {"adapterID": "mos", "linesStartAt1": True, "columnsStartAt1": True}, 5)
            if not (r and r.get("success")):
                obs["setup"] = "DAP initialize failed"
            if sc["state"] == "hugeheader" and obs["setup"] == "ok":
                # the client announces a message it never sends
                try:
                    dap.sock.sendall(b"Content-Length: 999999999999999\r\n\r\n")
                except OSError:
                    pass
                time.sleep(0.3)
            if sc["state"] in ("launchpause", "notoml") and obs["setup"] == "ok":
                # a request whose handler may panic: pause between launch and configurationDone; launch without a mos.toml
                dap.request("launch", {"workspace": d, "testRunner": {"testCaseName": "t"}}, 2)
                if sc["state"] == "launchpause":
                    dap.request("pause", {"threadId": 1}, 2)
                time.sleep(0.1)
            if sc["state"] in ("running", "paused", "busy") and obs["setup"] == "ok":
                r = dap.request("launch", {"workspace": d, "testRunner": {"testCaseName": "t"}}, 5)
                ok = r and r.get("success")
                if ok and sc["state"] in ("paused", "busy"):
                    r = dap.request("setBreakpoints", {"source": {"path": src}, "breakpoints": [{"line": JSR_LINE if sc["state"] == "busy" else LOOP_LINE}]}, 5)
                r = dap.request("configurationDone", None, 5)
                ok = ok and r and r.get("success")
                if ok and sc["state"] in ("paused", "busy"):
                    ok = dap.wait_event(["stopped"], 5) is not None
                if ok and sc["state"] == "busy":
                    dap.send("next", {"threadId": 1})       # never answered: step_over loops on the session thread
                    time.sleep(0.05)
                if not ok:
                    obs["setup"] = "launch failed"
        time.sleep(dl[0])

        def dap_leave(kind):
            if dap is None:
                return
            if kind == "disconnect":
                dap.request("disconnect", {}, 3)
            dap.close()
        if sc["order"] == "dap_first":
            dap_leave("disconnect")
            time.sleep(dl[1])
        elif sc["order"] == "dap_drop_first":
            dap_leave("drop")
            time.sleep(dl[1])
        t_end = None
        if sc["mode"] in ("shutdown_exit", "shutdown_close", "shutdown_request_exit"):
            obs["shutdownReply"] = m.request("shutdown", None, 3) is not None
            time.sleep(dl[2])
            if sc["order"] == "dap_between":
                dap_leave("disconnect")
                time.sleep(dl[3])
        if sc["mode"] == "shutdown_request_exit":
            # not "shutdown followed by exit": another request in between is a protocol error of the client
            m.send({"jsonrpc": "2.0", "id": 4711, "method": "textDocument/hover", "params": {}})
            time.sleep(0.05)
        if sc["mode"] in ("shutdown_exit", "shutdown_request_exit"):
            m.notify("exit", None)
        else:
            m.close_stdin()
        t_end = time.time()
        rc = m.wait(bound)
        obs["ms"] = int((time.time() - t_end) * 1000)
        if rc is None:
            obs["rc"] = -1
            obs["threads"] = m.threads()
            obs["blocked"] = sorted({t["wchan"] for t in obs["threads"]})
            obs["portAlive"] = D.port_listening(port)
        else:
            obs["rc"] = rc if rc >= 0 else 1000 - rc
            obs["blocked"] = []
    finally:
        m.kill()
        if dap is not None:
            dap.close()
        if squat is not None:
            squat.close()
    time.sleep(0.02)
    obs["portAfter"] = D.port_listening(port)          # (the squatter of the portbusy state is closed by now)
    obs["stderr"] = m.stderr_text()[-1500:]
    ps = panics(m.stderr_text())
    obs["panicAt"] = ([p for t, p in ps if t == "main"] or [""])[0]
    obs["others"] = [p for t, p in ps if t != "main"]
    life = []
    if os.path.exists(trace):
        for line in open(trace):
            try:
                e = json.loads(line)
            except ValueError:
                continue
            if e.get("ev") == "life":
                life.append({"what": e["what"], "n": e.get("n", 0)})
    obs["life"] = life
    obs["bound"] = int(bound * 1000)
    return obs


def design_level(rep, devs):
    mc = os.path.join(SPEC, "MC_Shutdown.tla")
    pcfg = os.path.join(V.workdir("C20-cfg"), "MC_Shutdown_pinned.cfg")
    with open(pcfg, "w") as f:
        f.write("SPECIFICATION Spec\nCONSTANT Deviations = %s\nINVARIANT TypeOK\nINVARIANT CleanExit_impl\nPROPERTY Terminates\n" % D.tla_set(devs))
    runs = [("ideal", os.path.join(SPEC, "MC_Shutdown_ideal.cfg"), "Deviations = {}: CleanExit, DebugThreadAlive, Terminates (weak fairness of server threads and of the LSP client's goal)")]
    if devs:
        runs.append(("pinned", pcfg, "Deviations = %s (open findings and what stands behind them): CleanExit weakened only by the panic witnesses, Terminates" % D.tla_set(devs)))
    else:
        rep.notes.append("no open finding: the pinned reading is the ideal reading")
    for name, cfgp, what in runs:
        r = V.tlc(mc, cfg=cfgp, workers=2, timeout=600, tag="C20-mc-" + name)
        rep.add_tlc(r)
        if r.invariant_violated or r.rc in (12, 13):
            rep.violations.append({"why": "design level: MC_Shutdown %s reading violated" % name, "replay": {"tlc_output": V.tail(r.out, 100)}, "id": "MC_Shutdown_" + name})
            return
        if r.rc != 0 or "Error:" in r.out:
            raise V.ToolError("MC_Shutdown_%s failed:\n%s" % (name, V.tail(r.out, 40)))
        rep.notes.append("MC_Shutdown %s: %d distinct states; %s hold" % (name, r.distinct, what))
    for name, what in (("cex_unwrap", "UnwrapSharedContext: CleanExit fails (exit 101)"),
                       ("cex_accept", "JoinBlockedInAccept + UnboundedJoin: with the unwrap repaired, Terminates fails (join waits on a thread in accept())"),
                       ("cex_late", "SessionIgnoresFlag + UnboundedJoin: a session registered after the handlers were invoked keeps the process alive"),
                       ("cex_select", "SignalPanicsDebugThread: the debug thread dies on the shutdown signal"),
                       ("cex_early", "hypothetical JoinGivesUpEarly: join returns while the debug thread could still end (ThreadEndsUnlessBusy fails)"),
                       ("cex_abort", "HugeMessageAborts: a Content-Length header on the debug port aborts the process"),
                       ("cex_deadjoin", "HandlerPanics + DeadThreadFailsJoin: a debug thread that died earlier makes shutdown exit 101"),
                       ("cex_poison", "HandlerPanicPoisons: a handler panic under the context lock takes the main thread down at its next message"),
                       ("cex_handler", "HandlerPanics: a DAP request can kill the debug thread"),
                       ("cex_busy", "UnboundedJoin: a session thread busy in a step that never returns cannot be joined"),
                       ("cex_rendezvous", "hypothetical RendezvousSignal: `shutdown` cannot complete while the session thread is busy (Terminates fails)"),
                       ("vac_busy", "a behaviour that reaches `shutdown` with the session thread busy in a step exists"),
                       ("vac_paused", "a behaviour with a paused test exists"), ("vac_joined", "a behaviour that joins the debug thread exists")):
        r = V.tlc(mc, cfg=os.path.join(SPEC, "MC_Shutdown_%s.cfg" % name), workers=2, timeout=600, tag="C20-mc-" + name)
        rep.add_tlc(r)
        if not (r.invariant_violated or r.rc in (12, 13)):
            raise V.ToolError("expected counterexample missing (%s): %s\n%s" % (name, what, V.tail(r.out, 20)))
    r = V.tlc(mc, cfg=os.path.join(SPEC, "MC_Shutdown_tolerant_join.cfg"), workers=2, timeout=600, tag="C20-mc-tolerant")
    rep.add_tlc(r)
    if r.rc != 0:
        raise V.ToolError("MC_Shutdown_tolerant_join (a dead debug thread alone must not spoil the exit) failed:\n" + V.tail(r.out, 30))
    rep.notes.append("expected counterexamples found: unwrap panic (safety), join blocked in accept (liveness lasso), late session (liveness lasso), 2 vacuity witnesses")


def main(tier):
    rep = V.Report("C20", tier)
    devs = pinned(rep, "C20")
    mos = V.build_mos()
    design_level(rep, devs)
    rnd = V.rng("C20")
    scs = scenarios(rnd, 1 if tier == "quick" else 5)
    bound = 4.0 if tier == "quick" else 8.0
    results, lock, errors = {}, threading.Lock(), []
    queue = list(scs)

    def worker():
        while True:
            with lock:
                if not queue:
                    return
                sc = queue.pop(0)
            try:
                o = run_one(mos, sc, bound)
            except Exception as e:      # driver trouble (not the code under test)
                errors.append("%s: %r" % (sc, e))
                return
            with lock:
                results[sc["id"]] = o
    ths = [threading.Thread(target=worker) for _ in range(5)]
    t0 = time.time()
    for t in ths:
        t.start()
    for t in ths:
        t.join()
    V.log("[C20] %d process runs in %.1fs" % (len(results), time.time() - t0))
    if errors:
        raise V.ToolError("driver failed: " + "; ".join(errors[:3]))
    # A session that could not be brought into the intended state because the SERVER did not answer (or answered with an error) is an
    # observation, not a tool failure: the run is judged like any other, in the state actually reached ("unresponsive": a session thread
    # that does not react = the busy case of Shutdown.tla; "wanted" keeps the intended state). Only a process that never answered the LSP
    # initialize cannot be judged at all; that is reported as a tool error AFTER the verdicts.
    bad_setup = [o for o in results.values() if o["setup"] != "ok"]
    unjudgeable = [o for o in results.values() if o["setup"] == "LSP initialize failed"]
    recs = []
    for i, o in sorted(results.items()):
        if o["setup"] == "LSP initialize failed":
            continue
        rec = {k: o[k] for k in ("id", "state", "mode", "order", "rc", "ms", "bound", "portAfter", "panicAt", "blocked", "life", "others", "shutdownReply")}
        rec["wanted"] = o["state"]
        if o["setup"] != "ok":
            rec["state"] = "unresponsive"
        rec["devs"] = devs
        recs.append(rec)
    if not recs:
        raise V.ToolError("no run could be judged: mos lsp never answered `initialize` (%d runs), e.g. %s" % (len(results), (unjudgeable[0]["stderr"][-300:] if unjudgeable else "")))
    # binding self-test: a corrupted observation must be rejected (status 3 after shutdown+exit; a hang)
    probes = [dict(recs[0], id=10 ** 6, mode="shutdown_exit", rc=3, panicAt="", life=[], others=[]), dict(recs[0], id=10 ** 6 + 1, rc=-1, blocked=["futex_do_wait"], life=[], others=[])]
    verdicts, st = V.judge(os.path.join(SPEC, "ShutdownTrace.tla"), recs + probes, cfg=os.path.join(SPEC, "ShutdownTrace.cfg"), tag="C20-judge", timeout=600)
    rep.add_stats(st)
    for pid in (10 ** 6, 10 ** 6 + 1):
        if not any(v["id"] == pid and v["verdict"] == "violation" for v in verdicts):
            raise V.ToolError("binding self-test failed: corrupted observation %d accepted by ShutdownTrace" % pid)
    replayed = 0
    for v in verdicts:
        if v["id"] >= 10 ** 6:
            continue
        if v["verdict"] == "info":
            replayed += int(v["why"]) if v["dev"] == "LifeEventsReplayed" else 0
            continue
        o = results[v["id"]]
        rep.verdict(v, {"scenario": [s for s in scs if s["id"] == v["id"]][0], "observation": {k: o.get(k) for k in ("rc", "ms", "portAfter", "panicAt", "others", "blocked", "threads", "life", "stderr")},
                        "judge": "spec/Debugger/ShutdownTrace.tla", "why": v.get("why")})
    for o in bad_setup[:6]:
        rep.notes.append("run %d: intended state %s not reached (%s); judged in the state reached" % (o["id"], o["state"], o["setup"]))
    rep.cov["runs_in_unintended_state"] = len(bad_setup)
    rep.cov["traces_validated_against_impl"] = len(recs)
    rep.cov["evaluations"] = len(recs)
    rep.cov["distinct_nontrivial"] = len({(r["state"], r["mode"], r["order"]) for r in recs})
    rep.cov["rule"] = ("real `mos lsp` processes: session state {no debugger, attached idle, test running, test paused, session thread busy inside a `next` that never returns} x {shutdown+exit, pipe closed, shutdown then pipe closed} x "
                       "{debugger stays, disconnects first, disconnects between shutdown and exit, socket dropped first} with seeded delays; distinct = distinct (state, mode, order)")
    rep.cov["life_events_replayed"] = replayed
    rep.cov["exit_status_histogram"] = {str(k): sum(1 for r in recs if r["rc"] == k) for k in sorted({r["rc"] for r in recs})}
    rep.cov["max_ms_to_exit"] = max([r["ms"] for r in recs if r["rc"] >= 0] or [0])
    if replayed == 0:
        rep.notes.append("lifecycle hooks not present in this tree (checks/C19/hooks.patch not applied): process-level verdict only")
    for r in recs[:4]:
        rep.sample({k: r[k] for k in ("state", "mode", "order", "rc", "ms", "panicAt")})
    rep.assumptions += ["'promptly' = within %.0f s of the client's last action; a process still alive then is reported with the wait channels of all its threads" % bound,
                        "after closing the pipe any exit status except a panic (101) or a signal is accepted; after shutdown+exit only 0",
                        "'no listening socket left' is read from /proc/net/tcp after the process ended"]
    rc = rep.finish()
    if unjudgeable and len(unjudgeable) > len(scs) // 4:
        # (after the verdicts) too many processes never came up: the harness or the build is broken, do not call that "held"
        V.log("TOOL-ERROR: %d of %d mos lsp processes never answered the LSP initialize request" % (len(unjudgeable), len(scs)))
        return rc if rc == V.EXIT_VIOLATION else V.EXIT_TOOL
    return rc


if __name__ == "__main__":
    V.main_wrapper(main)
