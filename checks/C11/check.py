#!/usr/bin/env python3
"""C11 - source map and listings are exact.

spec/Asm/Asm.tla (source-map entries of the walk, macro re-attribution), spec/Asm/ListingTrace.tla (Listing, judge)
"""
import os
import re
import sys

sys.path.insert(0, os.path.join(os.path.dirname(os.path.abspath(__file__)), "..", "..", "lib"))
sys.path.insert(0, os.path.join(os.path.dirname(os.path.abspath(__file__)), "..", "C02"))
import vplib as V
import asmgen as G
from check import parse_vice  # noqa: E402  (C02's reshaping helpers)

SPEC = os.path.join(V.SPEC, "Asm")


def parse_listing(text, bpl):
    rows = []
    for ln in text.split("\n"):
        if not ln.strip():
            continue
        m = re.match(r"^\s*(\d+)(?: (?:([0-9A-F]{4,}):| {5})(?: (.*))?)?$", ln)
        if not m:
            raise V.ToolError("unparsable listing row: %r" % ln)
        lineno, addr, rest = int(m.group(1)), m.group(2), m.group(3) or ""
        has = addr is not None
        bytesf = rest[:bpl * 3]
        bs = [int(x, 16) for x in bytesf.split()] if has else []
        rows.append({"line": lineno, "hasAddr": has, "addr": int(addr, 16) if has else 0, "bytes": bs, "src": None, "_rest": rest})
    # 'src' = this is the first row of its source line (the implementation prints the source text only there)
    seen = set()
    for r in rows:
        r["src"] = r["line"] not in seen
        seen.add(r["line"])
        r.pop("_rest")
    return rows


def line_map(prog):
    m = {}

    def f(st, scope):
        m[str(st["n"])] = st["line"]
    G.walk(prog, f)
    return m


def main(tier):
    rep = V.Report("C11", tier)
    V.build_harness(["asmdrive"])
    rnd = V.rng("C11")
    n = 500 if tier == "quick" else 5000
    cases, progs, pfiles = [], {}, {}
    for i in range(1, n + 1):
        files = {}
        if i % 2:
            g = G.Gen(rnd, rnd.randrange(5, 25), segments=(i % 3 == 0))
            prog = g.program()
        else:
            prog, files = G.Gen7(rnd, depth=3).program()
        G.number_statements(prog)
        for k, fn in enumerate(sorted(files), 1):          # statements of imported files get their own number range (one per file)
            fp = files[fn]
            c = [100000 * k]

            def f(st, scope):
                c[0] += 1
                st["n"] = c[0]
            G.walk(fp, f)
        # some statements span two source lines (a block comment with a line break between mnemonic and operand): their
        # bytes belong to the line they start on, the second line lists without bytes
        def sp(st, scope):
            if st["k"] == "insn" and st["form"] != "imp" and rnd.random() < 0.06:
                st["split"] = rnd.choice([2, 3])      # (three lines: the one in the middle lists without bytes as well)
        G.walk(prog, sp)
        for fp in files.values():
            G.walk(fp, sp)
        src = G.render(prog)
        bpl = rnd.randrange(1, 17)
        move = rnd.random() < 0.5
        fsrc = {fn: G.render(fp) for fn, fp in files.items()}
        cases.append({"id": i, "files": dict(fsrc, **{"main.asm": src}), "pc": 0x2000, "want": ["segments", "symbols", "vice", "srcmap", "listing"],
                      "bytes_per_line": bpl, "move_macro": move, "max_passes": 60})
        progs[i] = (prog, src, bpl, move)
        pfiles[i] = (files, fsrc)
    # a project whose source files share their names (lib/main.asm next to main.asm, a/util.asm and b/util.asm): every file
    # must still get its own listing
    cid = n + 1
    cprog = [G.insn("lda", "imm", G.num(1)), G.import_("lib/main.asm", "l"), G.import_("a/util.asm", "ua"), G.import_("b/util.asm", "ub"),
             G.import_("Font.asm", "cf"), G.import_("font.asm", "lf"), G.insn("rts")]      # (and two files whose names differ in case only)
    cfiles = {"lib/main.asm": [G.insn("ldx", "imm", G.num(2))], "a/util.asm": [G.label("ua"), G.insn("lda", "imm", G.num(3))], "b/util.asm": [G.label("ub"), G.insn("lda", "imm", G.num(4))],
              "Font.asm": [G.label("cf1"), G.insn("lda", "imm", G.num(5)), G.insn("ldx", "imm", G.num(5))], "font.asm": [G.insn("ldy", "imm", G.num(6)), G.label("lf1"), G.insn("rts")]}
    G.number_statements(cprog)
    for k, fn in enumerate(sorted(cfiles), 1):
        c = [100000 * k]

        def f2(st, scope):
            c[0] += 1
            st["n"] = c[0]
        G.walk(cfiles[fn], f2)
    csrc = G.render(cprog)
    cfsrc = {fn: G.render(fp) for fn, fp in cfiles.items()}
    cases.append({"id": cid, "files": dict(cfsrc, **{"main.asm": csrc}), "pc": 0x2000, "want": ["segments", "symbols", "vice", "srcmap", "listing"],
                  "bytes_per_line": 4, "move_macro": True, "max_passes": 60})
    progs[cid] = (cprog, csrc, 4, True)
    pfiles[cid] = (cfiles, cfsrc)
    # source lines whose bytes lie in TWO segments (a macro that emits into the current segment and into a `.segment` block,
    # invoked twice; macro output attributed to the invocation line): each byte is listed from the segment that holds it
    for k, (bpl2, relocated) in enumerate([(1, False), (8, True), (3, True)]):
        mid = n + 2 + k
        mprog = [G.defseg("code", G.num(0x2000, "hex")), G.defseg("data", G.num(0x3000, "hex"), G.num(0x8000, "hex") if relocated else None),
                 G.macrodef("both", ["v"], [G.insn("lda", "imm", G.ident(["v"])), G.useseg("data", [G.data(1, [G.ident(["v"]), G.binop("+", G.ident(["v"]), G.num(1))])]),
                                            G.insn("sta", "dir", G.num(0xd020, "hex"))]),
                 G.useseg("code"), G.macrocall("both", [G.num(1)]), G.insn("nop"), G.macrocall("both", [G.num(7)]), G.insn("rts")]
        G.number_statements(mprog)
        msrc = G.render(mprog)
        cases.append({"id": mid, "files": {"main.asm": msrc}, "pc": 0x2000, "want": ["segments", "symbols", "vice", "srcmap", "listing"],
                      "bytes_per_line": bpl2, "move_macro": True, "max_passes": 60})
        progs[mid] = (mprog, msrc, bpl2, True)
        pfiles[mid] = ({}, {})
    obs, p = V.run_harness("asmdrive", cases, "C11-drive")
    if len(obs) != len(cases):
        raise V.ToolError("asmdrive produced %d of %d observations: %s" % (len(obs), len(cases), p.stderr[-2000:]))
    recs, omap, nok, nimp = [], {}, 0, [0]
    for o in obs:
        prog, src, bpl, move = progs[o["id"]]
        omap[o["id"]] = o
        if not o["ok"] or o.get("listing") is None:
            if o["ok"] and o.get("panic"):
                rep.violations.append({"why": "listing generation panicked: " + o["panic"], "replay": {"program": src, "bpl": bpl}, "id": o["id"]})
            continue
        syms = o.get("symbols") or []
        if not G.assign_anon_scopes(prog, [s["path"] for s in syms], o.get("scopes")):
            continue
        files, fsrc = pfiles[o["id"]]
        if not G.assign_file_scopes(files, o.get("file_scopes")):
            continue
        nok += 1
        lmap = line_map(prog)
        for fp in files.values():
            def g0(st, scope):
                lmap[str(st["n"])] = 0
            G.walk(fp, g0)
        rec = {"id": o["id"], "prog": G.tla_ready(prog), "files": dict({fn: G.tla_ready(fp) for fn, fp in files.items()}, **{"_": []}), "pc0": 0x2000, "ok": True,
               "syms": [{"path": s["path"], "ty": s["ty"], "kind": s["kind"], "val": s["val"]} for s in syms],
               "segs": [{"name": s["name"], "start": s["start"], "end": s["end"], "pc": s["pc"], "bytes": s["bytes"]} for s in o["segments"]],
               "vice": parse_vice(o.get("vice")), "hasVice": o.get("vice") is not None,
               "bpl": bpl, "move": move, "nlines": len(src.split("\n")),
               "lineOf": lmap,
               "hasSrcmap": True,
               "srcmap": [{"line": e["line"], "lo": e["lo"], "hi": e["hi"]} for e in o["srcmap"] if e["file"] == "main.asm"],
               "rows": parse_listing(o["listing"].get("main.asm", ""), bpl)}
        recs.append(V.clip_tree(rec))
        # the listing of every imported file: same program, the statements of that file are the ones with a line
        for k, fn in enumerate(sorted(files), 1):
            if fn not in o["listing"]:
                if any(e["file"] == fn for e in o["srcmap"]):
                    rep.violations.append({"why": "no listing for imported file %s although it emitted bytes" % fn, "replay": {"program": src, "files": fsrc}, "id": o["id"]})
                continue
            fl = {sid: 0 for sid in lmap}

            def g1(st, scope):
                fl[str(st["n"])] = st["line"]
            G.walk(files[fn], g1)
            rid = 2_000_000 + 10 * o["id"] + k
            recs.append(V.clip_tree(dict(rec, id=rid, lineOf=fl, nlines=len(fsrc[fn].split("\n")), hasVice=False, vice=[],
                                         srcmap=[{"line": e["line"], "lo": e["lo"], "hi": e["hi"]} for e in o["srcmap"] if e["file"] == fn],
                                         rows=parse_listing(o["listing"][fn], bpl))))
            progs[rid] = (prog, src + "\n--- " + fn + " ---\n" + fsrc[fn], bpl, move)
            pfiles[rid] = pfiles[o["id"]]
            omap[rid] = {"listing": {fn: o["listing"][fn]}, "srcmap": [e for e in o["srcmap"] if e["file"] == fn]}
            nimp[0] += 1
    # process level: the .lst files written by `mos build` (listing = true implies macro output attributed to the invocation)
    import subprocess, shutil
    mos = V.build_mos()
    root = V.fresh_dir("C11-proc")
    nproc = 0
    nprocimp = 0
    procsel = [r for r in recs if len(r["prog"]) > 2 and r["id"] < 1_000_000]
    procsel = procsel[:60 if tier == "quick" else 600] + [r for r in recs if n + 1 <= r["id"] <= n + 4]
    for rec in procsel:
        prog, src, bpl, move = progs[rec["id"]]
        d = os.path.join(root, "p%d" % rec["id"])
        os.makedirs(d)
        open(os.path.join(d, "mos.toml"), "w").write('[build]\nentry = "main.asm"\nlisting = true\n[formatting.listing]\nnum-bytes-per-line = %d\n' % bpl)
        open(os.path.join(d, "main.asm"), "w").write(src)
        for fn, t in pfiles[rec["id"]][1].items():
            os.makedirs(os.path.dirname(os.path.join(d, fn)), exist_ok=True)
            open(os.path.join(d, fn), "w").write(t)
        p = subprocess.run([mos, "--no-color", "-e", "Short", "build"], cwd=d, capture_output=True, timeout=60)
        lst = os.path.join(d, "target", "main.lst")
        if p.returncode != 0 or not os.path.exists(lst):
            rep.violations.append({"why": "mos build with listing = true failed or wrote no main.lst for a program that assembles in-process", "replay": {"program": src, "stdout": p.stdout.decode("utf-8", "replace")[-500:]}, "id": rec["id"]})
            continue
        # the command line build runs the same program with macro output attributed to the invocation: judge its rows with move = TRUE
        o2 = dict(rec, id=1_000_000 + rec["id"], move=True, rows=parse_listing(open(lst).read(), bpl), hasVice=False, vice=[])
        if not move:
            # the source map recorded in-process belongs to the other attribution mode: re-derive nothing here, compare rows only
            o2["srcmap"] = []
            o2["hasSrcmap"] = False
        recs.append(o2)
        progs[o2["id"]] = progs[rec["id"]]
        pfiles[o2["id"]] = pfiles[rec["id"]]
        omap[o2["id"]] = {"listing": {"main.asm": open(lst).read()}, "srcmap": None}
        nproc += 1
        # the .lst files of the imported files (same rows as in-process with macro output attributed to the invocation)
        files, fsrc = pfiles[rec["id"]]
        for k, fn in enumerate(sorted(files), 1):
            # a listing is named after its source file; files that share their name get their directories into it
            allf = ["main.asm"] + sorted(files)
            stem = lambda x: os.path.splitext(os.path.basename(x))[0]
            uniq = sum(1 for x in allf if stem(x) == stem(fn)) == 1
            flst = os.path.join(d, "target", (stem(fn) if uniq else os.path.splitext(fn)[0].replace("/", "_")) + ".lst")
            rid = 2_000_000 + 10 * rec["id"] + k
            base = next((r for r in recs if r["id"] == rid), None)
            if base is not None and not os.path.exists(flst):
                rep.violations.append({"why": "mos build wrote no listing of its own for %s (files sharing a name must not share a listing)" % fn,
                                       "replay": {"files": dict(fsrc, **{"main.asm": src}), "target": sorted(os.listdir(os.path.join(d, "target")))}, "id": rec["id"]})
            if base is None or not os.path.exists(flst):
                continue
            o3 = dict(base, id=3_000_000 + 10 * rec["id"] + k, move=True, rows=parse_listing(open(flst).read(), bpl), hasVice=False, vice=[])
            if not move:
                o3["srcmap"] = []
                o3["hasSrcmap"] = False
            recs.append(o3)
            progs[o3["id"]] = progs[rid]
            pfiles[o3["id"]] = pfiles[rec["id"]]
            omap[o3["id"]] = {"listing": {fn: open(flst).read()}, "srcmap": None}
            nprocimp += 1
    shutil.rmtree(root, ignore_errors=True)
    rep.cov["lst_files_from_mos_build"] = nproc
    rep.cov["lst_files_of_imported_files_from_mos_build"] = nprocimp
    rep.cov["listings_of_imported_files"] = nimp[0]
    V.log("[C11] %d programs, %d built and listed" % (len(cases), nok))
    if nok < len(cases) // 10:
        raise V.ToolError("too few generated programs build (%d of %d)" % (nok, len(cases)))
    verdicts, st = V.judge(os.path.join(SPEC, "ListingTrace.tla"), recs, cfg=os.path.join(SPEC, "ListingTrace.cfg"), tag="C11-judge", batch=1000, timeout=3000)
    rep.add_stats(st)
    rep.cov["traces_validated_against_impl"] = nok
    rep.cov["evaluations"] = len(cases)
    rep.cov["distinct_nontrivial"] = len({(progs[r["id"]][1], r["bpl"], r["move"]) for r in recs})
    rep.cov["rule"] = ("seeded programs as for C02 (two segments, one relocated, every third) and C07 (loops, macros invoked several times, conditionals, scopes) "
                       "x bytes-per-line 1..16 x macro attribution mode; distinct = distinct (program, bytes-per-line, mode) that built")
    for r in recs[:2]:
        rep.sample({"program": progs[r["id"]][1], "bpl": r["bpl"], "move_macro": r["move"], "rows": r["rows"][:6]})
    rep.assumptions += ["only builds that are fixed points of the reference semantics are judged (C02 decides the others)",
                        "imported files are named distinctly (two files with the same stem in different directories would share one .lst; not generated)"]
    for v in verdicts:
        cid = v["id"]
        rep.verdict(v, {"program": progs[cid][1], "bytes_per_line": progs[cid][2], "move_macro": progs[cid][3], "listing": omap[cid].get("listing"), "srcmap": omap[cid].get("srcmap"), "why": v.get("why")})
    return rep.finish()


if __name__ == "__main__":
    V.main_wrapper(main)
