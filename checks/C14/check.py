#!/usr/bin/env python3
"""C14 - the language server depends only on the current buffers and survives any request.

spec/Lsp/Lsp.tla       the server as a state machine per JSON-RPC message (ideal reading and the reading as coded)
spec/Lsp/MC_Lsp.tla    design level: all histories over 2 files x 3 texts x 13 request kinds x position classes;
                       the same machine exports session scripts (spec -> impl)
spec/Lsp/LspTrace.tla  judge: recorded sessions of the real `mos lsp` process + replies of a fresh server (impl -> spec)
"""
import json
import os
import re
import sys
from concurrent.futures import ThreadPoolExecutor

sys.path.insert(0, os.path.join(os.path.dirname(os.path.abspath(__file__)), "..", "..", "lib"))
import vplib as V
import lspdrive as L

SPEC = os.path.join(V.SPEC, "Lsp")
FILES = {"main": "main.asm", "inc": "inc.asm", "other": "other.asm", "cfg": "mos.toml"}

TEXTS = {
    "ma": '.import * from "inc.asm"\nfoo: {\n  lda bar // é汉 x\u2192y\n  bar: nop\n}\n  lda foo.bar\n  sta ext\n',
    "mb": '/// entry\nfoo: {\n  lda baz\n  baz: rts\n}\nfoo2: lda foo.baz // ü\U0001F600 tail \u2192here\u2026\n.const c1 = 4 /* é\n é */ + 2\n  ldx #c1\n.const seg = "default"\nsc: {\n  .const seg = "default"\n  .segment seg {\n    tbl: .byte 1, 2\n    .segment seg { tb2: nop }\n  }\n}\n',
    "mx": '.import * from "inc.asm"\nfoo: {\n  lda (\n  bar: nop\n}\n  sta ext\n',
    "ia": "ext: nop\n",
    "ib": ".import * from \"inc2.asm\"\n/// doc ñ\next: rts\nother2: .byte 1 // ñ \u2014dash\n.segment \"default\" {\n  itbl: .byte 3\n}\n  lda deep\n.test \"t1\" {\n  brk\n}\n",
    "i2": "deep: rts // ü second import level\n",
    "ir": ".import * from \"main.asm\"\next: nop\n",        # imports the entry file: a cycle as soon as main imports inc
    "ca": '[build]\nentry = "main.asm"\n',
    "cb": '[build]\nentry = "src/start.asm"\n',            # names a file that does not exist (yet)
    "cc": '[build]\nentry = "inc.asm"\n',                  # another existing file is the entry
    "-": "",
    "ix": "ext: nop\n  lda #\n",
    "oth": "oth: nop\n  jmp oth\n",
}
# two disk layouts: A = the entry file exists on disk, B = it only ever exists as an unsaved buffer
LAYOUTS = {"A": {"main.asm": "ma", "inc.asm": "ia", "inc2.asm": "i2", "other.asm": "oth", "mos.toml": "ca"},
           "B": {"main.asm": "-", "inc.asm": "ia", "inc2.asm": "i2", "other.asm": "oth", "mos.toml": "ca"}}
MNEMONICS = set("adc and asl bcc bcs beq bit bmi bne bpl brk bvc bvs clc cld cli clv cmp cpx cpy dec dex dey eor inc inx iny jmp jsr lda ldx ldy lsr "
                "nop ora pha php pla plp rol ror rti rts sbc sec sed sei sta stx sty tax tay tsx txa txs tya import from const byte as".split())


def ident_positions(text):
    out = []
    for ln, line in enumerate(text.split("\n")):
        code = line.split("//")[0]
        for m in re.finditer(r"[A-Za-z_][A-Za-z0-9_]*", code):
            if m.group(0).lower() not in MNEMONICS and '"' not in code[:m.start()]:
                out.append((ln, m.start() + min(1, len(m.group(0)) - 1)))
    return out


def inrange_position(text, rnd):
    lines = text.split("\n")
    ln = rnd.randrange(len(lines))
    n = len(lines[ln].rstrip("\r").encode("utf-16-le")) // 2
    return ln, rnd.randrange(n + 1)


def mbdelim_positions(text):
    """Positions inside or at the end of a word that directly follows a multi-byte delimiter (an arrow, a dash, an ellipsis, an
    emoji), or at the end of a line that ends in one: the word start is looked up behind that delimiter (Lsp.tla: wsmb)."""
    cand = []
    for i, l in enumerate(text.split("\n")):
        l = l.rstrip("\r")
        for j, c in enumerate(l):
            if ord(c) > 127 and not c.isalnum():
                e = j + 1
                while e < len(l) and (l[e].isalnum() or l[e] == "_"):
                    e += 1
                cand += [(i, x) for x in range(j + 1, e + 1)]
    return cand


def wild_position(text, rnd):
    lines = text.split("\n")
    k = rnd.randrange(10)
    if k in (8, 9):
        cand = mbdelim_positions(text)
        if cand:
            return cand[rnd.randrange(len(cand))]
    if k == 0:
        return len(lines) + rnd.randrange(3), rnd.randrange(3)                      # past the end of the file
    if k == 1:
        ln = rnd.randrange(len(lines))
        return ln, len(lines[ln]) + 1 + rnd.randrange(40)                            # past the end of the line
    if k == 2:
        return rnd.randrange(len(lines)), 2 ** 31 - 1
    if k in (3, 4, 5):
        cand = [(i, l) for i, l in enumerate(lines) if any(ord(c) > 127 for c in l)]
        if cand:
            i, l = cand[rnd.randrange(len(cand))]
            j = min(j for j, c in enumerate(l) if ord(c) > 127)
            return i, len(l[:j].encode("utf-8")) + 1 + rnd.randrange(4)              # inside / right after a multi-byte character
    return inrange_position(text, rnd)


class Session:
    """Drives one server and records what it did.  No verdicts here."""

    def __init__(self, mos, root, sid, layout="A", bad_init=False):
        self.srv = L.Server(mos, root, timeout=8.0)
        self.bad_init = bad_init
        self.disk = LAYOUTS[layout]
        self.layout = layout
        self.root = root
        self.sid = sid
        self.events = []
        self.texts = {}
        self.buf = {}
        self.last_seq = 0
        self.last_round = []
        for f, t in self.disk.items():
            self.note_text(t, TEXTS[t])
        self.note_text("-", "")
        if bad_init:       # parameters that do not deserialize (processId must be a number)
            self.init = self.srv.request("initialize", {"processId": "abc", "capabilities": {}})
            self.srv.notify("initialized", {})
            self._ev(k="malformed", f="initialize")
        else:
            self.init = self.srv.initialize()

    def note_text(self, tid, text):
        self.texts[tid] = text

    def eff(self, f):
        return self.texts[self.buf[f]] if f in self.buf else TEXTS[self.disk[f]] if f in self.disk else ""

    def _ev(self, **kw):
        e = {"k": "", "f": "", "t": "-", "nch": 1, "tfirst": "-", "kind": "", "line": 0, "ch": 0, "status": "", "panic": "", "nonnull": False, "ranges": [],
             "hasToks": False, "toks": [], "ans": "", "hasFresh": False, "fresh": "", "freshStatus": "", "pubs": []}
        e.update(kw)
        self.events.append(e)
        return e

    def _round(self):
        pubs = [(p, d) for (sq, p, d) in self.srv.pub_log[self.last_seq:]]
        self.last_seq = len(self.srv.pub_log)
        return pubs

    def notif(self, k, f, tid="-", text=None, first=None, nch=1):
        """first = (tid, text) of the first entry of a didChange with two entries; nch = 0: a didChange without entries"""
        path = os.path.join(self.root, f)
        if k == "nonfile":                       # didOpen of a document that is not a file
            self.srv.did_open("untitled:Untitled-1", text)
            self._ev(k="nonfile", f="untitled:Untitled-1", kind="open")
            ok = self.request("workspaceSymbol", f, 0, 0, query="\u0001none")
            self._round()          # (the re-analysis it triggers publishes for the unchanged project: not part of a later round)
            return ok
        if k == "change" and nch == 0:
            self.srv.did_change_multi(path, [])
            tid = self.buf[f]
        elif k == "change" and first:
            self.note_text(first[0], first[1])
            self.note_text(tid, text)
            self.buf[f] = tid
            self.srv.did_change_multi(path, [first[1], text])
            nch = 2
        elif k in ("open", "change"):
            self.note_text(tid, text)
            self.buf[f] = tid
            (self.srv.did_open if k == "open" else self.srv.did_change)(path, text)
        else:
            self.buf.pop(f, None)
            self.srv.did_close(path)
        e = self._ev(k=k, f=f, t=tid, nch=nch, tfirst=(first[0] if first else tid))
        ok = self.request("workspaceSymbol", f, 0, 0, query="\u0001none")          # barrier: separates publish rounds
        pubs = self._round()
        e["pubs"] = [{"f": L.rel(self.root, p), "r": x[:4]} for p, d in pubs for x in L.norm_diags(d)]
        if k in ("open", "change"):
            self.last_round = sorted({L.rel(self.root, p) for p, d in pubs})
        return ok

    def odd(self, what):
        """messages the protocol does not foresee: -> True when the server is still running afterwards"""
        main = L.uri_of(os.path.join(self.root, "main.asm"))
        if what == "badnotif":                       # didOpen without `text`
            self.srv.notify("textDocument/didOpen", {"textDocument": {"uri": main}})
            self._ev(k="malformed", f="main.asm")
            return self.request("workspaceSymbol", "main.asm", 0, 0, query="\u0001none")
        if what == "badreq":                         # hover without a position
            r = self.srv.request("textDocument/hover", {"textDocument": {"uri": main}})
            kind = "malformed"
        elif what == "negpos":
            r = self.srv.request("textDocument/hover", {"textDocument": {"uri": main}, "position": {"line": -1, "character": 0}})
            kind = "malformed"
        else:                                        # a request method the server does not know
            r = self.srv.request("textDocument/foldingRange", {"textDocument": {"uri": main}}, timeout=3.0)
            kind = "unknown"
        self._ev(k="req", f="main.asm", kind=kind, status=r["status"], panic=r["panic"] or "", nonnull=r["result"] is not None)
        return r["status"] in ("ok", "error")

    def request(self, kind, f, line, ch, final=False, **kw):
        """-> True when the server is still running afterwards"""
        path = f if f.startswith("untitled:") else os.path.join(self.root, f)
        if f.startswith("untitled:"):
            self._ev(k="nonfile", f=f, kind=kind)
        if f.endswith("%FF.asm"):
            path = "/tmp/%FF.asm"                     # (percent-encoded byte 0xFF: the path is not UTF-8)
            self._ev(k="nonfile", f=f, t="nonutf8", kind=kind)
        m, p = L.params_for(kind, path, line, ch, **kw)
        r = self.srv.request(m, p)
        e = self._ev(k="req", f=f, kind=kind, line=min(line, 2 ** 31 - 1), ch=min(ch, 2 ** 31 - 1), status=r["status"], panic=r["panic"] or "",
                     nonnull=r["result"] is not None)
        if r["status"] == "ok":
            e["ranges"] = [{"f": g, "r": rg} for g, rg in L.collect_ranges(kind, r["result"], self.root, f)]
            if kind == "semanticTokens" and r["result"] is not None:
                e["hasToks"] = True
                e["toks"] = L.decode_semtokens(r["result"])
            e["ans"] = L.canon(r["result"], self.root)
        e["final"] = final
        return r["status"] in ("ok", "error")

    def shown(self):
        return {L.rel(self.root, p): json.dumps(L.norm_diags(d), ensure_ascii=False) for p, d in self.srv.published.items()}

    def close(self):
        self.srv.kill()


def probes_for(final_buf, texts, seed_key, disk):
    """The probe requests sent to both servers: derived from the final buffers only (so that the fresh reference is memoisable)."""
    rnd = V.rng("C14-probes/" + seed_key)
    eff = {f: (texts[final_buf[f]] if f in final_buf else TEXTS[disk[f]]) for f in disk}
    probes = []
    for _ in range(6):
        f = rnd.choice(["main.asm", "main.asm", "inc.asm", "inc2.asm", "other.asm"])
        kind = rnd.choice([k for k in L.ALL_KINDS if k != "rename"])
        ids = ident_positions(eff[f])
        ln, ch = rnd.choice(ids) if ids and rnd.random() < 0.7 else inrange_position(eff[f], rnd)
        probes.append((kind, f, ln, ch))
    f = rnd.choice(["main.asm", "main.asm", "inc.asm", "inc2.asm", "other.asm", "nonexist.asm"])
    ln, ch = wild_position(eff.get(f, "x\n"), rnd)
    kind = rnd.choice(L.ALL_KINDS + ["rename"])
    if kind == "rename":                                                                 # new names that are no valid identifiers: the server has to survive them
        ids = ident_positions(eff.get(f, "")) or [(ln, ch)]
        ln, ch = rnd.choice(ids)
        probes.append((kind, f, ln, ch, rnd.choice(["1x", "", "a b", "super", "lda", "é", "x.y", "-"])))
    else:
        probes.append((kind, f, ln, ch))                                                  # one wild request, last
    return probes


def run_probes(ses, probes):
    for pr in probes:
        kind, f, ln, ch = pr[:4]
        kw = {"new_name": pr[4]} if len(pr) > 4 else {}
        if not ses.request(kind, f, ln, ch, final=True, **kw):
            break


FRESH = {}


def fresh_reference(mos, root, final_buf, texts, probes, layout, disk=None):
    key = json.dumps([layout, sorted((f, texts[t]) for f, t in final_buf.items()), probes, [root, sorted(disk.items())] if disk else None], ensure_ascii=False)
    if key in FRESH:
        return FRESH[key]
    ses = Session(mos, root, "fresh", layout)
    if disk:
        ses.disk = dict(disk)
    order = [f for f in ("mos.toml", "inc.asm", "other.asm", "main.asm") if f in final_buf]
    rounds = []
    for f in order:
        ses.srv.did_open(os.path.join(root, f), texts[final_buf[f]])
        # barrier that reads only (the history server's barriers are workspace/symbol requests: a request must not leave traces)
        ses.srv.request(*L.params_for("hover", os.path.join(root, "other.asm"), 0, 0))
        rounds = ses._round()
    ses.events = []
    run_probes(ses, probes)
    shown = {L.rel(root, p): json.dumps(L.norm_diags(d), ensure_ascii=False) for p, d in rounds}
    ref = {"replies": [(e["status"], e["ans"]) for e in ses.events], "shown": shown}
    ses.close()
    FRESH[key] = ref
    return ref


def lt_of(text):
    out = []
    for ln in text.split("\n"):
        ln = ln.rstrip("\r")
        b = ln.encode("utf-8")
        nb = [i for i in range(len(b)) if (b[i] & 0xC0) == 0x80]
        out.append({"bytes": len(b), "u16": len(ln.encode("utf-16-le")) // 2, "chars": len(ln), "nb": nb})
    return out


def run_session(mos, roots, sid, script, layout="A"):
    bad_init = bool(script) and script[0] == ("badinit",)
    script = script[1:] if bad_init else script
    """script: list of ("open"|"change", f, tid, text) | ("close", f) | ("req", kind, f, line, ch) | ("rename", f)"""
    root = roots[layout]
    disk0 = dict(LAYOUTS[layout])
    if any(st[0] == "disk" for st in script):      # another program writes to the disk during the session: a project directory of its own
        root = os.path.join(os.path.dirname(root), "priv%d" % sid)
        os.makedirs(root, exist_ok=True)
        for fn, t in disk0.items():
            if t != "-":
                open(os.path.join(root, fn), "w", encoding="utf-8", newline="").write(TEXTS[t])
    ses = Session(mos, root, sid, layout, bad_init=bad_init)
    ses.disk = dict(disk0)
    alive = ses.init["status"] == "ok"
    pins = []
    for st in script:
        if not alive:
            break
        if st[0] in ("open", "change"):
            alive = ses.notif(st[0], st[1], st[2], st[3])
        elif st[0] == "close":
            alive = ses.notif("close", st[1])
        elif st[0] == "change0":
            alive = ses.notif("change", st[1], nch=0)
        elif st[0] == "change2":
            alive = ses.notif("change", st[1], st[4], st[5], first=(st[2], st[3]))
        elif st[0] == "odd":
            alive = ses.odd(st[1])
        elif st[0] == "nonfile":
            alive = ses.notif("nonfile", "untitled:Untitled-1", text="  nop\n") if st[1] == "open" else ses.request(st[1], "untitled:Untitled-1", 0, 1)
        elif st[0] == "disk":       # (not a message to the server)
            open(os.path.join(root, st[1]), "w", encoding="utf-8", newline="").write(TEXTS[st[2]])
            ses.disk[st[1]] = st[2]
            ses.note_text(st[2], TEXTS[st[2]])
            ses._ev(k="disk", f=st[1], t=st[2])
        elif st[0] == "pin":        # a request sent now AND again as the first of the final probes (to both servers)
            alive = ses.request(st[1], st[2], st[3], st[4])
            pins.append((st[1], st[2], st[3], st[4]))
        elif st[0] == "rename":
            ids = ident_positions(ses.eff(st[1])) or [(0, 0)]
            ln, ch = ids[len(ids) // 2]
            alive = ses.request("rename", st[1], ln, ch, new_name="renamed1")
        else:
            alive = ses.request(st[1], st[2], st[3], st[4])
    final_buf = dict(ses.buf)
    probes = pins + probes_for(final_buf, ses.texts, json.dumps([layout] + sorted((f, ses.texts[t]) for f, t in final_buf.items()), ensure_ascii=False), ses.disk)
    nhist = len(ses.events)
    if alive:
        run_probes(ses, probes)
    shown_h = ses.shown()
    last_round = ses.last_round
    ses.close()
    ref = fresh_reference(mos, root, final_buf, ses.texts, probes, layout, disk=ses.disk if ses.disk != disk0 else None)
    for i, e in enumerate(ses.events[nhist:]):
        if i < len(ref["replies"]):
            e["hasFresh"], e["freshStatus"], e["fresh"] = True, ref["replies"][i][0], ref["replies"][i][1]
    for e in ses.events:
        e.pop("final", None)
    files = sorted(ses.disk)
    rec = {"id": sid, "disk": [{"f": f, "t": disk0[f]} for f in files],
           "cfg": "mos.toml",
           "texts": [{"t": t, "lt": lt_of(x) if t != "-" else [], "imp": re.findall(r'^\s*\.import\b[^"\n]*"([^"\n]+)"', x, re.M),
                      "entry": (re.findall(r'^\s*entry\s*=\s*"([^"]*)"', x, re.M) or [""])[0],
                      "tests": ".test " in x, "mlna": bool(re.search(r"/\*[^*\n]*[^\x00-\x7f][^*\n]*\n", x))} for t, x in sorted(ses.texts.items())],
           "events": ses.events,
           "shownH": [{"f": f, "d": shown_h.get(f, "[]")} for f in files],
           "shownF": [{"f": f, "d": ref["shown"].get(f, "[]")} for f in files],
           "lastRound": last_round}
    return rec, {"layout": layout, "script": [list(s[:3]) if s[0] in ("open", "change") else list(s) for s in script], "probes": probes,
                 "texts": {t: x for t, x in ses.texts.items()}, "stderr": "".join(ses.srv.stderr_buf)[-1500:]}


# ---------------------------------------------------------------- script sources

def parse_cases(r):
    seen, out = set(), []
    for line in r.prints("CASE"):
        inner = line[line.index(', "') + 2:line.rindex('>>')]
        c = json.loads(json.loads(inner))
        h = c["hist"]
        key = json.dumps([c.get("main"), h])
        if key not in seen:
            seen.add(key)
            out.append(("B" if c.get("main") == "-" else "A", h))
    return out


def script_of_hist(h):
    sc = []
    for e in h:
        f = FILES[e["f"]]
        if e["k"] in ("open", "change"):
            sc.append((e["k"], f, e["t"], TEXTS[e["t"]]))
        elif e["k"] == "close":
            sc.append(("close", f))
        elif e["k"] == "disk":
            sc.append(("disk", f, e["t"]))
        else:
            sc.append(("rename", f))
    return sc


def typing_script(rnd, n):
    """Character-by-character edits between two valid texts of main.asm (passing through broken states), interleaved with requests."""
    a = TEXTS[rnd.choice(["ma", "mb"])]
    olds = [("lda bar", "ldx #<bar+1"), ("bar: nop", "bar: .byte 1, 2 // é"), ("lda baz", "{ lda baz }"), ("foo2: lda foo.baz", "foo3: jmp foo.super.foo3"),
            ("sta ext", "sta ext + 1"), ("foo: {", "foo: { // 汉"), (".const c1 = 4", ".const c1 = (4)")]
    olds = [o for o in olds if o[0] in a] or [(a[:3], a[:3])]
    old, new = rnd.choice(olds)
    at = a.index(old)
    tid = "ty%d_" % n
    sc = [("open", "main.asm", tid + "0", a)]
    if rnd.random() < 0.5:
        sc.append(("open", "inc.asm", "ib", TEXTS["ib"]))
    cur, k = a, 0
    steps = []
    for i in range(len(old)):                                   # backspace the old text away, right to left
        steps.append(a[:at + len(old) - 1 - i] + a[at + len(old):])
    for i in range(len(new)):                                   # type the new one
        steps.append(a[:at] + new[:i + 1] + a[at + len(old):])
    for s_ in steps[:40]:
        k += 1
        sc.append(("change", "main.asm", tid + str(k), s_))
        if rnd.random() < 0.25:
            kind = rnd.choice([x for x in L.ALL_KINDS if x not in ("prepareRename", "completion")] if rnd.random() < 0.8 else L.ALL_KINDS)
            ln, ch = inrange_position(s_, rnd)
            sc.append(("req", kind, rnd.choice(["main.asm", "main.asm", "inc.asm"]), ln, ch) if kind != "rename" else ("rename", "main.asm"))
    if rnd.random() < 0.3:
        sc.append(("close", "main.asm"))
    return sc


def random_script(rnd, n, layout="A"):
    """Longer histories than TLC enumerates, same alphabet, with requests of every kind in between."""
    sc, openb = [], {}
    DISK = LAYOUTS[layout]
    for _ in range(rnd.randrange(4, 9)):
        f = rnd.choice(["main.asm", "main.asm", "inc.asm", "inc.asm", "mos.toml"])
        tids = ["ma", "mb", "mx"] if f == "main.asm" else ["ia", "ib", "ix", "ir"] if f == "inc.asm" else ["ca", "cb", "cc"]
        x = rnd.random()
        if f in openb and x < 0.25:
            sc.append(("close", f))
            del openb[f]
        else:
            t = rnd.choice([t for t in tids if openb.get(f) != t])
            sc.append(("change" if f in openb else "open", f, t, TEXTS[t]))
            openb[f] = t
        y = rnd.random()
        if f in openb and f != "mos.toml" and y < 0.08:
            sc.append(("change0", f))
        elif f in openb and f != "mos.toml" and y < 0.16:
            t1, t2 = rnd.sample(tids, 2)
            sc.append(("change2", f, t1, TEXTS[t1], t2, TEXTS[t2]))
            openb[f] = t2
        elif y < 0.20:
            sc.append(("nonfile", rnd.choice(["open", "hover", "documentSymbol", "formatting", "rename", "semanticTokens"])))
        if rnd.random() < 0.35:
            kind = rnd.choice(L.ALL_KINDS)
            g = rnd.choice(["main.asm", "inc.asm", "other.asm"])
            text = TEXTS[openb[g]] if g in openb else TEXTS[DISK[g]]
            ids = ident_positions(text)
            ln, ch = rnd.choice(ids) if ids and rnd.random() < 0.6 else inrange_position(text, rnd)
            sc.append(("rename", g) if kind == "rename" else ("req", kind, g, ln, ch))
    return sc


# ---------------------------------------------------------------- main

ALL_DEVS = ["MalformedParamsPanic", "UnknownRequestNeverAnswered", "NonUtf8PathPanics", "WorkspaceSymbolRecursesImports", "SemanticTokenPastEndOfLine", "CodeLensOfImportedTests",
            "CloseDoesNotReanalyse", "RenameTaintsCache", "StaleDiagnosticsForDroppedFile", "PrepareRenameSlicesPastEol", "SourceLinePastEof", "CompletionSplitsInsideChar",
            "DidChangeFirstEntryWins", "NonFileUriPanics", "PrepareRenameWordStartInsideChar"]


def design_level(rep, tier, open_devs):
    mc = os.path.join(SPEC, "MC_Lsp.tla")
    # the reading of the current tree: the deviations that are still open (the cfg file in spec/ pins all six)
    cur = os.path.join(V.workdir("C14-cfg"), "MC_Lsp_current.cfg")
    base = open(os.path.join(SPEC, "MC_Lsp_impl.cfg")).read()
    open(cur, "w").write("\n".join(("CONSTANT Deviations = " + L.tla_set(d for d in ALL_DEVS if d in open_devs)) if l.startswith("CONSTANT Deviations") else l
                                   for l in base.splitlines()) + "\n")
    for cfg, what in ((os.path.join(SPEC, "MC_Lsp_ideal.cfg"), "ideal reading: Fresh, FreshShown, Total"),
                      (cur, "reading of the current tree (open deviations only): properties weakened by the recorded witnesses")):
        r = V.tlc(mc, cfg=cfg, workers=4, timeout=900, tag="C14-" + os.path.basename(cfg)[:-4])
        cfg = os.path.basename(cfg)
        rep.add_tlc(r)
        if r.invariant_violated:
            rep.violations.append({"why": "design level: %s violated (%s)" % (cfg, what), "replay": {"tlc_output": V.tail(r.out, 60)}, "id": cfg})
            return False
        if r.rc != 0 or "Error:" in r.out:
            raise V.ToolError("MC_Lsp %s failed:\n%s" % (cfg, V.tail(r.out, 40)))
        rep.notes.append("%s: %d distinct states, depth %d (%s)" % (cfg, r.distinct, r.depth, what))
    for inv in ("InvFreshAnalysis", "InvFreshShown", "InvTotal"):
        r = V.tlc(mc, cfg=os.path.join(SPEC, "MC_Lsp_vac_%s.cfg" % inv), workers=2, timeout=600, tag="C14-vac-" + inv)
        if not r.invariant_violated:
            raise V.ToolError("vacuity: the reading as coded does not violate %s, the deviation disjuncts are dead" % inv)
    rep.notes.append("witness runs: the reading pinned at the original commit (all six deviations) violates each un-weakened invariant (deviation disjuncts are live, the pinned reading is refuted against the ideal)")
    return True


def main(tier):
    rep = V.Report("C14", tier)
    open_devs = L.add_local_findings(rep, os.path.dirname(os.path.abspath(__file__)))
    mos = V.build_mos()
    if not design_level(rep, tier, open_devs):
        return rep.finish()
    wd = V.fresh_dir("C14")
    roots = {}
    for lay, disk in LAYOUTS.items():
        roots[lay] = os.path.join(wd, "proj" + lay)
        os.makedirs(roots[lay])
        for fn, t in disk.items():
            if t != "-":
                with open(os.path.join(roots[lay], fn), "w", encoding="utf-8") as f:
                    f.write(TEXTS[t])

    # spec -> impl: every history the model explores up to MaxHist, plus seeded longer walks of the same machine
    cfg = os.path.join(wd, "gen.cfg")
    base = open(os.path.join(SPEC, "MC_Lsp_gen.cfg")).read()
    open(cfg, "w").write(base.replace("MaxHist = 3", "MaxHist = %d" % (3 if tier == "quick" else 4)))
    r = V.tlc_must_pass(os.path.join(SPEC, "MC_Lsp.tla"), cfg=cfg, workers=4, timeout=900, tag="C14-gen")
    rep.add_tlc(r)
    kmax = 3 if tier == "quick" else 4
    allh = [c for c in parse_cases(r) if 0 < len(c[1]) <= kmax]
    rnd = V.rng("C14")

    def core(c):          # always run: short ones, the config-free histories on the ordinary layout, closes of a buffer-only entry
        lay, h = c
        return (len(h) < kmax or (lay == "A" and not any(e["f"] == "cfg" for e in h))
                or (lay == "B" and any(e["k"] == "close" for e in h) and not any(e["k"] == "rename" for e in h)))
    hists = [c for c in allh if core(c)]
    rest = [c for c in allh if not core(c)]
    rnd.shuffle(rest)
    hists += rest[:400 if tier == "quick" else 3000]
    open(cfg, "w").write(base.replace("MaxHist = 3", "MaxHist = 7"))
    r2 = V.tlc(os.path.join(SPEC, "MC_Lsp.tla"), cfg=cfg, workers=1, simulate=(80 if tier == "quick" else 400), depth=8, seed_arg=V.seed(), timeout=900, tag="C14-sim")
    longer = [c for c in parse_cases(r2) if len(c[1]) >= 5]
    rnd.shuffle(longer)
    longer = longer[:60 if tier == "quick" else 800]
    # histories in which another program rewrites a file on disk and a notification follows (MC_Lsp!SpecGenDisk: every history of up to
    # MaxHist events around one write)
    rd = V.tlc_must_pass(os.path.join(SPEC, "MC_Lsp.tla"), cfg=os.path.join(SPEC, "MC_Lsp_gendisk.cfg"), workers=4, timeout=900, tag="C14-gendisk")
    rep.add_tlc(rd)
    dhists = [c for c in parse_cases(rd) if any(e["k"] == "disk" for e in c[1])]
    if len(dhists) < 100:
        raise V.ToolError("MC_Lsp_gendisk exported only %d histories" % len(dhists))
    rnd.shuffle(dhists)
    # (input selection) first the histories whose LAST notification brings nothing new: a file opened with the text it has on disk
    dhists.sort(key=lambda c: 0 if (c[1][-1]["k"] == "open" and any(e["k"] == "disk" and e["f"] == c[1][-1]["f"] and e["t"] == c[1][-1]["t"] for e in c[1])) else 1)
    if tier == "quick":
        dhists = dhists[:160]
    rep.cov["disk_write_histories"] = len(dhists)
    # three fixed sessions whose last request is out of range in the three ways the pinned reading crashes on
    om = ("open", "main.asm", "ma", TEXTS["ma"])
    fixed = [[om, ("odd", "badreq")], [om, ("odd", "negpos")], [om, ("odd", "badnotif")], [("badinit",), om], [om, ("odd", "unknown")],      # outside the protocol
             [om, ("req", "hover", "%FF.asm", 0, 0)], [om, ("req", "codeLens", "%FF.asm", 0, 0)],                                        # a path that is not UTF-8
             [om, ("open", "inc.asm", "ir", TEXTS["ir"])],                                                                               # import cycle, then workspace/symbol
             [("open", "main.asm", "mb", TEXTS["mb"]), ("req", "semanticTokens", "main.asm", 0, 0)],                                      # a value that spans lines
             [("open", "inc.asm", "ib", TEXTS["ib"]), om, ("req", "codeLens", "main.asm", 0, 0)],                                         # tests in an imported file
             [("open", "main.asm", "ma", TEXTS["ma"]), ("change0", "main.asm")],                                  # didChange without entries
             [("open", "main.asm", "ma", TEXTS["ma"]), ("change2", "main.asm", "mx", TEXTS["mx"], "mb", TEXTS["mb"])],   # two entries: the last is the buffer
             [("open", "main.asm", "ma", TEXTS["ma"]), ("nonfile", "open")],                                    # an unsaved (untitled:) document
             [("open", "main.asm", "mb", TEXTS["mb"]), ("nonfile", "definition")],
             [("open", "main.asm", "ma", TEXTS["ma"]), ("req", "prepareRename", "main.asm", 2, 400)],
             # exactly one line past the last one (the boundary of the line check), for both handlers that slice the line
             [("open", "main.asm", "ma", TEXTS["ma"]), ("req", "completion", "main.asm", TEXTS["ma"].count("\n") + 1, 0)],
             [("open", "main.asm", "ma", TEXTS["ma"]), ("req", "prepareRename", "main.asm", TEXTS["ma"].count("\n") + 1, 0)],
             [("open", "main.asm", "ma", TEXTS["ma"]), ("req", "completion", "main.asm", TEXTS["ma"].count("\n"), 0)],
             [("open", "main.asm", "ma", TEXTS["ma"]), ("req", "completion", "main.asm", 400, 0)],
             [("open", "main.asm", "ma", TEXTS["ma"]), ("req", "completion", "main.asm", 2, 15)]]
    # every position whose word start lies behind a multi-byte delimiter: prepareRename one by one (a death ends a session), the other
    # positional requests in one session each
    for t in ("ma", "mb"):
        ot = ("open", "main.asm", t, TEXTS[t])
        for ln, ch in mbdelim_positions(TEXTS[t]):
            fixed.append([ot, ("req", "prepareRename", "main.asm", ln, ch)])
        for kind in sorted(L.POS_KINDS):
            if kind not in ("prepareRename", "rename"):
                fixed.append([ot] + [("req", kind, "main.asm", ln, ch) for ln, ch in mbdelim_positions(TEXTS[t])])
    # request - notification - the same request again: an answer must not depend on what was asked before the analysis changed.
    # The text of main.asm stays what it is (on disk); inc.asm, imported in front of main's own symbols, is opened with a text
    # that defines more symbols and then closed / changed back, so that the same position of main.asm belongs to a renumbered symbol.
    oi = ("open", "inc.asm", "ib", TEXTS["ib"])
    for kind in sorted(L.POS_KINDS):
        if kind in ("rename", "onType"):
            continue
        for ln, ch in ident_positions(TEXTS["ma"]):
            pin = ("pin", kind, "main.asm", ln, ch)
            fixed.append([oi, pin, ("close", "inc.asm")])
            fixed.append([oi, pin, ("change", "inc.asm", "ia", TEXTS["ia"])])
        ln, ch = ident_positions(TEXTS["mb"])[3]
        fixed.append([("open", "main.asm", "mb", TEXTS["mb"]), ("pin", kind, "main.asm", ln, ch), ("close", "main.asm")])
    # ... and the same with the imported file rewritten behind the server's back, then the entry file opened as it is on disk
    fixed += [[("disk", "inc.asm", "ib"), om], [("disk", "inc.asm", "ib"), ("open", "other.asm", "oth", TEXTS["oth"])],
              [om, ("close", "main.asm"), ("disk", "main.asm", "mb"), ("open", "main.asm", "mb", TEXTS["mb"])]]
    scripts = [("fixed", sc, "A") for sc in fixed] + [("disk", script_of_hist(h), "A") for lay, h in dhists] + [("tlc", script_of_hist(h), lay) for lay, h in hists] + [("sim", script_of_hist(h), lay) for lay, h in longer]
    nty, nrand = (60, 120) if tier == "quick" else (600, 1000)
    if os.environ.get("VERIF_C14_FIXED_ONLY"):      # (diagnosis: only the fixed sessions)
        scripts, nty, nrand = scripts[:len(fixed)], 0, 0
    scripts += [("typing", typing_script(rnd, i), "A") for i in range(nty)]
    scripts += [("random", random_script(rnd, i, "AB"[i % 2]), "AB"[i % 2]) for i in range(nrand)]
    V.log("[C14] %d sessions (%d exhaustive histories, %d simulated, %d typing, %d random)" % (len(scripts), len(hists), len(longer), nty, nrand))

    def one(i):
        return run_session(mos, roots, i + 1, scripts[i][1], scripts[i][2])
    with ThreadPoolExecutor(max_workers=6) as ex:
        results = list(ex.map(one, range(len(scripts))))
    recs = [V.clip_tree(x[0]) for x in results]
    replay = {x[0]["id"]: x[1] for x in results}

    judge_mod, judge_cfg = os.path.join(SPEC, "LspTrace.tla"), os.path.join(SPEC, "LspTrace.cfg")
    devs_now, devs_pinned = os.path.join(wd, "devs-now.ndjson"), os.path.join(wd, "devs-pinned.ndjson")
    V.write_ndjson(devs_now, [{"dev": d} for d in ALL_DEVS if d in open_devs] or [{"dev": "-"}])
    V.write_ndjson(devs_pinned, [{"dev": d} for d in ALL_DEVS])
    verdicts, st = V.judge(judge_mod, recs, cfg=judge_cfg, env={"DEVS": devs_now}, tag="C14-judge", batch=400, timeout=1800)
    # binding demonstration for repaired position defects: folded in the reading pinned at the original commit, the same
    # recordings must be refuted by TLC (the model predicts a crash where the server answered)
    if {"PrepareRenameSlicesPastEol", "SourceLinePastEof", "CompletionSplitsInsideChar"} - open_devs:
        pv, _ = V.judge(judge_mod, recs[:600], cfg=judge_cfg, env={"DEVS": devs_pinned}, tag="C14-pinned", batch=600, timeout=1800)
        npin = sum(1 for v in pv if v["verdict"] == "drift")
        if npin == 0 and not any(v["verdict"] == "violation" for v in verdicts):      # (a guard never outranks a verdict)
            raise V.ToolError("binding: the pinned reading (all deviations) explains recordings of a tree in which position defects are repaired")
        rep.notes.append("pinned reading refuted on the recordings: %d requests answered where it predicts a crash" % npin)
    rep.add_stats(st)

    # binding demonstration: corrupt one field of accepted sessions; TLC has to reject each
    badids = {v["id"] for v in verdicts}
    clean = [x for x in recs if x["id"] not in badids and any(e["hasFresh"] and e["status"] == "ok" for e in x["events"])
             and not any(e["k"] in ("close", "nonfile") or e["kind"] == "rename" or e["nch"] != 1 for e in x["events"])]
    if not clean and not verdicts:
        raise V.ToolError("no cleanly accepted session to run the judge self-test on")
    muts = []
    for j, field in enumerate(("fresh", "status", "range", "shown") if clean else ()):
        m = json.loads(json.dumps(clean[j % len(clean)]))
        m["id"] = 900000 + j
        e = [e for e in m["events"] if e["hasFresh"] and e["status"] == "ok"][0]
        if field == "fresh":
            e["ans"] = e["ans"] + " "
        elif field == "status":
            e["status"], e["panic"] = "dead", "somewhere.rs:1"
            e["kind"], e["line"], e["ch"] = "hover", 0, 0
            m["events"] = m["events"][:m["events"].index(e) + 1]
        elif field == "range":
            e["ranges"] = e["ranges"] + [{"f": "main.asm", "r": [0, 0, 0, 9999]}]
        else:
            [x for x in m["shownH"] if x["f"] == "main.asm"][0]["d"] = '[[0,0,0,1,"x"]]'
            m["lastRound"] = ["inc.asm", "main.asm", "other.asm"]
        muts.append(m)
    mv = V.judge(judge_mod, muts, cfg=judge_cfg, env={"DEVS": devs_now}, tag="C14-selftest")[0] if muts else []
    caught = {v["id"] for v in mv if v["verdict"] == "violation" or (v["verdict"] == "deviation" and v.get("dev") not in rep.open)}
    if caught != {m["id"] for m in muts}:
        raise V.ToolError("judge self-test: corrupted sessions not rejected: %s" % sorted({m["id"] for m in muts} - caught))
    if muts:
        rep.notes.append("judge self-test: 4 corrupted recordings (reply differs from fresh, death at a valid position, range outside document, stale diagnostics) all rejected")

    nreq = sum(1 for x in recs for e in x["events"] if e["k"] == "req")
    rep.cov["traces_validated_against_impl"] = len(recs)
    rep.cov["evaluations"] = nreq
    rep.cov["distinct_nontrivial"] = len({json.dumps([[e["k"], e["f"], e["t"], e["kind"], e["line"], e["ch"]] for e in x["events"]]) for x in recs})
    rep.cov["rule"] = ("sessions of the real `mos lsp` process: every history of <= %d notifications (+ rename requests) TLC enumerates over main/inc x 3 texts, "
                       "seeded TLC simulations up to 7 steps, seeded typing sequences (<= 40 single-character edits through broken states) and seeded random histories with "
                       "requests of all 13 kinds; each followed by 6 in-range probes and one wild probe, mirrored on a fresh server; distinct = distinct event sequences" % (3 if tier == "quick" else 4))
    rep.cov["requests"] = nreq
    rep.cov["deaths"] = sum(1 for x in recs for e in x["events"] if e["status"] == "dead")
    rep.cov["fresh_servers"] = len(FRESH)
    for x in results[:2]:
        rep.sample({"script": x[1]["script"], "probes": x[1]["probes"], "events": len(x[0]["events"])})
    rep.assumptions += ["with no open buffer a fresh server publishes nothing, so the diagnostics comparison is skipped for such final states",
                        "replies are compared as sets where LSP defines sets (locations, completion items, edits per file)",
                        "a JSON-RPC error reply counts as a reply",
                        "ranges are checked in UTF-16 code units as LSP prescribes; the server counts characters, which never exceeds the UTF-16 length"]
    byid = {x["id"]: x for x in recs}
    for v in verdicts:
        rep.verdict(v, {"session": replay.get(v["id"]), "record": byid.get(v["id"]), "judge": "spec/Lsp/LspTrace.tla", "why": v.get("why"),
                        "how": "lib/lspdrive.py Server: initialize, replay script, probes; compare with a fresh server opened on the final buffers"})
    return rep.finish()


if __name__ == "__main__":
    V.main_wrapper(main)
