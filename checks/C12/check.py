#!/usr/bin/env python3
"""C12 - formatting never changes what a program means and never loses comments.

spec/Format/Format.tla       the formatter as a transducer (Visit: program -> chunks, Join: chunks -> lines), exact text
spec/Format/MC_Format.tla    design level: the machine on every statement form x gap x comment kind x option grid
spec/Format/FormatCmd.tla    `mos format` over the files of a project (C12)
spec/Format/FormatTrace.tla  judge of observed runs (tier 1: the property; tier 2: Format(file, opts) = printed text)
lib/fmtlib.py                generator / renderer / driver plumbing (no verdicts)
"""
import os
import sys

sys.path.insert(0, os.path.join(os.path.dirname(os.path.abspath(__file__)), "..", "..", "lib"))
import vplib as V
import fmtlib as F


def main(tier):
    return F.run("C12", tier)


if __name__ == "__main__":
    V.main_wrapper(main)
