#!/usr/bin/env python3
"""C15 - rename is behaviour-preserving and complete.

spec/Scopes/Scopes.tla       RenameSet / RenameProg / CaptureFree on top of the scoping semantics shared with C16
spec/Scopes/MC_Scopes.tla    design level (shared with C16): a fresh name is always capture-free, captures exist otherwise
spec/Scopes/RenameTrace.tla  judge: edit set of the real server = occurrences of the symbol; edited project builds to the
                             same bytes; renaming back restores the text
"""
import json
import os
import sys
from concurrent.futures import ThreadPoolExecutor

sys.path.insert(0, os.path.join(os.path.dirname(os.path.abspath(__file__)), "..", "..", "lib"))
import vplib as V
import lspdrive as L
import scopedrive as D

SPEC = os.path.join(V.SPEC, "Scopes")


def rename_cases(mos, p, picks, wd):
    """picks: list of (oid, new).  One server per project; every case starts from a re-analysed buffer."""
    root = p["dir"]
    srv = L.Server(mos, root, timeout=10.0)
    srv.initialize()
    D.open_all(srv, p)
    out = []
    for n, (oid, new) in enumerate(picks):
        o = p["occ"][oid]
        rec = {"astral": sorted(x for x, y in p["occ"].items() if y.get("astral")), "id": p["id"] * 100 + n, "ok": True, "main": "main.asm", "files": D.files_field(p), "ord": D.ord_field(p), "oid": oid, "new": new,
               "status": "ok", "panic": "", "offered": False, "edits": [], "okAfter": False, "digestBefore": p["digest"], "digestAfter": "",
               "backDone": False, "origText": [{"f": f, "s": t} for f, t in sorted(p["texts"].items())], "backText": []}
        out.append(rec)
        if not srv.alive():
            rec["status"], rec["panic"] = "dead", srv.panic_site()
            continue
        for fn in sorted(p["texts"], key=lambda x: x == "main.asm"):
            srv.did_change(os.path.join(root, fn), p["texts"][fn])              # fresh analysis (a rename mutates the cache)
        path = os.path.join(root, o["f"])
        ln, ch = o["line"], o["col"] + (1 if o["len"] > 1 else 0)
        r = srv.request(*L.params_for("prepareRename", path, ln, ch))
        if r["status"] != "ok":
            rec["status"], rec["panic"] = r["status"], r["panic"]
            if r["status"] == "timeout":
                srv.kill()                    # a hung server is of no use for the remaining cases (they are recorded as dead)
            continue
        rec["offered"] = r["result"] is not None
        r = srv.request(*L.params_for("rename", path, ln, ch, new_name=new))
        if r["status"] != "ok":
            rec["status"], rec["panic"] = r["status"], r["panic"]
            if r["status"] == "timeout":
                srv.kill()                    # a hung server is of no use for the remaining cases (they are recorded as dead)
            continue
        changes = (r["result"] or {}).get("changes") or {}
        rec["edits"] = [{"oid": o_, "text": e["newText"]} for u, eds in changes.items() for e in eds for o_ in D.oids_at(p["occ"], root, u, L.rng4(e["range"]))]
        rec["raw"] = L.canon(r["result"], root)
        edited = dict(p["texts"])
        for u, eds in changes.items():
            f = L.rel(root, u)
            if f in edited:
                uniq = list({json.dumps(e, sort_keys=True): e for e in eds}.values())
                edited[f] = D.apply_edits(edited[f], uniq)
        d2 = os.path.join(wd, "e%d" % rec["id"])
        D.write_project(d2, edited)
        rec["okAfter"], rec["digestAfter"], _ = D.build(mos, d2)
        # rename back on the edited buffers, at the (shifted) position of the same occurrence
        shift = sum(len(e["newText"]) - (e["range"]["end"]["character"] - e["range"]["start"]["character"])
                    for u, eds in changes.items() if L.rel(root, u) == o["f"]
                    for e in {json.dumps(e, sort_keys=True): e for e in eds}.values()
                    if e["range"]["start"]["line"] == o["line"] and e["range"]["start"]["character"] < o["col"])
        for fn in sorted(edited, key=lambda x: x == "main.asm"):
            srv.did_change(os.path.join(root, fn), edited[fn])
        r = srv.request(*L.params_for("rename", path, ln, o["col"] + shift + (1 if len(new) > 1 else 0), new_name=o["name"]))
        if r["status"] == "ok" and r["result"] and r["result"].get("changes"):
            back = dict(edited)
            for u, eds in r["result"]["changes"].items():
                f = L.rel(root, u)
                if f in back:
                    back[f] = D.apply_edits(back[f], list({json.dumps(e, sort_keys=True): e for e in eds}.values()))
            rec["backDone"] = True
            rec["backText"] = [{"f": f, "s": t} for f, t in sorted(back.items())]
        elif r["status"] != "ok":
            rec["status"], rec["panic"] = r["status"], r["panic"]
            if r["status"] == "timeout":
                srv.kill()                    # a hung server is of no use for the remaining cases (they are recorded as dead)
    srv.kill()
    return out


def main(tier):
    rep = V.Report("C15", tier)
    L.add_local_findings(rep, os.path.dirname(os.path.abspath(__file__)))
    mos = V.build_mos()
    mc = os.path.join(SPEC, "MC_Scopes.tla")
    r = V.tlc(mc, cfg=os.path.join(SPEC, "MC_Scopes.cfg"), workers=4, timeout=1200, tag="C15-mc")
    rep.add_tlc(r)
    if r.invariant_violated:
        rep.violations.append({"why": "design level: MC_Scopes invariant violated", "replay": {"tlc_output": V.tail(r.out, 60)}, "id": "MC_Scopes"})
        return rep.finish()
    if r.rc != 0 or "Error:" in r.out:
        raise V.ToolError("MC_Scopes failed:\n" + V.tail(r.out, 40))
    rv = V.tlc(mc, cfg=os.path.join(SPEC, "MC_Scopes_vac_capture.cfg"), workers=2, timeout=600, tag="C15-vac")
    if not rv.invariant_violated:
        raise V.ToolError("vacuity: no capturing rename in the model space")
    rep.notes.append("MC_Scopes: %d programs; FreshRenameIsCaptureFree holds, capturing renames to an existing name exist (witness)" % r.distinct)
    mm = os.path.join(SPEC, "MC_Macros.tla")
    r2 = V.tlc(mm, cfg=os.path.join(SPEC, "MC_Macros.cfg"), workers=4, timeout=1200, tag="C15-mm")
    rep.add_tlc(r2)
    if r2.invariant_violated:
        rep.violations.append({"why": "design level: MC_Macros invariant violated", "replay": {"tlc_output": V.tail(r2.out, 60)}, "id": "MC_Macros"})
        return rep.finish()
    if r2.rc != 0 or "Error:" in r2.out:
        raise V.ToolError("MC_Macros failed:\n" + V.tail(r2.out, 40))
    rep.notes.append("MC_Macros: %d programs with macros/parameters and if-else branches: ParamsApart, CallsDenoteMacros, FreshRenameIsCaptureFree hold" % r2.distinct)
    mi = os.path.join(SPEC, "MC_Imports.tla")
    r3 = V.tlc(mi, cfg=os.path.join(SPEC, "MC_Imports.cfg"), workers=4, timeout=1200, tag="C15-mi")
    rep.add_tlc(r3)
    if r3.invariant_violated:
        rep.violations.append({"why": "design level: MC_Imports invariant violated", "replay": {"tlc_output": V.tail(r3.out, 60)}, "id": "MC_Imports"})
        return rep.finish()
    if r3.rc != 0 or "Error:" in r3.out:
        raise V.ToolError("MC_Imports failed:\n" + V.tail(r3.out, 40))
    rep.notes.append("MC_Imports: %d instances of the import forms: AliasDenotesSymbol, FreshRenameIsCaptureFree hold" % r3.distinct)
    mf = os.path.join(SPEC, "MC_Forms.tla")
    r4 = V.tlc(mf, cfg=os.path.join(SPEC, "MC_Forms.cfg"), workers=4, timeout=1200, tag="C15-mf")
    rep.add_tlc(r4)
    if r4.invariant_violated:
        rep.violations.append({"why": "design level: MC_Forms invariant violated", "replay": {"tlc_output": V.tail(r4.out, 60)}, "id": "MC_Forms"})
        return rep.finish()
    if r4.rc != 0 or "Error:" in r4.out:
        raise V.ToolError("MC_Forms failed:\n" + V.tail(r4.out, 40))
    rep.notes.append("MC_Forms: %d programs (expression with one symbol twice, .var assigned twice, defined(), .loop): invariants hold" % r4.distinct)
    mv = os.path.join(SPEC, "MC_VarShadow.tla")
    r5 = V.tlc(mv, cfg=os.path.join(SPEC, "MC_VarShadow.cfg"), workers=4, timeout=1200, tag="C15-mv")
    rep.add_tlc(r5)
    if r5.invariant_violated:
        rep.violations.append({"why": "design level: MC_VarShadow invariant violated", "replay": {"tlc_output": V.tail(r5.out, 60)}, "id": "MC_VarShadow"})
        return rep.finish()
    if r5.rc != 0 or "Error:" in r5.out:
        raise V.ToolError("MC_VarShadow failed:\n" + V.tail(r5.out, 40))
    rep.notes.append("MC_VarShadow: %d programs (a block that uses an outer name, defines its own - constant, label or sequential variable - and uses it again): "
                     "Sequential, RefsInverse, FreshRenameIsCaptureFree hold" % r5.distinct)
    vasts = D.tlc_cases(r5)
    V.rng("C15-vs").shuffle(vasts)
    asts, masts, iasts = D.tlc_cases(r), D.tlc_cases(r2), D.tlc_cases(r3) + D.tlc_cases(r4) + (vasts[:60] if tier == "quick" else vasts)
    rnd = V.rng("C15")
    wd = V.fresh_dir("C15")
    rnd.shuffle(asts)
    rnd.shuffle(masts)
    if tier == "quick":
        asts, masts = asts[:50], masts[:40]
    asts = asts + masts + iasts
    with ThreadPoolExecutor(max_workers=6) as ex:
        projs = [p for p in ex.map(lambda i: D.project_from_ast(asts[i], mos, os.path.join(wd, "t%04d" % i), 1000 + i), range(len(asts))) if p["ok"]]
    gen, tries = D.make_projects(rnd, 70 if tier == "quick" else 400, mos, wd, "g")
    projs += gen
    # one hand-made project with a character outside the BMP in front of a label on the same line (positions are UTF-16 code units)
    ad = os.path.join(wd, "astral")
    atexts = {"main.asm": "/* \U0001F600 */ foo: nop\n.word foo  // foo\n"}
    D.write_project(ad, atexts)
    aok, adig, _ = D.build(mos, ad)
    if aok:
        projs.append({"id": 999999, "dir": ad, "two": False, "inc": [], "texts": atexts, "digest": adig,
                      "main": [{"k": "label", "name": "foo", "oid": 1, "hasBody": False, "body": []}, {"k": "use", "path": ["foo"], "oids": [2]}],
                      "occ": {1: {"f": "main.asm", "line": 0, "col": 9, "len": 3, "name": "foo", "def": True, "astral": True},
                              2: {"f": "main.asm", "line": 1, "col": 6, "len": 3, "name": "foo", "def": False}}})
    work = []
    for p in projs:
        oids = [o for o in sorted(p["occ"]) if p["occ"][o]["name"] != "super"]
        rnd.shuffle(oids)
        oids.sort(key=lambda o: p["occ"][o]["name"] != "-")        # uses of the block symbol `-` are always tried
        if tier == "quick":
            oids = oids[:4]
        picks = []
        for o in oids:
            picks.append((o, "zz%d" % rnd.randrange(10)))
            other = [n for n in ("a", "b", "c") if n != p["occ"][o]["name"]]
            picks.append((o, rnd.choice(other)))
        work.append((p, picks))
    V.log("[C15] %d projects, %d rename cases" % (len(projs), sum(len(w[1]) for w in work)))
    with ThreadPoolExecutor(max_workers=6) as ex:
        res = list(ex.map(lambda w: rename_cases(mos, w[0], w[1], wd), work))
    recs, raw = [], {}
    for lst in res:
        for rec in lst:
            raw[rec["id"]] = rec.pop("raw", None)
            recs.append(V.clip_tree(rec))
    jm, jc = os.path.join(SPEC, "RenameTrace.tla"), os.path.join(SPEC, "RenameTrace.cfg")
    verdicts, st = V.judge(jm, recs, cfg=jc, tag="C15-judge", batch=300, timeout=2400)
    rep.add_stats(st)

    bad = {v["id"] for v in verdicts}
    plain = lambda x: not any(w in t["s"] for t in x["origText"] for w in (".var", "defined(", ".loop", ".file", " as ", "super", ".macro"))
    clean = [x for x in recs if x["id"] not in bad and x["offered"] and x["new"].startswith("zz") and x["backDone"] and len(x["edits"]) >= 2 and plain(x)]
    if not clean and not verdicts:
        raise V.ToolError("no accepted record for the judge self-test")
    muts = []
    for j, field in enumerate(("edits", "digestAfter", "backText") if clean else ()):
        m = json.loads(json.dumps(clean[j % len(clean)]))
        m["id"] = 90000000 + j
        if field == "edits":
            m["edits"] = m["edits"][:-1]
        elif field == "digestAfter":
            m["digestAfter"] = "0" * 64
        else:
            m["backText"][0]["s"] += " "
        muts.append(m)
    mv = V.judge(jm, muts, cfg=jc, tag="C15-selftest")[0] if muts else []
    caught = {v["id"] for v in mv if v["verdict"] == "violation" or (v["verdict"] == "deviation" and v.get("dev") not in rep.open)}
    if caught != {m["id"] for m in muts}:
        raise V.ToolError("judge self-test: corrupted records not rejected: %s" % sorted({m["id"] for m in muts} - caught))
    if muts:
        rep.notes.append("judge self-test: 3 corrupted recordings (edit dropped, different build digest, rename-back text differs) rejected")

    rep.cov["traces_validated_against_impl"] = len(recs)
    rep.cov["evaluations"] = len(recs)
    rep.cov["distinct_nontrivial"] = len({(json.dumps(x["origText"]), x["oid"], x["new"]) for x in recs if x["offered"]})
    rep.cov["rule"] = ("(project, identifier occurrence, new name) triples on error-free projects (TLC-enumerated scope skeletons and macro/if-else programs + seeded generated projects with macros, parameters, .if/else with either branch taken, every third with an import): "
                       "prepareRename + rename on the real server, edit applied per LSP, edited project rebuilt with `mos build`, renamed back; new names: fresh and a name used elsewhere; "
                       "distinct = distinct offered triples")
    rep.cov["offered"] = sum(1 for x in recs if x["offered"])
    for x in recs[:3]:
        rep.sample({"text": x["origText"][-1]["s"], "oid": x["oid"], "new": x["new"], "edits": x["edits"]})
    rep.assumptions += ["when the new name collides with or captures another binding (CaptureFree false in the model) only the edit set is judged",
                        "macro bodies use their parameters only; string interpolation and `import .. as` are not generated yet"]
    byid = {x["id"]: x for x in recs}
    for v in verdicts:
        x = byid.get(v["id"])
        rep.verdict(v, {"record": x, "raw_edit": raw.get(v["id"]), "judge": "spec/Scopes/RenameTrace.tla", "why": v.get("why")})
    return rep.finish()


if __name__ == "__main__":
    V.main_wrapper(main)
