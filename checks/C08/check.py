#!/usr/bin/env python3
"""C08 - layout of the source text does not change its meaning.

spec/Layout/Layout.tla      statement forms as terminal sequences with typed gaps and case-variable terminals; the variant space
spec/Layout/MC_Layout.tla   TLC enumerates the variants (invariant OnlyLayout) and exports them
spec/Layout/LayoutTrace.tla judge: observation of the variant = observation of the canonical spelling
"""
import os
import sys

sys.path.insert(0, os.path.join(os.path.dirname(os.path.abspath(__file__)), "..", "..", "lib"))
import vplib as V

SPEC = os.path.join(V.SPEC, "Layout")
# the segment is defined explicitly and first: code in front of the first `.define segment` of a program that defines
# segments (the define-seg form does) has no segment to go to and is rejected
PRELUDE = '.define segment { name = "default" start = $2000 }\n.const cv = 5\n.const sv = "z"\n.macro mm(a) { ldx #a }\ntbl: nop\n'
INC = ".const iv = 9\nivl: rts\n"
# the imported file of the form err-both: a comment as long as the prelude, then the same erroneous statement
INC2 = "/*" + "-" * (len(PRELUDE) - 4) + "*/" + ".byte\n"


def cased(s, casing):
    if casing == "lower":
        return s
    head, tail = (s[:6], s[6:]) if s.startswith("super.") else (s, "")
    if s.startswith('"'):
        return s
    if casing == "upper":
        return head.upper() + tail
    return "".join(ch.upper() if i % 2 else ch.lower() for i, ch in enumerate(head)) + tail


def render(toks, canonical=False):
    out = ""
    for t in toks:
        fill = t["fill"]
        sep = t["sp"] if (canonical or fill == "=") else fill
        out += sep + (t["s"] if canonical else cased(t["s"], t["casing"]))
    return out


def summarize(o):
    ok = bool(o["ok"])
    return {"ok": ok, "panic": bool(o["panic"]),
            "segs": [{"name": s["name"], "start": s["start"], "bytes": s["bytes"]} for s in (o.get("segments") or [])] if ok else [],
            "syms": [{"path": s["path"], "kind": s["kind"], "val": s["val"]} for s in (o.get("symbols") or [])] if ok else [],
            "msgs": sorted(d["msg"] for d in o["parse_diags"] + o["diags"])}


def main(tier):
    rep = V.Report("C08", tier)
    V.build_harness(["asmdrive"])
    wd = V.workdir("C08")
    cfg = os.path.join(wd, "MC_Layout.cfg")
    txt = open(os.path.join(SPEC, "MC_Layout.cfg")).read()
    if tier == "thorough":
        txt = txt.replace("Pairs = {5, 9, 29}", "Pairs = {1, 3, 4, 5, 6, 9, 16, 18, 24, 28, 29, 31, 34, 35, 39}")
    open(cfg, "w").write(txt)
    out = os.path.join(wd, "variants.ndjson")
    if os.path.exists(out):
        os.remove(out)
    r = V.tlc_must_pass(os.path.join(SPEC, "MC_Layout.tla"), cfg=cfg, env={"OUT": out}, workers=6, coverage=True, timeout=3000, tag="C08-mc", xmx="8g")
    rep.add_tlc(r)
    if r.coverage.get("Lay", (0, 0))[0] == 0:
        raise V.ToolError("vacuous MC_Layout run")
    variants = V.read_ndjson(out)
    cases, meta = [], {}
    canon_id = {}
    for i, v in enumerate(variants, 1):
        form = v["form"]
        if form not in canon_id:
            cid = "can-" + form
            src = PRELUDE + render(v["toks"], canonical=True) + "\n"
            cases.append({"id": cid, "files": {"main.asm": src, "inc.asm": INC, "inc2.asm": INC2}, "pc": 0x2000, "want": ["segments", "symbols"], "max_passes": 40})
            canon_id[form] = cid
            meta[cid] = src
        src = PRELUDE + render(v["toks"]) + (v["v"]["fill"] if v["v"]["kind"] == "tail" else "\n")
        if v["v"]["kind"] == "crlf":
            import re
            src = re.sub(r"(?<!\r)\n", "\r\n", src)
        cases.append({"id": i, "files": {"main.asm": src, "inc.asm": INC if v["v"]["kind"] != "crlf" else INC.replace("\n", "\r\n"), "inc2.asm": INC2}, "pc": 0x2000, "want": ["segments", "symbols"], "max_passes": 40})
        meta[i] = src
    obs, p = V.run_harness("asmdrive", cases, "C08-drive")
    if len(obs) != len(cases):
        raise V.ToolError("asmdrive produced %d of %d observations: %s" % (len(obs), len(cases), p.stderr[-2000:]))
    omap = {o["id"]: o for o in obs}
    for form, cid in canon_id.items():
        if not omap[cid]["ok"] and not form.startswith("err-"):
            raise V.ToolError("canonical spelling of form %s does not assemble: %r -> %s" % (form, meta[cid], omap[cid]["parse_diags"] + omap[cid]["diags"]))
    recs = []
    for i, v in enumerate(variants, 1):
        recs.append(V.clip_tree({"id": i, "can": summarize(omap[canon_id[v["form"]]]), "var": summarize(omap[i])}))
    verdicts, st = V.judge(os.path.join(SPEC, "LayoutTrace.tla"), recs, cfg=os.path.join(SPEC, "LayoutTrace.cfg"), tag="C08-judge", batch=5000)
    rep.add_stats(st)
    rep.cov["traces_validated_against_impl"] = len(recs)
    rep.cov["evaluations"] = len(cases)
    rep.cov["distinct_nontrivial"] = len({meta[i] for i in range(1, len(variants) + 1)} - {meta[c] for c in canon_id.values()})
    rep.cov["rule"] = ("%d statement forms; every gap x every filler its kind allows (ws: blanks, tabs, block comments incl. nested and code-like; mws: also LF, CRLF, blank lines, line comments), "
                       "gap pairs for the structured forms, every case-variable terminal x upper/mixed case, whole-statement CRLF / comment-after-every-token / all-upper / tabs, and every form x every filler of the gap between its last terminal and the end of the file (nothing, blanks, comments without a line end ...); "
                       "distinct = distinct variant texts different from the canonical text" % len(canon_id))
    rep.cov["exhaustive"] = True
    for i in (1, len(variants) // 2, len(variants)):
        rep.sample({"form": variants[i - 1]["form"], "variant": meta[i], "kind": variants[i - 1]["v"]["kind"]})
    rep.assumptions += ["canonical spelling = single blanks, lower case; every form is checked to assemble in its canonical spelling",
                        "an empty filler is a variant only where the neighbouring terminals cannot fuse into one word"]
    for v in verdicts:
        i = v["id"]
        rep.verdict(v, {"form": variants[i - 1]["form"], "variant_kind": variants[i - 1]["v"], "variant": meta[i], "canonical": meta[canon_id[variants[i - 1]["form"]]],
                        "observation": omap[i], "why": v.get("why")})
    return rep.finish()


if __name__ == "__main__":
    V.main_wrapper(main)
