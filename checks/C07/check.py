#!/usr/bin/env python3
"""C07 - loops, conditionals, macros, constants, scopes and imports mean their expansion.

spec/Asm/Expand.tla      the expansion as a source-to-source function on program ASTs
spec/Asm/MC_Expand.tla   design level: pass machine on P and on Expand(P) agree for all small nests
spec/Asm/ExpandTrace.tla TLC expands seeded programs (spec -> impl) and judges the three observed builds
"""
import os
import sys

sys.path.insert(0, os.path.join(os.path.dirname(os.path.abspath(__file__)), "..", "..", "lib"))
import vplib as V
import asmgen as G

SPEC = os.path.join(V.SPEC, "Asm")


def obs_summary(o, defined_names):
    diags = o["parse_diags"] + o["diags"]
    msgs = [d["msg"] for d in diags]
    unk = bool(msgs) and not o["panic"] and all(m.startswith("unknown identifier: ") and m.split(": ", 1)[1].split(".")[-1] in defined_names for m in msgs)
    segs = [[s["name"], s["start"], s["bytes"]] for s in (o.get("segments") or [])] if o["ok"] else []
    return {"ok": bool(o["ok"]), "segs": segs, "unk": unk}


def defined_names(prog, files):
    names = set(["-", "+", "end", "start"])

    def f(st, scope):
        if st["k"] in ("label", "const", "var", "macrodef"):
            names.add(st["name"])
        if st["k"] == "macrodef":
            names.update(st["params"])
    G.walk(prog, f)
    for p in files.values():
        G.walk(p, f)
    return names


def design_level(rep, tier):
    mc = os.path.join(SPEC, "MC_Expand.tla")
    if not os.path.exists(mc):
        return
    cfg = os.path.join(SPEC, "MC_Expand_%s.cfg" % tier)
    r = V.tlc(mc, cfg=cfg, workers=8, timeout=3000, tag="C07-mc", xmx="12g")
    rep.add_tlc(r)
    if r.invariant_violated:
        rep.violations.append({"why": "design level: MC_Expand invariant violated", "replay": {"tlc_output": V.tail(r.out, 80)}, "id": "MC_Expand"})
    elif r.rc != 0 or "Error:" in r.out:
        raise V.ToolError("MC_Expand failed:\n" + V.tail(r.out, 40))
    else:
        rep.notes.append("MC_Expand (%s): %d distinct states, depth %d; invariant SameMeaning holds" % (tier, r.distinct, r.depth))
        rv = V.tlc(mc, cfg=os.path.join(SPEC, "MC_Expand_vac.cfg"), workers=4, timeout=600, tag="C07-vac")
        if not rv.invariant_violated:
            raise V.ToolError("vacuous MC_Expand space: no program of it builds")


def main(tier):
    rep = V.Report("C07", tier)
    V.build_harness(["asmdrive"])
    design_level(rep, tier)
    rnd = V.rng("C07")
    n = 400 if tier == "quick" else 4000
    progs, recs = {}, []
    for i in range(1, n + 1):
        g = G.Gen7(rnd, depth=3 if i % 4 else 4)
        prog, files = g.program()
        G.number_statements(prog)
        progs[i] = (prog, files)
        tfiles = {fn: G.tla_ready(p) for fn, p in files.items()}
        tfiles["_"] = []
        recs.append({"id": i, "prog": G.tla_ready(prog), "files": tfiles})
    # three programs that never set the program counter and have no forward reference but one: a reference in front of the
    # inner definition of a name the enclosing scope defines too (brace scope, macro body, imported file). With nothing else
    # to force another pass, only the confirming pass of the assembler makes them mean their expansion.
    shadow = [([G.label("dat"), G.insn("nop"), G.braces([G.insn("jmp", "dir", G.ident(["dat"])), G.insn("nop"), G.label("dat"), G.insn("rts")]), G.insn("rts")], {}),
              ([G.label("skp"), G.insn("nop"), G.macrodef("mg", ["v"], [G.insn("beq", "dir", G.ident(["skp"])), G.insn("lda", "imm", G.ident(["v"])), G.label("skp")]),
                G.macrocall("mg", [G.num(7)]), G.insn("rts")], {}),
              ([G.label("ent"), G.insn("nop"), G.import_("lib.asm", "lib"), G.insn("lda", "dir", G.ident(["lib", "ent"]))],
               {"lib.asm": [G.insn("jmp", "dir", G.ident(["ent"])), G.insn("nop"), G.label("ent"), G.insn("rts")]})]
    for prog, files in shadow:
        n += 1
        G.number_statements(prog)
        progs[n] = (prog, files)
        tfiles = {fn: G.tla_ready(p) for fn, p in files.items()}
        tfiles["_"] = []
        recs.append({"id": n, "prog": G.tla_ready(prog), "files": tfiles})
    # spec -> impl: TLC computes the expansions
    wd = V.workdir("C07")
    # (in batches: the judge module accumulates its output in the state, one long run would be quadratic)
    exp = {}
    for b0 in range(0, len(recs), 400):
        tr, out = os.path.join(wd, "progs-%d.ndjson" % b0), os.path.join(wd, "expanded-%d.ndjson" % b0)
        V.write_ndjson(tr, recs[b0:b0 + 400])
        if os.path.exists(out):
            os.remove(out)
        r = V.tlc_must_pass(os.path.join(SPEC, "ExpandTrace.tla"), cfg=os.path.join(SPEC, "ExpandTrace.cfg"),
                            env={"TRACE": tr, "OUT": out, "MODE": "expand"}, workers=1, deque=True, timeout=1800, tag="C07-expand", xmx="8g")
        rep.add_tlc(r)
        exp.update({e["id"]: e for e in V.read_ndjson(out)})
    if len(exp) != n:
        raise V.ToolError("TLC expanded %d of %d programs" % (len(exp), n))
    cases, meta = [], {}
    for i in range(1, n + 1):
        prog, files = progs[i]
        fsrc = {fn: G.render(p) for fn, p in files.items()}
        variants = {"p": (G.render(prog), fsrc), "e": (G.render(G.from_tla(exp[i]["all"])), {}), "e1": (G.render(G.from_tla(exp[i]["one"])), fsrc)}
        for tag, (src, fs) in variants.items():
            cid = "%d-%s" % (i, tag)
            f = {"main.asm": src}
            f.update(fs)
            cases.append({"id": cid, "files": f, "pc": 0x2000, "want": ["segments", "symbols", "vice"] if tag == "p" else ["segments"], "max_passes": 60})
            meta[cid] = src
    obs, p = V.run_harness("asmdrive", cases, "C07-drive")
    if len(obs) != len(cases):
        raise V.ToolError("asmdrive produced %d of %d observations: %s" % (len(obs), len(cases), p.stderr[-2000:]))
    omap = {o["id"]: o for o in obs}
    jrecs = []
    nok = 0
    for i in range(1, n + 1):
        dn = defined_names(*progs[i])
        rec = {"id": i}
        for tag in ("p", "e", "e1"):
            rec[tag] = obs_summary(omap["%d-%s" % (i, tag)], dn)
        nok += rec["p"]["ok"]
        jrecs.append(rec)
    V.log("[C07] %d programs, %d build; expansions built by TLC" % (n, nok))
    if nok < n // 3:
        raise V.ToolError("too few generated programs build (%d of %d)" % (nok, n))
    verdicts, st = V.judge(os.path.join(SPEC, "ExpandTrace.tla"), jrecs, cfg=os.path.join(SPEC, "ExpandTrace.cfg"), env={"MODE": "judge"}, tag="C07-judge", batch=4000)
    rep.add_stats(st)
    # the programs themselves are also judged as fixed points of the reference semantics (binds Asm.tla's treatment of
    # loops, conditionals, macros and imports to the code; a mismatch here is drift of the model, C02 owns the property)
    sys.path.insert(0, os.path.join(os.path.dirname(os.path.abspath(__file__)), "..", "C02"))
    import importlib.util
    spec2 = importlib.util.spec_from_file_location("c02check", os.path.join(os.path.dirname(os.path.abspath(__file__)), "..", "C02", "check.py"))
    c02 = importlib.util.module_from_spec(spec2)
    spec2.loader.exec_module(c02)
    frecs = []
    for i in range(1, n + 1):
        prog, files = progs[i]
        o = omap["%d-p" % i]
        if not o["ok"]:
            continue
        rec = c02.observe_record(i, prog, o, 0x2000)
        if rec is None:
            continue
        if not G.assign_file_scopes(files, o.get("file_scopes")):
            continue
        rec["files"] = {fn: G.tla_ready(p) for fn, p in files.items()}
        rec["files"]["_"] = []
        frecs.append(V.clip_tree(rec))
    frow, fst = V.judge(os.path.join(SPEC, "AsmTrace.tla"), frecs, cfg=os.path.join(SPEC, "AsmTrace.cfg"), tag="C07-fixpoint", batch=1500, timeout=3000)
    rep.add_stats(fst)
    rep.cov["programs_judged_as_fixed_points"] = len(frecs)
    rep.cov["reference_semantics_drift"] = len(frow)
    for v in frow:
        rep.verdict(dict(v, verdict="drift", dev="RefOnConstructs"), {})
    rep.cov["traces_validated_against_impl"] = 3 * n
    rep.cov["evaluations"] = len(cases)
    rep.cov["distinct_nontrivial"] = len({meta["%d-p" % i] for i in range(1, n + 1) if jrecs[i - 1]["p"]["ok"] and meta["%d-p" % i] != meta["%d-e" % i]})
    rep.cov["rule"] = ("seeded programs nesting .loop/.if-else/macro calls/brace scopes/.const/.import up to depth 3-4 with bodies of instructions on outer symbols, "
                       "data on index, forward references and labels; TLC computes Expand; distinct = distinct program texts that build and differ from their expansion")
    rep.cov["built_ok"] = nok
    for i in (1, 2):
        rep.sample({"program": meta["%d-p" % i], "expansion": meta["%d-e" % i], "same_image": jrecs[i - 1]["p"]["segs"] == jrecs[i - 1]["e"]["segs"]})
    rep.assumptions += ["loop bodies define no labels (all iterations share one scope in mos, so no by-hand expansion exists)",
                        "constants are inlined only when top-level and uniquely named; macro parameters are bound as constants of a fresh brace scope"]
    for v in verdicts:
        i = v["id"]
        rep.verdict(v, {"program": meta["%d-p" % i], "full_expansion": meta["%d-e" % i], "one_level_expansion": meta["%d-e1" % i], "files": {fn: G.render(p) for fn, p in progs[i][1].items()},
                        "observations": {t: omap["%d-%s" % (i, t)] for t in ("p", "e", "e1")}, "why": v.get("why")})
    return rep.finish()


if __name__ == "__main__":
    V.main_wrapper(main)
