#!/usr/bin/env python3
"""C19 - the debugger reports where the machine really is (test-runner debug adapter, all interleavings).

spec/Debugger/DbgCpu.tla        the emulated machine on the instruction subset used, the uninterrupted run, step targets
spec/Debugger/DbgAdapter.tla    adapter-level state and actions (machine thread, pause/step/resume) as operators on one record
spec/Debugger/Debugger.tla      closed system: machine thread, session thread, poller, event channel, client; properties
spec/Debugger/MC_Debugger*.cfg  design level: ideal reading, implementation-shaped reading, counterexamples, vacuity witnesses
spec/Debugger/DebuggerCases.tla spec -> impl: every client script the model's client may send (<= 3 / 4 requests)
spec/Debugger/DebuggerTrace.tla impl -> spec: judge of the DAP stream (tier 1) and of the hook's event log (tier 2)
lib/dapdrive.py                 mos lsp process + DAP client + script interpreter (drives and records only)
"""
import json
import os
import sys
import threading
import time

sys.path.insert(0, os.path.join(os.path.dirname(os.path.abspath(__file__)), "..", "..", "lib"))
import vplib as V
import dapdrive as D

HERE = os.path.dirname(os.path.abspath(__file__))
SPEC = os.path.join(V.SPEC, "Debugger")
BASE = 0xC000       # the test runner assembles into the library default segment


def pinned(rep, prop):
    """Open findings decide which reading of the specification is pinned for this tree: open -> the deviation is on,
    fixed -> off (known_findings.jsonl, or VERIF_FINDINGS for trial runs; rows only in checks/<ID>/findings.jsonl count too)."""
    rep.open = D.open_rows(D.findings_view((prop,), V.VERIF), prop)
    return sorted(rep.open)


# ------------------------------------------------------------------ programs (data: the spec owns their meaning)

def I(op, arg=0, label=None):
    return {"op": op, "arg": arg, "label": label}


def programs(rnd):
    """Abstract programs: arg of jsr/bne/jmp is a label, resolved to an instruction index below."""
    n = rnd.choice([2, 3])
    fill = rnd.choice(["nop", "iny"])
    p1 = [I("ldx", n), I("jsr", "sub", "loop")] + ([I(fill)] if rnd.random() < 0.5 else []) + \
         [I("dex"), I("bne", "loop"), I("lda", rnd.choice([0, 7, 9])), I("brk"), I("iny", 0, "sub")] + \
         ([I("nop")] if rnd.random() < 0.5 else []) + [I("rts")]
    p2 = [I("jsr", "sa"), I("nop"), I("ldx", 2), I("dex", 0, "l"), I("bne", "l"), I("brk"),
          I("iny", 0, "sa"), I("jsr", "sb"), I("iny"), I("rts"), I("inx", 0, "sb"), I("nop"), I("rts")]
    p3 = [I("lda", 5), I("ldx", 2), I("jsr", "s", "loop"), I("dex"), I("bne", "loop"), I("brk"),
          I("pha", 0, "s"), I("iny"), I("pla"), I("rts")]
    return [plain("loopsub", p1, "dex", "iny"), plain("nested", p2, "dex", "inx"), plain("push", p3, "dex", "iny"),
            dup_loop(rnd), dup_macro(rnd)]


def plain(name, prog, a_op, b_op):
    src, lines = render(prog)
    return {"name": name, "prog": resolve(prog), "lines": lines, "source": src,
            "sets": {"A": [line_of(prog, lines, a_op)], "B": [line_of(prog, lines, b_op, 0)], "None": []}}


def dup_loop(rnd):
    """One source line assembled several times: the body of `.loop n`. prog is the EXPANDED instruction list,
    lines[k] the source line instruction k came from (the spec's line -> set of pcs)."""
    n = rnd.choice([2, 3])
    src = '.test "t" {\n    ldx #0\n    .loop %d {\n        inx\n        nop\n    }\n    iny\n    brk\n}\n' % n
    prog = [{"op": "ldx", "arg": 0}] + [{"op": "inx", "arg": 0}, {"op": "nop", "arg": 0}] * n + [{"op": "iny", "arg": 0}, {"op": "brk", "arg": 0}]
    lines = [2] + [4, 5] * n + [7, 8]
    return {"name": "duploop", "prog": prog, "lines": lines, "source": src, "sets": {"A": [4], "B": [5], "None": []}}


def dup_macro(rnd):
    """A macro invoked several times: the frame and the breakpoint are on the line inside the macro definition."""
    n = rnd.choice([2, 3])
    body = "".join("    bump()\n    iny\n" for _ in range(n))
    src = '.macro bump() {\n    inx\n}\n.test "t" {\n    ldx #0\n%s    brk\n}\n' % body
    prog = [{"op": "ldx", "arg": 0}] + [{"op": "inx", "arg": 0}, {"op": "iny", "arg": 0}] * n + [{"op": "brk", "arg": 0}]
    lines = [5] + [x for k in range(n) for x in (2, 7 + 2 * k)] + [6 + 2 * n]
    return {"name": "dupmacro", "prog": prog, "lines": lines, "source": src, "sets": {"A": [2], "B": [7], "None": []}}


def recur_program(rnd):
    """`next` on `go: jsr f`: the address behind it (out: rts) is reached inside the recursive call first."""
    p = [I("ldx", rnd.choice([2, 3])), I("jsr", "f"), I("nop"), I("brk"), I("dex", 0, "f"), I("bne", "go"), I("jmp", "out"), I("jsr", "f", "go"), I("rts", 0, "out")]
    pg = plain("recur", p, "nop", "jsr")
    pg["sets"]["B"] = [pg["lines"][7]]
    return pg


def adjacent_program(rnd):
    """`next` on a jsr whose subroutine starts directly behind it."""
    p = [I("ldx", 2), I("jsr", "f"), I("dex", 0, "f"), I("bne", "ret"), I("brk"), I("rts", 0, "ret")]
    pg = plain("adjacent", p, "dex", "jsr")
    return pg


def end_programs(rnd):
    """A = the instruction in front of the one the uninterrupted run ends at: brk, or an instruction with a failing assertion."""
    p = [I("ldx", 1), I("inx"), I("brk")]
    tiny = plain("tinyend", p, "inx", "inx")
    src = '.test "t" {\n    ldx #1\n    inx\n    .assert cpu.x == 99 "boom"\n    nop\n    iny\n    brk\n}\n'
    prog = [{"op": "ldx", "arg": 1}, {"op": "inx", "arg": 0}, {"op": "fail", "arg": 0}, {"op": "iny", "arg": 0}, {"op": "brk", "arg": 0}]
    fail = {"name": "failassert", "prog": prog, "lines": [2, 3, 5, 6, 7], "source": src, "sets": {"A": [3], "B": [3], "None": []}}
    return [tiny, fail]


def twofile_program(rnd):
    """The subroutine lives in lib.asm (imported behind the test): its lines are numbered 1000 + line."""
    n = rnd.choice([2, 3])
    main = '.test "t" {\n    ldx #%d\n    loop: jsr sub\n    dex\n    bne loop\n    brk\n}\n.import * from "lib.asm"\n' % n
    lib = 'sub: iny\n    nop\n    rts\n'
    prog = [{"op": "ldx", "arg": n}, {"op": "jsr", "arg": 6}, {"op": "dex", "arg": 0}, {"op": "bne", "arg": 2}, {"op": "brk", "arg": 0},
            {"op": "iny", "arg": 0}, {"op": "nop", "arg": 0}, {"op": "rts", "arg": 0}]
    return {"name": "twofile", "prog": prog, "lines": [2, 3, 4, 5, 6, 1001, 1002, 1003], "source": main, "files": {"lib.asm": lib},
            "sets": {"A": [4], "B": [1002], "None": []}}


def pushcall_program(rnd):
    """stepOut requested between pha and pla, and the subroutine calls another one afterwards (B = the line between them)."""
    p = [I("lda", 5), I("jsr", "s"), I("nop"), I("brk"), I("pha", 0, "s"), I("iny"), I("pla"), I("jsr", "inner"), I("iny"), I("rts"),
         I("inx", 0, "inner"), I("rts")]
    pg = plain("pushcall", p, "nop", "iny")
    return pg


def probe_program(rnd):
    """Long enough (in instructions) that a perturbed machine is still inside the loop 60-120 ms after configurationDone
    (the machine thread first sleeps up to 50 ms in its Launching branch): breakpoints installed DURING the free run."""
    n = rnd.choice([22, 26, 30])
    p = [I("ldx", n), I("jsr", "sub", "loop"), I("dex"), I("bne", "loop"), I("brk"), I("iny", 0, "sub"), I("rts")]
    return plain("probeloop", p, "dex", "iny")


def long_program(rnd):
    """Runs for a few thousand instructions so that a pause can land on a machine that runs at full speed."""
    outer = rnd.choice([3, 4, 5])
    p = [I("ldy", outer), I("ldx", 250, "o"), I("dex", 0, "i"), I("bne", "i"), I("jsr", "s"), I("dey"), I("bne", "o"), I("brk"),
         I("nop", 0, "s"), I("rts")]
    return plain("long", p, "dey", "nop")


def resolve(prog):
    lab = {ins["label"]: k + 1 for k, ins in enumerate(prog) if ins["label"]}
    return [{"op": ins["op"], "arg": lab[ins["arg"]] if isinstance(ins["arg"], str) else ins["arg"]} for ins in prog]


def render(prog):
    """One instruction per line; instruction k sits on source line k + 1 (1-based)."""
    out = ['.test "t" {']
    for ins in prog:
        op, a = ins["op"], ins["arg"]
        txt = op if op in ("inx", "iny", "dex", "dey", "nop", "pha", "pla", "rts", "brk") else \
            ("%s #%d" % (op, a) if op in ("lda", "ldx", "ldy") else "%s %s" % (op, a))
        out.append("    %s%s" % ((ins["label"] + ": ") if ins["label"] else "", txt))
    out.append("}")
    return "\n".join(out) + "\n", [k + 2 for k in range(len(prog))]


def line_of(prog, lines, op, nth=0):
    ks = [k for k, ins in enumerate(prog) if ins["op"] == op]
    return lines[ks[min(nth, len(ks) - 1)]]


# ------------------------------------------------------------------ cases

def tlc_scripts(tier):
    out = os.path.join(V.workdir("C19-cases"), "scripts-%s.ndjson" % tier)
    if os.path.exists(out):
        os.remove(out)
    r = V.tlc_must_pass(os.path.join(SPEC, "DebuggerCases.tla"), cfg=os.path.join(SPEC, "DebuggerCases_%s.cfg" % tier),
                        env={"OUT": out}, workers=1, tag="C19-cases")
    rows = V.read_ndjson(out)
    if not rows:
        raise V.ToolError("DebuggerCases produced no scripts")
    return rows


def instantiate(case, pg, rnd, slow, late=False):
    sets = pg["sets"]
    steps = []
    for a in case["script"]:
        gap = rnd.choice([0.0, 0.0, 0.002, 0.01, 0.03])
        if a.startswith("setBps"):
            # late: the request must arrive while the machine thread is in its run loop (it sleeps <= 50 ms before it starts)
            steps.append({"a": "setBps", "lines": sets[a[6:]], "delay": rnd.choice([0.06, 0.07, 0.085, 0.1, 0.12]) if late and not steps else rnd.choice([0, 0, 0.001, 0.004])})
        elif a == "pause":
            # full speed: the machine thread wakes <= 50 ms after start and runs ~1 ms
            steps.append({"a": a, "delay": rnd.choice([0, 0, 0.0005, 0.002, 0.005, 0.012, 0.025]) if slow else rnd.choice([0.0498, 0.0501, 0.0504, 0.0507, 0.051, 0.0513]), "gap": gap})
        elif a == "runstep":
            steps.append({"a": a, "delay": rnd.choice([0.06, 0.07, 0.085, 0.1, 0.12]), "gap": gap})
        else:
            steps.append({"a": a, "delay": rnd.choice([0, 0, 0, 0.001]), "gap": gap})
    return sets[case["bps0"]], steps


# ------------------------------------------------------------------ driving

def run_worker(widx, mos, jobs, perturb, results, errors):
    d = V.fresh_dir("C19-w%d" % widx)
    D.write_project(d, '.test "t" {\n    nop\n    brk\n}\n')
    trace = os.path.join(d, "hook.ndjson")
    env = {"MOS_VERIF_TRACE": trace}
    if perturb:
        env["MOS_VERIF_PERTURB"] = perturb
    port = D.free_port()
    m = D.MosLsp(mos, d, port, env=env)
    try:
        if not m.initialize():
            errors.append("worker %d: LSP initialize failed: %s" % (widx, m.stderr_text()[-400:]))
            return
        n = 0
        for job in jobs:
            ws = os.path.join(d, "s%d" % job["id"])
            src = D.write_project(ws, job["source"])
            for fn, text in job.get("files", {}).items():
                open(os.path.join(ws, fn), "w").write(text)
            try:
                s = D.ScriptSession(port, ws, src, lines_default=job.get("linesDefault", False), bp_column=job.get("bpColumn"))
            except ConnectionError as e:
                errors.append("worker %d: %s after %d sessions; stderr: %s; threads: %s" % (widx, e, n, " | ".join(l for l in m.stderr_text().splitlines() if "listening on port" not in l)[-900:], [(t["comm"], t["state"], t["wchan"]) for t in m.threads()]))
                return
            s.run(job["bps0"], job["steps"])
            results[job["id"]] = {"obs": D.observations(s.dap.log, s.probe_seqs, s.alive_marks), "failed": s.failed, "n": n, "worker": widx, "log": s.dap.log}
            n += 1
        time.sleep(0.1)
    finally:
        m.kill()
    hooks = D.split_hook_log(trace)
    for job in jobs:
        r = results.get(job["id"])
        if r is not None:
            r["hook"] = hooks[r["n"]] if r["n"] < len(hooks) else []
            r["stderr"] = m.stderr_text()[-600:] if r["failed"] else ""


def design_level(rep, tier, devs):
    mc = os.path.join(SPEC, "MC_Debugger.tla")
    sfx = "_quick" if tier == "quick" else ""
    # the pinned reading: the deviations of the open findings; its properties are weakened only by the witness of an open PauseRace
    ideal_inv = ["TypeOK", "StoppedIsHalted", "InspectConsistent", "NoSkippedBreakpoint", "NoSkipAfterProbe", "StepExact"]   # (StepEndsTest / files: own small configurations)
    impl_inv = ["TypeOK", "StoppedIsHalted_impl", "InspectConsistent_impl", "NoSkippedBreakpoint", "NoSkipAfterProbe", "StepExact_impl", "AtMostOneInFlight"]
    pcfg = os.path.join(V.workdir("C19-cfg"), "MC_Debugger_pinned%s.cfg" % sfx)
    with open(pcfg, "w") as f:
        f.write("SPECIFICATION Spec\nCONSTANTS LibLines <- NoLib  Lines <- Id7  Prog <- ProgLoopSub  BpSets <- %s  MaxReq = %d  Fuel = 40\nCONSTANT Deviations = %s\n" % (
            "Bps2" if tier == "quick" else "Bps3", 3 if tier == "quick" else 4, D.tla_set(devs)))
        inv = impl_inv if "PauseRace" in devs else ideal_inv
        if "SetBreakpointsForgetsOtherFiles" in devs:
            inv = [i + "_files" if i in ("NoSkippedBreakpoint", "NoSkipAfterProbe") else i for i in inv]
        f.write("".join("INVARIANT %s\n" % i for i in inv))
    runs = [("ideal", os.path.join(SPEC, "MC_Debugger_ideal%s.cfg" % sfx), "Deviations = {}: StoppedIsHalted, InspectConsistent, NoSkippedBreakpoint, NoSkipAfterProbe, StepExact")]
    if devs:
        runs.append(("pinned", pcfg, "Deviations = %s (open findings): the same properties%s" % (D.tla_set(devs), " weakened only by the race witness, AtMostOneInFlight" if "PauseRace" in devs else "")))
    else:
        rep.notes.append("no open finding: the pinned reading is the ideal reading")
    for name, cfgp, must in runs:
        r = V.tlc(mc, cfg=cfgp, workers=5, timeout=1500, tag="C19-mc-" + name, xmx="6g")
        rep.add_tlc(r)
        if r.invariant_violated:
            rep.violations.append({"why": "design level: MC_Debugger_%s%s invariant violated" % (name, sfx), "replay": {"tlc_output": V.tail(r.out, 120)}, "id": "MC_Debugger_" + name})
            return
        if r.rc != 0 or "Error:" in r.out:
            raise V.ToolError("MC_Debugger_%s failed:\n%s" % (name, V.tail(r.out, 40)))
        rep.notes.append("MC_Debugger %s%s: %d distinct states, depth %d; %s hold" % (name, sfx, r.distinct, r.depth, must))
    r = V.tlc(mc, cfg=os.path.join(SPEC, "MC_Debugger_dup.cfg"), workers=3, timeout=600, tag="C19-mc-dup")
    rep.add_tlc(r)
    if r.invariant_violated:
        rep.violations.append({"why": "design level: MC_Debugger_dup invariant violated", "replay": {"tlc_output": V.tail(r.out, 120)}, "id": "MC_Debugger_dup"})
        return
    if r.rc != 0 or "Error:" in r.out:
        raise V.ToolError("MC_Debugger_dup failed:\n%s" % V.tail(r.out, 40))
    rep.notes.append("MC_Debugger_dup (one source line = two instructions, breakpoints by line): %d distinct states; all properties hold" % r.distinct)
    # counterexamples that must exist: the recorded findings as violations of the ideal reading, and vacuity witnesses
    for name in ("push_ideal", "next_ideal", "next_ideal2", "stepend_ideal", "files_ideal", "pushcall_ideal", "steprun_ideal"):
        r = V.tlc(mc, cfg=os.path.join(SPEC, "MC_Debugger_%s.cfg" % name), workers=3, timeout=600, tag="C19-mc-" + name)
        rep.add_tlc(r)
        if r.invariant_violated or r.rc != 0:
            raise V.ToolError("MC_Debugger_%s (steps that count call depth) failed:\n%s" % (name, V.tail(r.out, 30)))
    # binding demonstration: every deviation, switched on, is refuted by TLC on the ideal properties
    for name, what in (("race", "PauseRace: StoppedIsHalted fails on the implementation-shaped reading"),
                       ("race_insp", "PauseRace seen by the client: stackTrace/variables disagree"),
                       ("push", "StepOutReadsTopOfStack: StepExact fails when the subroutine pushed data"),
                       ("cex_stepout_sp", "hypothetical StepOutComparesStackDepth: stepOut between push and pull stops behind a nested call's rts"),
                       ("cex_steprun", "StepRacesMachineThread: a step sent while running lets the machine thread execute an unchecked instruction"),
                       ("cex_stepend", "StepSwallowsTestEnd: a step on brk does not end the test"),
                       ("cex_stepfail", "StepSwallowsTestEnd: a step on a failing assertion does not end the test"),
                       ("cex_files", "SetBreakpointsForgetsOtherFiles: a free run passes the other file's breakpoint"),
                       ("cex_next_recur", "NextIgnoresCallDepth: next over a recursive call stops inside the nested call"),
                       ("cex_next_adjacent", "NextIgnoresCallDepth: next over a call to the subroutine right behind it stops at its first instruction"),
                       ("self", "one-instruction loop: breakpoint not re-checked (NoSkippedBreakpoint fails)"),
                       ("cex_dup", "hypothetical FirstPcOnly: a breakpoint on a line assembled twice covers only the first copy (NoSkippedBreakpoint fails)"),
                       ("cex_stale", "hypothetical StaleBpCopy: breakpoints installed during a free run are not seen (NoSkipAfterProbe fails)"),
                       ("vac_probe", "some behaviour probes a running machine with a breakpoint armed"),
                       ("vac_stop", "some behaviour stops"), ("vac_term", "some behaviour runs to the end"),
                       ("vac_out", "some behaviour steps out of a subroutine")):
        r = V.tlc(mc, cfg=os.path.join(SPEC, "MC_Debugger_%s.cfg" % name), workers=3, timeout=600, tag="C19-mc-" + name)
        rep.add_tlc(r)
        if not r.invariant_violated:
            raise V.ToolError("expected counterexample missing (%s): %s\n%s" % (name, what, V.tail(r.out, 20)))
        if name == "race":
            acts = [l.split("<")[1].split(" ")[0] for l in r.out.splitlines() if l.startswith("State ") and "<" in l and "Initial" not in l]
            rep.notes.append("pause race counterexample of the ideal reading (%d steps): %s" % (len(acts), " ".join(acts)))
    rep.notes.append("expected counterexamples found: race, race_insp, push (stepOut over pushed data), self (one-instruction loop), 3 vacuity witnesses")


def main(tier):
    rep = V.Report("C19", tier)
    devs = pinned(rep, "C19")
    mos = V.build_mos()
    design_level(rep, tier, devs)
    rnd = V.rng("C19")
    scripts = tlc_scripts(tier)
    nsess = 260 if tier == "quick" else 1800
    nlong = 20 if tier == "quick" else 100
    jobs, meta = [], {}
    nprobe = 36 if tier == "quick" else 150
    picks = scripts if len(scripts) <= nsess else None
    allscripts = scripts
    through = [c for c in scripts if c["family"] == "runthrough"]
    nextover = [c for c in scripts if c["family"] == "nextover"]
    evalmem = [c for c in scripts if c["family"] == "evalmem"]
    scripts = [c for c in scripts if c["family"] == "general"]
    probe_scripts = [c for c in scripts if "probe" in c["script"]]
    pause_scripts = [c for c in scripts if "pause" in c["script"] and "probe" not in c["script"]]

    def add(i, case, pg, kind, slow, late=False):
        bps0, steps = instantiate(case, pg, rnd, slow, late)
        jobs.append({"id": i, "source": pg["source"], "files": pg.get("files", {}), "bps0": bps0, "steps": steps, "kind": kind,
                     "linesDefault": case["family"] == "linesdefault", "bpColumn": 5 if case["family"] == "column" else None})
        meta[i] = {"prog": pg["prog"], "lines": pg["lines"], "fuel": 4000 if kind == "fast" else 400, "name": pg["name"], "case": case, "source": pg["source"]}
    for i in range(1, nsess + 1):
        add(i, picks[(i - 1) % len(picks)] if picks else rnd.choice(scripts), rnd.choice(programs(rnd)), "slow", True)
    for i in range(nsess + 1, nsess + nlong + 1):
        add(i, rnd.choice(pause_scripts), long_program(rnd), "fast", False)
    for i in range(nsess + nlong + 1, nsess + nlong + nprobe + 1):
        # breakpoints installed while the machine runs freely, anchored by a reading of the running machine's registers
        add(i, probe_scripts[(i - nsess - nlong - 1) % len(probe_scripts)], probe_program(rnd), "probe", True, late=True)
    i = nsess + nlong + nprobe
    for case in sorted(through, key=lambda c: (c["bps0"], len(c["script"]))):
        # every copy of a line that is assembled several times must stop the machine (always driven, independent of the seed)
        for mk in (dup_loop, dup_macro):
            i += 1
            add(i, case, mk(rnd), "slow", True)
    for case in sorted(nextover, key=lambda c: len(c["script"])):
        for mk in (recur_program, adjacent_program):
            i += 1
            add(i, case, mk(rnd), "slow", True)
    fam = lambda name: sorted([c for c in allscripts if c["family"] == name], key=lambda c: json.dumps(c["script"]))
    for case in fam("stepoutpush"):
        i += 1
        add(i, case, pushcall_program(rnd), "slow", True)
    for case in fam("steprun"):
        for _ in range(3):
            i += 1
            add(i, case, probe_program(rnd), "probe", True, late=True)
    for case in fam("column"):
        # "    dex": the mnemonic starts in column 5 (1-based, the session announces columnsStartAt1)
        i += 1
        add(i, case, plain("loopsub", [I("ldx", 3), I("jsr", "sub", "loop"), I("dex"), I("bne", "loop"), I("brk"), I("iny", 0, "sub"), I("rts")], "dex", "iny"), "slow", True)
    for case in fam("stepend"):
        for pg in end_programs(rnd):
            i += 1
            add(i, case, pg, "slow", True)
    for case in fam("twofile"):
        for _ in range(3):
            i += 1
            add(i, case, twofile_program(rnd), "slow", True)
    for case in fam("linesdefault"):
        i += 1
        add(i, case, programs(rnd)[0], "slow", True)
    for case in fam("malformed"):
        # each in a process of its own: on a tree where the request panics the handler the debug thread is gone afterwards
        i += 1
        add(i, case, programs(rnd)[0], "solo", True)
    for case in evalmem:
        # in a process of its own: on a tree where the read past $ffff panics the debug thread is gone afterwards
        i += 1
        add(i, case, programs(rnd)[0], "evalmem", True)
    # workers: one unperturbed process (full-speed machine, long programs), the others with seeded sleeps at the hook's gate points
    sd = V.seed()
    perturbs = [None, None, "%d:400:500" % (sd * 7 + 1), "%d:1500:1000" % (sd * 7 + 2), "%d:3000:600" % (sd * 7 + 3), "%d:800:1000" % (sd * 7 + 4)]
    buckets = [[] for _ in perturbs]
    for j in jobs:
        if j["kind"] == "fast":
            buckets[0].append(j)
        elif j["kind"] == "evalmem":
            buckets[1].append(j)
        elif j["kind"] == "solo":
            perturbs.append(None)
            buckets.append([j])
        elif j["kind"] == "probe":
            buckets[3 + j["id"] % 3].append(j)        # the three slowest machines (>= 0.8 ms per instruction on average)
        else:
            buckets[2 + j["id"] % (len(perturbs) - 2)].append(j)
    results, errors, ths = {}, [], []
    t0 = time.time()
    for w, (pb, js) in enumerate(zip(perturbs, buckets)):
        th = threading.Thread(target=run_worker, args=(w, mos, js, pb, results, errors))
        th.start()
        ths.append(th)
    for th in ths:
        th.join()
    V.log("[C19] %d sessions driven in %.1fs (%d worker processes)" % (len(results), time.time() - t0, len(perturbs)))
    if errors or len(results) < len(jobs) * 0.9:
        raise V.ToolError("driving failed: %s (%d of %d sessions)" % ("; ".join(errors[:3]), len(results), len(jobs)))
    recs, hooked = [], 0
    for i, r in sorted(results.items()):
        mt = meta[i]
        hooked += bool(r["hook"])
        recs.append(V.clip_tree({"id": i, "prog": mt["prog"], "lines": mt["lines"], "base": BASE, "fuel": mt["fuel"], "obs": r["obs"], "hook": r["hook"], "devs": devs,
                                   "linesDefault": bool([j for j in jobs if j["id"] == i][0].get("linesDefault"))}))
    # binding self-test: one corrupted field in a known-good record must be rejected by the judge
    probe = None
    for rec in recs:
        snaps = [k for k, o in enumerate(rec["obs"]) if o["k"] == "snap" and o["hasFrame"]]
        if snaps and rec["fuel"] == 400:
            probe = json.loads(json.dumps(rec))
            probe["id"] = 10 ** 6
            probe["hook"] = []
            probe["obs"][snaps[-1]]["x"] += 1
            break
    # No snapshot at all (e.g. the adapter never reports a stop) is an observation: the sessions are judged, the unanswered ones are
    # reported below; only when nothing at all could be judged is it a tool error, and only after the verdicts.
    verdicts, st = V.judge(os.path.join(SPEC, "DebuggerTrace.tla"), recs + ([probe] if probe else []), cfg=os.path.join(SPEC, "DebuggerTrace.cfg"),
                           tag="C19-judge", batch=150, timeout=1500)
    rep.add_stats(st)
    if probe and not any(v["id"] == 10 ** 6 and v["verdict"] == "violation" for v in verdicts):
        raise V.ToolError("binding self-test failed: a snapshot with a corrupted register was accepted by DebuggerTrace")
    info = {}
    nsnap = sum(1 for r in recs for o in r["obs"] if o["k"] == "snap")
    for v in verdicts:
        if v["id"] == 10 ** 6:
            continue
        if v["verdict"] == "info":
            info[v["dev"]] = info.get(v["dev"], 0) + int(v["why"])
            continue
        r = results[v["id"]]
        rep.verdict(v, {"source": meta[v["id"]]["source"], "case": meta[v["id"]]["case"], "steps": [j for j in jobs if j["id"] == v["id"]][0]["steps"],
                        "observations": r["obs"], "hook": r["hook"][:400], "judge": "spec/Debugger/DebuggerTrace.tla", "why": v.get("why")})
    lost = [i for i, r in results.items() if r["failed"]]
    for i in lost[:5]:
        # a session that stops answering is an observation (not a tool error): no action of the model leaves a request unanswered
        rep.verdict({"id": i, "verdict": "violation", "dev": "", "why": "debug session failed: %s; stderr: %s" % (results[i]["failed"], results[i].get("stderr", ""))},
                    {"source": meta[i]["source"], "steps": [j for j in jobs if j["id"] == i][0]["steps"], "observations": results[i]["obs"]})
    rep.cov["traces_validated_against_impl"] = len(recs)
    rep.cov["evaluations"] = nsnap
    rep.cov["distinct_nontrivial"] = len({json.dumps([meta[r["id"]]["name"], meta[r["id"]]["case"], [o for o in r["obs"] if o["k"] != "snap"]], sort_keys=True) for r in recs})
    rep.cov["rule"] = ("debug sessions = TLC-enumerated client scripts (DebuggerCases, <= %d requests, 3 initial breakpoint choices) x 5 program shapes (loop+subroutine, nested "
                       "subroutines, subroutine that pushes, a line inside .loop n, a line inside a macro invoked n times) with seeded delays, plus probe scripts (setBreakpoints during "
                       "the free run of a 110-150 instruction loop, anchored by a Registers reading of the running machine), driven through the DAP socket of 4 perturbed and 1 full-speed mos lsp processes; "
                       "evaluations = snapshots (stackTrace+Registers+evaluate) judged; distinct = distinct (program shape, script, protocol event sequence)" % (3 if tier == "quick" else 4))
    rep.cov["probes_anchored_mid_run"] = info.get("ProbeAnchored", 0)
    rep.cov["sessions_with_hook_log"] = hooked
    rep.cov["hook_events_replayed"] = info.get("HookEventsReplayed", 0)
    rep.cov["race_instances_in_hook_logs"] = info.get("RaceAtHookLevel", 0)
    if hooked == 0:
        rep.notes.append("hooks not present in this tree (checks/C19/hooks.patch not applied): protocol-level verdict only, no perturbation, no tier-2 replay")
    for r in recs[:3]:
        rep.sample({"program": meta[r["id"]]["source"], "script": meta[r["id"]]["case"], "observations": r["obs"][:12]})
    rep.assumptions += ["the machine is deterministic: CYC (Registers scope) names the instant of the uninterrupted run the registers belong to",
                        "one instruction per source line: the frame's line contains the pc iff it is the line of that instruction (renderer table is data)",
                        "a breakpoint installed while the machine runs gets one iteration of grace (only breakpoints in force for the whole free run are required to stop it)",
                        "stepOut outside any subroutine is unspecified (any position at or after the current one is accepted)",
                        "a stopped event older than the client's last continue is ignored, as in Debugger.tla's client"]
    rc = rep.finish()
    if probe is None and rc == V.EXIT_OK:
        V.log("TOOL-ERROR: no session produced a snapshot and nothing was reported: nothing was observed")
        return V.EXIT_TOOL
    return rc


if __name__ == "__main__":
    V.main_wrapper(main)
