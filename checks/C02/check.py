#!/usr/bin/env python3
"""C02 - a successful build is a fixed point: labels are addresses, operands final.

spec/Asm/Asm.tla       pass machine + reference semantics Ref (one frozen walk under a symbol valuation)
spec/Asm/MC_Asm.tla    design level: all small programs on the zero-page boundary, pass loop to convergence
spec/Asm/AsmTrace.tla  judge: observed final symbols/segments/VICE file vs Ref under the observed symbols
"""
import os
import re
import sys

sys.path.insert(0, os.path.join(os.path.dirname(os.path.abspath(__file__)), "..", "..", "lib"))
import vplib as V
import asmgen as G

SPEC = os.path.join(V.SPEC, "Asm")


def parse_vice(text):
    out = []
    for line in (text or "").splitlines():
        m = re.match(r"al C:([0-9A-Fa-f]+) \.(.*)$", line)
        if m:
            a = int(m.group(1), 16)
            out.append({"addr": a - (1 << 64) if a >= (1 << 63) else a, "path": m.group(2)})     # (a negative value is printed as 64-bit hex)
    return out


def observe_record(cid, prog, o, pc0):
    """Reshape one asmdrive observation into the record AsmTrace.tla reads (no judging here)."""
    syms = [s for s in (o.get("symbols") or [])]
    ok = bool(o["ok"])
    if ok and not G.assign_anon_scopes(prog, [s["path"] for s in syms], o.get("scopes")):
        return None
    return {"id": cid, "prog": G.tla_ready(prog), "pc0": pc0, "ok": ok,
            "syms": [{"path": s["path"], "ty": s["ty"], "kind": s["kind"], "val": s["val"]} for s in syms] if ok else [],
            "segs": [{"name": s["name"], "start": s["start"], "end": s["end"], "pc": s["pc"], "bytes": s["bytes"]} for s in (o.get("segments") or [])] if ok else [],
            "vice": parse_vice(o.get("vice")) if ok else [], "hasVice": ok and o.get("vice") is not None}


def design_level(rep, tier):
    mc = os.path.join(SPEC, "MC_Asm.tla")
    cfg = os.path.join(SPEC, "MC_Asm_export_quick.cfg" if tier == "quick" else "MC_Asm_export_thorough.cfg")
    out = os.path.join(V.workdir("C02"), "mcasm-programs.ndjson")
    if os.path.exists(out):
        os.remove(out)
    # (-coverage is prohibitively slow on the recursive walker; vacuity is shown by the witness runs below)
    r = V.tlc(mc, cfg=cfg, env={"OUT": out}, workers=8, timeout=3000, tag="C02-mc", xmx="12g")
    rep.add_tlc(r)
    if r.invariant_violated:
        rep.violations.append({"why": "design level: MC_Asm invariant violated (FixedPoint/Terminates)", "replay": {"tlc_output": V.tail(r.out, 80), "cfg": cfg}, "id": "MC_Asm"})
        return
    if r.rc != 0 or "Error:" in r.out:
        raise V.ToolError("MC_Asm failed:\n" + V.tail(r.out, 40))
    rep.notes.append("MC_Asm (%s): %d distinct states, depth %d; invariants FixedPoint, Terminates hold" % (os.path.basename(cfg), r.distinct, r.depth))
    rep.mc_programs = [e["prog"] for e in V.read_ndjson(out)]
    for w in ("ok", "failed", "four", "osc", "stale", "noseg"):
        rv = V.tlc(mc, cfg=os.path.join(SPEC, "MC_Asm_vac_%s.cfg" % w), workers=4, timeout=600, tag="C02-vac-" + w)
        if not rv.invariant_violated:
            raise V.ToolError("vacuous MC_Asm space: no run reaches '%s'" % w)
    rep.notes.append("vacuity witnesses: runs ending ok, ending failed and needing >= 4 passes all exist in the explored space; "
                     "with a constant that shrinks as its label moves up (MC_Asm_vac_osc) TLC exhibits a program without any fixed point "
                     "(`* = 97 / .text \"{c}\" / nop / .const c = 109 - b / b:`), which only the pass bound ends; in the pinned reading that keeps the "
                     "symbols of earlier passes (MC_Asm_vac_stale) TLC refutes FixedPoint with a forward-reference `.if` that renumbers macro scopes; "
                     "in the pinned reading that drops code in front of the first segment definition in silence (MC_Asm_vac_noseg) it refutes it too")


def main(tier):
    rep = V.Report("C02", tier)
    V.build_harness(["asmdrive"])
    design_level(rep, tier)
    rnd = V.rng("C02")
    nprog = 1500 if tier == "quick" else 12000
    cases, progs, pfiles = [], {}, {}
    for i in range(1, nprog + 1):
        files = {}
        if i % 5 == 0:
            # programs made of constructs (loops, conditionals - also on forward references -, macros, constants, scopes, imports):
            # a successful build of those is a fixed point as well
            prog, files = G.Gen7(rnd, depth=3).program()
        else:
            g = G.Gen(rnd, rnd.randrange(6, 40), segments=(i % 3 == 0))
            prog = g.program()
        G.number_statements(prog)
        for k, fn in enumerate(sorted(files), 1):
            c = [100000 * k]

            def f(st, scope):
                c[0] += 1
                st["n"] = c[0]
            G.walk(files[fn], f)
        src = G.render(prog)
        pc0 = 0x2000
        cases.append({"id": i, "files": dict({fn: G.render(fp) for fn, fp in files.items()}, **{"main.asm": src}), "pc": pc0, "want": ["segments", "symbols", "vice", "passes"], "max_passes": 60})
        progs[i] = (prog, src, pc0)
        pfiles[i] = files
    # spec -> implementation: the program space TLC explored at design level (every program of the five small families) goes
    # through the real assembler too and is judged like the generated programs (thorough: a seeded third of it)
    mcp = getattr(rep, "mc_programs", [])
    if tier != "quick":
        mcp = [p for p in mcp if rnd.random() < 0.34]
    # ... and the programs of the first family once more without their leading `* = $fc` (a program that never sets the
    # program counter needs one pass less: nothing but its own references can force the confirming pass)
    mcp = mcp + [tp[1:] for tp in mcp if len(tp) > 1 and tp[0]["k"] == "setpc" and tp[0]["sid"] == "org" and tp[0]["e"].get("n") == 252]
    for k, tp in enumerate(mcp):
        i = 1_000_000 + k
        prog = G.from_tla(tp)
        G.separate_label_from_braces(prog)       # (`b:` directly followed by `{` would be ONE statement to the parser: a nop goes between)
        G.number_statements(prog)
        src = G.render(prog)
        cases.append({"id": i, "files": {"main.asm": src}, "pc": 0x2000, "want": ["segments", "symbols", "vice", "passes"], "max_passes": 60})
        progs[i] = (prog, src, 0x2000)
        pfiles[i] = {}
    rep.cov["design_level_programs_replayed"] = len(mcp)
    only = os.environ.get("C02_ONLY")          # diagnosis: restrict to some case ids (the generator stream stays the same)
    if only:
        keep = {int(x) for x in only.split(",")}
        cases = [c for c in cases if c["id"] in keep]
    obs, p = V.run_harness("asmdrive", cases, "C02-drive")
    if len(obs) != len(cases):
        raise V.ToolError("asmdrive produced %d of %d observations: %s" % (len(obs), len(cases), p.stderr[-2000:]))
    recs, omap, nok, skipped = [], {}, 0, 0
    for o in obs:
        prog, src, pc0 = progs[o["id"]]
        omap[o["id"]] = o
        rec = observe_record(o["id"], prog, o, pc0)
        if rec is None:
            skipped += 1
            continue
        if rec["ok"] and not G.assign_file_scopes(pfiles[o["id"]], o.get("file_scopes")):
            skipped += 1
            continue
        nok += rec["ok"]
        rec["files"] = dict({fn: G.tla_ready(fp) for fn, fp in pfiles[o["id"]].items()}, **{"_": []})
        recs.append(V.clip_tree(rec))
    V.log("[C02] %d programs, %d built successfully, %d skipped (anonymous scopes not matchable)" % (len(cases), nok, skipped))
    if nok < len(cases) // 10:
        raise V.ToolError("too few generated programs build (%d of %d): generator or tree broken" % (nok, len(cases)))
    # tier 2: the per-pass observations of the real loop against the pass machine (drift only, never a verdict)
    precs = []
    for rec in recs:
        o = omap[rec["id"]]
        if not o.get("passes") or o.get("panic") or o.get("stopped_by_observer") or o["parse_diags"]:
            continue
        if not rec["ok"]:
            # a rejected program: the machine must fail the same way; name its anonymous scopes from the last pass's table
            prog = progs[rec["id"]][0]
            if not G.assign_anon_scopes(prog, [s["path"] for p in o["passes"] for s in p["symbols"]], o.get("scopes")):
                continue
            rec = dict(rec, prog=G.tla_ready(prog))
        pr = dict(rec)
        pr["passes"] = [{"syms": [{"path": s["path"], "kind": s["kind"], "val": s["val"]} for s in p["symbols"]],
                         "undefined": sorted({u["id"] for u in p["undefined"]}), "nerrors": len(p["errors"]),
                         "segs": [{"name": s["name"], "pc": s["pc"]} for s in p["segments"]]} for p in o["passes"]]
        pr["ended"] = "ok" if rec["ok"] else "failed"
        precs.append(V.clip_tree(pr))
    prow, pst = V.judge(os.path.join(SPEC, "PassTrace.tla"), precs[:1500 if tier == "quick" else 12000], cfg=os.path.join(SPEC, "PassTrace.cfg"), tag="C02-passes", batch=400, timeout=3000)
    rep.add_stats(pst)
    rep.cov["pass_traces_validated"] = min(len(precs), 1500 if tier == "quick" else 12000)
    rep.cov["pass_machine_drift"] = len(prow)
    for v in prow:
        rep.verdict(v, {})
    verdicts, st = V.judge(os.path.join(SPEC, "AsmTrace.tla"), recs, cfg=os.path.join(SPEC, "AsmTrace.cfg"), tag="C02-judge", batch=1500, timeout=3000)
    rep.add_stats(st)
    rep.cov["traces_validated_against_impl"] = nok
    rep.cov["evaluations"] = len(cases)
    rep.cov["distinct_nontrivial"] = len({progs[r["id"]][1] for r in recs if r["ok"]})
    rep.cov["rule"] = ("seeded random programs of 6-40 statements (labels with/without blocks, braces, zp/abs instructions on symbol+-k, jmp, branches, "
                       "</> bytes, .byte/.word/.dword, * =, .align, constants, shadowed names, dotted/super paths, every 3rd with two segments one relocated) "
                       "placed on the zero-page boundary; distinct = distinct program texts that built successfully (only those are in C02's scope)")
    rep.cov["built_ok"] = nok
    rep.cov["skipped"] = skipped
    for r in [x for x in recs if x["ok"]][:3]:
        rep.sample({"program": progs[r["id"]][1], "symbols": {s["path"]: s["val"] for s in r["syms"]}, "segments": [[s["name"], s["start"], s["end"]] for s in r["segs"]]})
    rep.assumptions += ["the verdict needs only final symbols, segments and the VICE text; how many passes ran is irrelevant to it",
                        ".align may pad either 0 or n bytes at an already aligned pc (both accepted)",
                        "programs whose build fails are outside C02's antecedent and are not judged here"]
    for v in verdicts:
        cid = v["id"]
        rep.verdict(v, {"program": progs[cid][1], "observation": omap[cid], "judge": "spec/Asm/AsmTrace.tla", "why": v.get("why")})
    return rep.finish()


if __name__ == "__main__":
    V.main_wrapper(main)
