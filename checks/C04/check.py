#!/usr/bin/env python3
"""C04 - invalid programs are rejected at the offending location and produce no binary.

spec/Build/Build.tla   the steps of `mos build`, invariant: a failing build writes nothing (TLC, all failure points)
spec/Asm/Fault.tla     fault fragments per class, injection at a site, prediction by the pass machine
spec/Asm/FaultTrace.tla TLC injects (spec -> impl) and judges the observed `mos build` runs
"""
import concurrent.futures
import hashlib
import os
import re
import shutil
import subprocess
import sys

sys.path.insert(0, os.path.join(os.path.dirname(os.path.abspath(__file__)), "..", "..", "lib"))
import vplib as V
import asmgen as G

SPEC = os.path.join(V.SPEC, "Asm")
CLASSES = ["undefsym", "undefmacro", "undefseg", "labelredef", "constredef", "illegalmode", "immrange", "branchrange", "arity", "malformed", "unclosed", "pastend", "textundef"]


def base_program(rnd):
    g = G.Gen7(rnd, depth=2)
    g.macros = [("mm", 1)]
    filler = lambda in_loop=False: g.body(2, in_loop, [], not in_loop)
    prog = [G.defseg("sg", G.num(0x2000, "hex")), G.const("k1", G.num(3))]      # an explicit segment, so that `.segment "sg" { }` blocks exist as a site
    g.consts.append("k1")
    prog.append(G.macrodef("mm", ["pp"], filler() + [G.insn("lda", "imm", G.ident(["pp"]))]))
    prog += [G.label("dat"), G.data(1, [G.num(1), G.num(2)])]
    sites = {}
    blocks = [("brace", G.braces(filler())), ("loop", G.loop(G.num(2), filler(True))), ("iftaken", G.if_(G.num(1), filler(), filler())),
              ("segblock", G.useseg("sg", filler()))]
    rnd.shuffle(blocks)
    for kind, st in blocks:
        prog += filler()
        prog.append(st)
        sites[kind] = st
    prog.append(G.import_("inc.asm"))
    prog.append(G.macrocall("mm", [G.num(1)]))
    prog += filler()
    prog += [G.label("tgt"), G.insn("rts")]
    top_limit = len(prog) - 2
    prog += [G.setpc(G.num(0x3000, "hex")), G.label("far"), G.insn("rts")]
    files = {"inc.asm": [G.label("ilab"), G.insn("lda", "imm", G.num(7)), G.insn("sta", "dir", G.ident(["ilab"])), G.insn("rts")]}
    G.separate_label_from_braces(prog)
    idx = {id(st): i + 1 for i, st in enumerate(prog)}
    site_list = [("top", "main", [], None)]
    for kind, st in sites.items():
        field = "then" if kind == "iftaken" else "body"
        site_list.append((kind, "main", [[idx[id(st)], field]], st[field]))
    mdef = [st for st in prog if st["k"] == "macrodef"][0]
    site_list.append(("macro", "main", [[idx[id(mdef)], "body"]], mdef["body"]))
    site_list.append(("imported", "inc.asm", [], files["inc.asm"]))
    return prog, files, site_list, top_limit


def render_any(prog):
    """render with support for raw text statements (faults the AST cannot express)"""
    out = []

    def rec(p, indent):
        for st in p:
            if st["k"] == "raw":
                st["line"] = len(out) + 1
                st["col"] = indent * 2 + 1
                out.append("  " * indent + st["text"])
            elif st["k"] in ("label", "braces", "loop", "macrodef", "useseg", "if", "import") and (st.get("hasBody", True)):
                hdr = G.render([dict(st, body=[], then=[], **{"else": []}, params=[])], indent).split("\n")
                # re-render structurally: header line(s), bodies, closer
                st["line"] = len(out) + 1
                st["col"] = indent * 2 + 1
                k = st["k"]
                pad = "  " * indent
                if k == "label":
                    out.append(pad + st["name"] + ": {"); rec(st["body"], indent + 1); out.append(pad + "}")
                elif k == "braces":
                    out.append(pad + "{"); rec(st["body"], indent + 1); out.append(pad + "}")
                elif k == "loop":
                    out.append(pad + ".loop " + G.render_expr(st["e"]) + " {"); rec(st["body"], indent + 1); out.append(pad + "}")
                elif k == "macrodef":
                    out.append(pad + ".macro %s(%s) {" % (st["name"], ", ".join(st["params"]))); rec(st["body"], indent + 1); out.append(pad + "}")
                elif k == "useseg":
                    out.append(pad + '.segment "%s" {' % st["name"]); rec(st["body"], indent + 1); out.append(pad + "}")
                elif k == "if":
                    out.append(pad + ".if " + G.render_expr(st["e"]) + " {"); rec(st["then"], indent + 1)
                    if st["hasElse"]:
                        out.append(pad + "} else {"); rec(st["else"], indent + 1)
                    out.append(pad + "}")
                elif k == "import":
                    out.extend(G.render([st], indent).rstrip("\n").split("\n"))
            else:
                lines = G.render([st], indent).rstrip("\n").split("\n")
                st["line"] = len(out) + 1
                st["col"] = indent * 2 + 1
                out.extend(lines)
    rec(prog, 0)
    return "\n".join(out) + "\n", out


def find_marked(prog, acc):
    for st in prog:
        if st.get("sid") in ("F1", "F2"):
            acc.append(st)
        for key in ("body", "then", "else"):
            if isinstance(st.get(key), list):
                find_marked(st[key], acc)
    return acc


def snapshot(d):
    out = []
    for name in sorted(os.listdir(d)):
        p = os.path.join(d, name)
        st = os.stat(p)
        out.append({"name": name, "sha": hashlib.sha1(open(p, "rb").read()).hexdigest(), "mtime": str(st.st_mtime_ns)})
    return out


DIAG = re.compile(r"^(?:(.*?):(\d+):(\d+): )?error: (.*)$")


def run_build(mos, root, cid, files):
    d = os.path.join(root, "p%s" % cid)
    shutil.rmtree(d, ignore_errors=True)
    os.makedirs(os.path.join(d, "target"))
    open(os.path.join(d, "mos.toml"), "w").write('[build]\nentry = "main.asm"\nlisting = true\nsymbols = ["vice"]\n')
    for fn, txt in files.items():
        open(os.path.join(d, fn), "w").write(txt)
    for fn in ("main.prg", "main.lst", "main.vs", "inc.lst"):
        open(os.path.join(d, "target", fn), "w").write("sentinel " + fn)
    before = snapshot(os.path.join(d, "target"))
    try:
        p = subprocess.run([mos, "--no-color", "-e", "Short", "build"], cwd=d, capture_output=True, text=True, timeout=60)
        rc, out = p.returncode, p.stdout
        hung = False
    except subprocess.TimeoutExpired:
        rc, out, hung = -9, "", True
    after = snapshot(os.path.join(d, "target"))
    diags = []
    for ln in out.splitlines():
        m = DIAG.match(ln.strip())
        if m:
            diags.append({"file": m.group(1) or "", "line": int(m.group(2) or 0), "col": int(m.group(3) or 0), "msg": m.group(4)})
    shutil.rmtree(d, ignore_errors=True)
    return {"exit": rc, "diags": diags, "before": before, "after": after, "crashed": hung or rc not in (0, 1), "stdout": out[-1500:]}


def grid_project(d, c, fault):
    """one project of the configuration grid of Build.tla: mos.toml, entry file (with banks), imported file, fault.
    Returns (file, line) of the fault (None for faults that are not in a source file)."""
    cfg = c["cfg"]
    entry = os.path.join(d, cfg["entry"])
    os.makedirs(os.path.dirname(entry), exist_ok=True)
    os.makedirs(os.path.join(d, "sub", "dir"), exist_ok=True)
    t = ['[build]', 'entry = "%s"' % cfg["entry"], 'target-directory = "%s"' % cfg["tdir"], 'listing = %s' % ("true" if cfg["listing"] else "false"),
         'symbols = [%s]' % ('"vice"' if cfg["symbols"] else "")]
    if cfg["fmt"] != "none":
        t.append('output-format = "%s"' % cfg["fmt"])
    if cfg["ofn"]:
        t.append('output-filename = "%s"' % cfg["ofn"])
    if fault == "config":
        t.append('no-such-option = 1')
    if fault == "bpl0":
        t += ['[formatting.listing]', 'num-bytes-per-line = 0']
    open(os.path.join(d, "mos.toml"), "w").write("\n".join(t) + "\n")
    src = []
    for b in range(1, cfg["banks"] + 1):
        src.append('.define bank { name = "b%d" create-segment = true }' % b)
    body = ["start: lda #1", "  sta start", "  rts"]
    if cfg["imports"]:
        body.append('.import * from "inc.asm"')
    if fault == "codegen":
        body.append("  jmp nowhere")
    if fault == "parse":
        body.append("  lda #")
    where = None
    if cfg["banks"] == 0:
        src += body
    else:
        src += ['.segment "b1" {'] + body
    if fault in ("codegen", "parse"):
        where = (os.path.basename(cfg["entry"]), len(src))
    if cfg["banks"] > 0:
        src += ["}"]
        for b in range(2, cfg["banks"] + 1):
            src += ['.segment "b%d" {' % b, "  .byte %d" % b, "}"]
    open(entry, "w").write("\n".join(src) + "\n")
    if cfg["imports"]:
        open(os.path.join(os.path.dirname(entry), "inc.asm"), "w").write("ilab: .byte 9\n" + ("  .byte ,\n" if fault == "importparse" else ""))
        if fault == "importparse":
            where = ("inc.asm", 2)
    return where


LOC = re.compile(r"([^\s:]+\.asm):(\d+):(\d+)")


def run_grid_case(mos, root, i, c, precreate):
    d = os.path.join(root, "g%d" % i)
    shutil.rmtree(d, ignore_errors=True)
    os.makedirs(d)
    where = grid_project(d, c, c["fault"])
    tdir = os.path.join(d, c["cfg"]["tdir"])
    if precreate:
        os.makedirs(tdir)
        for fn in c["all"]:
            open(os.path.join(tdir, fn), "w").write("sentinel " + fn)
    before = snapshot(tdir) if precreate else []
    cwd = d if c["cfg"]["cwd"] == "root" else os.path.join(d, "sub", "dir")
    try:
        p = subprocess.run([mos, "--no-color", "-e", c["cfg"]["style"], "build"], cwd=cwd, capture_output=True, text=True, timeout=60)
        rc, out, hung = p.returncode, p.stdout + p.stderr, False
    except subprocess.TimeoutExpired:
        rc, out, hung = -9, "", True
    exists = os.path.isdir(tdir)
    after = snapshot(tdir) if exists else []
    stray = os.path.isdir(os.path.join(cwd, c["cfg"]["tdir"])) and cwd != d      # outputs must not follow the working directory
    shutil.rmtree(d, ignore_errors=True)
    locs = [{"file": os.path.basename(m.group(1)), "line": int(m.group(2)), "col": int(m.group(3))} for m in LOC.finditer(out)]
    return {"id": i, "cfg": c["cfg"], "fault": c["fault"], "exit": rc, "crashed": hung or rc not in (0, 1), "dirBefore": precreate, "dirAfter": exists and not stray,
            "before": before, "after": after, "stdout": out[-800:], "locs": locs, "faultFile": where[0] if where else "", "faultLine": where[1] if where else 0}


def config_grid(rep, mos, grid, tier):
    """Build.tla's configuration grid (exported by TLC) against the real command; judged by BuildTrace.tla"""
    cases = V.read_ndjson(grid)
    if len(cases) < 1000:
        raise V.ToolError("TLC exported only %d configuration cases" % len(cases))
    rnd = V.rng("C04-grid")
    cases.sort(key=lambda c: V.json.dumps(c, sort_keys=True))
    if tier == "quick":
        faulty = [c for c in cases if c["fault"] in ("parse", "codegen", "importparse")]
        other = [c for c in cases if c["fault"] not in ("parse", "codegen", "importparse")]
        cases = rnd.sample(faulty, 260) + rnd.sample(other, 140)
    pre = [rnd.random() < 0.7 for _ in cases]
    root = V.fresh_dir("C04-grid")
    with concurrent.futures.ThreadPoolExecutor(max_workers=8) as ex:
        obs = list(ex.map(lambda k: run_grid_case(mos, root, k + 1, cases[k], pre[k]), range(len(cases))))
    shutil.rmtree(root, ignore_errors=True)
    recs = [{k: v for k, v in o.items() if k != "stdout"} for o in obs]
    verdicts, st = V.judge(os.path.join(V.SPEC, "Build", "BuildTrace.tla"), recs, cfg=os.path.join(V.SPEC, "Build", "BuildTrace.cfg"), tag="C04-gridjudge", batch=4000)
    rep.add_stats(st)
    rep.cov["config_grid_builds"] = len(recs)
    rep.cov["config_grid_failing_known_class"] = sum(1 for o in obs if o["fault"] in ("parse", "codegen", "importparse"))
    rep.cov["config_grid_successful"] = sum(1 for o in obs if o["exit"] == 0)
    if rep.cov["config_grid_successful"] < len(recs) // 10:
        raise V.ToolError("too few successful builds in the configuration grid: the projects are broken")
    omap = {o["id"]: o for o in obs}
    for v in verdicts:
        rep.verdict(v, {"configuration": omap[v["id"]]["cfg"], "fault": omap[v["id"]]["fault"], "observed": omap[v["id"]], "judge": "spec/Build/BuildTrace.tla", "why": v.get("why")})


def main(tier):
    rep = V.Report("C04", tier)
    mos = V.build_mos()
    # design level: the build command never writes before all checks passed, whatever step fails
    wdb = V.workdir("C04-build")
    grid = os.path.join(wdb, "grid.ndjson")
    if os.path.exists(grid):
        os.remove(grid)
    r = V.tlc_must_pass(os.path.join(V.SPEC, "Build", "MC_Build.tla"), cfg=os.path.join(V.SPEC, "Build", "Build.cfg"), env={"OUT": grid}, workers=2, coverage=True, deadlock=False, timeout=300, tag="C04-build")
    if r.coverage.get("IoFail", (1, 1))[0] == 0 and "IoFail" in r.coverage:
        raise V.ToolError("vacuous Build run: IoFail never taken")
    # the same safety property for every set of outputs: inductive invariant discharged by the TLA+ proof system (informational)
    try:
        import subprocess, re
        pp = subprocess.run(["timeout", "300", "tlapm", "--threads", "4", "BuildProof.tla"], cwd=os.path.join(V.SPEC, "Build"), capture_output=True, text=True)
        mm = re.search(r"All (\d+) obligations proved", pp.stdout + pp.stderr)
        rep.cov["tlaps_obligations_proved"] = int(mm.group(1)) if mm else 0
    except Exception:
        rep.cov["tlaps_obligations_proved"] = 0
    rep.add_tlc(r)
    config_grid(rep, mos, grid, tier)
    rnd = V.rng("C04")
    nbase = 12 if tier == "quick" else 80
    recs, bases = [], {}
    cid = 0
    for b in range(nbase):
        prog, files, sites, top_limit = base_program(rnd)
        G.number_statements(prog)
        for cls in CLASSES:
            for (kind, infile, path, lst) in sites:
                if tier == "quick" and rnd.random() < 0.5:
                    continue
                cid += 1
                pos = rnd.randrange(0, (top_limit if kind == "top" else len(lst)) + 1)
                if kind == "top" and rnd.random() < 0.15:
                    pos = 0         # in front of everything, also of the segment definition (the thorough tier found a defect there)
                if kind == "top" and cls == "labelredef":
                    pos = max(pos, 1)   # labels in front of the first segment definition are namespaces without a value (the
                                        # project's own examples use them so): two of them are not a redefinition
                # the variants that refer to `index` (faulty only in the first iteration) belong to loop bodies: elsewhere they
                # would be an undefined-symbol fault in disguise
                vv = rnd.randrange(4) if (kind == "loop" or cls not in ("immrange", "arity")) else rnd.randrange(2)
                if cls == "undefsym":
                    # (mm inside mm's own body is a recursion, mm in front of the segment definition emits code without a segment: other faults)
                    vv = rnd.choice([v for v in range(14) if not (v == 12 and (kind == "macro" or (kind == "top" and pos == 0)))])
                    # 4..7: the undefined name next to a `defined(..)` probe in one expression; 8..13: in
                                            # every other place a statement evaluates an expression (.align, * =, .loop, .const, macro argument, .word)
                recs.append({"id": cid, "prog": G.tla_ready(prog), "files": {fn: G.tla_ready(p) for fn, p in files.items()},
                             "class": cls, "v": vv, "infile": infile, "path": path, "pos": pos})
                bases[cid] = (cls, kind, infile)
    # every undefined-symbol variant once in front of everything, also of the segment definition (where `.align` used to skip
    # its value: the thorough tier found the build succeeding)
    prog, files, sites, top_limit = base_program(rnd)
    G.number_statements(prog)
    for vv in range(14):
        if vv == 12:
            continue        # (a macro call there emits code without a segment: another fault, reported first)
        cid += 1
        recs.append({"id": cid, "prog": G.tla_ready(prog), "files": {fn: G.tla_ready(p) for fn, p in files.items()},
                     "class": "undefsym", "v": vv, "infile": "main", "path": [], "pos": 0})
        bases[cid] = ("undefsym", "top", "main")
    wd = V.workdir("C04")
    tr, out = os.path.join(wd, "inject.ndjson"), os.path.join(wd, "injected.ndjson")
    V.write_ndjson(tr, recs)
    r = V.tlc_must_pass(os.path.join(SPEC, "FaultTrace.tla"), cfg=os.path.join(SPEC, "FaultTrace.cfg"), env={"TRACE": tr, "OUT": out, "MODE": "inject"},
                        workers=1, deque=True, timeout=2400, tag="C04-inject", xmx="8g")
    rep.add_tlc(r)
    inj = {e["id"]: e for e in V.read_ndjson(out)}
    if len(inj) != len(recs):
        raise V.ToolError("TLC injected %d of %d cases" % (len(inj), len(recs)))
    jobs = {}
    for i, e in inj.items():
        prog = G.from_tla(e["prog"])
        files = {fn: G.from_tla(p) for fn, p in e["files"].items()}
        src, lines = render_any(prog)
        fsrc = {}
        flines = {}
        for fn, p in files.items():
            fsrc[fn], flines[fn] = render_any(p)
        cls, kind, infile = bases[i]
        marked = find_marked(prog if infile == "main" else files[infile], [])
        if not marked:
            raise V.ToolError("injected statement not found in case %d" % i)
        textlines = lines if infile == "main" else flines[infile]
        allfiles = {"main.asm": src}
        allfiles.update(fsrc)
        jobs[i] = {"files": allfiles, "file": "main.asm" if infile == "main" else infile,
                   "lines": [m["line"] for m in marked], "colLo": min(m["col"] for m in marked),
                   "colHi": max(len(textlines[m["line"] - 1]) + 1 for m in marked), "predicted": e["predicted"]}
    root = V.fresh_dir("C04-proj")
    with concurrent.futures.ThreadPoolExecutor(max_workers=8) as ex:
        results = dict(zip(jobs.keys(), ex.map(lambda i: run_build(mos, root, i, jobs[i]["files"]), jobs.keys())))
    jrecs = []
    drift = 0
    for i, j in jobs.items():
        o = results[i]
        cls, kind, infile = bases[i]
        jrecs.append({"id": i, "class": cls, "exit": o["exit"], "file": j["file"], "lines": j["lines"], "colLo": j["colLo"], "colHi": j["colHi"],
                      "diags": o["diags"], "before": o["before"], "after": o["after"], "crashed": o["crashed"]})
        if j["predicted"] not in ("failed", "parse-error"):
            drift += 1
    verdicts, st = V.judge(os.path.join(SPEC, "FaultTrace.tla"), jrecs, cfg=os.path.join(SPEC, "FaultTrace.cfg"), env={"MODE": "judge"}, tag="C04-judge", batch=4000)
    rep.add_stats(st)
    rep.cov["traces_validated_against_impl"] = len(jrecs)
    rep.cov["evaluations"] = len(jrecs)
    rep.cov["distinct_nontrivial"] = len({(bases[i][0], bases[i][1], jobs[i]["files"]["main.asm"], jobs[i]["files"].get("inc.asm")) for i in jobs})
    rep.cov["rule"] = ("%d valid base programs (macro, brace scope, loop, taken .if, `.segment` block, import, far label) x 13 fault classes x 7 sites x seeded position/variant; "
                       "each built by `mos build` as a process with sentinel files in target/; distinct = distinct (class, site, project text)" % nbase)
    rep.cov["model_predicted_not_rejected"] = drift
    if drift:
        rep.notes.append("MODEL-DRIFT: the pass machine of Asm.tla did not reject %d injected faults that it should (model gap, not a verdict)" % drift)
    k = next(iter(jobs))
    rep.sample({"class": bases[k][0], "site": bases[k][1], "main.asm": jobs[k]["files"]["main.asm"], "expected_lines": jobs[k]["lines"], "observed": results[k]["stdout"]})
    rep.assumptions += ["for a two-statement fault (redefinitions) a diagnostic on either definition is accepted",
                        "the column must lie inside the offending statement's text on its line (exact token column is not demanded)",
                        "mtime+sha1 of every file in target/ compared before/after; creating the target directory itself is not an output file"]
    for v in verdicts:
        i = v["id"]
        rep.verdict(v, {"class": bases[i][0], "site": bases[i][1], "files": jobs[i]["files"], "expected_file": jobs[i]["file"], "expected_lines": jobs[i]["lines"],
                        "observed": results[i], "why": v.get("why")})
    return rep.finish()


if __name__ == "__main__":
    V.main_wrapper(main)
