#!/usr/bin/env python3
"""C05 - nothing in a source file is silently ignored (lossless parse).

spec/Parse/Parse.tla       the parser's top-level/block loop over atom texts; Lossless, Finishes (TLC, all texts <= N atoms)
spec/Parse/MC_ParseGen.tla exports every terminal state as a case (spec -> impl)
spec/Parse/ParseTrace.tla  judge: no diagnostics => re-rendered tokens = text (up to case and CRLF)
"""
import glob
import json
import os
import sys

sys.path.insert(0, os.path.join(os.path.dirname(os.path.abspath(__file__)), "..", "..", "lib"))
import vplib as V

SPEC = os.path.join(V.SPEC, "Parse")
SPELL = {"STMT": ["nop", "lda #1", "foo: rts", ".byte 1,2", "jmp ($1234)"], "OPEN": ["{", ".if 1 {", "lab: {", ".loop 2 {"], "CLOSE": ["}"], "RPAREN": [")"],
         "CR": ["\r"], "NL": ["\n"], "CRLF": ["\r\n"], "WS": [" ", "\t", "  "], "LCOMMENT": ["// c", "// lda #1"],
         "BCOMMENT": ["/* c */", "/* a /* n */ b */"], "JUNK": ["!!!", "@", "~x"]}
ALPHABET = [")", "}", "(", "{", '"', "\r", "\t", "\x01", "\x0c", "é", "汉", ";", ",", "#", "=", "/", "*", "$", ".", ":"]


def render_atoms(atoms, rnd):
    s = ""
    for a in atoms:
        t = rnd.choice(SPELL[a])
        if s and (s[-1].isalnum() or s[-1] in "_$)") and (t[0].isalnum() or t[0] in "_.$"):
            s += " "
        s += t
    return s


def corpus():
    files = sorted(glob.glob(os.path.join(V.REPO, "examples", "**", "*.asm"), recursive=True) +
                   glob.glob(os.path.join(V.REPO, "mos", "test-data", "**", "*.asm"), recursive=True) +
                   glob.glob(os.path.join(V.REPO, "mos-core", "test-data", "**", "*.asm"), recursive=True))
    out = []
    for f in files:
        try:
            t = open(f, encoding="utf-8").read()
        except Exception:
            continue
        if 0 < len(t) <= 2500:
            out.append((os.path.relpath(f, V.REPO), t))
    forms = ["lda #1\n", "lda ($10,x)\n", "lda ($10),y\n", "jmp ($1234)\n", "foo: {\n  nop\n}\n", ".const a = (1 + 2) * 3\n", ".byte 1, 2, <a\n", '.text petscii "hi {a}"\n',
             ".macro m(a, b) {\n lda #a\n}\nm(1, 2)\n", ".if defined(x) { nop } else { brk }\n", ".loop 3 { inx }\n", '.import * from "x.asm"\n', '.import a as b from "x.asm" {\n .const c = 1\n}\n',
             '.define segment {\n name = "a"\n start = $1000\n}\n', '.segment "a" { nop }\n', "* = $1000\n", ".align 8\n", '.test "t" {\n .assert 1 == 1 "msg"\n .trace (a, *)\n brk\n}\n', '.file "a.bin"\n',
             "nop // c\n/* b /* n */ */ nop\n", ".var v = -1\n", "asl\nlsr a\n", '.const s = "x{a.b}y{-}" + "z"\n', '.assert a == 1 "m {a} n"\n', "lda #<a\nldx #>b.c\n", "m(1,\n  2)\n"]
    out += [("form-%d" % i, t) for i, t in enumerate(forms)]
    return out


def mutants(name, text, rnd, count):
    out = []
    n = len(text)
    positions = range(n + 1) if count is None else [rnd.randrange(n + 1) for _ in range(count)]
    for p in positions:
        op = rnd.randrange(3)
        if op == 0 or p >= n:
            m = text[:p] + rnd.choice(ALPHABET) + text[p:]
        elif op == 1:
            m = text[:p] + text[p + 1:]
        else:
            m = text[:p] + rnd.choice(ALPHABET) + text[p + 1:]
        out.append(m)
    return out


def main(tier):
    rep = V.Report("C05", tier)
    V.build_harness(["parsedrive"])
    rnd = V.rng("C05")
    maxlen = 4 if tier == "quick" else 5
    wd = V.workdir("C05")
    cfg = os.path.join(wd, "MC_ParseGen.cfg")
    open(cfg, "w").write(open(os.path.join(SPEC, "MC_ParseGen.cfg")).read().replace("MaxLen = 4", "MaxLen = %d" % maxlen))
    r = V.tlc(os.path.join(SPEC, "MC_ParseGen.tla"), cfg=cfg, workers=6, timeout=3000, tag="C05-mc", xmx="12g")
    rep.add_tlc(r)
    if r.invariant_violated:
        rep.violations.append({"why": "design level: Parse.tla (current reading) violates Lossless", "replay": {"tlc": V.tail(r.out, 60)}, "id": "MC_ParseGen"})
        return rep.finish()
    if r.rc != 0:
        raise V.ToolError("MC_ParseGen failed: " + V.tail(r.out, 30))
    # liveness of the loop (Finishes) on a smaller bound, and the binding demonstration: the pinned reading must violate Lossless
    r2 = V.tlc_must_pass(os.path.join(SPEC, "Parse.tla"), cfg=os.path.join(SPEC, "MC_Parse.cfg"), workers=4, timeout=1200, tag="C05-live")
    rep.add_tlc(r2)
    r3 = V.tlc(os.path.join(SPEC, "Parse.tla"), cfg=os.path.join(SPEC, "MC_Parse_pinned.cfg"), workers=2, timeout=600, tag="C05-pinned")
    if not r3.invariant_violated:
        raise V.ToolError("binding demonstration failed: the pinned reading (stop atoms swallowed) should violate Lossless")
    tcases = [json.loads(json.loads('"' + ln[len('<<"CASE", "'):-len('">>')] + '"')) for ln in r.prints("CASE")]
    if len(tcases) < 1000:
        raise V.ToolError("too few cases exported by TLC: %d" % len(tcases))
    cases, meta = [], {}

    def add(text, m):
        cid = len(cases) + 1
        cases.append({"id": cid, "text": text})
        meta[cid] = dict(m, text=text)

    for c in tcases:
        for _ in range(1 if tier == "quick" else 2):
            add(render_atoms(c["text"], rnd), {"kind": "atoms", "atoms": c["text"], "model_diags": c["diags"]})
    corp = corpus()
    per = 60 if tier == "quick" else None
    for name, text in corp:
        add(text, {"kind": "corpus", "name": name})
        if per is None and len(text) > 1500:
            ms = mutants(name, text, rnd, 400)
        else:
            ms = mutants(name, text, rnd, per)
        for m in ms:
            add(m, {"kind": "mutant", "name": name})
    # a blank, a tab or a block comment at EVERY position of every statement form: wherever the parser accepts it without a
    # diagnostic, it has to keep it (found the loss of trivia inside `"{ name}"`)
    for name, text in corp:
        if name.startswith("form-"):
            for pos in range(len(text) + 1):
                for tv in (" ", "\t", "/*c*/"):
                    add(text[:pos] + tv + text[pos:], {"kind": "trivia-insertion", "name": name})
    # one more TOKEN than a statement form has room for, at every position: a register suffix behind a complete operand
    # (`lda ($10,x),y`), a second comma, a stray parenthesis ...: the extra token is reported or kept, never swallowed
    for name, text in corp:
        if name.startswith("form-"):
            for pos in range(len(text) + 1):
                for tk in (",x", ",y", ",", ")", "(", "#", "=", ":", "{", "}", '"s"', "a", "1"):
                    add(text[:pos] + tk + text[pos:], {"kind": "token-insertion", "name": name})
    # a file parses the same whatever else the project holds: every corpus file and statement form once more as a file that is
    # imported by an entry file which starts with a block comment (the parser's state is shared by all files of a project)
    HEAD = '/* a header comment, longer than most statements of the corpus are */\n.import * as q from "lib.asm"\nnop\n'
    for name, text in corp:
        cid = len(cases) + 1
        cases.append({"id": cid, "text": HEAD, "files": {"lib.asm": text}, "render": "lib.asm"})
        meta[cid] = {"kind": "imported", "name": name, "text": text}
    # every layout/case variant of every statement form (the variant space of spec/Layout, enumerated by TLC)
    sys.path.insert(0, os.path.join(os.path.dirname(os.path.abspath(__file__)), "..", "C08"))
    import importlib.util
    spec8 = importlib.util.spec_from_file_location("c08check", os.path.join(os.path.dirname(os.path.abspath(__file__)), "..", "C08", "check.py"))
    c08 = importlib.util.module_from_spec(spec8)
    spec8.loader.exec_module(c08)
    lout = os.path.join(wd, "variants.ndjson")
    if os.path.exists(lout):
        os.remove(lout)
    rl = V.tlc_must_pass(os.path.join(V.SPEC, "Layout", "MC_Layout.tla"), cfg=os.path.join(V.SPEC, "Layout", "MC_Layout.cfg"), env={"OUT": lout}, workers=4, timeout=1800, tag="C05-layout")
    rep.add_tlc(rl)
    for v in V.read_ndjson(lout):
        add(c08.PRELUDE + c08.render(v["toks"]) + "\n", {"kind": "layout", "name": v["form"]})
    # concatenations of fragments of the example sources
    frags = [t[a:a + rnd.randrange(5, 80)] for _, t in corp for a in [rnd.randrange(max(1, len(t)))] * 1]
    for _ in range(300 if tier == "quick" else 3000):
        add("".join(rnd.choice(frags) for _ in range(rnd.randrange(2, 5))), {"kind": "fragments"})
    V.log("[C05] %d texts (%d from TLC atom cases)" % (len(cases), len(tcases)))
    obs, p = V.run_harness("parsedrive", cases, "C05-drive")
    if len(obs) != len(cases):
        raise V.ToolError("parsedrive produced %d of %d observations: %s" % (len(obs), len(cases), p.stderr[-2000:]))
    recs, omap = [], {}
    nclean = drift = 0
    for o in obs:
        m = meta[o["id"]]
        omap[o["id"]] = o
        clean = o["ndiags"] == 0 and not o["panic"]
        nclean += clean
        if m["kind"] == "atoms" and (m["model_diags"] > 0) != (o["ndiags"] > 0):
            drift += 1
        recs.append({"id": o["id"], "ndiags": o["ndiags"], "panic": bool(o["panic"]), "elided": not clean,
                     "text": [ord(ch) for ch in m["text"].casefold()] if clean else [], "rendered": [ord(ch) for ch in (o["rendered"] or "").casefold()] if clean else []})
    verdicts, st = V.judge(os.path.join(SPEC, "ParseTrace.tla"), recs, cfg=os.path.join(SPEC, "ParseTrace.cfg"), tag="C05-judge", batch=6000, timeout=3000)
    rep.add_stats(st)
    rep.cov["traces_validated_against_impl"] = len(recs)
    rep.cov["evaluations"] = len(cases)
    rep.cov["distinct_nontrivial"] = len({meta[o["id"]]["text"] for o in obs if o["ndiags"] == 0 and not o["panic"] and meta[o["id"]]["text"].strip()})
    rep.cov["rule"] = ("all atom texts <= %d atoms (11 atom kinds, from TLC's terminal states) rendered with seeded spellings; every corpus file and statement form with "
                       "single-character insert/delete/replace (alphabet incl. ) } CR control and non-ASCII characters) at %s positions; concatenated fragments. "
                       "distinct_nontrivial = distinct non-empty texts that parsed WITHOUT diagnostics (only those can violate the property)" % (maxlen, "60 seeded" if per else "all"))
    rep.cov["parsed_without_diagnostics"] = nclean
    rep.cov["model_vs_impl_diag_disagreements"] = drift
    if drift:
        rep.notes.append("MODEL-DRIFT (tier 2): for %d atom texts the model and the parser disagree on whether a diagnostic is reported; verdicts rest on tier 1 only" % drift)
    for cid in (1, len(tcases) // 2, len(cases) - 1):
        rep.sample({"text": meta[cid]["text"][:200], "kind": meta[cid]["kind"], "ndiags": omap[cid]["ndiags"], "rendered": (omap[cid]["rendered"] or "")[:200]})
    rep.assumptions += ["both strings are Unicode case-folded symmetrically by the harness before TLC compares them (the renderer upper-cases keyword tokens together with their attached comments)", "equality up to ASCII letter case and CRLF->LF (more permissive than 'case of keywords' only)", "a panic is a reported failure for C05 (C06 decides panics)"]
    for v in verdicts:
        cid = v["id"]
        rep.verdict(v, {"text": meta[cid]["text"], "kind": meta[cid]["kind"], "origin": meta[cid].get("name") or meta[cid].get("atoms"), "rendered": omap[cid]["rendered"], "why": v.get("why")})
    return rep.finish()


if __name__ == "__main__":
    V.main_wrapper(main)
