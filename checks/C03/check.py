#!/usr/bin/env python3
"""C03 - expressions evaluate as documented.

spec/Expr/Expr.tla      Eval / Render / Store / TextBytes
spec/Expr/MC_Expr.tla   TLC explores the bounded tree domain (laws as invariants) and exports it
spec/Expr/ExprTrace.tla judge of the bytes the real assembler stored
"""
import os
import sys

sys.path.insert(0, os.path.join(os.path.dirname(os.path.abspath(__file__)), "..", "..", "lib"))
import vplib as V

SPEC = os.path.join(V.SPEC, "Expr")

PRELUDE = ('.const ca = 5\n.const cb = -3\n.const cw = $1234\n.const cz = 0\n.const cf = $123456\n'
           '.const sa = "ab"\n.const sb = "c"\nlbl:\n')


# a constant defined BEHIND the statement through a chain of forward constants (one assembler pass per link): defined, with
# the value at the end of the chain, like any other
POSTLUDE = ".const fa = fb + 1\n.const fb = fc\n.const fc = 7\n"


WIDE_PRELUDE = ('.const wa = $FFFFFFFF\n.const wb = -$80000000\n.const wq = $100000001\n.const wx = $123456789A\n'
                '.const wm = -$7FFFFFFFFFFFFFFF - 1\n.const wt = $7FFFFFFFFFFFFFFF\n')


def render_num(t, rnd):
    if t["tok"] == "wnum":      # magnitude as little-endian base-256 limbs (Wide.tla)
        n = sum(b << (8 * i) for i, b in enumerate(t["d"]))
    else:
        n = t["n"]
    radix, lz = t["radix"], t["lz"]
    if radix == "dec":
        return "0" * lz + str(n)
    if radix == "hex":
        h = "%x" % n
        return "$" + "0" * lz + (h.upper() if rnd.random() < 0.5 else h)
    return "%" + "0" * lz + bin(n)[2:]


def render_str(parts):
    out = '"'
    for p in parts:
        if "lit" in p:
            out += "".join(chr(c) for c in p["lit"])
        else:
            out += "{" + p["ref"] + "}"
    return out + '"'


def render_tokens(toks, rnd):
    out = []
    for t in toks:
        k = t["tok"]
        out.append(render_num(t, rnd) if k in ("num", "wnum") else render_str(t["parts"]) if k == "str" else t["s"])
    # seeded whitespace between tokens; never between a unary flag/modifier and what follows is *required*, so plain joins are safe
    s = ""
    for i, tok in enumerate(out):
        if i and toks[i - 1]["tok"] == "pre":
            pass    # prefixes (!, unary -, < >) are glued to their operand
        elif i and (toks[i]["tok"] == "op" or toks[i - 1]["tok"] == "op") and not ((s[-1].isalnum() or s[-1] in "()") and (tok[0].isalnum() or tok[0] in "()")):
            s += " "    # keep operators apart from punctuation they could fuse with (/ *, < <name, % %01)
        elif i and rnd.random() < 0.6:
            s += " "
        elif i and (s[-1].isalnum() or s[-1] in "$%_") and (tok[0].isalnum() or tok[0] in "$%_"):
            s += " "
        s += tok
    return s


def main(tier):
    rep = V.Report("C03", tier)
    V.build_harness(["asmdrive"])
    rnd = V.rng("C03")
    wd = V.workdir("C03")
    import concurrent.futures
    wide_future = concurrent.futures.ThreadPoolExecutor(max_workers=1).submit(wide_tlc, tier, wd)
    cfg = os.path.join(wd, "MC_Expr.cfg")
    with open(cfg, "w") as f:
        f.write(open(os.path.join(SPEC, "MC_Expr.cfg")).read().replace("Deep = FALSE", "Deep = %s" % ("TRUE" if tier == "thorough" else "FALSE")))
    out = os.path.join(wd, "tlc-cases.ndjson")
    if os.path.exists(out):
        os.remove(out)
    r = V.tlc_must_pass(os.path.join(SPEC, "MC_Expr.tla"), cfg=cfg, env={"OUT": out}, workers=8, coverage=True, timeout=1800, tag="C03-mc", xmx="8g")
    rep.add_tlc(r)
    if r.coverage.get("Evaluate", (0, 0))[0] == 0:
        raise V.ToolError("vacuous MC_Expr run")
    tcases = V.read_ndjson(out)
    nexh = len(tcases)
    # deeper trees (depth D+1 operators) than the exhaustive domain, sampled by TLC simulation of MC_ExprSim
    import json
    rs = V.tlc_must_pass(os.path.join(SPEC, "MC_ExprSim.tla"), cfg=os.path.join(SPEC, "MC_ExprSim.cfg"), workers=1, simulate=(400 if tier == "thorough" else 12),
                         depth=5, seed_arg=V.rng("C03-sim").randrange(1 << 30), timeout=900, tag="C03-sim")
    seen = set()
    for line in rs.prints("CASE"):
        body = line[line.index(",") + 1:].strip()
        body = body[:body.rindex(">>")].strip()
        if body in seen:
            continue
        seen.add(body)
        tcases.append(json.loads(json.loads(body)))
    if tier != "thorough" and len(tcases) - nexh > 8000:
        tcases = tcases[:nexh] + V.rng("C03-pick").sample(tcases[nexh:], 8000)
    if len(tcases) - nexh < 100:
        raise V.ToolError("MC_ExprSim produced only %d trees" % (len(tcases) - nexh))
    rep.cov["simulated_deep_trees"] = len(tcases) - nexh
    cases, meta = [], {}
    for i, c in enumerate(tcases, 1):
        text = render_tokens(c["toks"], rnd)
        d = c["dir"]
        stmt = ".text %s%s" % ((c["enc"] + " ") if c["enc"] else "", text) if d == "text" else ".%s %s" % (d, text)
        src = PRELUDE + stmt + "\n" + POSTLUDE
        cases.append({"id": i, "files": {"main.asm": src}, "pc": 0x2000, "want": ["segments"]})
        meta[i] = {"tree": c["tree"], "dir": d, "enc": c["enc"], "src": src, "expr": text}
    V.log("[C03] %d expression programs" % len(cases))
    obs, p = V.run_harness("asmdrive", cases, "C03-drive")
    if len(obs) != len(cases):
        raise V.ToolError("asmdrive produced %d of %d observations: %s" % (len(obs), len(cases), p.stderr[-2000:]))
    recs, omap = [], {}
    for o in obs:
        m = meta[o["id"]]
        omap[o["id"]] = o
        segs = o.get("segments") or []
        recs.append({"id": o["id"], "tree": m["tree"], "dir": m["dir"], "enc": m["enc"], "ok": o["ok"],
                     "bytes": segs[0]["bytes"] if (o["ok"] and segs) else [],
                     "ndiags": len(o["parse_diags"]) + len(o["diags"]) + (1 if o["panic"] else 0)})
    verdicts, st = V.judge(os.path.join(SPEC, "ExprTrace.tla"), recs, cfg=os.path.join(SPEC, "ExprTrace.cfg"), tag="C03-judge", batch=20000)
    rep.add_stats(st)
    rep.cov["traces_validated_against_impl"] = len(recs)
    rep.cov["evaluations"] = len(cases)
    rep.cov["distinct_nontrivial"] = len({m["expr"] + m["dir"] + m["enc"] for m in meta.values() if m["tree"]["k"] in ("bin", "fac")})
    rep.cov["rule"] = ("TLC enumerates: all leaves x {,!,-,!-}; all binary operators over all leaf pairs; flagged operands; all depth-2 trees "
                       "(both nestings, 16x16 operator pairs) over %d leaves; string expressions x 4 encodings. distinct = distinct (expression text, directive) "
                       "with at least one operator; plus depth-3 trees sampled by TLC simulation (MC_ExprSim), not exhaustive" % (4 if tier == "thorough" else 3))
    rep.cov["exhaustive"] = True
    for i in (1, len(cases) // 3, len(cases) // 2, len(cases) - 1):
        rep.sample({"program": meta[i]["src"], "ok": omap[i]["ok"], "bytes": recs[i - 1]["bytes"]})
    rep.assumptions += ["Expr.tla's native-integer evaluator covers +-2^30; the 64-bit domain is decided by WideExpr.tla (limb arithmetic) on its own case domain; a result that does not fit a signed 64-bit integer is outside the property",
                        "truncating division; shifts and byte modifiers of negative values, division by zero are outside the property; shift counts of any size are judged for non-negative operands (accepted either way)",
                        "petscii/petscreen only over the unambiguous ASCII subset (digits, punctuation, lower-case letters)"]
    for v in verdicts:
        cid = v["id"]
        rep.verdict(v, {"program": meta[cid]["src"], "tree": meta[cid]["tree"], "observation": omap[cid], "judge": "spec/Expr/ExprTrace.tla", "why": v.get("why")})
    wide_part(rep, tier, rnd, wd, wide_future)
    return rep.finish()


def wide_tlc(tier, wd):
    """MC_Wide (started at the beginning of the check, next to MC_Expr: the two model-checking runs share nothing)."""
    cfg = os.path.join(wd, "MC_Wide.cfg")
    base = open(os.path.join(SPEC, "MC_Wide.cfg")).read()
    with open(cfg, "w") as f:
        f.write(base.replace("Deep = FALSE", "Deep = %s" % ("TRUE" if tier == "thorough" else "FALSE")))
    out = os.path.join(wd, "wide-cases.ndjson")
    if os.path.exists(out):
        os.remove(out)
    r = V.tlc_must_pass(os.path.join(SPEC, "MC_Wide.tla"), cfg=cfg, env={"OUT": out}, workers=6, timeout=2400, tag="C03-wide-mc", xmx="8g")
    return r, out


def wide_part(rep, tier, rnd, wd, wide_future):
    """The 64-bit domain: Wide.tla / WideExpr.tla (values as base-256 limbs), MC_Wide (agreement with Expr.tla on its whole case
    domain, arithmetic laws on 64-bit values, export), WideTrace (judge of the stored bytes)."""
    r, out = wide_future.result()
    rep.add_tlc(r)
    # vacuity is controlled inside the module (ASSUME NonVacuous: a failing assumption is a TLC error, hence a tool error here)
    tcases = V.read_ndjson(out)
    cases, meta = [], {}
    for i, c in enumerate(tcases, 1):
        text = render_tokens(c["toks"], rnd)
        d = c["dir"]
        stmt = ".text %s%s" % ((c["enc"] + " ") if c["enc"] else "", text) if d == "text" else ".%s %s" % (d, text)
        src = PRELUDE.replace("lbl:\n", WIDE_PRELUDE + "lbl:\n") + stmt + "\n" + POSTLUDE
        cases.append({"id": i, "files": {"main.asm": src}, "pc": 0x2000, "want": ["segments"]})
        meta[i] = {"tree": c["tree"], "dir": d, "enc": c["enc"], "src": src, "expr": text}
    V.log("[C03] %d 64-bit expression programs" % len(cases))
    obs, p = V.run_harness("asmdrive", cases, "C03-wide-drive")
    if len(obs) != len(cases):
        raise V.ToolError("asmdrive produced %d of %d observations: %s" % (len(obs), len(cases), p.stderr[-2000:]))
    recs, omap = [], {}
    for o in obs:
        m = meta[o["id"]]
        omap[o["id"]] = o
        segs = o.get("segments") or []
        recs.append({"id": o["id"], "tree": m["tree"], "dir": m["dir"], "enc": m["enc"], "ok": o["ok"],
                     "bytes": segs[0]["bytes"] if (o["ok"] and segs) else [],
                     "ndiags": len(o["parse_diags"]) + len(o["diags"]) + (1 if o["panic"] else 0)})
    verdicts, st = V.judge(os.path.join(SPEC, "WideTrace.tla"), recs, cfg=os.path.join(SPEC, "WideTrace.cfg"), tag="C03-wide-judge", batch=20000)
    rep.add_stats(st)
    rep.cov["traces_validated_against_impl"] += len(recs)
    rep.cov["evaluations"] += len(cases)
    rep.cov["wide_cases"] = len(cases)
    rep.cov["wide_cases_built_ok"] = sum(1 for r_ in recs if r_["ok"])
    rep.cov["rule"] += ("; 64-bit domain (Wide.tla, values as base-256 limbs): literals and constants around 2^31, 2^32, 2^40, 2^62 and both ends of the i64 range "
                        "x all binary operators x all leaf pairs, flags, depth-2 trees, .byte/.word truncation, decimal interpolation; MC_Wide checks that the wide "
                        "evaluator agrees with Expr.tla on Expr.tla's whole case domain")
    i = len(cases) // 2
    rep.sample({"program": meta[i]["src"], "ok": omap[i]["ok"], "bytes": recs[i - 1]["bytes"]})
    for v in verdicts:
        cid = v["id"]
        rep.verdict(v, {"program": meta[cid]["src"], "tree": meta[cid]["tree"], "observation": omap[cid], "judge": "spec/Expr/WideTrace.tla", "why": v.get("why")})


if __name__ == "__main__":
    V.main_wrapper(main)
