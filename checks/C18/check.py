#!/usr/bin/env python3
"""C18 - unit-test verdicts of `mos test` reflect the emulated machine state.

spec/Cpu/Cpu.tla             the 6502 subset (Step), decoded through Isa6502's opcode table
spec/Cpu/MC_Cpu.tla          Step cross-checked against arithmetic statements of adc/sbc/cmp/logic/shifts/jsr-rts/branches
spec/Cpu/TestRunner.tla      layout of a test (only the active test is assembled, assertions keyed by pc with scope and
                             loop indices, RAM = the test's bank), Ideal (the property, declaratively over the execution
                             path) and Tick (the runner step by step; once = deviation AssertionFiresOnce)
spec/Cpu/MC_TestRunner.tla   design level: all bodies <= MaxLen over a 16-atom alphabet; VerdictReflectsState + step invariants
spec/Cpu/TestRunnerTrace.tla judge of `mos test` runs (stdout/stderr/exit status, and the cpu_step hook trace when present)
lib/testdrive.py             renderer, seeded generator, process driver, reshaping (no verdicts)
"""
import concurrent.futures
import copy
import json
import os
import sys

HERE = os.path.dirname(os.path.abspath(__file__))
sys.path.insert(0, os.path.join(HERE, "..", "..", "lib"))
import vplib as V
import testdrive as D

SPEC = os.path.join(V.SPEC, "Cpu")
MC = os.path.join(SPEC, "MC_TestRunner.tla")
JUDGE = os.path.join(SPEC, "TestRunnerTrace.tla")
JUDGE_CFG = os.path.join(SPEC, "TestRunnerTrace.cfg")
DEV = "AssertionFiresOnce"
ONCE = ["1"]      # tier-2 reading of the judge: once-only matching while the finding is open


def local_findings(rep):
    """Findings of this check that the maintainer has not merged into known_findings.jsonl yet (the global file wins)."""
    path = os.path.join(HERE, "findings.jsonl")
    known = {(f.get("property"), f.get("deviation")) for f in V.load_findings()}
    if os.path.exists(path):
        for line in open(path):
            line = line.strip()
            if line:
                f = json.loads(line)
                if (f["property"], f["deviation"]) not in known and f.get("status") == "open" and f["property"] == rep.prop:
                    rep.open[f["deviation"]] = f


def cfg(name):
    return os.path.join(SPEC, "MC_TestRunner_%s.cfg" % name)


def design_level(rep, tier):
    """Model checking; returns the cases TLC generated (project + Ideal verdict), to be replayed into the binary."""
    r = V.tlc(os.path.join(SPEC, "MC_Cpu.tla"), cfg=os.path.join(SPEC, "MC_Cpu.cfg"), workers=2, timeout=900, tag="C18-cpu")
    if r.invariant_violated:
        raise V.ToolError("Cpu.tla disagrees with the arithmetic statement of the ISA (MC_Cpu):\n" + V.tail(r.out, 30))
    if r.rc != 0:
        raise V.ToolError("MC_Cpu failed:\n" + V.tail(r.out, 30))
    rep.add_tlc(r)
    rep.notes.append("MC_Cpu: adc/sbc (all 2x256x256), cmp, and/ora/eor, rol/ror, jsr/rts (all sp), beq (all offsets), zp,x wrap agree with the arithmetic "
                     "statements; php pushes NV11DIZC for all 64 flag sets, plp ignores bits 4/5 for all 256 bytes, php;plp identity, rti (flags, pc without +1), "
                     "jmp (ind) for every vector low byte incl. the $xxFF page wrap, decimal adc: silent in Step, binary in StepM(mirror)")
    workers = 4 if tier == "quick" else 5
    big = dict(workers=workers, timeout=3400, xmx="8g")
    # the five model-checking runs share nothing: they run next to each other
    pool = concurrent.futures.ThreadPoolExecutor(max_workers=4)
    fb = pool.submit(lambda: V.tlc(MC, cfg=cfg("idealB_" + tier), tag="C18-idealB", **big))
    fl = pool.submit(lambda: V.tlc(MC, cfg=cfg("long_" + tier), tag="C18-long", **big))
    ft = pool.submit(lambda: V.tlc(MC, cfg=cfg("idealT_" + tier), tag="C18-idealT", **big))
    fc = pool.submit(lambda: V.tlc(MC, cfg=cfg("idealC_" + tier), tag="C18-idealC", **big))
    ri = V.tlc(MC, cfg=cfg("ideal_" + tier), tag="C18-ideal", **big)
    if ri.invariant_violated:
        rep.violations.append({"why": "design level: the ideal reading of TestRunner violates an invariant", "replay": {"tlc_output": V.tail(ri.out, 80)}, "id": "MC_TestRunner_ideal"})
        return []
    if ri.rc != 0 or "Error:" in ri.out:
        raise V.ToolError("MC_TestRunner (ideal) failed:\n" + V.tail(ri.out, 40))
    rep.add_tlc(ri)
    rep.notes.append("MC_TestRunner ideal (%s): %d states, depth %d; VerdictReflectsState, VerdictStrict, TypeInv, FollowsPath, FailureIsReal, NothingDisarmed hold"
                     % (tier, ri.distinct, ri.depth))
    cases = [D.from_tlc_case(l) for l in ri.prints("CASE")]
    # round 4: alphabet B (pha/pla/php/plp, cmp/sec, page-wrapped jmp (ind), rti) and alphabet A with fuel for 256-iteration loops
    rb = fb.result()
    rl = fl.result()
    # round 5: alphabet B with the top-of-memory atoms (sta $ffff, ram16($fffe), ram($ffff), ram16($ffff))
    rt = ft.result()
    for nm, rr in (("alphabet B", rb), ("long fuel", rl), ("alphabet B + top of memory", rt)):
        if rr.invariant_violated:
            rep.violations.append({"why": "design level: TestRunner (%s) violates an invariant" % nm, "replay": {"tlc_output": V.tail(rr.out, 80)}, "id": "MC_TestRunner " + nm})
            return []
        if rr.rc != 0 or "Error:" in rr.out:
            raise V.ToolError("MC_TestRunner (%s) failed:\n%s" % (nm, V.tail(rr.out, 40)))
        rep.add_tlc(rr)
    casesB = [D.from_tlc_case(l) for l in rb.prints("CASE")] + [D.from_tlc_case(l) for l in rt.prints("CASE")]
    for c in casesB:
        c["alphabet"] = "B"
    rep.notes.append("MC_TestRunner alphabet B (%s): %d states, depth %d; long fuel (1400 instructions, alphabet A): %d states, depth %d; "
                     "alphabet B with the top-of-memory atoms (17 atoms): %d states; same invariants hold"
                     % (tier, rb.distinct, rb.depth, rl.distinct, rl.depth, rt.distinct))
    cases += casesB
    # round 9: alphabet C - assembly-time variables assigned again between assertions and operands
    rc_ = fc.result()
    if rc_.invariant_violated:
        rep.violations.append({"why": "design level: TestRunner (alphabet C) violates an invariant", "replay": {"tlc_output": V.tail(rc_.out, 80)}, "id": "MC_TestRunner alphabet C"})
        return []
    if rc_.rc != 0 or "Error:" in rc_.out:
        raise V.ToolError("MC_TestRunner (alphabet C) failed:\n%s" % V.tail(rc_.out, 40))
    rep.add_tlc(rc_)
    casesC = [D.from_tlc_case(l) for l in rc_.prints("CASE")]
    for c in casesC:
        c["alphabet"] = "C"
    rep.notes.append("MC_TestRunner alphabet C (variables assigned again between assertions and operands, %s): %d states, %d cases" % (tier, rc_.distinct, len(casesC)))
    cases += casesC
    if DEV in rep.open:
        rm = V.tlc(MC, cfg=cfg("impl_" + tier), tag="C18-impl", **big)
        if rm.invariant_violated:
            rep.violations.append({"why": "design level: the implementation-shaped reading violates the property beyond the witness of " + DEV,
                                   "replay": {"tlc_output": V.tail(rm.out, 80)}, "id": "MC_TestRunner_impl"})
            return cases
        if rm.rc != 0 or "Error:" in rm.out:
            raise V.ToolError("MC_TestRunner (impl) failed:\n" + V.tail(rm.out, 40))
        rep.add_tlc(rm)
        rf = V.tlc(MC, cfg=cfg("finding"), workers=2, timeout=900, tag="C18-finding")
        if not rf.invariant_violated:
            raise V.ToolError("the deviation %s is open but the model does not reproduce it" % DEV)
        rep.notes.append("MC_TestRunner impl (%s): %d states; property holds weakened by the witness of %s only; "
                         "un-weakened it is violated (TLC counterexample = the finding)" % (tier, rm.distinct, DEV))
    witnesses = ("NoPass", "NoFailInLoop", "NoFailInSub", "NoUnevaluable", "NoSkipped",
                 "NoWrapJumpPass", "NoRtiPass", "NoBreakBitsSeen", "NoPlpFlags", "NoTopByteRead", "NoWordPastTop",        # these six: alphabet B
                 "NoTwoValuesPass", "NoLateVarFail")                                                              # alphabet C

    def vac(w):
        return w, V.tlc(MC, cfg=cfg("vac_" + w), workers=2, timeout=900, tag="C18-vac-" + w)
    with concurrent.futures.ThreadPoolExecutor(max_workers=3) as ex:
        for w, rv in ex.map(vac, witnesses):
            if not rv.invariant_violated:
                raise V.ToolError("vacuous state space: witness %s is not reachable" % w)
    rep.notes.append("vacuity witnesses reachable: long passing run, failure on a re-visit (loop), failure inside the subroutine, "
                     "unevaluable assertion, assertion skipped by a branch; alphabet B: passing runs through the page-wrapped jmp (ind), "
                     "through rti, with the pushed break bits read back (cpu.a == $34), with flags loaded by plp, reading the last byte of memory "
                     "with ram($ffff) and ram16($fffe), failing at ram16($ffff)")
    return cases


def run_all(mos, jobs, tag):
    """jobs: list of (id, prj). Runs `mos test` on each (4 at a time); returns records, texts, raws."""
    base = V.fresh_dir(tag)

    def one(job):
        cid, prj = job
        text, lines, extra = D.render(prj)
        obs, runs, raw = D.run_project(mos, os.path.join(base, "w%d" % (cid % 64), "p%d" % cid), text, extra=extra)
        shown = text + "".join("; ---- %s\n%s" % (n, t) for n, t in extra.items())
        return cid, V.clip_tree(D.record(cid, prj, lines, obs, runs)), shown, raw
    recs, texts, raws = [], {}, {}
    with concurrent.futures.ThreadPoolExecutor(max_workers=4) as ex:
        for cid, rec, text, raw in ex.map(one, jobs):
            recs.append(rec)
            texts[cid] = text
            raws[cid] = raw
    return recs, texts, raws


def self_test(good, tier):
    """Binding demonstration: corrupt one field of records the judge accepted; the judge must reject each."""
    muts = []
    for r in good:
        if any(t["verdict"] == "ok" for t in r["obs"]["tests"]) and not any(x["id"] == 900001 for x in muts):
            m = copy.deepcopy(r)
            m["id"] = 900001
            t = [t for t in m["obs"]["tests"] if t["verdict"] == "ok"][0]
            t["verdict"] = "failed"
            m["obs"]["failed"] += 1
            m["obs"]["passed"] -= 1
            m["obs"]["result"] = "FAILED"
            m["obs"]["exit"] = 1
            muts.append(m)
        fl = [f for f in r["obs"]["failures"] if f["line"] > 0]
        if fl and not any(x["id"] == 900002 for x in muts):
            m = copy.deepcopy(r)
            m["id"] = 900002
            m["obs"]["failures"][0]["line"] += 1
            muts.append(m)
        if r["hasTrace"] and not any(x["id"] == 900003 for x in muts):
            run = [x for x in r["runs"] if len(x["steps"]) >= 2]
            if run:
                m = copy.deepcopy(r)
                m["id"] = 900003
                st = [x for x in m["runs"] if len(x["steps"]) >= 2][0]["steps"][1]
                st["a"] = (st["a"] + 1) % 256
                muts.append(m)
        if r["obs"]["exit"] == 0 and not any(x["id"] == 900004 for x in muts):
            m = copy.deepcopy(r)
            m["id"] = 900004
            m["obs"]["exit"] = 1
            muts.append(m)
    if not muts:
        raise V.ToolError("self-test: no accepted record to corrupt")
    rows, _ = V.judge(JUDGE, muts, cfg=JUDGE_CFG, env={"ONCE": ONCE[0]}, tag="C18-selftest")
    rejected = {x["id"] for x in rows if x["verdict"] == "violation"}
    missing = [m["id"] for m in muts if m["id"] not in rejected]
    if missing:
        raise V.ToolError("self-test: the judge accepted corrupted records %s" % missing)
    return sorted(m["id"] - 900000 for m in muts)


def main(tier):
    rep = V.Report("C18", tier)
    local_findings(rep)
    mos = V.build_mos()
    cases = design_level(rep, tier)
    if rep.violations:
        return rep.finish()
    rnd = V.rng("C18")
    n_gen, n_rand = (450, 450) if tier == "quick" else (4500, 4000)
    # (input selection only) bodies whose Ideal verdict is "unspec" mostly do not terminate: they would only hit the timeout
    cases = [c for c in cases if c["ideal"] != "unspec"]
    rnd.shuffle(cases)
    # a quota per alphabet, so that the variables of alphabet C are always among the cases run
    n_c = 200 if tier == "quick" else 2000
    # (input selection only) of alphabet C first the bodies whose first two assertions hold: there a later assertion sees a variable that was assigned again
    cc = sorted([c for c in cases if c.get("alphabet") == "C"], key=lambda c: 0 if (c["ideal"] == "passed" or c["aid"] >= 3) else 1)
    cases = [c for c in cases if c.get("alphabet") != "C"][:n_gen - n_c] + cc[:n_c]
    jobs, origin = [], {}
    for c in cases[:n_gen]:
        cid = len(jobs) + 1
        jobs.append((cid, c["prj"]))
        origin[cid] = "tlc alphabet=%s shape=%s ideal=%s" % (c.get("alphabet", "A"), c["shape"], c["ideal"])
    g = D.Gen(rnd, long_runs=2 if tier == "quick" else 3)
    for _ in range(n_rand):
        cid = len(jobs) + 1
        jobs.append((cid, g.project()))
        origin[cid] = "random"
    recs, texts, raws = run_all(mos, jobs, "C18-drive")
    nbuild = sum(1 for r in recs if not r["obs"]["buildFailed"])
    ntrace = sum(1 for r in recs if r["hasTrace"])
    V.log("[C18] %d projects (%d TLC-generated, %d random), %d assembled, %d with a cpu_step hook trace"
          % (len(recs), min(n_gen, len(cases)), n_rand, nbuild, ntrace))
    if nbuild < len(recs) * 0.9:
        raise V.ToolError("too few generated projects assemble (%d of %d): generator or tree broken; e.g.\n%s"
                          % (nbuild, len(recs), next((raws[r["id"]]["stdout"][:600] for r in recs if r["obs"]["buildFailed"]), "")))
    ONCE[0] = "1" if DEV in rep.open else "0"
    rows, st = V.judge(JUDGE, recs, cfg=JUDGE_CFG, env={"ONCE": ONCE[0]}, tag="C18-judge", batch=400, timeout=3000)
    rep.add_stats(st)
    stats = [x for x in rows if x["verdict"] == "stat"]
    rows = [x for x in rows if x["verdict"] != "stat"]
    byid = {r["id"]: r for r in recs}
    bad_ids = {x["id"] for x in rows}
    ntest = sum(len(r["obs"]["tests"]) for r in recs)
    decided = [x for x in stats if x["dev"] in ("passed", "failed")]
    nontrivial = {(texts[x["id"]], i) for i, x in enumerate(stats) if x["dev"] in ("passed", "failed") and int(x["why"]) >= 3}
    rep.cov["traces_validated_against_impl"] = len(decided)
    rep.cov["evaluations"] = ntest
    rep.cov["distinct_nontrivial"] = len({t for t, _ in nontrivial}) if nontrivial else 0
    rep.cov["rule"] = ("one evaluation = one test of one generated project run by `mos test` and judged by TestRunnerTrace.tla (verdict, failing "
                       "location, message, registers at the failure, exit status, summary; with the hook also every per-instruction register "
                       "record against Cpu!Step); TLC-generated bodies (alphabet of MC_TestRunner) plus seeded random projects with counted loops, "
                       "forward skips, subroutines inside/outside the test, scopes, .loop/index, 1-3 tests, two overlapping banks, php/pla, pha/plp, rti, jmp (ind) through data and page-edge RAM vectors, decimal-flag adds, delay loops of up to thousands of instructions; "
                       "distinct_nontrivial = distinct project texts having a test with a decided (passed/failed) Ideal verdict reached after >= 3 path states")
    rep.cov["decimal_mirror_traces"] = sum(1 for x in stats if x["dev"] == "mirror")
    rep.cov["crashes_observed"] = {k: sum(1 for r in recs if r["obs"]["panic"] == k) for k in ("overflow", "slice", "other")}
    rep.cov["projects_with_imported_tests"] = sum(1 for r in recs if r["prj"].get("files"))
    rep.cov["longest_run_instructions"] = max([len(x["steps"]) for r in recs for x in r["runs"]] or [0])
    rep.cov["ideal_verdicts"] = {k: sum(1 for x in stats if x["dev"] == k) for k in ("passed", "failed", "unspec", "nolayout")}
    rep.cov["hook_traces"] = ntrace
    rep.cov["tlc_generated_cases_replayed"] = min(n_gen, len(cases))
    if not decided or rep.cov["ideal_verdicts"]["passed"] == 0 or rep.cov["ideal_verdicts"]["failed"] == 0:
        raise V.ToolError("conformance is vacuous: %s" % rep.cov["ideal_verdicts"])
    good = [r for r in recs if r["id"] not in bad_ids and not r["obs"]["buildFailed"] and r["obs"]["tests"]]
    nself = self_test(good, tier)
    rep.notes.append("self-test: corrupted records %s (1 flipped verdict, 2 shifted failure line, 3 changed register in the hook trace, "
                     "4 changed exit status) were all rejected by the judge" % nself)
    if ntrace == 0:
        rep.notes.append("the binary has no cpu_step hook (checks/C18/hooks.patch not applied): process-level observation only")
    for r in good[:3]:
        rep.sample({"program": texts[r["id"]], "tests": r["obs"]["tests"], "failures": r["obs"]["failures"], "exit": r["obs"]["exit"]})
    rep.assumptions += ["flag symbols may read 1 or their mask bit: assertions whose truth depends on that are not judged",
                        "adc/sbc with the decimal flag set (tier 2 only: hook trace against the binary-arithmetic mirror of the emulator), instructions outside Cpu!Modelled, jmp ($ffff), ram() outside 0..65535, runs longer than 60000 instructions, "
                        "string-valued assertions and cycle counts are outside the specification (accepted as observed)",
                        "projects the assembler rejects are outside C18 (counted, reported as drift if the model has a layout)"]
    for x in rows:
        cid = x["id"]
        rep.verdict(x, {"origin": origin.get(cid), "program": texts.get(cid), "output": raws.get(cid), "record": byid.get(cid),
                        "judge": "spec/Cpu/TestRunnerTrace.tla", "why": x.get("why")})
    return rep.finish()


if __name__ == "__main__":
    V.main_wrapper(main)
