#!/usr/bin/env python3
"""C06 - every input terminates cleanly: no crash, no hang, output or located diagnostics.

spec/Lifecycle/Lifecycle.tla  acceptance automaton of one run (+ LifecycleTrace judge)
spec/Lifecycle/Arith.tla      hazard table: partial operations x argument classes x contexts (TLC enumerates)
spec/Lifecycle/Imports.tla    import graphs: parse work list vs recursive emission (TLC: all graphs, liveness)
spec/Asm/MC_Asm.tla           the pass loop terminates within the bound on the small-program space (shared with C02)
"""
import importlib.util
import json
import os
import re
import subprocess
import sys

sys.path.insert(0, os.path.join(os.path.dirname(os.path.abspath(__file__)), "..", "..", "lib"))
import vplib as V
import asmgen as G

SPEC = os.path.join(V.SPEC, "Lifecycle")
ARG = {"0": "0", "-1": "-1", "1": "1", "2^16": "65536", "63": "63", "64": "64", "65": "65", "2^31": "2147483648", "2^63-1": "9223372036854775807",
       "-2^63": "(0 - 9223372036854775807 - 1)", "wide-dec": "18446744073709551616", "wide-hex": "$1ffffffffffffffff", "wide-bin": "%1" + "0" * 64}


def site_stmt(site, a):
    t = {
        "literal": ".dword %s" % a, "shl": ".dword 1 << %s" % a, "shl-lhs": ".dword %s << 1" % a, "shr": ".dword 1 >> %s" % a,
        "div": ".dword 7 / %s" % a, "div-lhs": ".dword %s / -1" % a, "mod": ".dword 7 %% %s" % a, "mul": ".dword %s * %s" % (a, a),
        "add": ".dword %s + %s" % (a, a), "sub": ".dword 0 - %s - %s" % (a, a), "neg": ".dword -(%s)" % a,
        "align": ".align %s" % a, "loop": ".loop %s { nop }" % a, "setpc": "* = %s\nnop" % a,
        "seg-start": '.define segment { name = "zs" start = %s }\n.segment "zs" { nop }' % a,
        "seg-pc": '.define segment { name = "zp" start = $1000 pc = %s }\n.segment "zp" { zl: jmp zl }' % a,
        "bank-size": '.define bank { name = "zb" size = %s fill = 1 }\n.define segment { name = "zt" start = $1000 bank = "zb" }\n.segment "zt" { nop }' % a,
        "bank-fill": '.define bank { name = "zc" size = 4 fill = %s }\n.define segment { name = "zu" start = $1000 bank = "zc" }\n.segment "zu" { nop }' % a,
        "byte": ".byte %s\n.word %s" % (a, a), "branch": "bne %s" % a,
        "seg-name": '.define segment { name = "a.b" start = $1000 }', "bank-name": '.define bank { name = "x.y" }',
        "useseg-name": '.segment "c.d" { nop }', "test-name": '.test "t.u" { brk }',
        "nested-call": "lda #defined(defined(nosuch))", "macro-recursion": ".macro rm() { rm() }\nrm()",
        "macro-mutual": ".macro ra() { rb() }\n.macro rb() { ra() }\nra()",
        "mixed-types": '.byte 7\n.byte 1 + "a"\n.byte 8', "mixed-types-insn": 'lda #"a" * 2\nrts', "macro-value": ".macro mv() { nop }\n.byte mv\n.byte 8",
        "deep-braces": "{" * 500 + "nop" + "}" * 500, "deep-parens": ".byte " + "(" * 1000 + "1" + ")" * 1000,
        "long-chain": ".byte " + "+".join(["1"] * 6000), "nested-calls": ".byte " + "zf(" * 40 + "1" + ")" * 40, "unclosed-parens": "lda " + "(" * 40 + "1",
        "seg-start-string": '.define segment { name = "zs" start = "hello" }\n.segment "zs" { zl: nop }',
        "macro-recursion-untaken": ".macro ru() {\nnop\n.if 0 { ru() }\n}\nru()",
        "macro-mutual-untaken": ".macro rx() {\nnop\n.if 0 { ry() } else { inx }\n}\n.macro ry() { rx() }\nrx()",
        "shadow-segments": "segments: { default: { start: nop } }", "interp-number": '.const ivn = 5\n.text "{ivn}{nosuch}"',
        "text-number": ".text 5", "if-string": '.if "a" { nop }',
        "seg-redefine": '.define segment { name = "zr" start = $1000 }\n.segment "zr" { lda #1\nnop }\n.define segment { name = "zr" start = $1000 }',
        "seg-redefine-moved": '.define segment { name = "zq" start = $1000 }\n.segment "zq" { lda #1 }\n.define segment { name = "zq" start = $3000 }\n.segment "zq" { nop }',
        "seg-target-low": '.define segment { name = "zl" start = $0010 pc = $8000 }\n.segment "zl" {\n* = $7000\nlda $1234\n}',      # (`* =' names the address the code runs at: $7000 would be stored below address 0)
        "seg-target-high": '.define segment { name = "zh" start = $1000 pc = $ff00 }\n.segment "zh" {\n* = $fffe\nlda $1234\n}',
        "seg-storage-high": '.define segment { name = "zg" start = $fffe pc = $1000 }\n.segment "zg" {\nlda $1234\n}',
        "loop-nested": ".loop %s { .loop %s { } }" % (a, a),
        "import-super": '.import super as zx from "zinc.asm"\nnop', "import-as-super": '.import * as super from "zinc.asm"\nnop',
        "import-super-path": '.import zfoo as super.zq from "zinc.asm"\nnop',
        "seg-use-before-define": '.segment "zub" { lda #1 }\n.define segment { name = "zub" start = $1000 }\n.segment "zub" { rts }',
        "import-into-itself": '.import zfoo, zfoo as zfoo.zy from "zinc.asm"\nnop',
        "macro-fanout": ".macro zf2() {\nzf2()\nzf2()\n}\nzf2()", "macro-fanout-mutual": ".macro zfa() {\nzfb()\nzfb()\n}\n.macro zfb() {\nzfa()\nzfa()\n}\nzfa()",
        "nested-defined": ".if " + "defined(" * 3000 + "zz" + ")" * 3000 + " { nop }",
        "macro-blocks-3": ".macro zm3() { {{{ zm3() }}} }\nzm3()", "macro-blocks-95": ".macro zm95() { " + "{" * 95 + " zm95() " + "}" * 95 + " }\nzm95()",
        "macro-ifs-40": ".macro zmi() { " + ".if 1 {" * 40 + " zmi() " + "}" * 40 + " }\nzmi()",
        "loop-untaken-loop": ".loop 4096 {\n.if 0 {\n.loop 4096 { nop }\n}\n}",
        "segblock-untaken": '.segment "default" {\n.if 0 { nop } else { inx }\n.byte 1\n}\nlda #1\n.byte 2',
        "segblock-untaken-own": '.define segment { name = "zw" start = $5000 }\n.segment "zw" {\n.if 1 { nop } else { inx }\n}\nldx #nosuch\n.segment "zw" { .if 0 { iny } }\ndex',

        "bank-redefine": '.define bank { name = "zd" }\n.define segment { name = "zv" start = $1000 bank = "zd" }\n.segment "zv" { nop }\n.define bank { name = "zd" size = 1 }',
    }
    return t[site]


def in_context(stmt, ctx, k):
    ind = "\n".join("  " + l for l in stmt.split("\n"))
    if ctx == "top":
        return stmt + "\n"
    if ctx == "macro-uninvoked":
        return ".macro um%d() {\n%s\n}\n" % (k, ind)
    if ctx == "macro-invoked":
        return ".macro im%d() {\n%s\n}\nim%d()\n" % (k, ind, k)
    if ctx == "if-untaken":
        return ".if 0 {\n%s\n}\nnop\n" % ind
    if ctx == "if-taken":
        return ".if 1 {\n%s\n}\n" % ind
    if ctx == "loop":
        return ".loop 2 {\n%s\n}\n" % ind
    return "sc%d: {\n%s\n}\n" % (k, ind)


def run_fulldrive(cases, tag):
    d = V.workdir(tag)
    cin, cout = os.path.join(d, "cases.ndjson"), os.path.join(d, "obs.ndjson")
    V.write_ndjson(cin, cases)
    if os.path.exists(cout):
        os.remove(cout)
    start = 0
    aborts = 0
    while True:
        p = subprocess.run([V.harness_bin("fulldrive"), cin, cout, str(start)], capture_output=True, text=True)
        done = len(open(cout).read().splitlines()) if os.path.exists(cout) else 0
        if done >= len(cases):
            break
        # the process died while working on case number `done` (stack overflow / abort): record it, go on after it
        aborts += 1
        with open(cout, "a") as f:
            f.write(json.dumps({"id": cases[done]["id"], "end": "abort", "panic": None, "stage": "?", "events": [], "rc": p.returncode, "stderr": p.stderr[-300:]}) + "\n")
        start = done + 1
        if aborts > 400:
            raise V.ToolError("fulldrive keeps dying (%d aborts)" % aborts)
    return V.read_ndjson(cout)


def norm_site(panic):
    if not panic:
        return ""
    msg, _, loc = panic.rpartition(" @ ")
    f = loc.rsplit(":", 1)[0].split("/")[-1]
    return "%s: %s" % (f, msg[:48])


def main(tier):
    rep = V.Report("C06", tier)
    V.build_harness(["fulldrive"])
    mos = V.build_mos()
    rnd = V.rng("C06")
    wd = V.workdir("C06")
    # design level
    out_a = os.path.join(wd, "arith.ndjson")
    out_i = os.path.join(wd, "imports.ndjson")
    for f in (out_a, out_i):
        if os.path.exists(f):
            os.remove(f)
    rep.add_tlc(V.tlc_must_pass(os.path.join(SPEC, "MC_Arith.tla"), cfg=os.path.join(SPEC, "MC_Arith.cfg"), env={"OUT": out_a}, workers=2, timeout=600, tag="C06-arith"))
    ri = V.tlc_must_pass(os.path.join(SPEC, "MC_Imports.tla"), cfg=os.path.join(SPEC, "MC_Imports.cfg"), env={"OUT": out_i}, workers=6, deadlock=False, timeout=1200, tag="C06-imports")
    rep.add_tlc(ri)
    rp = V.tlc(os.path.join(SPEC, "Imports.tla"), cfg=os.path.join(SPEC, "MC_Imports_pinned.cfg"), workers=2, timeout=600, tag="C06-imports-pinned")
    if not rp.invariant_violated:
        raise V.ToolError("binding demonstration failed: Imports.tla without cycle detection should overflow")
    rm = V.tlc(os.path.join(V.SPEC, "Asm", "MC_Asm.tla"), cfg=os.path.join(V.SPEC, "Asm", "MC_Asm_quick.cfg" if tier == "quick" else "MC_Asm_thorough.cfg"), workers=8, timeout=3000, tag="C06-mcasm", xmx="12g")
    rep.add_tlc(rm)
    if rm.invariant_violated:
        rep.violations.append({"why": "design level: pass machine does not terminate within the bound (MC_Asm Terminates)", "replay": {"tlc": V.tail(rm.out, 60)}, "id": "MC_Asm"})
    cases, meta = [], {}

    def add(files, hazard, entry="main.asm"):
        cid = len(cases) + 1
        cases.append({"id": cid, "files": files, "entry": entry, "pc": 0x2000})
        meta[cid] = {"hazard": hazard, "files": files}

    arith = V.read_ndjson(out_a)
    for k, c in enumerate(arith):
        if c["site"] == "loop" and c["arg"] in ("2^63-1", "2^31") and c["ctx"] in ("macro-uninvoked", "if-untaken"):
            pass
        add({"main.asm": in_context(site_stmt(c["site"], ARG.get(c["arg"], "")), c["ctx"], k), "zinc.asm": "zfoo: nop\n"}, "%s/%s" % (c["site"], c["arg"]))
        evaluated = c["ctx"] not in ("macro-uninvoked", "if-untaken") or c["arg"].startswith("wide")
        meta[len(cases)]["ideal"] = c["ideal"] if evaluated else ""
    graphs = V.read_ndjson(out_i)
    if tier == "quick":
        rnd.shuffle(graphs)
        graphs = graphs[:300]
    spelled = []
    for gi, g in enumerate(graphs):
        files = {}
        for f, targets in g["graph"].items():
            body = "".join('.import * as m%d from "%s.asm"\n' % (i, t) for i, t in enumerate(targets)) + "l%s: nop\n" % f
            files[f + ".asm"] = body
        add(files, "import-graph")
        if gi % 3 == 0:
            # the same graph with the imported files in a directory of their own and every edge spelled in one of the ways a
            # path can name the same file (`x.asm`, `./x.asm`, `../lib/x.asm`, `lib/../lib/x.asm`): a file is one node of the
            # graph however it is spelled
            files = {}
            for f, targets in g["graph"].items():
                here = "" if f == "main" else "lib/"
                body = ""
                for i, t in enumerate(targets):
                    if t == "main":
                        sp = rnd.choice(["main.asm", "./main.asm", "lib/../main.asm"]) if f == "main" else rnd.choice(["../main.asm", "../lib/../main.asm"])
                    elif f == "main":
                        sp = rnd.choice(["lib/%s.asm", "./lib/%s.asm", "lib/../lib/%s.asm"]) % t
                    else:
                        sp = rnd.choice(["%s.asm", "./%s.asm", "../lib/%s.asm"]) % t
                    body += '.import * as m%d from "%s"\n' % (i, sp)
                files[here + f + ".asm"] = body + "l%s: nop\n" % f
            spelled.append(files)       # (only a real directory tree resolves `..`: these go through the `mos build` process below)
    # mutated corpus (shared with C05) and generated programs
    spec5 = importlib.util.spec_from_file_location("c05check", os.path.join(os.path.dirname(os.path.abspath(__file__)), "..", "C05", "check.py"))
    c05 = importlib.util.module_from_spec(spec5)
    spec5.loader.exec_module(c05)
    for name, text in c05.corpus():
        add({"main.asm": text}, "")
        for m in c05.mutants(name, text, rnd, 12 if tier == "quick" else 150):
            add({"main.asm": m}, "")
    for i in range(800 if tier == "quick" else 6000):
        if i % 4:
            prog = G.Gen(rnd, rnd.randrange(5, 30), segments=(i % 2 == 0)).program()
            files = {}
        else:
            prog, pf = G.Gen7(rnd, depth=3).program()
            files = {fn: G.render(p) for fn, p in pf.items()}
        files["main.asm"] = G.render(prog)
        add(files, "")
    # bank / segment configurations (C09's generator, faults included) with hostile option values mixed in
    import bankslib as B
    nbank = 0
    for i in range(250 if tier == "quick" else 2500):
        cfgb = B.random_cfg(rnd, True)
        src, _toml = B.render(cfgb, rnd)
        if i % 3 == 0:
            val = rnd.choice(["-1", "0", "65536", "65537", "$7fffffffffffffff", "0 - $7fffffffffffffff - 1", "256", "-129", "1 << 40"])
            key = rnd.choice(["size", "fill", "start", "pc"])
            src = re.sub(r"\b%s = [^ }\n]+" % key, "%s = %s" % (key, val), src, count=1)
        add({"main.asm": src}, "bank-config")
        nbank += 1
    V.log("[C06] %d projects through the in-process pipeline" % len(cases))
    obs = run_fulldrive(cases, "C06-drive")
    recs = []
    for o in obs:
        m = meta[o["id"]]
        evs = []
        for e in o.get("events", []):
            e2 = {"ev": e["ev"], "mode": e.get("mode", ""), "repeated": bool(e.get("repeated", False)), "capped": bool(e.get("capped", False)),
                  "digests": e.get("digests", []), "diags": [{"located": d["located"], "file": d["file"], "line": d["line"], "col": d["col"], "nlines": d.get("nlines", 0)} for d in e.get("diags", [])]}
            evs.append(e2)
        recs.append({"id": o["id"], "end": o["end"], "stage": o.get("stage") or "?", "site": norm_site(o.get("panic")), "hazard": m["hazard"], "ideal": m.get("ideal", ""), "files": sorted(m["files"].keys()), "events": evs})
    # process level: raw bytes (invalid UTF-8, NULs) as file contents through `mos build`
    root = V.fresh_dir("C06-proc")
    nproc = 40 if tier == "quick" else 400
    pres = []
    for i in range(nproc):
        d = os.path.join(root, "p%d" % i)
        os.makedirs(d)
        open(os.path.join(d, "mos.toml"), "w").write('[build]\nentry = "main.asm"\n')
        kind = i % 4
        # the first cases are texts whose SIZE is the hazard (recursion depth, operator chains): only the real binary
        # has the real stack
        big = [b"{" * 2000 + b"nop" + b"}" * 2000 + b"\n", b".byte " + b"(" * 3000 + b"1" + b")" * 3000 + b"\n",
               b".byte " + b"+".join([b"1"] * 20000) + b"\n", b"{\n" * 400 + b"lda #" + b"(" * 90 + b"1" + b")" * 90 + b"\n" + b"}\n" * 400,
               b".macro m() {\n" + b".if 1 {\n" * 90 + b"nop\n" + b"}\n" * 90 + b"}\nm()\n"]
        if i < len(big):
            data = big[i]
        elif kind == 0:
            data = bytes(rnd.randrange(256) for _ in range(rnd.randrange(1, 200)))
        elif kind == 1:
            data = b"lda #1\n\xff\xfe nop\n" + bytes(rnd.randrange(128, 256) for _ in range(8))
        elif kind == 2:
            data = b"nop\n" * rnd.randrange(1, 5) + bytes([0, 1, 2, 27]) + b"\nrts\n"
        else:
            data = None            # missing entry file
        if data is not None:
            open(os.path.join(d, "main.asm"), "wb").write(data)
        try:
            p = subprocess.run([mos, "--no-color", "-e", "Short", "build"], cwd=d, capture_output=True, timeout=30)
            rc, hung = p.returncode, False
            outp = p.stdout.decode("utf-8", "replace")
            if rc in (0, 1) and i < len(big):          # the formatter walks the same tree
                p2 = subprocess.run([mos, "--no-color", "-e", "Short", "format"], cwd=d, capture_output=True, timeout=30)
                if p2.returncode not in (0, 1):
                    rc, outp = p2.returncode, p2.stdout.decode("utf-8", "replace")
        except subprocess.TimeoutExpired:
            rc, hung, outp = -9, True, ""
        end = "hang" if hung else ("done" if rc in (0, 1) else ("panic" if rc == 101 else "abort"))
        cid = len(cases) + 1 + i
        meta[cid] = {"hazard": "raw-bytes", "files": {"main.asm": repr(data)[:200]}}
        has_out = rc == 0 or "error" in outp
        recs.append({"id": cid, "end": end if (end != "done" or has_out) else "panic", "stage": "process", "site": "process exit %d" % rc, "hazard": "raw-bytes", "ideal": "", "files": ["main.asm"], "events": []})
        pres.append((cid, rc, outp[-300:]))
    for k, files in enumerate(spelled):
        d = os.path.join(root, "g%d" % k)
        for fn, txt in files.items():
            os.makedirs(os.path.dirname(os.path.join(d, fn)), exist_ok=True)
            open(os.path.join(d, fn), "w").write(txt)
        open(os.path.join(d, "mos.toml"), "w").write('[build]\nentry = "main.asm"\n')
        try:
            p = subprocess.run([mos, "--no-color", "-e", "Short", "build"], cwd=d, capture_output=True, timeout=30)
            rc, hung, outp = p.returncode, False, p.stdout.decode("utf-8", "replace")
        except subprocess.TimeoutExpired:
            rc, hung, outp = -9, True, ""
        end = "hang" if hung else ("done" if rc in (0, 1) else ("panic" if rc == 101 else "abort"))
        cid = len(cases) + 1 + nproc + k
        meta[cid] = {"hazard": "import-graph", "files": files}
        has_out = rc == 0 or "error" in outp
        recs.append({"id": cid, "end": end if (end != "done" or has_out) else "panic", "stage": "process", "site": "process exit %d" % rc, "hazard": "import-graph", "ideal": "", "files": sorted(files), "events": []})
        pres.append((cid, rc, outp[-300:]))
    verdicts, st = V.judge(os.path.join(SPEC, "LifecycleTrace.tla"), recs, cfg=os.path.join(SPEC, "LifecycleTrace.cfg"), tag="C06-judge", batch=4000, timeout=3000)
    rep.add_stats(st)
    rep.cov["traces_validated_against_impl"] = len(recs)
    rep.cov["evaluations"] = len(recs)
    rep.cov["distinct_nontrivial"] = len({json.dumps(meta[r["id"]]["files"], sort_keys=True) for r in recs})
    rep.cov["rule"] = ("TLC hazard table (%d cases: %d sites x argument classes x 7 contexts), %d import graphs over 3 files + missing (of TLC's 1331), corpus files with seeded single-character mutants, "
                       "%d generated programs, %d raw-byte files through the `mos build` process; every project runs parse, format, build-mode codegen, bank merge, symbol file text, listings, greedy-mode codegen under a pass observer "
                       "(repeated state digest = proof of non-termination), panic capture, a hang watchdog and abort detection; distinct = distinct project contents" % (len(arith), 31, len(graphs), 800 if tier == "quick" else 6000, nproc))
    ends = {}
    for r in recs:
        ends[r["end"]] = ends.get(r["end"], 0) + 1
    rep.cov["run_endings"] = ends
    for r in recs[:2] + recs[len(arith) + 5:len(arith) + 6]:
        rep.sample({"files": meta[r["id"]]["files"], "end": r["end"], "events": [e["ev"] + ":" + e["mode"] for e in r["events"]]})
    rep.assumptions += ["debug-profile build (arithmetic overflow checks on), as the test suite uses", "hang = no result within 10 s for inputs of a few hundred bytes",
                        "known hazards are matched by panic site / hazard class (see known_findings.jsonl); anything else is a violation"]
    omap = {o["id"]: o for o in obs}
    for v in verdicts:
        cid = v["id"]
        rep.verdict(v, {"files": meta[cid]["files"], "hazard": meta[cid]["hazard"], "observation": omap.get(cid), "why": v.get("why")})
    return rep.finish()


if __name__ == "__main__":
    V.main_wrapper(main)
