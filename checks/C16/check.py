#!/usr/bin/env python3
"""C16 - go-to-definition, find-references and highlights agree with the assembler's scoping.

spec/Scopes/Scopes.tla     which definition every identifier occurrence denotes (re-uses Asm.tla's scoping operators)
spec/Scopes/MC_Scopes.tla  design level: all shadowing combinations of a 3-level skeleton x 8 path forms; exports programs
spec/Scopes/NavTrace.tla   judge: replies of the real server at every occurrence vs Def / Refs / Highlights
"""
import json
import os
import sys
from concurrent.futures import ThreadPoolExecutor

sys.path.insert(0, os.path.join(os.path.dirname(os.path.abspath(__file__)), "..", "..", "lib"))
import vplib as V
import lspdrive as L
import scopedrive as D

SPEC = os.path.join(V.SPEC, "Scopes")


def design_level(rep):
    mc = os.path.join(SPEC, "MC_Scopes.tla")
    r = V.tlc(mc, cfg=os.path.join(SPEC, "MC_Scopes.cfg"), workers=4, timeout=1200, tag="C16-mc")
    rep.add_tlc(r)
    if r.invariant_violated:
        rep.violations.append({"why": "design level: MC_Scopes invariant violated", "replay": {"tlc_output": V.tail(r.out, 60)}, "id": "MC_Scopes"})
        return None
    if r.rc != 0 or "Error:" in r.out:
        raise V.ToolError("MC_Scopes failed:\n" + V.tail(r.out, 40))
    for w in ("capture", "errfree"):
        rv = V.tlc(mc, cfg=os.path.join(SPEC, "MC_Scopes_vac_%s.cfg" % w), workers=2, timeout=600, tag="C16-vac-" + w)
        if not rv.invariant_violated:
            raise V.ToolError("vacuous MC_Scopes space: witness '%s' not found" % w)
    mm = os.path.join(SPEC, "MC_Macros.tla")
    r2 = V.tlc(mm, cfg=os.path.join(SPEC, "MC_Macros.cfg"), workers=4, timeout=1200, tag="C16-mm")
    rep.add_tlc(r2)
    if r2.invariant_violated:
        rep.violations.append({"why": "design level: MC_Macros invariant violated", "replay": {"tlc_output": V.tail(r2.out, 60)}, "id": "MC_Macros"})
        return None
    if r2.rc != 0 or "Error:" in r2.out:
        raise V.ToolError("MC_Macros failed:\n" + V.tail(r2.out, 40))
    if not V.tlc(mm, cfg=os.path.join(SPEC, "MC_Macros_vac_shadow.cfg"), workers=2, timeout=600, tag="C16-vac-shadow").invariant_violated:
        raise V.ToolError("vacuous MC_Macros space: no macro call next to a non-macro symbol of the same name")
    rep.notes.append("MC_Macros: %d programs (macros with parameters, calls in taken/untaken if-else branches, a constant named like a macro): RefsInverse, "
                     "CallsDenoteMacros, ParamsApart, FreshRenameIsCaptureFree hold; witness: shadowed calls exist" % r2.distinct)
    rep.notes.append("MC_Scopes: %d programs; AgreesWithAsm, RefsInverse, FreshRenameIsCaptureFree hold; witnesses: error-free programs and capturing renames exist" % r.distinct)
    mi = os.path.join(SPEC, "MC_Imports.tla")
    r3 = V.tlc(mi, cfg=os.path.join(SPEC, "MC_Imports.cfg"), workers=4, timeout=1200, tag="C16-mi")
    rep.add_tlc(r3)
    if r3.invariant_violated:
        rep.violations.append({"why": "design level: MC_Imports invariant violated", "replay": {"tlc_output": V.tail(r3.out, 60)}, "id": "MC_Imports"})
        return None
    if r3.rc != 0 or "Error:" in r3.out:
        raise V.ToolError("MC_Imports failed:\n" + V.tail(r3.out, 40))
    for w in ("alias", "good"):
        if not V.tlc(mi, cfg=os.path.join(SPEC, "MC_Imports_vac_%s.cfg" % w), workers=2, timeout=600, tag="C16-vac-imp-" + w).invariant_violated:
            raise V.ToolError("vacuous MC_Imports space: witness '%s' not found" % w)
    rep.notes.append("MC_Imports: %d instances (import * / * as m / a as x, b; parameter block): RefsInverse, AliasDenotesSymbol, FreshRenameIsCaptureFree hold; "
                     "witnesses: error-free instances and alias spellings exist" % r3.distinct)
    mf = os.path.join(SPEC, "MC_Forms.tla")
    r4 = V.tlc(mf, cfg=os.path.join(SPEC, "MC_Forms.cfg"), workers=4, timeout=1200, tag="C16-mf")
    rep.add_tlc(r4)
    if r4.invariant_violated:
        rep.violations.append({"why": "design level: MC_Forms invariant violated", "replay": {"tlc_output": V.tail(r4.out, 60)}, "id": "MC_Forms"})
        return None
    if r4.rc != 0 or "Error:" in r4.out:
        raise V.ToolError("MC_Forms failed:\n" + V.tail(r4.out, 40))
    rep.notes.append("MC_Forms: %d programs (two paths in one expression, .var assigned twice, defined(), .loop): EachOccurrenceCounts, VarIsOneSymbol, "
                     "DefinedIsAUse, IndexDenotesNothing, FreshRenameIsCaptureFree hold" % r4.distinct)
    mv = os.path.join(SPEC, "MC_VarShadow.tla")
    r5 = V.tlc(mv, cfg=os.path.join(SPEC, "MC_VarShadow.cfg"), workers=4, timeout=1200, tag="C16-mv")
    rep.add_tlc(r5)
    if r5.invariant_violated:
        rep.violations.append({"why": "design level: MC_VarShadow invariant violated", "replay": {"tlc_output": V.tail(r5.out, 60)}, "id": "MC_VarShadow"})
        return None
    if r5.rc != 0 or "Error:" in r5.out:
        raise V.ToolError("MC_VarShadow failed:\n" + V.tail(r5.out, 40))
    rep.notes.append("MC_VarShadow: %d programs (a block that uses an outer name, defines its own - constant, label or sequential variable - and uses it again): "
                     "Sequential, RefsInverse, FreshRenameIsCaptureFree hold" % r5.distinct)
    return D.tlc_cases(r), D.tlc_cases(r2), D.tlc_cases(r3) + D.tlc_cases(r4) + D.tlc_cases(r5)


def observe(mos, p):
    obs, alive, panic = D.nav_observe(mos, p)
    return {"answered": alive, "panic": panic, "id": p["id"], "ok": True, "main": "main.asm", "files": D.files_field(p), "ord": D.ord_field(p),
            "obs": [{k: o[k] for k in ("oid", "def", "refsT", "refsF", "hl")} for o in obs if o["status"] == "ok"]}, alive


def main(tier):
    rep = V.Report("C16", tier)
    L.add_local_findings(rep, os.path.dirname(os.path.abspath(__file__)))
    mos = V.build_mos()
    asts = design_level(rep)
    if asts is None:
        return rep.finish()
    asts, masts, iasts = asts
    rnd = V.rng("C16")
    wd = V.fresh_dir("C16")
    rnd.shuffle(asts)
    rnd.shuffle(masts)
    if tier == "quick":
        asts, masts = asts[:130], masts[:70]
    nplain = len(asts)                       # the plain scope skeletons (no macros, imports, vars ..): used for the judge self-test
    asts = asts + masts + iasts
    projs = []
    with ThreadPoolExecutor(max_workers=6) as ex:
        projs = [p for p in ex.map(lambda i: D.project_from_ast(asts[i], mos, os.path.join(wd, "t%04d" % i), 100000 + i), range(len(asts))) if p["ok"]]
    nt = len(projs)
    gen, tries = D.make_projects(rnd, 120 if tier == "quick" else 1200, mos, wd, "g")
    projs += gen
    V.log("[C16] %d projects (%d of %d TLC-enumerated programs build, %d generated from %d attempts)" % (len(projs), nt, len(asts), len(gen), tries))
    if nt < len(asts) // 2 or len(gen) < 20:
        raise V.ToolError("too few projects build: generator, renderer or tree broken")
    with ThreadPoolExecutor(max_workers=6) as ex:
        res = list(ex.map(lambda p: observe(mos, p), projs))
    recs = [V.clip_tree(r) for r, alive in res]
    byid = {p["id"]: p for p in projs}
    jm, jc = os.path.join(SPEC, "NavTrace.tla"), os.path.join(SPEC, "NavTrace.cfg")
    verdicts, st = V.judge(jm, recs, cfg=jc, tag="C16-judge", batch=300, timeout=1800)
    rep.add_stats(st)

    # binding demonstration: corrupt single fields of accepted records
    bad = {v["id"] for v in verdicts}
    clean = [r for r in recs if r["id"] not in bad and len(r["obs"]) >= 4 and r["answered"] and 100000 <= r["id"] < 100000 + nplain]
    if not clean and not verdicts:
        raise V.ToolError("no accepted record for the judge self-test")
    muts = []
    for j in range(3 if clean else 0):
        m = json.loads(json.dumps(clean[j % len(clean)]))
        m["id"] = 900000 + j
        defs = sorted({o["def"] for o in m["obs"] if o["def"] > 0})
        o = m["obs"][-1]
        if j == 0:
            o["def"] = -1                                        # go-to-definition finds nothing
        elif j == 1:
            d = [x for x in m["obs"] if x["oid"] == defs[0]][0]
            d["refsT"] = d["refsT"][:-1]                         # one reference missing
        else:
            d = [x for x in m["obs"] if x["oid"] == defs[0]][0]
            d["hl"] = d["hl"] + [-2]                             # a highlight that is no occurrence
        muts.append(m)
    mv = V.judge(jm, muts, cfg=jc, tag="C16-selftest")[0] if muts else []
    caught = {v["id"] for v in mv if v["verdict"] == "violation" or (v["verdict"] == "deviation" and v.get("dev") not in rep.open)}
    if caught != {m["id"] for m in muts}:
        raise V.ToolError("judge self-test: corrupted records not rejected: %s" % sorted({m["id"] for m in muts} - caught))
    if muts:
        rep.notes.append("judge self-test: 3 corrupted recordings (null definition, missing reference, stray highlight) rejected")

    nocc = sum(len(r["obs"]) for r in recs)
    rep.cov["traces_validated_against_impl"] = len(recs)
    rep.cov["evaluations"] = nocc * 4
    rep.cov["distinct_nontrivial"] = len({json.dumps(p["texts"], sort_keys=True) for p in projs})
    rep.cov["rule"] = ("error-free projects (checked with `mos build`): TLC-enumerated 3-level scope skeletons with all shadowing combinations x 8 path forms, TLC-enumerated macro/if-else programs (MC_Macros), and seeded generated "
                       "projects (nested label scopes, braces, constants, dotted/super paths, untaken .if, .if/else with either branch taken, macros with parameters called from taken and untaken code, constants named like a macro, every third with an imported file); definition, references(+/- declaration) "
                       "and documentHighlight at every identifier occurrence incl. every path segment; distinct = distinct project texts")
    rep.cov["occurrences"] = nocc
    for p in projs[:2] + gen[:2]:
        rep.sample({"main.asm": p["texts"]["main.asm"], "occurrences": len(p["occ"])})
    rep.assumptions += ["references and highlights are judged at definition sites (the property speaks of find-references on a definition); go-to-definition at every occurrence",
                        "a `super` segment denotes the label owning the scope it reaches; for anonymous scopes and the root any answer is accepted",
                        "macro bodies use their parameters only (a body is resolved from the calling scope, so other names would mean different things per call); string interpolation and `import .. as` forms are not generated yet"]
    for v in verdicts:
        p = byid.get(v["id"])
        rep.verdict(v, {"texts": p["texts"] if p else None, "occ": p["occ"] if p else None, "judge": "spec/Scopes/NavTrace.tla", "why": v.get("why")})
    return rep.finish()


if __name__ == "__main__":
    V.main_wrapper(main)
