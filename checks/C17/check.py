#!/usr/bin/env python3
"""C17 - format-document edits reproduce the formatter.

spec/Edits/Edits.tla       LSP edit semantics (WellFormed, Apply) and the handler's diff -> edits rule with its tracker
spec/Edits/MC_Edits.tla    design level: all diffs of <= 4 chunks over ASCII / 2-, 3-, 4-byte characters / line feeds
spec/Edits/EditsTrace.tla  judge: edits of the real server applied to the buffer = what `mos format` writes
"""
import json
import os
import shutil
import subprocess
import sys
from concurrent.futures import ThreadPoolExecutor

sys.path.insert(0, os.path.join(os.path.dirname(os.path.abspath(__file__)), "..", "..", "lib"))
import vplib as V
import lspdrive as L
import scopedrive as D

SPEC = os.path.join(V.SPEC, "Edits")

CODE = ["lda #1", "sta $d020", "foo: nop", "bar:   lda  foo", ".const  x=1", "{ nop }", "loop: { inc $d020\njmp loop }", ".byte 1,2 ,3", "ldx #<foo", "jmp  bar",
        ".if x { nop } else { asl }", "rts", "stuff: {\n  inner: rts\n}", ".word foo , bar", "lda stuff.inner"]
COMMENTS = ["// plain", "// café", "/* block */", "/* 汉字 */", "// \U0001F600 smile", "// üñ", "/* two\n   lines é */"]
TEXTS = ['.text "hi"', '.text "hé"', '.text "汉"']


def units(s):
    b = s.encode("utf-16-le")
    return [b[i] | (b[i + 1] << 8) for i in range(0, len(b), 2)]


def gen_buffer(rnd, ascii_only):
    n = rnd.randrange(1, 8)
    lines, have = [], set()
    for _ in range(n):
        c = rnd.choice(CODE)
        if c.split(":")[0] in have:
            c = "nop"
        if ":" in c.split("\n")[0]:
            have.add(c.split(":")[0])
        x = rnd.random()
        pad = rnd.choice(["", " ", "  ", "\t", "        "])
        if x < 0.25:
            c = c + rnd.choice(["", " ", "   "]) + rnd.choice([k for k in COMMENTS if "\n" not in k and (not ascii_only or k.isascii())])
        elif x < 0.35:
            c = rnd.choice([k for k in COMMENTS if not ascii_only or k.isascii()])
        elif x < 0.42 and not ascii_only:
            c = rnd.choice(TEXTS)
        elif x < 0.5:
            c = ""
        lines.append(pad + c.replace("\n", "\n" + pad))
    text = "\n".join(lines) + rnd.choice(["\n", "", "\n\n"])
    need = {"foo": "foo: nop", "bar": "bar: nop", "stuff": "stuff: {\n inner: rts\n}", "x": ".const x = 1"}
    pre = [v for k, v in need.items() if k not in have and k in text.replace("foo2", "")]
    text = "\n".join(pre + [text]) if pre else text
    if rnd.random() < 0.25:
        text = text.replace("\n", "\r\n")
    return text


def move_buffers():
    """The family that makes the formatter MOVE text across an unchanged piece (diff shape Delete X, Equal E, Insert X:
    the handler's three-chunk merge rule, Edits!EditsFrom first arm) with further edits after it: a label on its own line
    joined with the following instruction, two statements on one line split apart, a brace moved - each followed by
    statements that need re-indentation or lose trailing blanks.  Enumerated, not sampled."""
    out = []
    pres = ["", "    lda #0\n    sta $d020\n", "nop\n"]
    sufs = ["    jmp loop\n", "  jmp loop  \n\tinx\n", "jmp loop\n\n\n  rts \n"]
    for pre in pres:
        for suf in sufs:
            for ws in (" ", "  ", "\t", "    "):
                for trail in ("", " ", "  "):
                    out.append(pre + "loop:\n" + ws + "inc $d021" + trail + "\n" + suf)
            for two in (".byte 1,2 .byte 1,2", "lda #1 sta $d020", "inx  iny ", "loop2: {\n nop }", "loop2:\n{\n nop\n}"):
                out.append(pre + "loop: nop\n" + two + "\n" + suf)
    return out


def is_rotation(old, new):
    """old = X+E, new = E+X with X, E non-empty: the footprint of the merge rule (coverage bookkeeping only)"""
    return old != new and len(old) == len(new) and any(old[k:] + old[:k] == new for k in range(1, len(old)))


MAIN2 = '.import * from "inc.asm"\n  nop\n'        # two-file projects: the buffer under test is the imported file


def mos_format(mos, wd, n, text, two=False):
    d = os.path.join(wd, "f%05d" % n)
    shutil.rmtree(d, ignore_errors=True)
    os.makedirs(d)
    open(os.path.join(d, "mos.toml"), "w").write('[build]\nentry = "main.asm"\n')
    target = "inc.asm" if two else "main.asm"
    if two:
        open(os.path.join(d, "main.asm"), "w").write(MAIN2)
    with open(os.path.join(d, target), "w", encoding="utf-8", newline="") as f:
        f.write(text)
    try:
        p = subprocess.run([mos, "--no-color", "-e", "Short", "format"], cwd=d, capture_output=True, text=True, timeout=60)
    except subprocess.TimeoutExpired:
        shutil.rmtree(d, ignore_errors=True)
        return False, text
    with open(os.path.join(d, target), encoding="utf-8", newline="") as f:
        out = f.read()
    shutil.rmtree(d, ignore_errors=True)
    return p.returncode == 0, out


def main(tier):
    rep = V.Report("C17", tier)
    open_devs = L.add_local_findings(rep, os.path.dirname(os.path.abspath(__file__)))
    mos = V.build_mos()
    mc = os.path.join(SPEC, "MC_Edits.tla")
    # reading of the current tree: byte columns only while EditColumnsInBytes is open (spec/Edits/MC_Edits_impl.cfg pins "bytes")
    cur = os.path.join(V.workdir("C17-cfg"), "MC_Edits_current.cfg")
    mode = "bytes" if "EditColumnsInBytes" in open_devs else "u16"
    open(cur, "w").write(open(os.path.join(SPEC, "MC_Edits_impl.cfg")).read().replace('Mode = "bytes"', 'Mode = "%s"' % mode))
    for cfg, what in ((os.path.join(SPEC, "MC_Edits_ideal.cfg"), "ideal tracker"), (cur, "tracker of the current tree (%s columns), weakened by the witness" % mode)):
        r = V.tlc(mc, cfg=cfg, workers=4, timeout=1200, tag="C17-" + os.path.basename(cfg)[:-4])
        cfg = os.path.basename(cfg)
        rep.add_tlc(r)
        if r.invariant_violated:
            rep.violations.append({"why": "design level: %s violated" % cfg, "replay": {"tlc_output": V.tail(r.out, 60)}, "id": cfg})
            return rep.finish()
        if r.rc != 0 or "Error:" in r.out:
            raise V.ToolError("MC_Edits failed:\n" + V.tail(r.out, 40))
        rep.notes.append("%s: %d diffs, edits reproduce the new text (%s)" % (cfg, r.distinct, what))
    rv = V.tlc(mc, cfg=os.path.join(SPEC, "MC_Edits_vac.cfg"), workers=2, timeout=600, tag="C17-vac")
    if not rv.invariant_violated:
        raise V.ToolError("vacuity: the byte tracker never breaks the property in the model")
    rep.notes.append("pinned reading (byte columns) refuted by TLC against the un-weakened property (MC_Edits_vac.cfg)")
    rnd = V.rng("C17")
    wd = V.fresh_dir("C17")
    nbuf = 250 if tier == "quick" else 2500
    bufs = [gen_buffer(rnd, ascii_only=(i % 2 == 0)) for i in range(nbuf)]
    mv = move_buffers()
    if tier == "quick":
        rnd.shuffle(mv)
        mv = mv[:110]
    bufs += mv
    nbuf = len(bufs)
    root = os.path.join(wd, "proj")
    os.makedirs(root)
    open(os.path.join(root, "mos.toml"), "w").write('[build]\nentry = "main.asm"\n')
    open(os.path.join(root, "main.asm"), "w").write("nop\n")
    open(os.path.join(root, "inc.asm"), "w").write("nop\n")

    def chunk(k):
        # every request has its own timeout; a server that died or hangs is killed and replaced, the missing answer is an
        # observation (status dead/timeout) for the judge; after a few of them the rest of this share is not driven any more
        srv = L.Server(mos, root, timeout=10.0)
        srv.initialize()
        path1, path2 = os.path.join(root, "main.asm"), os.path.join(root, "inc.asm")
        srv.did_open(path1, "nop\n")
        out, unanswered, fresh_server = [], 0, True
        for i in range(k, nbuf, 6):
            if unanswered >= 4:
                break
            text = bufs[i]
            two = i % 4 == 3                              # every fourth buffer is formatted as the imported file of a two-file project
            path = path2 if two else path1
            fmt_ok, formatted = mos_format(mos, wd, i, text, two)
            for pas, buf in enumerate([text, formatted] if fmt_ok else [text]):       # second pass: already formatted text
                if not fresh_server:
                    srv.kill()
                    srv = L.Server(mos, root, timeout=10.0)
                    srv.initialize()
                    srv.did_open(path1, "nop\n")
                    fresh_server = True
                if two:
                    srv.did_change(path1, MAIN2)
                    srv.did_open(path2, buf)
                else:
                    srv.did_change(path1, buf)
                ok2, formatted2 = (fmt_ok, formatted) if pas == 0 else mos_format(mos, wd, i, buf, two)
                for kind in ("formatting", "onType"):
                    r = srv.request(*L.params_for(kind, path, 0, 0))
                    if r["status"] not in ("ok", "error"):
                        unanswered += 1
                        fresh_server = False                 # dead or hung: replace it before the next buffer
                    eds = r["result"] if r["status"] == "ok" else None
                    out.append({"id": i * 10 + pas * 2 + (kind == "onType"), "kind": kind + ("/imported file" if two else ""), "status": r["status"], "answered": eds is not None, "doc": units(buf),
                                "edits": [{"sl": e["range"]["start"]["line"], "sc": e["range"]["start"]["character"], "el": e["range"]["end"]["line"],
                                           "ec": e["range"]["end"]["character"], "new": units(e["newText"])} for e in (eds or [])],
                                "fmtOk": ok2, "formatted": units(formatted2), "_text": buf, "_fmt": formatted2, "_raw": eds})
        srv.kill()
        return out
    with ThreadPoolExecutor(max_workers=6) as ex:
        recs = [x for lst in ex.map(chunk, range(6)) for x in lst]
    nmerge = 0
    for x in recs:
        eds = x["_raw"] or []
        t = x["_text"]
        for k, e in enumerate(eds[:-1]):
            a = D.pos_to_index(t, e["range"]["start"]["line"], e["range"]["start"]["character"])
            b = D.pos_to_index(t, e["range"]["end"]["line"], e["range"]["end"]["character"])
            if t.isascii() and is_rotation(t[a:b], e["newText"]):
                nmerge += 1
                break
    # vacuity is a statement about the generated INPUTS: buffers of the move family that `mos format` accepts and changes
    # (their reference diff has the delete X / keep E / insert X shape followed by more changes) must have been driven
    mvset = set(mv)
    nmove = sum(1 for x in recs if x["fmtOk"] and x["_text"] in mvset and x["_fmt"] != x["_text"])
    extra = {x["id"]: {"buffer": x.pop("_text"), "mos_format": x.pop("_fmt"), "edits": x.pop("_raw")} for x in recs}
    njudged = sum(1 for x in recs if x["answered"] and x["fmtOk"])
    V.log("[C17] %d buffers, %d requests, %d answered with edits on error-free buffers" % (nbuf, len(recs), njudged))
    nfmt = sum(1 for x in recs if x["fmtOk"])
    if nfmt < len(recs) // 4:
        raise V.ToolError("too few buffers are error-free for `mos format` (%d of %d): generator broken" % (nfmt, len(recs)))
    jm, jc = os.path.join(SPEC, "EditsTrace.tla"), os.path.join(SPEC, "EditsTrace.cfg")
    verdicts, st = V.judge(jm, recs, cfg=jc, tag="C17-judge", batch=500, timeout=2400)
    rep.add_stats(st)
    bad = {v["id"] for v in verdicts}
    clean = [x for x in recs if x["id"] not in bad and x["answered"] and x["fmtOk"] and x["edits"] and all(u < 128 for u in x["doc"])]
    if not clean and not verdicts:
        raise V.ToolError("no accepted record for the judge self-test")
    muts = []
    for j in range(3 if clean else 0):
        m = json.loads(json.dumps(clean[j % len(clean)]))
        m["id"] = 9000000 + j
        if j == 0:
            m["edits"][0]["new"] = m["edits"][0]["new"] + [120]
        elif j == 1:
            m["edits"][-1]["el"] += 500
        else:
            m["formatted"] = m["formatted"] + [32]
        muts.append(m)
    mv = V.judge(jm, muts, cfg=jc, tag="C17-selftest")[0] if muts else []
    caught = {v["id"] for v in mv if v["verdict"] == "violation"}
    if caught != {m["id"] for m in muts}:
        raise V.ToolError("judge self-test: corrupted records not rejected: %s" % sorted({m["id"] for m in muts} - caught))
    if muts:
        rep.notes.append("judge self-test: 3 corrupted recordings (edit text, edit range, formatter output) rejected")
    rep.cov["traces_validated_against_impl"] = njudged
    rep.cov["evaluations"] = len(recs)
    rep.cov["distinct_nontrivial"] = len({json.dumps(x["doc"]) for x in recs if x["answered"] and x["fmtOk"] and x["edits"]})
    rep.cov["merge_rule_then_later_edit"] = nmerge
    rep.cov["move_family_buffers_driven"] = nmove
    rep.cov["unanswered_requests"] = sum(1 for x in recs if x["status"] not in ("ok", "error"))
    rep.cov["rule"] = ("seeded buffers of 1-8 statements with random spacing, line/block comments, blank lines, CRLF (25 %), non-ASCII text in comments and strings (every second buffer), "
                       "the enumerated family of buffers in which the formatter moves text across an unchanged piece (label line joined with the next instruction, two statements on one line) followed by more edits, "
                       "and the already formatted text of each; textDocument/formatting and onTypeFormatting on the real server vs `mos format` on the same file; distinct = distinct buffers with a non-empty edit list")
    for x in recs[:3]:
        rep.sample({"buffer": extra[x["id"]]["buffer"], "edits": len(x["edits"])})
    rep.assumptions += ["line terminators: the server's formatter works on \\n, `mos format` writes the platform line ending (\\n here)"]
    for v in verdicts:
        rep.verdict(v, {"case": extra.get(v["id"]), "judge": "spec/Edits/EditsTrace.tla", "why": v.get("why")})
    if not rep.violations:                       # a vacuity guard never outranks a verdict
        if nmove == 0:
            raise V.ToolError("vacuity: no buffer of the move family (delete X, keep E, insert X, then more changes) was driven")
        if njudged < len(recs) // 4:
            raise V.ToolError("vacuity: only %d of %d requests were answered with edits on error-free buffers" % (njudged, len(recs)))
    return rep.finish()


if __name__ == "__main__":
    V.main_wrapper(main)
