SPECIFICATION SpecDesign
CONSTANT Deviations = {}
CONSTANT MaxHist = 0
VIEW DesignView
INVARIANT TypeOK
INVARIANT InvFreshAnalysis
INVARIANT InvFreshShown
INVARIANT InvTotal
