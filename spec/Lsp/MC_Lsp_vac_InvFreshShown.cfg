SPECIFICATION SpecDesign
CONSTANT Deviations = {"CloseDoesNotReanalyse", "RenameTaintsCache", "StaleDiagnosticsForDroppedFile", "PrepareRenameSlicesPastEol", "SourceLinePastEof", "CompletionSplitsInsideChar", "DidChangeFirstEntryWins", "NonFileUriPanics", "MalformedParamsPanic", "UnknownRequestNeverAnswered", "NonUtf8PathPanics", "WorkspaceSymbolRecursesImports", "SemanticTokenPastEndOfLine", "CodeLensOfImportedTests", "PrepareRenameWordStartInsideChar"}
CONSTANT MaxHist = 0
VIEW DesignView
INVARIANT InvFreshShown
