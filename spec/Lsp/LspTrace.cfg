SPECIFICATION Spec
POSTCONDITION Consumed
