---------------------------------- MODULE Lsp ----------------------------------
(* The mos language server as a state machine, at the grain of one JSON-RPC message.        *)
(*                                                                                          *)
(* State (record s):                                                                        *)
(*   cli    file -> text id the CLIENT has in its open buffer (NoText: not open): the truth    *)
(*   buf    file -> text id the SERVER holds for it; differs from cli only through a defect    *)
(*   has    a cached parse tree / codegen exists (the configured build entry was resolvable  *)
(*          when the last analysis ran);  main: the entry file of that analysis              *)
(*   an     file -> text id: the file map the cached parse tree / codegen was computed from  *)
(*   taint  the cached symbol table was mutated by a `rename' request since the last analysis*)
(*   stale  files closed since the last analysis whose buffer differed from the disk text    *)
(*   shown  file -> id of the diagnostics last published for it ("none": nothing/empty list) *)
(*   alive  the process is running;  death: name of the defect that ended it ("" = none)     *)
(* disk (file -> text id, NoText = the file does not exist) never changes during a session. *)
(* The project configuration (mos.toml) is one of the files: its effective text (buffer over *)
(* disk) names the build entry; an analysis exists only while that entry exists as a buffer  *)
(* or on disk (mod.rs perform_codegen: reset first, return early if the entry is missing).    *)
(*                                                                                          *)
(* Every action exists in two readings selected by the constant set `devs':                  *)
(* the ideal one (the property as stated: C14) and the one the code performs today.          *)
(* The operators are pure (state in, state out) so that LspTrace.tla can fold them over a     *)
(* recorded session of the real server; MC_Lsp.tla wraps them into actions for TLC.           *)
EXTENDS Integers, Sequences, FiniteSets, TLC

NoText == "-"

AllDeviations == {"CloseDoesNotReanalyse", "RenameTaintsCache", "StaleDiagnosticsForDroppedFile",
                  "PrepareRenameSlicesPastEol", "SourceLinePastEof", "CompletionSplitsInsideChar",
                  "DidChangeFirstEntryWins", "NonFileUriPanics",
                  "MalformedParamsPanic", "UnknownRequestNeverAnswered", "NonUtf8PathPanics",
                  "WorkspaceSymbolRecursesImports", "SemanticTokenPastEndOfLine", "CodeLensOfImportedTests",
                  "PrepareRenameWordStartInsideChar"}

(* what the server would read for every file: the open buffer, else the disk *)
Eff(disk, buf) == [f \in DOMAIN disk |-> IF buf[f] # NoText THEN buf[f] ELSE disk[f]]
SomeOpen(buf) == \E f \in DOMAIN buf : buf[f] # NoText

(* is the build entry named by the effective configuration resolvable?  entryOf: config text id -> entry file name *)
EntryFile(disk, buf, cfg, entryOf(_)) == entryOf(Eff(disk, buf)[cfg])
Resolvable(disk, buf, cfg, entryOf(_)) ==
  LET e == EntryFile(disk, buf, cfg, entryOf) IN e \in DOMAIN disk /\ Eff(disk, buf)[e] # NoText

(* start-up: the server analyses the project as it is on disk *)
S0(disk, ok, main) == [buf |-> [f \in DOMAIN disk |-> NoText], cli |-> [f \in DOMAIN disk |-> NoText], has |-> ok, main |-> main, an |-> disk, taint |-> FALSE, stale |-> {},
                       shown |-> [f \in DOMAIN disk |-> "none"], alive |-> TRUE, death |-> ""]

(* didOpen / didChange: insert the text, throw the cached analysis away, analyse the effective file map, publish.  *)
(* ok/main: is the entry resolvable in the new buffers, and which file is it (when not ok every cached result is     *)
(* dropped and nothing is analysed or published: tree = {}).                                                         *)
(* tree = files of the new parse tree, diag(f) = id of the diagnostics computed for f.                               *)
(* Code today: publishes for the files of the new tree only; a file that dropped out keeps what was shown for it.   *)
(* t is what the server takes as the new text, tc what the client's buffer holds (equal unless a defect is at work).  *)
InsertC(s, disk, f, t, tc, ok, main, tree, diag(_), devs) ==
  LET b  == [s.buf EXCEPT ![f] = t]
      sh == [g \in DOMAIN disk |-> IF g \in tree THEN diag(g)
                                   ELSE IF "StaleDiagnosticsForDroppedFile" \in devs THEN s.shown[g] ELSE "none"] IN
  [s EXCEPT !.buf = b, !.cli = [@ EXCEPT ![f] = tc], !.has = ok, !.main = main, !.an = Eff(disk, b), !.taint = FALSE, !.stale = {}, !.shown = sh]
Insert(s, disk, f, t, ok, main, tree, diag(_), devs) == InsertC(s, disk, f, t, t, ok, main, tree, diag, devs)

(* didChange carries a sequence ts of full texts.  Ideal: the last one is the buffer; none changes nothing.           *)
(* Code today (documents.rs `content_changes.first().unwrap()'): the FIRST one is taken, none panics.                  *)
ChangeText(ts, devs) == IF "DidChangeFirstEntryWins" \in devs THEN ts[1] ELSE ts[Len(ts)]
EmptyChangeKills(devs) == "DidChangeFirstEntryWins" \in devs
(* a notification or request for a document whose URI is not a file (untitled:..): ideal - a document outside the      *)
(* project; code today: Url::to_file_path().unwrap() panics                                                           *)
NonFileKills(devs) == "NonFileUriPanics" \in devs
(* ... most handlers look at the cached analysis first and answer null when there is none *)
NonFileKillsMsg(kind, has, devs) == NonFileKills(devs) /\ (has \/ kind \in {"open", "formatting", "onType", "codeLens"})

(* didClose.  Ideal: the file is read from disk again, so analyse and publish.  Code today: forget the buffer only. *)
Close(s, disk, f, ok, main, tree, diag(_), devs) ==
  LET b == [s.buf EXCEPT ![f] = NoText] IN
  IF "CloseDoesNotReanalyse" \in devs
    THEN [s EXCEPT !.buf = b, !.cli = [@ EXCEPT ![f] = NoText], !.stale = IF s.buf[f] # disk[f] THEN @ \cup {f} ELSE @]
    ELSE [s EXCEPT !.buf = b, !.cli = [@ EXCEPT ![f] = NoText], !.has = ok, !.main = main, !.an = Eff(disk, b), !.taint = FALSE, !.stale = {},
                   !.shown = [g \in DOMAIN disk |-> IF g \in tree THEN diag(g) ELSE "none"]]

(* a rename request that returned an edit: the code renames the edges of the cached symbol table as a side effect *)
Renamed(s, devs) == IF "RenameTaintsCache" \in devs THEN [s EXCEPT !.taint = TRUE] ELSE s

Die(s, why) == [s EXCEPT !.alive = FALSE, !.death = why]

(* Messages the protocol does not foresee.  Ideal: a request is answered (with an error), a notification is ignored.  *)
(* Code today: parameters that do not deserialize (also those of `initialize') panic in lsp_server's extract(); an     *)
(* unknown request method is only logged - the client waits forever; a file URI whose path is not UTF-8 panics in      *)
(* to_str().unwrap() as soon as a handler compares it with the files of the analysis (codeLens: always).               *)
MalformedKills(devs) == "MalformedParamsPanic" \in devs
UnknownUnanswered(devs) == "UnknownRequestNeverAnswered" \in devs
NonUtf8KillsMsg(kind, has, devs) ==
  "NonUtf8PathPanics" \in devs /\ (kind = "codeLens" \/ (has /\ kind \in {"hover", "definition", "references", "highlight", "rename", "completion"}))
(* workspace/symbol follows imports without remembering where it has been: a project whose imports form a cycle (an     *)
(* error the analysis reports cleanly) overflows the stack                                                            *)
CycleKills(kind, has, cyclic, devs) == "WorkspaceSymbolRecursesImports" \in devs /\ kind = "workspaceSymbol" /\ has /\ cyclic
(* Well-formedness, as coded: a semantic token that spans lines gets the BYTE length of the line as its end column      *)
(* (text with a non-ASCII character in such a line), and codeLens answers with the tests of imported files at their     *)
(* coordinates.  These predicates name the texts for which the code today may return ill-formed results.                *)
TokensMayBeIllFormed(multiLineNonAscii, devs) == "SemanticTokenPastEndOfLine" \in devs /\ multiLineNonAscii
LensesMayBeIllFormed(importsHaveTests, devs) == "CodeLensOfImportedTests" \in devs /\ importsHaveTests

(* ---------------------------------------------------------------- positions *)
(* A text is known to the server as lines; lt = sequence of [bytes, u16, chars, nb] per line (terminators removed),  *)
(* nb = byte offsets inside the line that are NOT character boundaries.  Client positions are 0-based.               *)
Range(seq) == {seq[i] : i \in 1..Len(seq)}
PastEof(lt, line) == line >= Len(lt)
ByteOob(lt, line, col) == ~PastEof(lt, line) /\ col > lt[line + 1].bytes
InsideChar(lt, line, col) == ~PastEof(lt, line) /\ col \in Range(lt[line + 1].nb)
WordStartAfterMbDelim(lt, line, col) == ~PastEof(lt, line) /\ "wsmb" \in DOMAIN lt[line + 1] /\ col \in Range(lt[line + 1].wsmb)

(* The code today uses (line, character) as indices into the analysed text: which defect a request trips, "" if none. *)
(* (rename.rs:32-52 slices line[..col] and line[col..]; completion.rs:38-42 split_at(col-1); both call                 *)
(*  File::source_line(line), which asserts line < number of lines.)                                                   *)
(* devs: the defects present in the reading at hand; a repaired handler answers (null / no items) instead.            *)
DeathOf(kind, lt, line, col, devs) ==
  IF "SourceLinePastEof" \in devs /\ kind \in {"prepareRename", "completion"} /\ PastEof(lt, line) THEN "SourceLinePastEof"
  ELSE IF PastEof(lt, line) THEN ""
  ELSE IF "PrepareRenameSlicesPastEol" \in devs /\ kind = "prepareRename" /\ (ByteOob(lt, line, col) \/ InsideChar(lt, line, col))
    THEN "PrepareRenameSlicesPastEol"
  ELSE IF "CompletionSplitsInsideChar" \in devs /\ kind = "completion" /\ col > 0 /\ ~ByteOob(lt, line, col) /\ InsideChar(lt, line, col - 1)
    THEN "CompletionSplitsInsideChar"
  (* rename.rs looks for the start of the word under the cursor as (byte index of the nearest non-identifier character) + 1: *)
  (* when that delimiter is a multi-byte character (an arrow, an ellipsis, a dash, an emoji) the slice starts inside it.      *)
  (* wsmb = the character columns of the line whose word start is computed that way.                                          *)
  ELSE IF "PrepareRenameWordStartInsideChar" \in devs /\ kind = "prepareRename" /\ WordStartAfterMbDelim(lt, line, col)
    THEN "PrepareRenameWordStartInsideChar"
  ELSE ""

(* a returned range <<sl, sc, el, ec>> lies inside the document with line table lt (LSP: UTF-16 code units) *)
InDoc(lt, r) ==
  /\ r[1] >= 0 /\ r[3] < Len(lt) /\ (r[1] < r[3] \/ (r[1] = r[3] /\ r[2] <= r[4]))
  /\ r[2] >= 0 /\ r[2] <= lt[r[1] + 1].u16
  /\ r[4] >= 0 /\ r[4] <= lt[r[3] + 1].u16

(* semantic tokens <<line, start, length>> in the order sent: sorted, non-overlapping, non-empty, inside their line *)
TokensOK(lt, toks) ==
  /\ \A i \in 1..Len(toks) : /\ toks[i][3] > 0 /\ toks[i][1] >= 0 /\ toks[i][1] < Len(lt) /\ toks[i][2] >= 0
                             /\ toks[i][2] + toks[i][3] <= lt[toks[i][1] + 1].u16
  /\ \A i \in 1..(Len(toks) - 1) : \/ toks[i][1] < toks[i + 1][1]
                                   \/ (toks[i][1] = toks[i + 1][1] /\ toks[i][2] + toks[i][3] <= toks[i + 1][2])

(* ---------------------------------------------------------------- the property (C14) on a state *)
(* History independence: the cached analysis is the analysis of the effective file map (restricted to what the      *)
(* analysis can see: the files of its tree), untouched by earlier requests; what is shown per file is what a fresh  *)
(* server shows.  Totality: no request ends the process.                                                             *)
FreshAnalysis(s, disk, ok, main, seen(_)) ==
  /\ s.has = ok
  /\ s.has => (s.main = main /\ seen(s.an) = seen(Eff(disk, s.cli)) /\ ~s.taint)
FreshShown(s, disk, tree, diag(_)) == SomeOpen(s.cli) => s.shown = [g \in DOMAIN disk |-> IF g \in tree THEN diag(g) ELSE "none"]
Total(s) == s.alive

(* narrow witnesses of the deviations recorded for the tree *)
CloseWitness(s) == s.stale # {}
TaintWitness(s) == s.taint
LagWitness(s) == s.buf # s.cli             \* the server holds another text than the client: a didChange with several entries
================================================================================
