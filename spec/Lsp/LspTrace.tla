-------------------------------- MODULE LspTrace --------------------------------
(* impl -> spec for C14.  One record = one recorded session of the real `mos lsp` process plus the replies of a   *)
(* freshly started server that was given only the final buffers.  The judge folds Lsp.tla's transition operators  *)
(* (in the reading the code performs today) over the recorded events to know, at every event, which text the       *)
(* server has analysed, and evaluates Total, WellFormed and Fresh on what was observed.                             *)
(*                                                                                                                  *)
(* r  = [id, cfg (the configuration file), disk: <<[f, t]>> (t = "-": no such file), texts: <<[t, lt, imp, entry, tests, mlna]>>  *)
(*       (imp: files the text imports; entry: build entry a configuration text names; tests: the text has `.test' blocks;  *)
(*        mlna: a statement's value spans lines and one of those lines has a non-ASCII character), events: <<e>>, shownH: <<[f, d]>>, shownF: <<[f, d]>>,            *)
(*       lastRound: <<f>>]                                                                                           *)
(* e  = [k \in {"open","change","close","req"}, f, t, kind, line, ch, status \in {"ok","error","dead","timeout"},   *)
(*       nch, tfirst (didChange: number of entries, first entry), k = "nonfile": a message about a non-file document follows, *)
(*       panic, nonnull, ranges: <<[f, r]>>, hasToks, toks, ans, hasFresh, fresh, freshStatus, pubs: <<[f, r]>>]     *)
(* Events with hasFresh are the final probes: the same request was sent, in the same order, to the fresh server.    *)
EXTENDS Lsp, Json, IOUtils

Rec == ndJsonDeserialize(IOEnv.TRACE)
VARIABLES l, bad
vars == <<l, bad>>
V(id, verdict, dev, why) == [id |-> id, verdict |-> verdict, dev |-> dev, why |-> why]

DiskOf(r) == [f \in {r.disk[i].f : i \in 1..Len(r.disk)} |-> r.disk[CHOOSE i \in 1..Len(r.disk) : r.disk[i].f = f].t]
LtOf(r, t) == r.texts[CHOOSE i \in 1..Len(r.texts) : r.texts[i].t = t].lt
ImpOf(r, t) == Range(r.texts[CHOOSE i \in 1..Len(r.texts) : r.texts[i].t = t].imp)
EntryOfText(r, t) == r.texts[CHOOSE i \in 1..Len(r.texts) : r.texts[i].t = t].entry
(* files of the analysed parse tree; none when no analysis exists *)
RECURSIVE Reach(_, _, _)
Reach(r, an, S) == LET N == S \cup UNION {ImpOf(r, an[g]) : g \in S \cap DOMAIN an} IN IF N = S THEN S ELSE Reach(r, an, N)
InTree(r, s, f) == s.has /\ s.main \in DOMAIN s.an /\ f \in Reach(r, s.an, {s.main})        \* imports followed transitively
TextRec(r, t) == r.texts[CHOOSE i \in 1..Len(r.texts) : r.texts[i].t = t]
(* the imports of the analysed tree form a cycle through the entry file *)
CyclicTree(r, s) == s.has /\ s.main \in DOMAIN s.an /\ \E g \in Reach(r, s.an, {s.main}) \cap DOMAIN s.an : s.main \in ImpOf(r, s.an[g])
(* some file the text of f imports (transitively) contains tests *)
ImportsHaveTests(r, disk, b, f) == \E g \in (Reach(r, Eff(disk, b), {f}) \ {f}) \cap DOMAIN disk : TextRec(r, Eff(disk, b)[g]).tests
OkNow(r, disk, b) == Resolvable(disk, b, r.cfg, LAMBDA t : EntryOfText(r, t))
MainNow(r, disk, b) == EntryFile(disk, b, r.cfg, LAMBDA t : EntryOfText(r, t))
(* The reading the fold uses: the deviations that are still open (one record [dev] per line in the file IOEnv.DEVS).  *)
(* A repaired defect is folded in its ideal reading, and an observation that shows it again is a violation.             *)
DevRec == ndJsonDeserialize(IOEnv.DEVS)
Coded == {DevRec[i].dev : i \in 1..Len(DevRec)} \cap AllDeviations
NoDiag(g) == "none"

Step1(r, disk, s, e) ==
  CASE e.k = "open" -> LET b == [s.buf EXCEPT ![e.f] = e.t] IN
                       Insert(s, disk, e.f, e.t, OkNow(r, disk, b), MainNow(r, disk, b), {}, NoDiag, Coded)
    (* didChange with e.nch entries: e.tfirst is the first, e.t the last (= the client's buffer afterwards) *)
    [] e.k = "change" /\ e.nch = 0 -> IF EmptyChangeKills(Coded) THEN [s EXCEPT !.death = "DidChangeFirstEntryWins"] ELSE s      \* death pending: seen at the next request
    [] e.k = "change" -> LET ts == ChangeText(<<e.tfirst, e.t>>, Coded)
                             b == [s.buf EXCEPT ![e.f] = ts] IN
                         InsertC(s, disk, e.f, ts, e.t, OkNow(r, disk, b), MainNow(r, disk, b), {}, NoDiag, Coded)
    [] e.k = "nonfile" /\ e.t = "nonutf8" -> IF NonUtf8KillsMsg(e.kind, s.has, Coded) THEN [s EXCEPT !.death = "NonUtf8PathPanics"] ELSE s
    [] e.k = "nonfile" -> IF NonFileKillsMsg(e.kind, s.has, Coded) THEN [s EXCEPT !.death = "NonFileUriPanics"] ELSE s
    (* a notification (or the initialize request) with parameters that do not deserialize: the death shows at the next request *)
    [] e.k = "malformed" -> IF MalformedKills(Coded) THEN [s EXCEPT !.death = "MalformedParamsPanic"] ELSE s
    [] e.k = "close" -> LET b == [s.buf EXCEPT ![e.f] = NoText] IN
                        Close(s, disk, e.f, OkNow(r, disk, b), MainNow(r, disk, b), {}, NoDiag, Coded)
    [] e.k = "req" -> IF e.status \in {"dead", "timeout"} THEN Die(s, e.panic)
                      ELSE IF e.kind = "rename" /\ e.nonnull /\ ~e.hasFresh THEN Renamed([s EXCEPT !.death = ""], Coded) ELSE [s EXCEPT !.death = ""]
    [] OTHER -> s

BadRanges(r, disk, buf, rs) ==
  {i \in 1..Len(rs) : \/ rs[i].f \notin DOMAIN disk
                      \/ ~InDoc(LtOf(r, Eff(disk, buf)[rs[i].f]), rs[i].r)}

JudgeReq(r, disk, s, e) ==
  LET known == e.f \in DOMAIN disk
      pred  == IF e.kind = "malformed" THEN (IF MalformedKills(Coded) THEN "MalformedParamsPanic" ELSE "")
               ELSE IF e.kind = "unknown" THEN (IF UnknownUnanswered(Coded) THEN "UnknownRequestNeverAnswered" ELSE "")
               ELSE IF CycleKills(e.kind, s.has, CyclicTree(r, s), Coded) THEN "WorkspaceSymbolRecursesImports"
               ELSE IF known /\ InTree(r, s, e.f) THEN DeathOf(e.kind, LtOf(r, s.an[e.f]), e.line, e.ch, Coded) ELSE ""
      where == e.kind \o " at " \o ToString(e.line) \o ":" \o ToString(e.ch) \o " in " \o e.f
      total == IF e.status \in {"ok", "error"}
                 THEN IF s.death # "" THEN <<V(r.id, "drift", s.death, "model predicts that the previous message killed the server, it answered: " \o where)>>
                      ELSE IF pred # "" THEN <<V(r.id, "drift", pred, "model predicts a crash, the server answered: " \o where)>> ELSE <<>>
               ELSE IF pred # "" THEN <<V(r.id, "deviation", pred, where \o " -> " \o e.status \o " " \o e.panic)>>
               ELSE IF s.death # "" THEN <<V(r.id, "deviation", s.death, "the server died on the message before " \o where \o ": " \o e.panic)>>
               ELSE <<V(r.id, "violation", "", "Total: request not answered (" \o e.status \o " " \o e.panic \o "): " \o where)>>
      br    == IF e.status = "ok" THEN BadRanges(r, disk, s.cli, e.ranges) ELSE {}
      wf1   == IF br = {} THEN <<>>
               ELSE IF e.kind = "codeLens" /\ known /\ LensesMayBeIllFormed(ImportsHaveTests(r, disk, s.cli, e.f), Coded)
                 THEN <<V(r.id, "deviation", "CodeLensOfImportedTests", "codeLens of " \o e.f \o " answers with positions of the files it imports")>>
               ELSE IF LagWitness(s) THEN <<V(r.id, "deviation", "DidChangeFirstEntryWins", "range outside the client's document after a didChange with several entries: " \o where)>>
               ELSE IF CloseWitness(s) THEN <<V(r.id, "deviation", "CloseDoesNotReanalyse", "range outside the document after didClose: " \o where)>>
               ELSE <<V(r.id, "violation", "", "WellFormed: returned range outside its document: " \o where \o " " \o ToString(e.ranges[CHOOSE i \in br : TRUE]))>>
      wf2   == IF e.status = "ok" /\ e.hasToks /\ known /\ ~TokensOK(LtOf(r, Eff(disk, s.cli)[e.f]), e.toks)
                 THEN IF TokensMayBeIllFormed(TextRec(r, Eff(disk, s.cli)[e.f]).mlna, Coded)
                        THEN <<V(r.id, "deviation", "SemanticTokenPastEndOfLine", "a semantic token of " \o e.f \o " ends behind its line")>>
                      ELSE IF LagWitness(s) THEN <<V(r.id, "deviation", "DidChangeFirstEntryWins", "semantic tokens of another text than the client's")>>
                      ELSE IF CloseWitness(s) THEN <<V(r.id, "deviation", "CloseDoesNotReanalyse", "semantic tokens of a closed buffer")>>
                      ELSE <<V(r.id, "violation", "", "WellFormed: semantic tokens unsorted, overlapping, empty or outside their line in " \o e.f)>>
               ELSE <<>>
      fresh == IF ~e.hasFresh \/ (e.status = e.freshStatus /\ e.ans = e.fresh) \/ e.status \in {"dead", "timeout"} THEN <<>>
               ELSE IF CloseWitness(s) THEN <<V(r.id, "deviation", "CloseDoesNotReanalyse", "after didClose " \o where \o " differs from a fresh server")>>
               ELSE IF LagWitness(s) THEN <<V(r.id, "deviation", "DidChangeFirstEntryWins", "after a didChange with several entries " \o where \o " differs from a fresh server")>>
               ELSE IF TaintWitness(s) THEN <<V(r.id, "deviation", "RenameTaintsCache", "after an unapplied rename " \o where \o " differs from a fresh server")>>
               ELSE <<V(r.id, "violation", "", "Fresh: reply differs from a fresh server given the final buffers: " \o where)>>
  IN total \o wf1 \o wf2 \o fresh

JudgeNotif(r, disk, s2, e) ==
  IF BadRanges(r, disk, s2.buf, e.pubs) = {} THEN <<>>
  ELSE <<V(r.id, "violation", "", "WellFormed: published diagnostic range outside its document after " \o e.k \o " " \o e.f)>>

(* A "disk" event: another program rewrote a file (e.t = its new text).  The server is not told: until the next didOpen /   *)
(* didChange / didClose (each of which makes it read buffers and disk again) its answers may be those of the old disk, so the  *)
(* comparison with the fresh server is not demanded in between (sync = FALSE); Total and WellFormed are.                        *)
RECURSIVE Run(_, _, _, _, _, _)
Run(r, disk, sync, i, s, acc) ==
  IF i > Len(r.events) THEN [s |-> s, acc |-> acc, sync |-> sync]
  ELSE LET e  == r.events[i] IN
       IF e.k = "disk" THEN Run(r, [disk EXCEPT ![e.f] = e.t], FALSE, i + 1, s, acc)
       ELSE
       LET s2 == Step1(r, disk, s, e)
           j  == IF ~s.alive THEN <<V(r.id, "violation", "", "event recorded after the server died")>>
                 ELSE IF e.k = "req" THEN JudgeReq(r, disk, s, IF sync THEN e ELSE [e EXCEPT !.hasFresh = FALSE])
                 ELSE IF e.k \in {"open", "change"} THEN JudgeNotif(r, disk, s2, e) ELSE <<>>
       IN Run(r, disk, sync \/ (e.k \in {"open", "change", "close"} /\ ~(e.k = "change" /\ e.nch = 0)), i + 1, s2, acc \o j)

Shown(sq) == [f \in {sq[i].f : i \in 1..Len(sq)} |-> sq[CHOOSE i \in 1..Len(sq) : sq[i].f = f].d]
JudgeShown(r, s) ==
  IF ~s.alive \/ ~SomeOpen(s.cli) THEN <<>>        \* with no open buffer a fresh server shows nothing: unspecified
  ELSE LET h == Shown(r.shownH)
           f == Shown(r.shownF)
           diff == {g \in DOMAIN h : h[g] # f[g]} IN
       IF diff = {} THEN <<>>
       ELSE IF CloseWitness(s) THEN <<V(r.id, "deviation", "CloseDoesNotReanalyse", "diagnostics shown after didClose differ from a fresh server")>>
       ELSE IF LagWitness(s) THEN <<V(r.id, "deviation", "DidChangeFirstEntryWins", "diagnostics shown after a didChange with several entries differ from a fresh server")>>
       ELSE IF \A g \in diff : ~InTree(r, s, g) /\ f[g] = "[]"        \* the file is not part of the analysed tree any more
         THEN <<V(r.id, "deviation", "StaleDiagnosticsForDroppedFile", "diagnostics of a file that left the project are never cleared")>>
       ELSE <<V(r.id, "violation", "", "Fresh: diagnostics last published differ from a fresh server given the final buffers")>>

Judge(r) == LET disk == DiskOf(r)
                b0 == [f \in DOMAIN disk |-> NoText]
                res == Run(r, disk, TRUE, 1, S0(disk, OkNow(r, disk, b0), MainNow(r, disk, b0)), <<>>) IN
            res.acc \o (IF res.sync THEN JudgeShown(r, res.s) ELSE <<>>)

Init == l = 1 /\ bad = <<>>
Step == l <= Len(Rec) /\ bad' = bad \o Judge(Rec[l]) /\ l' = l + 1
Finish == l = Len(Rec) + 1 /\ ndJsonSerialize(IOEnv.OUT, bad) /\ l' = l + 1 /\ UNCHANGED bad
Next == Step \/ Finish
Spec == Init /\ [][Next]_vars
Consumed == TLCGet("stats").diameter >= Len(Rec) + 1
================================================================================
