SPECIFICATION SpecGenDisk
CONSTANT Deviations = {}
CONSTANT MaxHist = 3
CONSTRAINT HistBound
CONSTRAINT GenDiskInit
INVARIANT EmitDiskCase
