SPECIFICATION SpecDesign
CONSTANT Deviations = {"CloseDoesNotReanalyse", "RenameTaintsCache", "StaleDiagnosticsForDroppedFile", "PrepareRenameSlicesPastEol", "SourceLinePastEof", "CompletionSplitsInsideChar", "DidChangeFirstEntryWins", "NonFileUriPanics"}
CONSTANT MaxHist = 0
VIEW DesignView
INVARIANT InvFreshAnalysis
