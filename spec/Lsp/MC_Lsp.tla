--------------------------------- MODULE MC_Lsp ---------------------------------
(* Design level for C14: every history of notifications and requests over two project files (main imports inc or   *)
(* not) x three text versions each (valid, valid-different, broken), any disk content, 13 request kinds x position  *)
(* classes x 3 target files (main, inc, a file outside the project).                                                *)
(*   SpecDesign + Deviations = {}            : the ideal server satisfies Fresh / FreshShown / Total                *)
(*   SpecDesign + Deviations = AllDeviations : the server as coded violates each of them (witness runs) and         *)
(*                                             satisfies them weakened by the recorded witnesses                    *)
(*   SpecGen                                 : the same machine with the history kept, exported as session scripts  *)
EXTENDS Lsp, Json

CONSTANTS Deviations, MaxHist
Files == {"main", "inc", "cfg"}
TextsOf == [main |-> {"ma", "mb", "mx"}, inc |-> {"ia", "ib", "ix", "ir"}, cfg |-> {"ca", "cb", "cc"}]          \* "ir" imports main: a cycle when main imports inc
EntryOf(t) == IF t = "cb" THEN "gone" ELSE IF t = "cc" THEN "inc" ELSE "main"      \* "cb": an entry file that does not exist, "cc": inc is the entry
E(fm) == EntryOf(fm["cfg"])                                 \* a file map holds the configuration text too, so it knows its entry
ImportsInc(t) == t \in {"ma", "mx"}
Broken(t) == t \in {"mx", "ix", "ir"}
Cyclic(fm) == fm["main"] # NoText /\ ImportsInc(fm["main"]) /\ fm["inc"] = "ir"
TreeOf(fm) == IF E(fm) = "main" THEN (IF fm["main"] = NoText THEN {} ELSE {"main"} \cup (IF ImportsInc(fm["main"]) /\ fm["inc"] # NoText THEN {"inc"} ELSE {}))
              ELSE IF E(fm) = "inc" THEN (IF fm["inc"] = NoText THEN {} ELSE {"inc"} \cup (IF fm["inc"] = "ir" /\ fm["main"] # NoText THEN {"main"} ELSE {}))
              ELSE {}
Seen(fm) == [f \in TreeOf(fm) |-> fm[f]]
DiagOf(fm, g) == IF Broken(fm[g]) THEN g \o "/" \o fm["cfg"] \o fm["main"] \o (IF "inc" \in TreeOf(fm) THEN fm["inc"] ELSE "") ELSE "none"

Kinds == {"completion", "definition", "highlight", "hover", "onType", "prepareRename", "references", "rename",
          "codeLens", "documentSymbol", "formatting", "semanticTokens", "workspaceSymbol"}
(* one analysed line "aé b" (bytes 0..5, byte 2 is inside the two-byte character); position classes as coordinates *)
(* ... followed by an arrow and a word, "aé b→cd": the arrow is a three-byte delimiter (bytes 5..7, 6 and 7 inside it), the word behind   *)
(* it occupies the character columns 5..7 (its end included): for those the word start is looked up behind a multi-byte delimiter *)
LT == <<[bytes |-> 10, u16 |-> 7, chars |-> 7, nb |-> <<2, 6, 7>>, wsmb |-> <<5, 6, 7>>]>>
PosOf == [valid |-> <<0, 1>>, pastEol |-> <<0, 19>>, pastEof |-> <<5, 0>>, insideMb |-> <<0, 2>>, afterMb |-> <<0, 3>>, wordAfterMbDelim |-> <<0, 6>>]
PosClasses == DOMAIN PosOf

VARIABLES s, disk, hist,
          synced      \* FALSE from a write to the disk (by another program: a checkout, `mos format') until the next notification makes the server read again
vars == <<s, disk, hist, synced>>

Ok(b) == Resolvable(disk, b, "cfg", EntryOf)
MainE(b) == EntryFile(disk, b, "cfg", EntryOf)
TreeNow(b) == IF Ok(b) THEN TreeOf(Eff(disk, b)) ELSE {}
Init == /\ disk \in [Files -> {"ma", "mb", NoText, "ia", "ix", "ca"}] /\ disk["main"] \in {"ma", "mb", NoText} /\ disk["inc"] \in {"ia", "ix"}
        /\ disk["cfg"] = "ca"
        /\ s = S0(disk, disk["main"] # NoText, "main") /\ hist = <<>> /\ synced = TRUE          \* (the configuration on disk names main)

Ev(k, f, t) == [k |-> k, f |-> f, t |-> t]
NewS(b) == Eff(disk, b)
DidOpen(f, t) == /\ s.alive /\ s.buf[f] = NoText
                 /\ LET b == [s.buf EXCEPT ![f] = t]
                        fm == NewS(b) IN s' = Insert(s, disk, f, t, Ok(b), MainE(b), TreeNow(b), LAMBDA g : DiagOf(fm, g), Deviations)
                 /\ hist' = Append(hist, Ev("open", f, t)) /\ UNCHANGED disk
DidChange(f, t) == /\ s.alive /\ s.buf[f] # NoText /\ s.buf[f] # t
                   /\ LET b == [s.buf EXCEPT ![f] = t]
                          fm == NewS(b) IN s' = Insert(s, disk, f, t, Ok(b), MainE(b), TreeNow(b), LAMBDA g : DiagOf(fm, g), Deviations)
                   /\ hist' = Append(hist, Ev("change", f, t)) /\ UNCHANGED disk
(* didChange with no entry / with two entries (the client's buffer is the last one) *)
DidChange0(f) == /\ s.alive /\ s.buf[f] # NoText
                 /\ s' = (IF EmptyChangeKills(Deviations) THEN Die(s, "DidChangeFirstEntryWins") ELSE s)
                 /\ UNCHANGED <<disk, hist>>
DidChange2(f, t1, t2) == /\ s.alive /\ s.buf[f] # NoText /\ t1 # t2
                         /\ LET ts == ChangeText(<<t1, t2>>, Deviations)
                                bc == [s.cli EXCEPT ![f] = t2]          \* what an ideal server would analyse
                                b == [s.buf EXCEPT ![f] = ts]
                                fm == NewS(b) IN
                            s' = InsertC(s, disk, f, ts, t2, Ok(b), MainE(b), TreeNow(b), LAMBDA g : DiagOf(fm, g), Deviations)
                         /\ UNCHANGED <<disk, hist>>
(* any message about a document that is not a file *)
NonFile == /\ s.alive /\ s' = (IF NonFileKills(Deviations) THEN Die(s, "NonFileUriPanics") ELSE s) /\ UNCHANGED <<disk, hist>>
(* messages outside the protocol: malformed parameters, an unknown request (never answered = lost for the client),   *)
(* a request for a file whose path is not UTF-8                                                                        *)
Malformed == /\ s.alive /\ s' = (IF MalformedKills(Deviations) THEN Die(s, "MalformedParamsPanic") ELSE s) /\ UNCHANGED <<disk, hist>>
Unknown == /\ s.alive /\ s' = (IF UnknownUnanswered(Deviations) THEN Die(s, "UnknownRequestNeverAnswered") ELSE s) /\ UNCHANGED <<disk, hist>>
NonUtf8(kind) == /\ s.alive /\ s' = (IF NonUtf8KillsMsg(kind, s.has, Deviations) THEN Die(s, "NonUtf8PathPanics") ELSE s) /\ UNCHANGED <<disk, hist>>
DidClose(f) == /\ s.alive /\ s.buf[f] # NoText
               /\ LET b == [s.buf EXCEPT ![f] = NoText]
                      fm == NewS(b) IN s' = Close(s, disk, f, Ok(b), MainE(b), TreeNow(b), LAMBDA g : DiagOf(fm, g), Deviations)
               /\ hist' = Append(hist, Ev("close", f, NoText)) /\ UNCHANGED disk
(* a request: trips one of the string-index defects (if the file is part of the analysed tree), or is answered;    *)
(* an answered rename at a symbol mutates the cache in the coded reading.                                            *)
Request(kind, f, pc) ==
  /\ s.alive
  /\ LET d == IF CycleKills(kind, s.has, Cyclic(s.an), Deviations) THEN "WorkspaceSymbolRecursesImports"
              ELSE IF s.has /\ f \in TreeOf(s.an) THEN DeathOf(kind, LT, PosOf[pc][1], PosOf[pc][2], Deviations) ELSE "" IN
     IF d # "" THEN s' = Die(s, d)
     ELSE IF kind = "rename" /\ pc = "valid" /\ s.has /\ f \in TreeOf(s.an) THEN s' = Renamed(s, Deviations)
     ELSE s' = s
  /\ hist' = IF kind = "rename" /\ pc = "valid" /\ f = "main" THEN Append(hist, Ev("rename", f, NoText)) ELSE hist
  /\ UNCHANGED disk

Notif == \E f \in Files : (\E t \in TextsOf[f] : DidOpen(f, t) \/ DidChange(f, t)) \/ DidClose(f)
(* The disk is part of the environment: another program rewrites a file that the analysis has read.  The server is not told;  *)
(* what it has analysed is out of date until the next didOpen / didChange / didClose, each of which analyses the project       *)
(* again from the buffers and the disk as it is then - also when the notification itself brings nothing new (a file opened    *)
(* with the very text it has on disk).                                                                                          *)
DiskTexts == [main |-> {"ma", "mb"}, inc |-> {"ia", "ix"}]
DiskWrite(f, t) == /\ s.alive /\ disk[f] # t /\ disk' = [disk EXCEPT ![f] = t]
                   /\ hist' = Append(hist, Ev("disk", f, t)) /\ UNCHANGED s
Reads == Notif \/ (\E f \in {"main", "inc"} : \E t1, t2 \in TextsOf[f] : DidChange2(f, t1, t2))
Others == NonFile \/ Malformed \/ Unknown \/ (\E kind \in Kinds : NonUtf8(kind)) \/ (\E f \in {"main", "inc"} : DidChange0(f)) \/ \E kind \in Kinds, f \in {"main", "inc", "other"}, pc \in PosClasses : Request(kind, f, pc)
NextDesign == (Reads /\ synced' = TRUE) \/ (Others /\ UNCHANGED synced) \/ (Deviations = {} /\ \E f \in DOMAIN DiskTexts : \E t \in DiskTexts[f] : DiskWrite(f, t) /\ synced' = FALSE)     \* (the readings of the pinned commit are explored without it: their witnesses do not speak about the disk)
NextGen == ((Notif /\ synced' = TRUE) \/ (Request("rename", "main", "valid") /\ UNCHANGED synced))
(* histories with one write to the disk, for the implementation (exported only when the write is followed by a notification) *)
NDisk(h) == Cardinality({i \in 1..Len(h) : h[i].k = "disk"})
NextGenDisk == (\E f \in {"main", "inc"} : ((\E t \in TextsOf[f] \ {"mx", "ir"} : DidOpen(f, t) \/ DidChange(f, t)) \/ DidClose(f)) /\ synced' = TRUE)
               \/ (NDisk(hist) = 0 /\ \E f \in DOMAIN DiskTexts : \E t \in DiskTexts[f] : DiskWrite(f, t) /\ synced' = FALSE)
SpecGenDisk == Init /\ [][NextGenDisk]_vars
EmitDiskCase == (NDisk(hist) = 1 /\ synced) => PrintT(<<"CASE", ToJson([hist |-> hist, main |-> disk["main"]])>>)
SpecDesign == Init /\ [][NextDesign]_vars
SpecGen == Init /\ [][NextGen]_vars
DesignView == <<s, disk, synced>>
HistBound == Len(hist) <= MaxHist
GenDiskInit == hist = <<>> => (disk["inc"] = "ia" /\ disk["main"] = "ma")     \* the exported histories with a disk write start from layout A
GenInit == disk["inc"] = "ia" /\ disk["main"] \in {"ma", NoText}     \* exported scripts run on two disk layouts: entry file on disk / only ever a buffer

(* ---------------------------------------------------------------- properties *)
EffNow == Eff(disk, s.cli)
SeenA(fm) == [f \in TreeOf(fm) |-> fm[f]]
InvFreshAnalysis == (s.alive /\ synced) => FreshAnalysis(s, disk, Ok(s.cli), MainE(s.cli), SeenA)
InvFreshShown == (s.alive /\ synced) => FreshShown(s, disk, TreeNow(s.cli), LAMBDA g : DiagOf(EffNow, g))
InvTotal == Total(s)
(* ... weakened only by the witnesses of the recorded deviations *)
DroppedOnly == \A g \in Files : s.shown[g] # (IF g \in TreeNow(s.cli) THEN DiagOf(EffNow, g) ELSE "none") => g \notin TreeNow(s.cli)
InvFreshAnalysisW == (s.alive /\ synced) => (FreshAnalysis(s, disk, Ok(s.cli), MainE(s.cli), SeenA) \/ CloseWitness(s) \/ TaintWitness(s) \/ LagWitness(s))
InvFreshShownW == (s.alive /\ synced) => (FreshShown(s, disk, TreeNow(s.cli), LAMBDA g : DiagOf(EffNow, g)) \/ CloseWitness(s) \/ LagWitness(s) \/ DroppedOnly)
InvTotalW == s.alive \/ s.death \in Deviations
TypeOK == /\ s.alive \in BOOLEAN /\ s.taint \in BOOLEAN /\ s.stale \subseteq Files
          /\ \A f \in Files : s.buf[f] \in TextsOf[f] \cup {NoText} /\ s.an[f] \in TextsOf[f] \cup {NoText}

(* spec -> impl: one line per explored history *)
EmitCase == PrintT(<<"CASE", ToJson([hist |-> hist, main |-> disk["main"]])>>)
================================================================================
