SPECIFICATION SpecGen
CONSTANT Deviations = {"CloseDoesNotReanalyse", "RenameTaintsCache", "StaleDiagnosticsForDroppedFile", "PrepareRenameSlicesPastEol", "SourceLinePastEof", "CompletionSplitsInsideChar"}
CONSTANT MaxHist = 3
CONSTRAINT HistBound
CONSTRAINT GenInit
INVARIANT EmitCase
