SPECIFICATION SpecGen
CONSTANT Deviations = {"CloseDoesNotReanalyse", "RenameTaintsCache", "StaleDiagnosticsForDroppedFile", "PrepareRenameSlicesPastEol", "SourceLinePastEof", "CompletionSplitsInsideChar", "DidChangeFirstEntryWins", "NonFileUriPanics", "MalformedParamsPanic", "UnknownRequestNeverAnswered", "NonUtf8PathPanics", "WorkspaceSymbolRecursesImports", "SemanticTokenPastEndOfLine", "CodeLensOfImportedTests"}
CONSTANT MaxHist = 3
CONSTRAINT HistBound
CONSTRAINT GenInit
INVARIANT EmitCase
