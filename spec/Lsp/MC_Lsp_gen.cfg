SPECIFICATION SpecGen
CONSTANT Deviations = {"CloseDoesNotReanalyse", "RenameTaintsCache", "StaleDiagnosticsForDroppedFile", "PrepareRenameSlicesPastEol", "SourceLinePastEof", "CompletionSplitsInsideChar", "DidChangeFirstEntryWins", "NonFileUriPanics"}
CONSTANT MaxHist = 3
CONSTRAINT HistBound
CONSTRAINT GenInit
INVARIANT EmitCase
