-------------------------------- MODULE MC_Scopes --------------------------------
(* Design level for C15/C16: all programs of a three-level scope skeleton                                            *)
(*     n1: { n2: { use p1 }  n3: nop  use p2 }   n4: nop   use p3            (names over {a, b}, 8 path forms)          *)
(* with every combination of shadowing.  Checked on each: the segment walk of Scopes agrees with Asm!Lookup (the       *)
(* rule the assembler model uses for values), references are the inverse of definitions, and renaming any symbol to    *)
(* a fresh name is capture-free (so the demanded rename edit exists and preserves every binding); renaming to the     *)
(* other name of the alphabet is capture-free exactly when the model says so (witness run: captures exist).            *)
(* The same programs are exported as cases for the real server.                                                        *)
EXTENDS Scopes, Json

Names == {"a", "b"}
Paths == {<<"a">>, <<"b">>, <<"a", "b">>, <<"a", "a">>, <<"b", "a">>, <<"super", "a">>, <<"super", "b">>, <<"super", "super", "b">>}
VARIABLES n1, n2, n3, n4, p1, p2, p3
vars == <<n1, n2, n3, n4, p1, p2, p3>>

Use(p, base) == [k |-> "use", path |-> p, oids |-> [i \in 1..Len(p) |-> base + i]]
Lab(n, oid, body) == [k |-> "label", name |-> n, oid |-> oid, hasBody |-> body # <<>>, body |-> body]
Prog == << Lab(n1, 1, << Lab(n2, 2, << Use(p1, 10) >>), Lab(n3, 3, <<>>), Use(p2, 20) >>), Lab(n4, 4, <<>>), Use(p3, 30) >>
Files == [m |-> Prog]
P == Project(Files, "m")

Init == /\ n1 \in Names /\ n2 \in Names /\ n3 \in Names /\ n4 \in Names /\ n2 # n3 /\ n1 # n4
        /\ p1 \in Paths /\ p2 \in Paths /\ p3 \in Paths
Next == UNCHANGED vars
Spec == Init /\ [][Next]_vars

(* the table Asm.tla would hold, and its answer for a use *)
AsmTab == [k \in DOMAIN P.tab |-> Num(0)]
KeyOfOid(d) == CHOOSE k \in DOMAIN P.tab : P.tab[k].oid = d
AgreesWithAsm ==
  \A o \in P.occs : (~o.def /\ o.seg = Len(o.path)) =>
     LET a == Lookup(AsmTab, o.scope, o.path) IN
     /\ a.found <=> (o.node # -1)
     /\ a.found => a.key = KeyOfOid(o.node)
RefsInverse == \A d \in {o.oid : o \in {x \in P.occs : x.def}} : Refs(P, d, FALSE) = {o.oid : o \in {x \in P.occs : ~x.def /\ Def(P, x.oid) = d}}
FreshRenameIsCaptureFree == ErrorFree(P) => \A o \in P.occs : o.name # "super" => CaptureFree(Files, "m", o.oid, "zz")
(* witness (expected to be violated): renaming to a name of the alphabet never captures *)
NoCaptureEver == ErrorFree(P) => \A o \in P.occs : o.name # "super" => \A nw \in Names \ {o.name} : CaptureFree(Files, "m", o.oid, nw)
SomeErrorFree == ~ErrorFree(P)         \* witness (expected to be violated): error-free programs exist
EmitCase == ErrorFree(P) => PrintT(<<"CASE", ToJson([prog |-> Prog])>>)
================================================================================
