SPECIFICATION Spec
INVARIANT AllSpelledAsNode
