--------------------------------- MODULE MC_Forms ---------------------------------
(* Design level for the statement forms added in round 5 (C15/C16):                                                    *)
(*   .const n1 = ..   .var v = 1   expr p1 + p2   .var v = 2   .if defined(p3) { use p4 }   .loop n1 { use p5 }          *)
(* Checked: every path occurrence of one expression has its own occurrence and the same node when the paths are equal;  *)
(* a later `.var' denotes the first one; the operand of defined() denotes what a plain use denotes; `index' denotes      *)
(* nothing; renaming to a fresh name is capture-free.  The programs are exported as cases for the real server.          *)
EXTENDS Scopes, Json
VARIABLES p1, p2, p3, p4, p5
vars == <<p1, p2, p3, p4, p5>>
Use(p, base) == [k |-> "use", path |-> p, oids |-> [i \in 1..Len(p) |-> base + i]]
Prog == << [k |-> "const", name |-> "n", oid |-> 1], [k |-> "var", name |-> "v", oid |-> 2],
           [k |-> "expr", paths |-> <<p1, p2>>, oidss |-> <<<<11>>, <<12>>>>],
           [k |-> "var", name |-> "v", oid |-> 3],
           [k |-> "ifdef", path |-> p3, oids |-> <<21>>, body |-> << Use(p4, 30) >>],
           [k |-> "loop", path |-> <<"n">>, oids |-> <<41>>, sid |-> "$l1", body |-> << Use(p5, 50) >>] >>
Files == [m |-> Prog]
P == Project(Files, "m")
Names == {<<"n">>, <<"v">>}
Init == p1 \in Names /\ p2 \in Names /\ p3 \in Names /\ p4 \in Names /\ p5 \in Names \cup {<<"index">>}
Next == UNCHANGED vars
Spec == Init /\ [][Next]_vars
EachOccurrenceCounts == /\ {o.oid : o \in P.occs} = {1, 2, 3, 11, 12, 21, 31, 41, 51}
                        /\ (p1 = p2 => NodeOf(P, 11) = NodeOf(P, 12))
                        /\ RenameSet(P, 1) = {o.oid : o \in {x \in P.occs : x.node = 1}}
VarIsOneSymbol == NodeOf(P, 3) = 2 /\ ~OccOf(P, 3).def /\ OccOf(P, 2).def
DefinedIsAUse == NodeOf(P, 21) = (IF p3 = <<"n">> THEN 1 ELSE 2)
IndexDenotesNothing == p5 = <<"index">> => NodeOf(P, 51) = NoNode
FreshRenameIsCaptureFree == \A o \in P.occs : o.sp # NoNode => CaptureFree(Files, "m", o.oid, "zz")
EmitCase == PrintT(<<"CASE", ToJson([prog |-> Prog])>>)
================================================================================
