--------------------------------- MODULE MC_Forms ---------------------------------
(* Design level for the statement forms added in round 5 (C15/C16):                                                    *)
(*   .const n = ..  .if defined(p0) { use q0 }  .var v = 1  expr p1 + p2  .var v = 2  .if defined(p3) {..}  .loop n { use p5 }   *)
(* Checked: every path occurrence of one expression has its own occurrence and the same node when the paths are equal;  *)
(* a later `.var' denotes the first one; in front of the first `.var' the name denotes nothing (variables are sequential); the operand of defined() denotes what a plain use denotes; `index' denotes      *)
(* nothing; renaming to a fresh name is capture-free.  The programs are exported as cases for the real server.          *)
EXTENDS Scopes, Json
VARIABLES p0, q0, p1, p2, p3, p5
vars == <<p0, q0, p1, p2, p3, p5>>
Use(p, base) == [k |-> "use", path |-> p, oids |-> [i \in 1..Len(p) |-> base + i]]
(* oids are in walk order; `.if defined(p0) { use q0 }' stands IN FRONT of the first assignment of v *)
Prog == << [k |-> "const", name |-> "n", oid |-> 1],
           [k |-> "ifdef", path |-> p0, oids |-> <<5>>, body |-> << Use(q0, 6) >>],
           [k |-> "var", name |-> "v", oid |-> 8],
           [k |-> "expr", paths |-> <<p1, p2>>, oidss |-> <<<<11>>, <<12>>>>],
           [k |-> "var", name |-> "v", oid |-> 13],
           [k |-> "ifdef", path |-> p3, oids |-> <<21>>, body |-> << Use(<<"n">>, 30) >>],
           [k |-> "loop", path |-> <<"n">>, oids |-> <<41>>, sid |-> "$l1", body |-> << Use(p5, 50) >>],
           [k |-> "var", name |-> "w", oid |-> 60], Use(<<"w">>, 60) >>         \* a symbol defined after the loop (it may get the node index of `index')
Files == [m |-> Prog]
P == Project(Files, "m")
Names == {<<"n">>, <<"v">>}
Init == p0 \in Names /\ q0 \in Names /\ p1 \in Names /\ p2 \in Names /\ p3 \in Names /\ p5 \in {<<"n">>, <<"index">>}
Next == UNCHANGED vars
Spec == Init /\ [][Next]_vars
EachOccurrenceCounts == /\ {o.oid : o \in P.occs} = {1, 5, 7, 8, 11, 12, 13, 21, 31, 41, 51, 60, 61}
                        /\ (p1 = p2 => NodeOf(P, 11) = NodeOf(P, 12))
                        /\ RenameSet(P, 1) = {o.oid : o \in {x \in P.occs : x.node = 1}}
VarIsOneSymbol == NodeOf(P, 13) = 8 /\ ~OccOf(P, 13).def /\ OccOf(P, 8).def
(* variables are sequential: in front of the first assignment the name denotes nothing *)
NotYetAssigned == (p0 = <<"v">> => NodeOf(P, 5) = -1) /\ (q0 = <<"v">> => NodeOf(P, 7) = -1)
                  /\ (p1 = <<"v">> => NodeOf(P, 11) = 8) /\ Refs(P, 8, FALSE) \cap {5, 7} = {}
DefinedIsAUse == NodeOf(P, 21) = (IF p3 = <<"n">> THEN 1 ELSE 8) /\ (p0 = <<"n">> => NodeOf(P, 5) = 1)
IndexDenotesNothing == p5 = <<"index">> => NodeOf(P, 51) = NoNode
FreshRenameIsCaptureFree == \A o \in P.occs : (o.sp # NoNode /\ o.node # -1) => CaptureFree(Files, "m", o.oid, "zz")
EmitCase == PrintT(<<"CASE", ToJson([prog |-> Prog])>>)
================================================================================
