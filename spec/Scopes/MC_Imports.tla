-------------------------------- MODULE MC_Imports --------------------------------
(* Design level for the import forms of Scopes.tla (C15/C16):                                                         *)
(*   inc.asm:  a: nop   .const b = ..   use a   [use P]                                                                *)
(*   main.asm: .import * | * as m | a [as x], b  from "inc.asm" [{ .const P = .. }]     use u1     s: { use u2 }        *)
(* Checked on every instance whose paths resolve: references are the inverse of definitions; an alias (`a as x') and    *)
(* its uses denote a's node but form their own spelling group; renaming any occurrence to a fresh name is capture-free  *)
(* and leaves every occurrence on its node.  Witness (expected violated): no occurrence is spelled differently from its  *)
(* node.  The error-free programs are exported as cases for the real server.                                            *)
EXTENDS Scopes, Json

VARIABLES mode, al, blk, u1, u2
vars == <<mode, al, blk, u1, u2>>
Use(p, base) == [k |-> "use", path |-> p, oids |-> [i \in 1..Len(p) |-> base + i]]
(* the use of a sits on line 1, column 6 of inc.asm - the coordinates of `use u1' in main.asm (same range, two files) *)
Inc == << [k |-> "label", name |-> "a", oid |-> 1, hasBody |-> FALSE, body |-> <<>>], Use(<<"a">>, 3), [k |-> "const", name |-> "b", oid |-> 2] >>
       \o (IF blk THEN << Use(<<"P">>, 5) >> ELSE <<>>)
Imp == [k |-> "import", file |-> "inc.asm", sid |-> "$imp1", mode |-> (IF mode = "ns2" THEN "ns" ELSE mode), name |-> "m", oid |-> 13,
        items |-> << [name |-> "a", oid |-> 10, alias |-> al, aoid |-> 11], [name |-> "b", oid |-> 12, alias |-> "", aoid |-> 0] >>,
        block |-> IF blk THEN << [k |-> "const", name |-> "P", oid |-> 14] >> ELSE <<>>]
(* mode "ns2": the same file is imported a second time, as namespace k (one symbol per import, one definition site) *)
Imp2 == [k |-> "import", file |-> "inc.asm", sid |-> "$imp2", mode |-> "ns", name |-> "k", oid |-> 15, items |-> <<>>, block |-> <<>>]
Main == << Imp >> \o (IF mode = "ns2" THEN << Imp2 >> ELSE <<>>) \o << Use(u1, 20), [k |-> "label", name |-> "s", oid |-> 30, hasBody |-> TRUE, body |-> << Use(u2, 31) >>] >>
Files == [m |-> Main] @@ ("inc.asm" :> Inc)
P == Project(Files, "m")
Paths == {<<"a">>, <<"b">>, <<"x">>, <<"m", "a">>, <<"m", "b">>, <<"k", "a">>, <<"super", "b">>}
Init == /\ mode \in {"all", "ns", "ns2", "sel"} /\ al \in {"", "x"} /\ blk \in BOOLEAN /\ u1 \in Paths /\ u2 \in Paths
        /\ (mode # "sel" => al = "") /\ (blk => mode = "sel")
Next == UNCHANGED vars
Spec == Init /\ [][Next]_vars

Good == ErrorFree(P)
Defs == {o.oid : o \in {x \in P.occs : x.def}}
RefsInverse == Good => \A d \in Defs : Refs(P, d, FALSE) = {o.oid : o \in {x \in P.occs : ~x.def /\ Def(P, x.oid) = d}}
AliasDenotesSymbol == (Good /\ mode = "sel" /\ al = "x") =>
                         /\ NodeOf(P, 11) = 1 /\ SpOf(P, 11) = 11 /\ NodeOf(P, 10) = 1 /\ SpOf(P, 10) = 1
                         /\ RenameSet(P, 1) \cap RenameSet(P, 11) = {}
FreshRenameIsCaptureFree == Good => \A o \in P.occs : (o.sp # NoNode /\ o.name # "super") => CaptureFree(Files, "m", o.oid, "zz")
AllSpelledAsNode == \A o \in P.occs : o.sp = o.node                     \* witness: expected violated
NothingGood == ~Good                                                     \* witness: expected violated
EmitCase == Good => PrintT(<<"CASE", ToJson([prog |-> Main, inc |-> Inc])>>)
================================================================================
