SPECIFICATION Spec
POSTCONDITION Consumed
