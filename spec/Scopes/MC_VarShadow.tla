------------------------------- MODULE MC_VarShadow -------------------------------
(* Design level for a binding that changes INSIDE a scope (C15/C16, round 9):                                            *)
(*      <outer definition of x>      blk: {  use p1   <inner definition of x>   use p2   [ .var x again ]   use p3  }      use x *)
(* The outer and the inner definition are each a constant, a label or a variable.  A variable is sequential: in front of   *)
(* its first assignment in the block the name still denotes the outer x, behind it the block's own; a constant or a label  *)
(* of the block is what the name denotes in the whole block (the passes converge on it).  Checked: exactly that; find-     *)
(* references is the inverse of go-to-definition; renaming to a fresh name is capture-free.  Exported for the real server. *)
EXTENDS Scopes, Json
VARIABLES ko, ki, again, p1, p2, p3
vars == <<ko, ki, again, p1, p2, p3>>
Use(p, base) == [k |-> "use", path |-> p, oids |-> [i \in 1..Len(p) |-> base + i]]
DefStmt(kind, name, oid) == IF kind = "label" THEN [k |-> "label", name |-> name, oid |-> oid, hasBody |-> FALSE, body |-> <<>>]
                        ELSE [k |-> kind, name |-> name, oid |-> oid]
Prog == << DefStmt(ko, "x", 1),
           [k |-> "label", name |-> "blk", oid |-> 2, hasBody |-> TRUE, body |->
              << Use(p1, 10), DefStmt(ki, "x", 20), Use(p2, 30) >>
              \o (IF again THEN << [k |-> "var", name |-> "x", oid |-> 40] >> ELSE <<>>)
              \o << Use(p3, 50) >>],
           Use(<<"x">>, 60) >>
Files == [m |-> Prog]
P == Project(Files, "m")
Paths == {<<"x">>, <<"super", "x">>, <<"blk", "x">>}
Kinds == {"const", "label", "var"}
Init == ko \in Kinds /\ ki \in Kinds /\ again \in BOOLEAN /\ (again => ki = "var") /\ p1 \in Paths /\ p2 \in Paths /\ p3 \in Paths
Next == UNCHANGED vars
Spec == Init /\ [][Next]_vars
Last(p) == 10 * 0 + Len(p)           \* the oid offset of the last segment of a path
(* what the last segment of a path denotes at a place of the block: `beforeInner' = in front of the block's own definition *)
Denotes(p, beforeInner) ==
  IF p = <<"super", "x">> THEN 1
  ELSE IF ki = "var" /\ beforeInner THEN (IF p = <<"x">> THEN 1 ELSE -1)       \* blk.x does not exist yet
  ELSE 20
Sequential == /\ NodeOf(P, 10 + Len(p1)) = Denotes(p1, TRUE)
              /\ NodeOf(P, 30 + Len(p2)) = Denotes(p2, FALSE)
              /\ NodeOf(P, 50 + Len(p3)) = Denotes(p3, FALSE)
              /\ NodeOf(P, 61) = 1
              /\ (again => NodeOf(P, 40) = 20 /\ ~OccOf(P, 40).def)
RefsInverse == \A d \in {1, 20} : Refs(P, d, FALSE) = {o.oid : o \in {x \in P.occs : x.node = d /\ ~x.def}}
FreshRenameIsCaptureFree == \A o \in P.occs : (o.sp # NoNode /\ o.node # -1) => CaptureFree(Files, "m", o.oid, "zz")
(* vacuity: expected to be violated - a use in the block that denotes the outer x although the block defines its own *)
NeverOuterInBlock == ~(ki = "var" /\ p1 = <<"x">>)
EmitCase == PrintT(<<"CASE", ToJson([prog |-> Prog])>>)
================================================================================
