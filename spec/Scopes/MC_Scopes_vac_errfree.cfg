SPECIFICATION Spec
INVARIANT SomeErrorFree
