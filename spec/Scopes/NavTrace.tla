-------------------------------- MODULE NavTrace --------------------------------
(* impl -> spec for C16.  One record per project: the replies of the real server to definition / references (with  *)
(* and without declaration) / documentHighlight at every identifier occurrence, positions already mapped to         *)
(* occurrence ids by the renderer's table (-1: null reply, -2: a location that is no identifier occurrence).         *)
(* -4: the range spanning the whole requested file.                                                                 *)
(* r = [id, ok, main, files: <<[name, prog]>>, obs: <<[oid, def, refsT, refsF, hl]>>, ord: <<[oid, n]>> textual order, answered, panic] *)
EXTENDS Scopes, Json, IOUtils

Rec == ndJsonDeserialize(IOEnv.TRACE)
VARIABLES l, bad
vars == <<l, bad>>
V(id, verdict, dev, why) == [id |-> id, verdict |-> verdict, dev |-> dev, why |-> why]
SeqSet(sq) == {sq[i] : i \in 1..Len(sq)}
FilesOf(r) == [f \in {r.files[i].name : i \in 1..Len(r.files)} |-> r.files[CHOOSE i \in 1..Len(r.files) : r.files[i].name = f].prog]

OrdOf(r) == [q \in {r.ord[i].oid : i \in 1..Len(r.ord)} |-> r.ord[CHOOSE i \in 1..Len(r.ord) : r.ord[i].oid = q].n]
WholeFile == -4      \* the renderer's id for "the range that spans the whole requested file"

(* Narrow witnesses of the two recorded deviations:                                                                       *)
(*  UsageOfEarlierPassKept: the stray definition/occurrence is explained by how the path resolved before the definitions  *)
(*    that follow it in the text existed (usages recorded in pass 1 are never dropped, and a position inside two          *)
(*    definitions is answered from whichever the hash map yields first).                                                   *)
(*  ImportedFileSpanShadowsSymbols: the request is inside an imported file and the stray location is that whole file       *)
(*    (the file definition created by `.import' spans the file, so it contains every position in it).                      *)
Earlier(P, o, ord) == {PassOneNode(P, o, ord), PassZeroNode(P, o, ord)} \ {-1, o.node}      \* what it denoted in an earlier pass, if different
Ambiguous(P, x, ord) == x \in {o.oid : o \in P.occs} /\ Earlier(P, OccOf(P, x), ord) # {}
(* deviations of round 5, each with the set of occurrences it can explain *)
DefOps(r) == SpecialOids(FilesOf(r), "ifdef")
LoopOps(r) == SpecialOids(FilesOf(r), "loop")
FileOps(r) == SpecialOids(FilesOf(r), "fuse")
SpecialName(r, S) == IF S \cap DefOps(r) # {} THEN "DefinedOperandNotAUsage"
                     ELSE IF S \cap FileOps(r) # {} THEN "FileNameInterpolationNotAUsage" ELSE "LoopIndexLocatedAtCount"
Explain(r, P, occ, ord, d, obs, exp) ==
  LET extra == obs \ exp
      missing == exp \ obs IN
  IF extra = {} /\ missing = {} THEN "ok"
  ELSE IF \A x \in (extra \cup missing) : x \in {q.oid : q \in P.occs} /\ ShadowedByUntaken(P, OccOf(P, x)) THEN "UntakenDefinitionShadows"
  ELSE IF SeveralVars(P, d) THEN "RemovedSymbolKeepsDefinition"
  ELSE IF d \in ReassignedVars(P) THEN "VarReassignmentMovesDefinition"
  ELSE IF (extra \cup missing) \subseteq (DefOps(r) \cup LoopOps(r) \cup FileOps(r)) THEN SpecialName(r, extra \cup missing)
  ELSE IF (\A x \in missing : Ambiguous(P, x, ord)) /\ (\A y \in extra : (y = WholeFile /\ occ.file # r.main) \/ Ambiguous(P, y, ord))
    THEN (IF \E x \in extra : x = WholeFile THEN "ImportedFileSpanShadowsSymbols" ELSE "UsageOfEarlierPassKept")
  ELSE "no"
Row(r, what, at, obs, exp, e) ==
  IF e = "ok" THEN <<>>
  ELSE IF e = "no" THEN <<V(r.id, "violation", "", what \o " = " \o ToString(obs) \o " expected " \o ToString(exp) \o at)>>
  ELSE <<V(r.id, "deviation", e, what \o " = " \o ToString(obs) \o " expected " \o ToString(exp) \o at)>>

JudgeOcc(r, P, o) ==
  LET occ == OccOf(P, o.oid)
      ord == OrdOf(r)
      d == occ.node
      at == " at occurrence " \o ToString(o.oid) \o " (" \o occ.name \o " in " \o occ.file \o ")"
      U == {x.oid : x \in {y \in P.occs : y.node \in {-1, NoNode}}}       \* occurrences the model cannot resolve (untaken code, import quirks): unspecified
      IndexOids == {x.oid : x \in {y \in P.occs : y.name = "index" /\ y.node = NoNode}}
      obsUses == {x.oid : x \in {y \in SeqSet(r.obs) : y.def = d /\ ~OccOf(P, y.oid).def}}
      defrow == IF d = NoNode \/ d = -1 \/ o.def = d THEN <<>>      \* -1: unresolvable name in an untaken branch (the build never evaluates it)
                ELSE IF ShadowedByUntaken(P, occ) /\ o.def \in {u.oid : u \in UntakenDefs(P)}
                  THEN <<V(r.id, "deviation", "UntakenDefinitionShadows", "go-to-definition leads to the definition " \o ToString(o.def) \o " inside an untaken branch, the build uses " \o ToString(d) \o at)>>
                ELSE IF SeveralVars(P, d)
                  THEN <<V(r.id, "deviation", "RemovedSymbolKeepsDefinition", "go-to-definition leads to " \o ToString(o.def) \o ", the variable is defined at " \o ToString(d) \o at)>>
                ELSE IF d \in ReassignedVars(P)
                  THEN <<V(r.id, "deviation", "VarReassignmentMovesDefinition", "go-to-definition leads to " \o ToString(o.def) \o ", the variable is defined at " \o ToString(d) \o at)>>
                ELSE IF o.def = -1 /\ o.oid \in DefOps(r) \cup FileOps(r)
                  THEN <<V(r.id, "deviation", SpecialName(r, {o.oid}), "go-to-definition finds nothing" \o at)>>
                ELSE IF o.oid \in LoopOps(r)
                  THEN <<V(r.id, "deviation", "LoopIndexLocatedAtCount", "go-to-definition on the loop count leads to " \o ToString(o.def) \o at)>>
                ELSE IF o.def \in Earlier(P, occ, ord)
                  THEN <<V(r.id, "deviation", "UsageOfEarlierPassKept", "go-to-definition leads to " \o ToString(o.def) \o ", the build uses " \o ToString(d) \o at)>>
                ELSE IF o.def = WholeFile /\ occ.file # r.main
                  THEN <<V(r.id, "deviation", "ImportedFileSpanShadowsSymbols", "go-to-definition leads to the file instead of " \o ToString(d) \o at)>>
                ELSE <<V(r.id, "violation", "", "go-to-definition leads to " \o ToString(o.def) \o ", the scoping rules bind it to " \o ToString(d) \o at)>> IN
  defrow
  (* the implicit loop symbol `index' has no definition site and is nobody's occurrence: an answer that relates it to another *)
  (* symbol can only come from an analysis record that a re-used symbol index inherited                                      *)
  \o (IF o.oid \in IndexOids /\ o.def # -1
        THEN <<V(r.id, "violation", "", "go-to-definition on `index' leads to " \o ToString(o.def) \o at)>> ELSE <<>>)
  \o (IF occ.def /\ (SeqSet(o.refsT) \cup SeqSet(o.refsF) \cup SeqSet(o.hl)) \cap IndexOids # {}
        THEN <<V(r.id, "violation", "", "references/highlights list an `index' of a loop body: " \o ToString((SeqSet(o.refsT) \cup SeqSet(o.hl)) \cap IndexOids) \o at)>> ELSE <<>>)
  \o (IF occ.def /\ d # NoNode THEN Row(r, "references (with declaration)", at, SeqSet(o.refsT) \ U, Refs(P, d, TRUE), Explain(r, P, occ, ord, d, SeqSet(o.refsT) \ U, Refs(P, d, TRUE)))
                      \o Row(r, "references (without declaration)", at, SeqSet(o.refsF) \ U, Refs(P, d, FALSE), Explain(r, P, occ, ord, d, SeqSet(o.refsF) \ U, Refs(P, d, FALSE)))
                      \o Row(r, "references vs inverse of observed go-to-definition", at, SeqSet(o.refsF) \ ({WholeFile} \cup U), obsUses \ U, Explain(r, P, occ, ord, d, SeqSet(o.refsF) \ ({WholeFile} \cup U), obsUses \ U))
                      \o Row(r, "highlights", at, SeqSet(o.hl) \ U, Highlights(P, d, occ.file), Explain(r, P, occ, ord, d, SeqSet(o.hl) \ U, Highlights(P, d, occ.file)))
       ELSE <<>>)

RECURSIVE Fold(_, _, _, _)
Fold(r, P, i, acc) == IF i > Len(r.obs) THEN acc ELSE Fold(r, P, i + 1, acc \o JudgeOcc(r, P, r.obs[i]))

Judge(r) ==
  IF ~r.ok THEN <<>>                       \* C16 speaks about error-free projects
  ELSE LET P == ProjectO(FilesOf(r), r.main, OrdOf(r)) IN
       IF P.mav THEN <<>>           \* a macro name used as a value somewhere: not an error-free project for the analysis
       ELSE IF ~r.answered
         THEN IF NestedIf0(FilesOf(r)[r.main], FALSE, FilesOf(r))
                THEN <<V(r.id, "deviation", "NestedGreedyAnalysisPanics", "server died analysing an untaken branch nested in an untaken branch: " \o r.panic)>>
                ELSE <<V(r.id, "violation", "", "the server died or did not answer a navigation request: " \o r.panic)>>
       ELSE Fold(r, P, 1, <<>>)

Init == l = 1 /\ bad = <<>>
Step == l <= Len(Rec) /\ bad' = bad \o Judge(Rec[l]) /\ l' = l + 1
Finish == l = Len(Rec) + 1 /\ ndJsonSerialize(IOEnv.OUT, bad) /\ l' = l + 1 /\ UNCHANGED bad
Next == Step \/ Finish
Spec == Init /\ [][Next]_vars
Consumed == TLCGet("stats").diameter >= Len(Rec) + 1
================================================================================
