SPECIFICATION Spec
INVARIANT RefsInverse
INVARIANT CallsDenoteMacros
INVARIANT ParamsApart
INVARIANT FreshRenameIsCaptureFree
INVARIANT EmitCase
