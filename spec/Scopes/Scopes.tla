--------------------------------- MODULE Scopes ---------------------------------
(* Which definition every identifier occurrence of a project refers to, by the assembler's scoping rules, and what  *)
(* go-to-definition / find-references / highlights / rename therefore have to answer (C15, C16).                    *)
(*                                                                                                                  *)
(* The rules are those of Asm.tla (Key, StripSuper, Front, HasSuper are re-used from it): a path is resolved from   *)
(* the scope of the occurrence; on failure the search moves to the enclosing scope; a path through `super' is       *)
(* resolved from the ancestor only.  Here the path is walked segment by segment so that every segment gets its      *)
(* node and so that the alias edges an `.import' creates can be followed (MC_Scopes checks that on alias-free        *)
(* tables this walk and Asm!Lookup find the same symbol).                                                           *)
(*                                                                                                                  *)
(* Program statements (field k):                                                                                    *)
(*   label [name, oid, hasBody, body]   const [name, oid]   braces [sid, body]   if0 [body] (untaken `.if 0 {..}')   *)
(*   use [path, oids] (oid per segment, super included; rendered as `.word path' or inside a string `"{path}"')       *)
(*   import [file, sid, mode, name, oid, items, block]:  mode "all"  `.import * from file'                             *)
(*          mode "ns"   `.import * as name from file'  (the file's symbols are reachable as name.x)                     *)
(*          mode "sel"  `.import a as x, b from file'  items = <<[name, oid, alias, aoid]>> (alias "" = none)           *)
(*          block = constants of the parameter block `{ .const P = 1 }', defined inside the import's scope              *)
(*   expr [paths, oidss]      several paths in ONE expression (`.word p1 + p2', the same symbol may occur twice)          *)
(*   ifdef [path, oids, body] `.if defined(path) { body }' (the operand of defined() is an occurrence like any other)     *)
(*   var [name, oid]          `.var name = 1'; a later `.var name = 2' in the same scope assigns to the SAME symbol: the   *)
(*                            first statement is its definition, later ones are occurrences of it.  Variables are          *)
(*                            SEQUENTIAL: every pass starts without them, so a variable is visible only from its first     *)
(*                            assignment on in walk order (ord); a path in front of it resolves as if it did not exist     *)
(*   loop [path, oids, sid, body]  `.loop path { body }': the count is an ordinary use; the body is a scope that defines    *)
(*                            `index' (which has no definition site: NoNode)                                               *)
(*   test [name, body]        `.test "name" { body }': not part of the program; what stands in it is visible to nobody     *)
(*                            else and denotes nothing the properties speak about (NoNode)                                *)
(*   pad [n]                  n comment lines (layout only)                                                                *)
(* Every table entry and occurrence also has a spelling group sp: the alias token of `a as x' and the uses of x denote   *)
(* a's node (navigation) but are spelled x, so a rename at a touches the occurrences whose sp is a, a rename at x those  *)
(* whose sp is the alias.                                                                                                *)
(*   ifelse [c, then, else]  (`.if c {..} else {..}' with c = 0 or 1; the branch not taken is still analysed:         *)
(*                            C15 counts occurrences in untaken branches explicitly)                                  *)
(*   macrodef [name, oid, params, poids, body]   macrocall [name, oid]  (`name(2, ..)', literal arguments)             *)
(* Macros: a call denotes the nearest enclosing symbol of that name that IS a macro (other symbols of the name are    *)
(* skipped); every call expands the body in a fresh scope under the calling scope in which the parameters are         *)
(* defined, so equally named parameters of different macros (or of different calls) are different symbols that share  *)
(* their definition site only when they are the same parameter.                                                       *)
(* oid = identity of an identifier occurrence (its position is the renderer's business).  A node is identified by   *)
(* the oid of its definition site.                                                                                  *)
EXTENDS Asm

NoNode == -9          \* "denotes nothing the property speaks about": any answer is accepted
EntA(oid, at, target, kind, sp) == [oid |-> oid, at |-> at, target |-> target, kind |-> kind, sp |-> sp]
Ent(oid, at, target, kind) == EntA(oid, at, target, kind, oid)
KindOf(s) == IF s.k = "const" THEN "const" ELSE IF s.k = "macrodef" THEN "macro" ELSE IF s.hasBody THEN "scope" ELSE "label"
TopDefs(prog) == {i \in 1..Len(prog) : prog[i].k \in {"label", "const"}}

(* macro definitions by key (structural), and the macro a call in `scope' selects: nearest enclosing key that is a macro *)
RECURSIVE MacroStmts(_, _)
MacroStmts(prog, scope) ==
  IF prog = <<>> THEN <<>>
  ELSE LET s == Head(prog)
           here == CASE s.k = "macrodef" -> (Key(scope, <<s.name>>) :> s)
                     [] s.k = "label" -> (IF s.hasBody THEN MacroStmts(s.body, Append(scope, s.name)) ELSE <<>>)
                     [] s.k = "braces" -> MacroStmts(s.body, Append(scope, s.sid))
                     [] s.k = "if0" -> MacroStmts(s.body, scope)
                     [] s.k = "ifelse" -> MacroStmts(s.then, scope) @@ MacroStmts(s.else, scope)
                     [] s.k = "ifdef" -> MacroStmts(s.body, scope)
                     [] s.k = "loop" -> MacroStmts(s.body, Append(scope, s.sid))
                     [] OTHER -> <<>>
       IN here @@ MacroStmts(Tail(prog), scope)
RECURSIVE MacroKey(_, _, _)
MacroKey(md, scope, name) ==
  IF Key(scope, <<name>>) \in DOMAIN md THEN Key(scope, <<name>>)
  ELSE IF scope = <<>> THEN "" ELSE MacroKey(md, Front(scope), name)
CallScope(scope, s) == Append(scope, "$m" \o ToString(s.oid))          \* the fresh scope of one expansion
DefScope(scope, s) == Append(scope, "$d" \o ToString(s.oid))           \* the body as written, parameters bound
ParamEnts(d, M) == [k \in {Key(M, <<d.params[i]>>) : i \in 1..Len(d.params)} |->
                      LET i == CHOOSE i \in 1..Len(d.params) : Key(M, <<d.params[i]>>) = k IN
                      Ent(d.poids[i], M, Append(M, d.params[i]), "param")]
(* of what an untaken branch would define only the parameters of the macro calls in it are kept: they live in the call's own *)
(* scope, which nothing else can reach, and bind the body occurrences of that (analysed, never assembled) expansion          *)
OnlyParams(t) == [k \in {k \in DOMAIN t : t[k].kind = "param"} |-> t[k]]

(* symbol table: key -> [oid of the definition, scope the key lives in, scope its children live in] *)
RECURSIVE DefsOf(_, _, _, _)
DefsOf(prog, scope, files, md) ==
  IF prog = <<>> THEN <<>>
  ELSE LET s == Head(prog)
           here ==
             CASE s.k = "label" -> (Key(scope, <<s.name>>) :> Ent(s.oid, scope, Append(scope, s.name), KindOf(s)))
                                   @@ (IF s.hasBody THEN DefsOf(s.body, Append(scope, s.name), files, md) ELSE <<>>)
               [] s.k = "const" -> (Key(scope, <<s.name>>) :> Ent(s.oid, scope, Append(scope, s.name), "const"))
               [] s.k = "braces" -> DefsOf(s.body, Append(scope, s.sid), files, md)
               (* what an untaken branch defines is not part of the program: the assembler never sees it *)
               [] s.k = "if0" -> OnlyParams(DefsOf(s.body, scope, files, md))
               [] s.k = "ifelse" -> IF s.c = 1 THEN DefsOf(s.then, scope, files, md) @@ OnlyParams(DefsOf(s.else, scope, files, md))
                                    ELSE DefsOf(s.else, scope, files, md) @@ OnlyParams(DefsOf(s.then, scope, files, md))
               [] s.k = "ifdef" -> DefsOf(s.body, scope, files, md)
               [] s.k = "var" -> (Key(scope, <<s.name>>) :> Ent(s.oid, scope, Append(scope, s.name), "var"))       \* @@ keeps the first one
               [] s.k = "loop" -> (Key(Append(scope, s.sid), <<"index">>) :> EntA(NoNode, Append(scope, s.sid), Append(scope, s.sid) \o <<"index">>, "const", NoNode))
                                  @@ DefsOf(s.body, Append(scope, s.sid), files, md)
               [] s.k = "macrodef" -> (Key(scope, <<s.name>>) :> Ent(s.oid, scope, Append(scope, s.name), "macro"))
                                      @@ ParamEnts(s, DefScope(scope, s)) @@ DefsOf(s.body, DefScope(scope, s), files, md)
               [] s.k = "macrocall" -> LET k == MacroKey(md, scope, s.name) IN
                                       IF k = "" THEN <<>>
                                       ELSE ParamEnts(md[k], CallScope(scope, s)) @@ DefsOf(md[k].body, CallScope(scope, s), files, md)
               [] s.k = "import" ->
                    (* the file's symbols live in an anonymous scope; its top-level names are aliased into the importing scope *)
                    LET p == files[s.file]
                        isc == Append(scope, s.sid)
                        T == TopDefs(p)
                        inner == DefsOf(s.block, isc, files, md) @@ DefsOf(p, isc, files, md)
                        TopOf(n) == CHOOSE i \in T : p[i].name = n
                        Vis(it) == IF it.alias # "" THEN it.alias ELSE it.name IN
                    (CASE s.mode = "ns" -> (Key(scope, <<s.name>>) :> EntA(NoNode, scope, isc, "scope", NoNode))
                       [] s.mode = "sel" ->
                            LET Sel == {j \in 1..Len(s.items) : \E i \in T : p[i].name = s.items[j].name} IN
                            [k \in {Key(scope, <<Vis(s.items[j])>>) : j \in Sel} |->
                               LET j == CHOOSE j \in Sel : Key(scope, <<Vis(s.items[j])>>) = k
                                   d == p[TopOf(s.items[j].name)] IN
                               EntA(d.oid, scope, Append(isc, d.name), KindOf(d), IF s.items[j].alias # "" THEN s.items[j].aoid ELSE d.oid)]
                       [] OTHER ->
                            [k \in {Key(scope, <<p[i].name>>) : i \in T} |->
                               LET i == CHOOSE i \in T : Key(scope, <<p[i].name>>) = k IN Ent(p[i].oid, scope, Append(isc, p[i].name), KindOf(p[i]))])
                    @@ inner
               [] OTHER -> <<>>
       IN here @@ DefsOf(Tail(prog), scope, files, md)

(* walk a super-free path downwards from scope cur: the oid of the node every segment denotes *)
RECURSIVE WalkPathS(_, _, _, _, _)
WalkPathS(tab, cur, path, acc, sacc) ==
  IF path = <<>> THEN [ok |-> TRUE, oids |-> acc, sps |-> sacc]
  ELSE LET k == Key(cur, <<Head(path)>>) IN
       IF k \notin DOMAIN tab THEN [ok |-> FALSE, oids |-> <<>>, sps |-> <<>>]
       ELSE WalkPathS(tab, tab[k].target, Tail(path), Append(acc, tab[k].oid), Append(sacc, tab[k].sp))
WalkPath(tab, cur, path, acc) == WalkPathS(tab, cur, path, acc, acc)

RECURSIVE BubbleWalk(_, _, _)
BubbleWalk(tab, scope, path) ==
  LET r == WalkPath(tab, scope, path, <<>>) IN
  IF r.ok \/ scope = <<>> THEN r ELSE BubbleWalk(tab, Front(scope), path)

(* a `super' segment denotes the scope it reaches: the label that owns it; NoNode for anonymous scopes and the root *)
SuperNode(tab, sc) == IF sc # <<>> /\ Key(sc, <<>>) \in DOMAIN tab THEN tab[Key(sc, <<>>)].oid ELSE NoNode

(* Resolve: per segment of the path the node it denotes *)
Resolve(tab, scope, path) ==
  IF HasSuper(path)
    THEN LET r == StripSuper(scope, path) IN
         IF ~r.ok THEN [ok |-> FALSE, oids |-> <<>>, sps |-> <<>>]
         ELSE LET w == WalkPath(tab, r.scope, r.path, <<>>)
                  sup == [i \in 1..(Len(path) - Len(r.path)) |-> SuperNode(tab, SubSeq(scope, 1, Len(scope) - i))] IN
              [ok |-> w.ok, oids |-> sup \o w.oids, sps |-> sup \o w.sps]
  ELSE BubbleWalk(tab, scope, path)

(* all identifier occurrences: [oid, node, def, file, scope, name, path, seg, call] ; node = -1 when the path does not resolve. *)
(* An occurrence inside a macro body is listed once per expansion (same oid).                                                *)
OccS(oid, node, def, file, scope, name, path, seg, call, sp) ==
  [oid |-> oid, node |-> node, def |-> def, file |-> file, scope |-> scope, name |-> name, path |-> path, seg |-> seg, call |-> call, sp |-> sp]
OccC(oid, node, def, file, scope, name, path, seg, call) == OccS(oid, node, def, file, scope, name, path, seg, call, node)
Occ(oid, node, def, file, scope, name, path, seg) == OccC(oid, node, def, file, scope, name, path, seg, FALSE)
UseOccs(tab, scope, file, path, oids) ==
  LET r == Resolve(tab, scope, path) IN
  {OccS(oids[i], IF r.ok THEN r.oids[i] ELSE -1, FALSE, file, scope, path[i], path, i, FALSE, IF r.ok THEN r.sps[i] ELSE -1) : i \in 1..Len(path)}
(* occurrences inside a branch that is not taken: a definition there defines nothing (NoNode); it is marked with seg = -1 *)
Untaken(occs) == {IF o.def THEN [o EXCEPT !.node = NoNode, !.sp = NoNode, !.seg = -1] ELSE o : o \in occs}
RECURSIVE OccsOf(_, _, _, _, _, _)
OccsOf(prog, scope, file, files, tab, md) ==
  IF prog = <<>> THEN {}
  ELSE LET s == Head(prog)
           here ==
             CASE s.k = "label" -> {Occ(s.oid, s.oid, TRUE, file, scope, s.name, <<s.name>>, 1)}
                                   \cup (IF s.hasBody THEN OccsOf(s.body, Append(scope, s.name), file, files, tab, md) ELSE {})
               [] s.k = "const" -> {Occ(s.oid, s.oid, TRUE, file, scope, s.name, <<s.name>>, 1)}
               [] s.k = "braces" -> OccsOf(s.body, Append(scope, s.sid), file, files, tab, md)
               [] s.k = "if0" -> Untaken(OccsOf(s.body, scope, file, files, tab, md))
               [] s.k = "ifelse" -> (IF s.c = 1 THEN OccsOf(s.then, scope, file, files, tab, md) ELSE Untaken(OccsOf(s.then, scope, file, files, tab, md)))
                                    \cup (IF s.c = 1 THEN Untaken(OccsOf(s.else, scope, file, files, tab, md)) ELSE OccsOf(s.else, scope, file, files, tab, md))
               [] s.k = "macrodef" ->
                    LET M == DefScope(scope, s) IN
                    {Occ(s.oid, s.oid, TRUE, file, scope, s.name, <<s.name>>, 1)}
                    \cup {Occ(s.poids[i], s.poids[i], TRUE, file, M, s.params[i], <<s.params[i]>>, 1) : i \in 1..Len(s.params)}
                    \cup OccsOf(s.body, M, file, files, tab, md)
               [] s.k = "macrocall" ->
                    LET k == MacroKey(md, scope, s.name) IN
                    {OccC(s.oid, IF k = "" THEN -1 ELSE md[k].oid, FALSE, file, scope, s.name, <<s.name>>, 1, TRUE)}
                    \cup (IF k = "" THEN {} ELSE OccsOf(md[k].body, CallScope(scope, s), file, files, tab, md))
               [] s.k = "use" -> UseOccs(tab, scope, file, s.path, s.oids)
               [] s.k = "test" -> {[o EXCEPT !.node = NoNode, !.sp = NoNode] : o \in OccsOf(s.body, Append(scope, "$t" \o s.name), file, files, tab, md)}
               [] s.k = "blk" -> {Occ(s.oid, NoNode, FALSE, file, scope, "-", <<"-">>, 1)}     \* `bne -': the automatic block-start symbol, it has no name in the source
               [] s.k = "fuse" -> UseOccs(tab, scope, file, s.path, s.oids)                 \* `.file "{path}.bin"'
               [] s.k = "expr" -> UNION {UseOccs(tab, scope, file, s.paths[j], s.oidss[j]) : j \in 1..Len(s.paths)}
               [] s.k = "ifdef" -> UseOccs(tab, scope, file, s.path, s.oids) \cup OccsOf(s.body, scope, file, files, tab, md)
               [] s.k = "loop" -> UseOccs(tab, scope, file, s.path, s.oids) \cup OccsOf(s.body, Append(scope, s.sid), file, files, tab, md)
               [] s.k = "var" -> LET d == tab[Key(scope, <<s.name>>)].oid IN
                                 {OccS(s.oid, d, s.oid = d, file, scope, s.name, <<s.name>>, IF s.oid = d THEN 1 ELSE 0, FALSE, d)}     \* seg 0 marks a re-assignment
               [] s.k = "import" ->
                    LET isc == Append(scope, s.sid)
                        NodeIn(n) == IF Key(isc, <<n>>) \in DOMAIN tab THEN tab[Key(isc, <<n>>)].oid ELSE -1 IN
                    OccsOf(s.block, isc, file, files, tab, md) \cup OccsOf(files[s.file], isc, s.file, files, tab, md)
                    \cup (IF s.mode = "ns" THEN {Occ(s.oid, NoNode, FALSE, file, scope, s.name, <<s.name>>, 1)} ELSE {})
                    \cup (IF s.mode = "sel"
                            THEN {Occ(s.items[j].oid, NodeIn(s.items[j].name), FALSE, file, isc, s.items[j].name, <<s.items[j].name>>, 1) : j \in 1..Len(s.items)}
                                 \cup {OccS(s.items[j].aoid, NodeIn(s.items[j].name), FALSE, file, scope, s.items[j].alias, <<s.items[j].alias>>, 1, FALSE, s.items[j].aoid) :
                                         j \in {j \in 1..Len(s.items) : s.items[j].alias # ""}}
                            ELSE {})
               [] OTHER -> {}
       IN here \cup OccsOf(Tail(prog), scope, file, files, tab, md)

(* the table an occurrence sees: without the variables whose first assignment comes later in walk order *)
TabAt(tab, ord, oid) == [k \in {k \in DOMAIN tab : ~(tab[k].kind = "var" /\ ord[tab[k].oid] > ord[oid])} |-> tab[k]]
LaterVar(tab, ord, oid) == \E k \in DOMAIN tab : tab[k].kind = "var" /\ ord[tab[k].oid] > ord[oid]
Resee(tab, ord, o) ==        \* a path occurrence resolved again in the table it really sees
  IF o.def \/ o.call \/ o.seg <= 0 \/ o.node = NoNode \/ ~LaterVar(tab, ord, o.oid) THEN o
  ELSE LET r == Resolve(TabAt(tab, ord, o.oid), o.scope, o.path) IN
       [o EXCEPT !.node = IF r.ok THEN r.oids[o.seg] ELSE -1, !.sp = IF r.ok THEN r.sps[o.seg] ELSE -1]

ProjectO(files, main, ord) ==
                        LET md == MacroStmts(files[main], <<>>)
                            tab == DefsOf(files[main], <<>>, files, md)
                            occs0 == OccsOf(files[main], <<>>, main, files, tab, md)
                            called == {o.node : o \in {x \in occs0 : x.call}}
                            (* the parameters of a macro that is never expanded are bound to nothing in any build: unspecified *)
                            dead == {"$d" \o ToString(md[k].oid) : k \in {k \in DOMAIN md : md[k].oid \notin called}} IN
                        [tab |-> tab,
                         (* a macro's name used as a value: such a project is only "error-free" because the code is never assembled; *)
                         (* the language server's analysis of untaken code stops with an error there, so nothing is demanded of it   *)
                         mav |-> \E o \in occs0 : ~o.def /\ ~o.call /\ o.node \in {md[k].oid : k \in DOMAIN md},
                         (* ... and a macro's name used as a value (possible only in code that is never assembled) denotes nothing *)
                         occs |-> {IF (o.scope # <<>> /\ o.scope[Len(o.scope)] \in dead) \/ (~o.def /\ ~o.call /\ o.node \in {md[k].oid : k \in DOMAIN md})
                                     THEN [o EXCEPT !.node = NoNode, !.sp = NoNode] ELSE Resee(tab, ord, o) : o \in occs0}]
Project(files, main) == ProjectO(files, main, [i \in 0..400 |-> i])          \* design-level models: oids are in walk order
ErrorFree(P) == \A o \in P.occs : o.node # -1
NodeOf(P, oid) == LET S == {o \in P.occs : o.oid = oid} IN IF S = {} THEN -1 ELSE (CHOOSE o \in S : TRUE).node
OccOf(P, oid) == CHOOSE o \in P.occs : o.oid = oid

(* an untaken branch nested in an untaken branch (the greedy analysis of the language server crashes on it today) *)
RECURSIVE NestedIf0(_, _, _)
NestedIf0(prog, inIf, files) ==
  \E i \in 1..Len(prog) :
     LET s == prog[i] IN
     CASE s.k = "if0" -> inIf \/ NestedIf0(s.body, TRUE, files)
       [] s.k = "ifelse" -> inIf \/ NestedIf0(s.then, TRUE, files) \/ NestedIf0(s.else, TRUE, files)
       [] s.k = "macrodef" -> NestedIf0(s.body, inIf, files)
       [] s.k = "label" -> NestedIf0(s.body, inIf, files)
       [] s.k = "braces" -> NestedIf0(s.body, inIf, files)
       [] s.k = "import" -> NestedIf0(files[s.file], inIf, files)
       [] OTHER -> FALSE

(* ---------------------------------------------------------------- C16 *)
Def(P, oid) == NodeOf(P, oid)                                            \* go-to-definition: the definition site
Uses(P, d) == {o.oid : o \in {x \in P.occs : x.node = d /\ ~x.def}}
Refs(P, d, withDecl) == Uses(P, d) \cup (IF withDecl THEN {d} ELSE {})
Highlights(P, d, file) == {o.oid : o \in {x \in P.occs : x.node = d /\ x.file = file}}

(* Pass 0 of the assembler has no segment yet: labels get no value, but the scopes of label blocks exist and constants   *)
(* are defined in order.  What the occurrence denoted then (-1: nothing).                                                 *)
PassZeroNode(P, o, ord) ==
  IF o.def \/ o.call \/ o.seg <= 0 THEN o.node
  ELSE LET tb == [k \in {k \in DOMAIN P.tab : P.tab[k].kind \in {"scope", "const", "macro", "param"} /\ (P.tab[k].oid = NoNode \/ ord[P.tab[k].oid] < ord[o.oid])} |-> P.tab[k]]
           r == Resolve(tb, o.scope, o.path) IN
       IF r.ok THEN r.oids[o.seg] ELSE -1

(* What the occurrence denoted in the first emitting pass: the labels that follow it in the text have no value yet, while *)
(* block scopes and constants are known from pass 0.  ord: oid -> textual order.  Used only as the witness of a recorded deviation.                                  *)
PassOneNode(P, o, ord) ==
  IF o.def \/ o.call \/ o.seg <= 0 THEN o.node
  ELSE LET tb == [k \in {k \in DOMAIN P.tab : P.tab[k].kind \in {"scope", "const", "macro", "param"} \/ ord[P.tab[k].oid] < ord[o.oid]} |-> P.tab[k]]
           r == Resolve(tb, o.scope, o.path) IN
       IF r.ok THEN r.oids[o.seg] ELSE -1

(* what the plain scoping query (nearest symbol of any kind) gives for an occurrence; differs from its node only for a   *)
(* macro call that sits nearer to a non-macro symbol of the same name.  Used as the witness of a recorded deviation.     *)
PlainNode(P, o) == LET r == Resolve(P.tab, o.scope, o.path) IN IF r.ok THEN r.oids[o.seg] ELSE -1
ShadowedCalls(P, d) == {o.oid : o \in {x \in P.occs : x.call /\ x.node = d /\ PlainNode(P, x) # d}}

(* Occurrences in special positions (witnesses of recorded deviations only): the operand of defined(), the count of a  *)
(* .loop, the interpolation of a .file name; and the symbols that are .var assigned more than once                      *)
RECURSIVE OidsOfKind(_, _)
OidsOfKind(prog, kind) ==
  UNION {LET s == prog[i] IN
         (IF s.k = kind THEN {s.oids[j] : j \in 1..Len(s.oids)} ELSE {})
         \cup (CASE s.k \in {"braces", "if0", "ifdef", "loop", "macrodef"} -> OidsOfKind(s.body, kind)
                 [] s.k = "label" -> OidsOfKind(s.body, kind)
                 [] s.k = "ifelse" -> OidsOfKind(s.then, kind) \cup OidsOfKind(s.else, kind)
                 [] OTHER -> {}) : i \in 1..Len(prog)}
SpecialOids(files, kind) == UNION {OidsOfKind(files[f], kind) : f \in DOMAIN files}
ReassignedVars(P) == {o.node : o \in {x \in P.occs : x.seg = 0}}

(* variables of the project; witness of `RemovedSymbolKeepsDefinition': the symbol table re-uses the index of a symbol it  *)
(* removed at the start of a pass (all variables are), the analysis keeps its record under that index                    *)
VarNodes(P) == {P.tab[k].oid : k \in {k \in DOMAIN P.tab : P.tab[k].kind = "var"}}
SeveralVars(P, d) == d \in VarNodes(P) /\ Cardinality(VarNodes(P)) >= 2

(* a file that is imported by two import statements of the entry file (witness of a recorded deviation) *)
ImportedTwice(prog) == {prog[i].file : i \in {i \in 1..Len(prog) : prog[i].k = "import" /\ \E j \in 1..Len(prog) : j # i /\ prog[j].k = "import" /\ prog[j].file = prog[i].file}}

(* definitions that stand in untaken branches, and the occurrences they would shadow if they were part of the program  *)
(* (witness of `UntakenDefinitionShadows': the language server's analysis does enter them into its symbol table)        *)
UntakenDefs(P) == {o \in P.occs : o.seg = -1}
IsPrefix(a, b) == Len(a) <= Len(b) /\ SubSeq(b, 1, Len(a)) = a
ShadowedByUntaken(P, o) == \E u \in UntakenDefs(P) : u.name = o.path[1] /\ IsPrefix(u.scope, o.scope) /\ u.oid # o.oid

(* the tokens of aliased items `a as x' of the (top-level) selective imports: witness of a recorded deviation only *)
AliasedItems(prog) == UNION {{prog[i].items[j] : j \in {j \in 1..Len(prog[i].items) : prog[i].items[j].alias # ""}} :
                              i \in {i \in 1..Len(prog) : prog[i].k = "import"}}
AliasedItemOids(prog) == UNION {{it.oid, it.aoid} : it \in AliasedItems(prog)}

(* ---------------------------------------------------------------- C15 *)
SpOf(P, oid) == OccOf(P, oid).sp
RenameSet(P, oid) == {o.oid : o \in {x \in P.occs : x.sp = SpOf(P, oid) /\ x.name # "super"}}
RenPath(path, oids, S, new) == [j \in 1..Len(path) |-> IF oids[j] \in S /\ path[j] # "super" THEN new ELSE path[j]]
RECURSIVE RenameProg(_, _, _)
RenameProg(prog, S, new) ==
  [i \in 1..Len(prog) |->
     LET s == prog[i] IN
     CASE s.k = "label" -> [s EXCEPT !.name = IF s.oid \in S THEN new ELSE @, !.body = RenameProg(@, S, new)]
       [] s.k = "const" -> [s EXCEPT !.name = IF s.oid \in S THEN new ELSE @]
       [] s.k \in {"braces", "if0"} -> [s EXCEPT !.body = RenameProg(@, S, new)]
       [] s.k = "ifelse" -> [s EXCEPT !.then = RenameProg(@, S, new), !.else = RenameProg(@, S, new)]
       [] s.k = "macrodef" -> [s EXCEPT !.name = IF s.oid \in S THEN new ELSE @,
                                        !.params = [j \in 1..Len(s.params) |-> IF s.poids[j] \in S THEN new ELSE s.params[j]],
                                        !.body = RenameProg(@, S, new)]
       [] s.k = "macrocall" -> [s EXCEPT !.name = IF s.oid \in S THEN new ELSE @]
       [] s.k = "import" -> [s EXCEPT !.name = IF s.oid \in S THEN new ELSE @, !.block = RenameProg(@, S, new),
                                      !.items = [j \in 1..Len(s.items) |->
                                                   [s.items[j] EXCEPT !.name = IF s.items[j].oid \in S THEN new ELSE @,
                                                                      !.alias = IF s.items[j].aoid \in S /\ @ # "" THEN new ELSE @]]]
       [] s.k = "use" -> [s EXCEPT !.path = RenPath(s.path, s.oids, S, new)]
       [] s.k = "fuse" -> [s EXCEPT !.path = RenPath(s.path, s.oids, S, new)]
       [] s.k = "expr" -> [s EXCEPT !.paths = [q \in 1..Len(s.paths) |-> RenPath(s.paths[q], s.oidss[q], S, new)]]
       [] s.k \in {"ifdef", "loop"} -> [s EXCEPT !.path = RenPath(s.path, s.oids, S, new), !.body = RenameProg(@, S, new)]
       [] s.k = "var" -> [s EXCEPT !.name = IF s.oid \in S THEN new ELSE @]
       [] OTHER -> s]
RenameFiles(files, S, new) == [f \in DOMAIN files |-> RenameProg(files[f], S, new)]

(* The rename is capture-free when no key it creates exists already and every occurrence still denotes its node:   *)
(* only then does the property demand an unchanged build (a name that exists in *another* scope may still collide   *)
(* with nothing; one that shadows or is shadowed changes meanings whatever the edit, and C15 is silent there).       *)
CaptureFreeO(files, main, oid, new, ord) ==
  LET P  == ProjectO(files, main, ord)
      d  == NodeOf(P, oid)
      P2 == ProjectO(RenameFiles(files, RenameSet(P, oid), new), main, ord) IN
  /\ \A k \in DOMAIN P.tab : P.tab[k].sp = SpOf(P, oid) => Key(P.tab[k].at, <<new>>) \notin DOMAIN P.tab
  /\ \A o \in P.occs : NodeOf(P2, o.oid) = o.node
  (* an alias renamed to the name of its own symbol (or the reverse) merges two spelling groups of one node: afterwards *)
  (* "the old name" no longer identifies a group, so the round trip is not demanded there                                *)
  /\ \A o \in P.occs : (o.node = d /\ o.sp # SpOf(P, oid)) => o.name # new
CaptureFree(files, main, oid, new) == CaptureFreeO(files, main, oid, new, [i \in 0..400 |-> i])
================================================================================
