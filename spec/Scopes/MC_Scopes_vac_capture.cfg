SPECIFICATION Spec
INVARIANT NoCaptureEver
