SPECIFICATION Spec
INVARIANT Sequential
INVARIANT RefsInverse
INVARIANT FreshRenameIsCaptureFree
INVARIANT EmitCase
