SPECIFICATION Spec
POSTCONDITION Consumed
