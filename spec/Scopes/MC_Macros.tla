-------------------------------- MODULE MC_Macros --------------------------------
(* Design level for the macro and if/else part of Scopes.tla (C15/C16): all instances of                              *)
(*     .macro m(q1) { use q1 }   .macro n(q2) { use q2 }                                                              *)
(*     s: { .const cn = ..   c1()   use cn }         cn = "m": a constant named like a macro next to a call           *)
(*     .if b { c2() use u1 } else { c3() use u2 }    one branch is never taken but still analysed                      *)
(*     c4()                                                                                                            *)
(* Checked: references are the inverse of definitions; a call denotes a macro even when a nearer non-macro symbol has  *)
(* the name; parameters of different macros and of different expansions never share a node with another parameter;     *)
(* renaming anything to a fresh name is capture-free.  Witnesses (expected violated): no call is shadowed; no           *)
(* occurrence lives in an untaken branch.  The programs are exported as cases for the real server.                     *)
EXTENDS Scopes, Json

VARIABLES q1, q2, cn, c1, c2, c3, c4, b, u1, u2
vars == <<q1, q2, cn, c1, c2, c3, c4, b, u1, u2>>
MNames == {"m", "n"}
Use(p, base) == [k |-> "use", path |-> p, oids |-> [i \in 1..Len(p) |-> base + i]]
Mac(n, oid, q) == [k |-> "macrodef", name |-> n, oid |-> oid, params |-> <<q>>, poids |-> <<oid + 1>>, body |-> <<Use(<<q>>, oid + 1)>>]
Call(n, oid) == [k |-> "macrocall", name |-> n, oid |-> oid, args |-> <<2>>]
Prog == << Mac("m", 1, q1), Mac("n", 5, q2),
           [k |-> "label", name |-> "s", oid |-> 10, hasBody |-> TRUE,
            body |-> << [k |-> "const", name |-> cn, oid |-> 11], Call(c1, 12), Use(<<cn>>, 13) >>],
           [k |-> "const", name |-> "x", oid |-> 20],
           [k |-> "ifelse", c |-> b, then |-> << Call(c2, 21), Use(u1, 22) >>, else |-> << Call(c3, 25), Use(u2, 26) >>],
           Call(c4, 30) >>
Files == [m |-> Prog]
P == Project(Files, "m")

Init == /\ q1 \in {"p", "q"} /\ q2 = "p" /\ cn \in {"m", "y"} /\ c1 \in MNames /\ c2 \in MNames /\ c3 \in MNames /\ c4 \in MNames
        /\ b \in {0, 1} /\ u1 \in {<<"x">>, <<"s", cn>>} /\ u2 = <<"x">>
Next == UNCHANGED vars
Spec == Init /\ [][Next]_vars

Defs == {o.oid : o \in {x \in P.occs : x.def}}
RefsInverse == \A d \in Defs : Refs(P, d, FALSE) = {o.oid : o \in {x \in P.occs : ~x.def /\ Def(P, x.oid) = d}}
CallsDenoteMacros == \A o \in P.occs : o.call => o.node \in {1, 5}
Called(mo) == mo \in {o.node : o \in {x \in P.occs : x.call}}
ParamsApart == /\ Called(1) => Refs(P, 2, FALSE) = {3}                           \* each parameter of an expanded macro: exactly its own body use
               /\ Called(5) => Refs(P, 6, FALSE) = {7}
               /\ \A o \in P.occs : o.oid \in {3, 7} => o.node \in {o.oid - 1, NoNode}    \* in every expansion (NoNode: never expanded)
FreshRenameIsCaptureFree == \A o \in P.occs : CaptureFree(Files, "m", o.oid, "zz")
NoShadowedCall == \A d \in Defs : ShadowedCalls(P, d) = {}                        \* witness: expected violated
EmitCase == PrintT(<<"CASE", ToJson([prog |-> Prog])>>)
================================================================================
