SPECIFICATION Spec
INVARIANT EachOccurrenceCounts
INVARIANT VarIsOneSymbol
INVARIANT NotYetAssigned
INVARIANT DefinedIsAUse
INVARIANT IndexDenotesNothing
INVARIANT FreshRenameIsCaptureFree
INVARIANT EmitCase
