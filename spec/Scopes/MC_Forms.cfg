SPECIFICATION Spec
INVARIANT EachOccurrenceCounts
INVARIANT VarIsOneSymbol
INVARIANT DefinedIsAUse
INVARIANT IndexDenotesNothing
INVARIANT FreshRenameIsCaptureFree
INVARIANT EmitCase
