SPECIFICATION Spec
INVARIANT AgreesWithAsm
INVARIANT RefsInverse
INVARIANT FreshRenameIsCaptureFree
INVARIANT EmitCase
