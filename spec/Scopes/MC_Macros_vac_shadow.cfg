SPECIFICATION Spec
INVARIANT NoShadowedCall
