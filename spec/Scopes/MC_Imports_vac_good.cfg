SPECIFICATION Spec
INVARIANT NothingGood
