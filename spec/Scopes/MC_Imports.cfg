SPECIFICATION Spec
INVARIANT RefsInverse
INVARIANT AliasDenotesSymbol
INVARIANT FreshRenameIsCaptureFree
INVARIANT EmitCase
