------------------------------- MODULE RenameTrace -------------------------------
(* impl -> spec for C15.  One record per (project, occurrence, new name): what prepareRename/rename of the real     *)
(* server returned (edit ranges mapped to occurrence ids by the renderer's table, -2 = a range that is no identifier *)
(* occurrence), the build of the edited project and the text after renaming back.                                    *)
(* r = [id, ok, main, files: <<[name, prog]>>, ord, oid, new, status, panic, offered, edits: <<[oid, text]>>,          *)
(*      astral: <<oid>> occurrences behind an astral character on their line,                                        *)
(*      okAfter, digestBefore, digestAfter, backDone, origText: <<[f, s]>>, backText: <<[f, s]>>]                     *)
EXTENDS Scopes, Json, IOUtils

Rec == ndJsonDeserialize(IOEnv.TRACE)
VARIABLES l, bad
vars == <<l, bad>>
V(id, verdict, dev, why) == [id |-> id, verdict |-> verdict, dev |-> dev, why |-> why]
SeqSet(sq) == {sq[i] : i \in 1..Len(sq)}
FilesOf(r) == [f \in {r.files[i].name : i \in 1..Len(r.files)} |-> r.files[CHOOSE i \in 1..Len(r.files) : r.files[i].name = f].prog]
OrdOf(r) == [q \in {r.ord[i].oid : i \in 1..Len(r.ord)} |-> r.ord[CHOOSE i \in 1..Len(r.ord) : r.ord[i].oid = q].n]
Earlier(P, o, ord) == {PassOneNode(P, o, ord), PassZeroNode(P, o, ord)} \ {-1, o.node}
Ambiguous(P, x, ord) == x \in {o.oid : o \in P.occs} /\ Earlier(P, OccOf(P, x), ord) # {}

Judge(r) ==
  IF ~r.ok THEN <<>>
  ELSE LET files == FilesOf(r)
           P == ProjectO(files, r.main, OrdOf(r))
           ord == OrdOf(r)
           occ == OccOf(P, r.oid)
           d == occ.node
           at == " renaming occurrence " \o ToString(r.oid) \o " (" \o occ.name \o " in " \o occ.file \o ") to " \o r.new IN
  IF occ.name = "-"
    (* the automatic block symbol: there is no identifier to rewrite, so an offered rename with an edit can only destroy text *)
    THEN IF r.status = "ok" /\ r.offered /\ r.edits # <<>>
           THEN <<V(r.id, "deviation", "RenameOnBlockSymbol", "rename offered on `-' returns the edit " \o ToString(SeqSet(r.edits)) \o at)>>
         ELSE <<>>
  ELSE IF P.mav \/ d = -1 \/ d = NoNode \/ occ.name = "super" THEN <<>>
  ELSE IF r.status # "ok"
    THEN IF NestedIf0(files[r.main], FALSE, files) THEN <<V(r.id, "deviation", "NestedGreedyAnalysisPanics", "server died: " \o r.panic)>>
         ELSE <<V(r.id, "violation", "", "server died or did not answer (" \o r.panic \o ")" \o at)>>
  ELSE IF ~r.offered THEN <<>>                         \* C15 speaks about occurrences at which a rename is offered
  ELSE IF \E e \in SeqSet(r.edits) : e.oid \in {o.oid : o \in {x \in P.occs : x.name = "index" /\ x.node = NoNode}}
    (* the implicit loop symbol `index' is nobody's occurrence: an edit on it can only come from a record that a re-used *)
    (* symbol index inherited                                                                                             *)
    THEN <<V(r.id, "deviation", "LoopIndexInheritsUsages", "the edit rewrites `index' in a loop body: " \o ToString(SeqSet(r.edits)) \o at)>>
  ELSE LET exp == {[oid |-> o, text |-> r.new] : o \in RenameSet(P, r.oid)}
           U1 == {x.oid : x \in {y \in P.occs : y.node = -1}}     \* occurrences the model cannot resolve: unspecified
           U == U1 \cup {x.oid : x \in {y \in P.occs : y.node = NoNode}}   \* ... or that denote nothing the property speaks about
           obs == {e \in SeqSet(r.edits) : e.oid \notin U}
           stray == {e.oid : e \in (obs \ exp) \cup (exp \ obs)}
           supers == {o.oid : o \in {x \in P.occs : x.name = "super"}} IN
       IF obs # exp
         THEN IF stray # {} /\ \A x \in stray : x \in {q.oid : q \in P.occs} /\ ShadowedByUntaken(P, OccOf(P, x))
                THEN <<V(r.id, "deviation", "UntakenDefinitionShadows", "edit set " \o ToString(obs) \o " expected " \o ToString(exp) \o at)>>
              ELSE IF occ.file \in ImportedTwice(files[r.main]) \/ OccOf(P, d).file \in ImportedTwice(files[r.main])
                (* the symbol lives in a file that is imported twice: one symbol per import, the edit covers the usages of one *)
                THEN <<V(r.id, "deviation", "RenameWithFileImportedTwice", "edit set " \o ToString(obs) \o " expected " \o ToString(exp) \o at)>>
              ELSE IF r.astral # <<>> /\ stray \subseteq (SeqSet(r.astral) \cup {-2})
                (* an occurrence that stands behind a character outside the BMP on its line: the server counts code points, the    *)
                (* protocol UTF-16 code units, so the edit lands one column early (r.astral: those occurrences, by the renderer) *)
                THEN <<V(r.id, "deviation", "PositionsCountCodePoints", "edit set " \o ToString(obs) \o " expected " \o ToString(exp) \o at)>>
              ELSE IF SeveralVars(P, d)
                THEN <<V(r.id, "deviation", "RemovedSymbolKeepsDefinition", "edit set " \o ToString(obs) \o " expected " \o ToString(exp) \o at)>>
              ELSE IF d \in ReassignedVars(P)
                THEN <<V(r.id, "deviation", "VarReassignmentMovesDefinition", "edit set " \o ToString(obs) \o " expected " \o ToString(exp) \o at)>>
              ELSE IF r.oid \in SpecialOids(files, "loop")
                THEN <<V(r.id, "deviation", "LoopIndexLocatedAtCount", "rename started on a loop count: edit set " \o ToString(obs) \o " expected " \o ToString(exp) \o at)>>
              ELSE IF stray # {} /\ stray \subseteq (SpecialOids(files, "ifdef") \cup SpecialOids(files, "fuse") \cup SpecialOids(files, "loop"))
                THEN <<V(r.id, "deviation", IF stray \cap SpecialOids(files, "ifdef") # {} THEN "DefinedOperandNotAUsage"
                                            ELSE IF stray \cap SpecialOids(files, "fuse") # {} THEN "FileNameInterpolationNotAUsage" ELSE "LoopIndexLocatedAtCount",
                       "edit set " \o ToString(obs) \o " expected " \o ToString(exp) \o at)>>
              ELSE IF \E it \in AliasedItems(files[r.main]) : NodeOf(P, it.oid) = d
                (* the symbol is imported as `a as x': the edit blanks that argument and renames the uses of the alias *)
                THEN <<V(r.id, "deviation", "RenameBlanksAliasedImport", "edit set " \o ToString(obs) \o " expected " \o ToString(exp) \o at)>>
              ELSE IF obs = {} /\ occ.file # r.main      \* inside an imported file the position is also inside the file definition, which is not renamable
                THEN <<V(r.id, "deviation", "ImportedFileSpanShadowsSymbols", "rename offered but no edit returned" \o at)>>
              ELSE IF stray # {} /\ stray \subseteq ShadowedCalls(P, d)
                THEN <<V(r.id, "deviation", "RenameSkipsShadowedMacroCall", "edit set " \o ToString(obs) \o " expected " \o ToString(exp) \o at)>>
              ELSE IF (stray \cap supers # {}) /\ \A x \in stray : x \in supers \/ Ambiguous(P, x, ord)
                THEN <<V(r.id, "deviation", "RenameRewritesSuperSegment", "edit set " \o ToString(obs) \o " expected " \o ToString(exp) \o at)>>
              ELSE IF Ambiguous(P, r.oid, ord) \/ \A x \in stray : Ambiguous(P, x, ord)
                THEN <<V(r.id, "deviation", "UsageOfEarlierPassKept", "edit set " \o ToString(obs) \o " expected " \o ToString(exp) \o at)>>
              ELSE <<V(r.id, "violation", "", "rename edit " \o ToString(obs) \o " is not the set of occurrences of the symbol " \o ToString(exp) \o at)>>
       ELSE IF U1 # {} \/ ~CaptureFreeO(files, r.main, r.oid, r.new, ord) THEN <<>>       \* the new name collides/captures: no edit can preserve the build, C15 is silent
       ELSE IF ~r.okAfter \/ r.digestAfter # r.digestBefore
         THEN <<V(r.id, "violation", "", "the edited project does not build to the same output" \o at)>>
       ELSE IF r.backDone /\ r.backText = r.origText THEN <<>>
       ELSE LET P2 == ProjectO(RenameFiles(files, RenameSet(P, r.oid), r.new), r.main, ord)
                (* in the renamed project some occurrence involving the symbol resolved differently in an earlier pass *)
                ambAfter == \E o \in P2.occs : Earlier(P2, o, ord) # {} /\ (o.node = d \/ d \in Earlier(P2, o, ord)) IN
            IF ~r.backDone /\ occ.file # r.main
              THEN <<V(r.id, "deviation", "ImportedFileSpanShadowsSymbols", "rename back inside an imported file returned no edit" \o at)>>
            ELSE IF occ.file \in ImportedTwice(files[r.main]) \/ OccOf(P, d).file \in ImportedTwice(files[r.main])
              THEN <<V(r.id, "deviation", "RenameWithFileImportedTwice", "rename back of a symbol of a file that is imported twice" \o at)>>
            ELSE IF r.oid \in SpecialOids(files, "loop")
              THEN <<V(r.id, "deviation", "LoopIndexLocatedAtCount", "rename back started on a loop count" \o at)>>
            ELSE IF SeveralVars(P, d)
              THEN <<V(r.id, "deviation", "RemovedSymbolKeepsDefinition", "rename back of one of several variables" \o at)>>
            ELSE IF d \in ReassignedVars(P)
              THEN <<V(r.id, "deviation", "VarReassignmentMovesDefinition", "rename back of a variable that is assigned twice" \o at)>>
            ELSE IF \E o \in P.occs : o.node = d /\ o.oid \in SpecialOids(files, "ifdef")
              THEN <<V(r.id, "deviation", "DefinedOperandNotAUsage", "rename back misses the operand of defined()" \o at)>>
            ELSE IF \E o \in P.occs : o.node = d /\ o.oid \in SpecialOids(files, "fuse")
              THEN <<V(r.id, "deviation", "FileNameInterpolationNotAUsage", "rename back misses the .file interpolation" \o at)>>
            ELSE IF ShadowedCalls(P2, d) # {}
              THEN <<V(r.id, "deviation", "RenameSkipsShadowedMacroCall", "rename back leaves a call of the macro unchanged that sits next to a non-macro symbol of the same name" \o at)>>
            ELSE IF ambAfter
              THEN <<V(r.id, "deviation", "UsageOfEarlierPassKept", "rename back is incomplete or touches an occurrence of an earlier pass" \o at)>>
            ELSE IF r.backDone THEN <<V(r.id, "violation", "", "renaming back does not restore the original text" \o at)>>
            ELSE <<V(r.id, "violation", "", "rename back to the old name was not offered or returned no edit" \o at)>>

Init == l = 1 /\ bad = <<>>
Step == l <= Len(Rec) /\ bad' = bad \o Judge(Rec[l]) /\ l' = l + 1
Finish == l = Len(Rec) + 1 /\ ndJsonSerialize(IOEnv.OUT, bad) /\ l' = l + 1 /\ UNCHANGED bad
Next == Step \/ Finish
Spec == Init /\ [][Next]_vars
Consumed == TLCGet("stats").diameter >= Len(Rec) + 1
================================================================================
