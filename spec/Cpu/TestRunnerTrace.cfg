SPECIFICATION Spec
POSTCONDITION Consumed
