SPECIFICATION Spec
CONSTANT MaxLen = 3
CONSTANT Deviations = {}
CONSTANT EmitCase = FALSE
CONSTANT EmitMod = 1
CONSTANT Alphabet = "A"
CONSTANT MCFuelC = 1400
CONSTANT NB = 17
CONSTANT FUEL <- MCFuel
INVARIANT VerdictReflectsState
INVARIANT VerdictStrict
INVARIANT TypeInv
INVARIANT FollowsPathAtEnd
INVARIANT FailureIsReal
INVARIANT NothingDisarmed
