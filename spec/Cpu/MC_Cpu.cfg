SPECIFICATION Spec
INVARIANT AllHold
