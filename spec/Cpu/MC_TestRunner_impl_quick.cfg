SPECIFICATION Spec
CONSTANT MaxLen = 4
CONSTANT Deviations = {"AssertionFiresOnce"}
CONSTANT EmitCase = FALSE
CONSTANT EmitMod = 1
CONSTANT Alphabet = "A"
CONSTANT MCFuelC = 60
CONSTANT NB = 17
CONSTANT FUEL <- MCFuel
INVARIANT VerdictReflectsState
INVARIANT TypeInv
INVARIANT FollowsPath
INVARIANT FailureIsReal
INVARIANT NothingDisarmed
