------------------------------ MODULE MC_TestRunner ------------------------------
(* Design level for C18: every test body of up to MaxLen statements over an alphabet of      *)
(* loads, stores, increments, add, compare, a label, backward/forward branches, a subroutine  *)
(* call and assertions (true and false ones, on registers, flags, memory, the pc, a constant   *)
(* in an inner scope), run on the step machine of TestRunner; the property is the invariant    *)
(* VerdictReflectsState: the verdict of a finished run is the declarative Ideal verdict.       *)
(*   Deviations = {}                       the ideal reading                                  *)
(*   Deviations = {"AssertionFiresOnce"}   the implementation-shaped reading; the invariant is  *)
(*                                         weakened by exactly that deviation's witness        *)
EXTENDS TestRunner, Json

CONSTANTS MaxLen, Deviations, EmitCase, EmitMod
MCFuel == 60

N(n) == [k |-> "num", n |-> n, radix |-> "dec", lz |-> 0]
Id(path, name) == [k |-> "id", name |-> name, path |-> path, mod |-> ""]
Bin(op, l, r) == [k |-> "bin", op |-> op, l |-> l, r |-> r]
Not(e) == [k |-> "fac", nt |-> TRUE, ng |-> FALSE, e |-> e]
Insn(mn, form, e) == [k |-> "insn", mn |-> mn, form |-> form, e |-> e]
Imp(mn) == Insn(mn, "imp", N(0))
Asrt(e) == [k |-> "assert", aid |-> 0, e |-> e, hasMsg |-> FALSE, msg |-> ""]
CpuA == Id(<<"cpu", "a">>, "cpu.a")
CpuX == Id(<<"cpu", "x">>, "cpu.x")
L == Id(<<"L">>, "L")

Atoms == <<
  Insn("lda", "imm", N(1)),                                             \*  1
  Insn("ldx", "imm", N(2)),                                             \*  2
  Imp("dex"),                                                           \*  3
  Insn("sta", "dir", N(16)),                                            \*  4
  Insn("adc", "imm", N(127)),                                           \*  5
  Insn("cmp", "imm", N(1)),                                             \*  6
  [k |-> "label", name |-> "L", hasBody |-> FALSE, body |-> <<>>],      \*  7
  Insn("bne", "dir", L),                                                \*  8
  Insn("beq", "dir", L),                                                \*  9
  Insn("jsr", "dir", Id(<<"sub">>, "sub")),                             \* 10
  Asrt(Bin("==", CpuX, N(2))),                                        \* 11
  Asrt(Bin("==", CpuA, N(1))),                                        \* 12
  Asrt(Bin("==", [k |-> "ram", e |-> N(16)], N(1))),                  \* 13
  Asrt(Not(Id(<<"cpu", "flags", "zero">>, "cpu.flags.zero"))),        \* 14
  Asrt(Bin("||", Id(<<"cpu", "flags", "overflow">>, "cpu.flags.overflow"), Bin("==", [k |-> "pc"], N(49152)))),   \* 15
  Asrt(Bin("==", Id(<<"nosuch">>, "nosuch"), N(1)))                   \* 16
>>

(* the subroutine, outside the test: counts its calls in $10 and asserts (in an inner scope that  *)
(* shadows the constant k) that this is the first call                                         *)
Sub == <<[k |-> "const", name |-> "k", e |-> N(7)],
         [k |-> "label", name |-> "sub", hasBody |-> TRUE, body |-> <<
            [k |-> "const", name |-> "k", e |-> N(1)],
            Insn("inc", "dir", N(16)),
            [k |-> "assert", aid |-> 100, e |-> Bin("==", [k |-> "ram", e |-> N(16)], Id(<<"k">>, "k")), hasMsg |-> TRUE, msg |-> "called once"],
            Imp("rts")>>]>>

Count(sh, a) == Cardinality({i \in DOMAIN sh : sh[i] = a})
WellFormed(sh) == /\ Count(sh, 7) <= 1
                  /\ (Count(sh, 8) + Count(sh, 9) > 0 => Count(sh, 7) = 1)
                  /\ \E i \in DOMAIN sh : sh[i] >= 11                       \* at least one assertion
Body(sh) == [i \in DOMAIN sh |-> IF Atoms[sh[i]].k = "assert" THEN [Atoms[sh[i]] EXCEPT !.aid = i] ELSE Atoms[sh[i]]]
Project(sh) == [segdefs |-> <<>>,
                items |-> <<[k |-> "test", name |-> "t", body |-> Body(sh) \o <<Imp("brk")>>]>> \o Sub]

VARIABLES shape, T, s
vars == <<shape, T, s>>
Once == "AssertionFiresOnce" \in Deviations

Init == /\ \E n \in 1..MaxLen : shape \in [1..n -> 1..Len(Atoms)]      \* (enumerated lazily: 16^5 exceeds TLC's set-size limit)
        /\ WellFormed(shape)
        /\ T = Layout(Project(shape), "t")
        /\ T.ok
        /\ s = Start(T)
Next == s.status = "running" /\ s' = Tick(T, s, Once) /\ UNCHANGED <<shape, T>>
Spec == Init /\ [][Next]_vars

Done == s.status # "running"

(* ---- the property *)
VerdictReflectsState == Done => (Agrees(s, Ideal(T)) \/ (Once /\ FiresOnceWitness(Ideal(T))))
(* the same without the weakening: violated under the implementation-shaped reading (the finding) *)
VerdictStrict == Done => Agrees(s, Ideal(T))

(* ---- step-level invariants of the machine *)
TypeInv == /\ TypeOK(s.c) /\ s.pending \subseteq 1..Len(T.asserts)
           /\ s.status \in {"running", "passed", "failed", "unspec"}
           /\ Len(s.trace) = s.n /\ Len(s.fired) = s.n
(* the runner's machine walks the declarative path *)
FollowsPath == LET p == Path(T) IN \A i \in 1..Len(s.trace) : i <= Len(p) => s.trace[i] = Regs(p[i])
(* a failed run names an assertion placed at the pc where the machine stands, and that assertion is false there *)
FailureIsReal == s.status = "failed" =>
   \E j \in 1..Len(T.asserts) : T.asserts[j].aid = s.aid /\ T.asserts[j].pc = s.c.pc /\ Truth(T.asserts[j], s.c, T.sigma) = "false"
(* under the ideal reading no assertion is ever disarmed *)
NothingDisarmed == ~Once => s.pending = 1..Len(T.asserts)

(* ---- non-vacuity witnesses (each must be violated) *)
NoPass == ~(s.status = "passed" /\ s.n > 3)
NoFailInLoop == ~(s.status = "failed" /\ Ideal(T).visit > 1)
NoFailInSub == ~(s.status = "failed" /\ s.aid = 100)
NoUnevaluable == ~(s.status = "failed" /\ s.aid # 100 /\ shape[s.aid] = 16)
NoSkipped == ~(s.status = "passed" /\ \E j \in 1..Len(T.asserts) : \A i \in 1..Len(s.trace) : s.trace[i].pc # T.asserts[j].pc)

(* ---- cases for the implementation: one line per finished run *)
Case == [prj |-> Project(shape), shape |-> shape, ideal |-> Ideal(T).v, aid |-> Ideal(T).aid, visit |-> Ideal(T).visit, steps |-> s.n]
HashSh(sh) == LET F[i \in 0..Len(sh)] == IF i = 0 THEN 0 ELSE ((F[i - 1] * 17) + sh[i]) % 1000003 IN F[Len(sh)]
EmitCases == (Done /\ EmitCase /\ HashSh(shape) % EmitMod = 0) => PrintT(<<"CASE", ToJson(Case)>>)
================================================================================
