------------------------------ MODULE MC_TestRunner ------------------------------
(* Design level for C18: every test body of up to MaxLen statements over an alphabet of      *)
(* loads, stores, increments, add, compare, a label, backward/forward branches, a subroutine  *)
(* call and assertions (true and false ones, on registers, flags, memory, the pc, a constant   *)
(* in an inner scope), run on the step machine of TestRunner; the property is the invariant    *)
(* VerdictReflectsState: the verdict of a finished run is the declarative Ideal verdict.       *)
(*   Deviations = {}                       the ideal reading                                  *)
(*   Deviations = {"AssertionFiresOnce"}   the implementation-shaped reading; the invariant is  *)
(*                                         weakened by exactly that deviation's witness        *)
EXTENDS TestRunner, Json

CONSTANTS MaxLen, Deviations, EmitCase, EmitMod,
          Alphabet,     \* "A": the alphabet of round 1;  "B": stack/status/rti/indirect-jump alphabet of round 4
          MCFuelC,      \* instructions after which a run of the model counts as not terminating
          NB            \* how many atoms of alphabet B are used (14: round 4; 17: with the top-of-memory assertions of round 5)
MCFuel == MCFuelC

N(n) == [k |-> "num", n |-> n, radix |-> "dec", lz |-> 0]
Id(path, name) == [k |-> "id", name |-> name, path |-> path, mod |-> ""]
Bin(op, l, r) == [k |-> "bin", op |-> op, l |-> l, r |-> r]
Not(e) == [k |-> "fac", nt |-> TRUE, ng |-> FALSE, e |-> e]
Insn(mn, form, e) == [k |-> "insn", mn |-> mn, form |-> form, e |-> e]
Imp(mn) == Insn(mn, "imp", N(0))
Asrt(e) == [k |-> "assert", aid |-> 0, e |-> e, hasMsg |-> FALSE, msg |-> ""]
CpuA == Id(<<"cpu", "a">>, "cpu.a")
CpuX == Id(<<"cpu", "x">>, "cpu.x")
L == Id(<<"L">>, "L")

AtomsA == <<
  Insn("lda", "imm", N(1)),                                             \*  1
  Insn("ldx", "imm", N(2)),                                             \*  2
  Imp("dex"),                                                           \*  3
  Insn("sta", "dir", N(16)),                                            \*  4
  Insn("adc", "imm", N(127)),                                           \*  5
  Insn("cmp", "imm", N(1)),                                             \*  6
  [k |-> "label", name |-> "L", hasBody |-> FALSE, body |-> <<>>],      \*  7
  Insn("bne", "dir", L),                                                \*  8
  Insn("beq", "dir", L),                                                \*  9
  Insn("jsr", "dir", Id(<<"sub">>, "sub")),                             \* 10
  Asrt(Bin("==", CpuX, N(2))),                                        \* 11
  Asrt(Bin("==", CpuA, N(1))),                                        \* 12
  Asrt(Bin("==", [k |-> "ram", e |-> N(16)], N(1))),                  \* 13
  Asrt(Not(Id(<<"cpu", "flags", "zero">>, "cpu.flags.zero"))),        \* 14
  Asrt(Bin("||", Id(<<"cpu", "flags", "overflow">>, "cpu.flags.overflow"), Bin("==", [k |-> "pc"], N(49152)))),   \* 15
  Asrt(Bin("==", Id(<<"nosuch">>, "nosuch"), N(1)))                   \* 16
>>

(* the subroutine, outside the test: counts its calls in $10 and asserts (in an inner scope that  *)
(* shadows the constant k) that this is the first call                                         *)
Sub == <<[k |-> "const", name |-> "k", e |-> N(7)],
         [k |-> "label", name |-> "sub", hasBody |-> TRUE, body |-> <<
            [k |-> "const", name |-> "k", e |-> N(1)],
            Insn("inc", "dir", N(16)),
            [k |-> "assert", aid |-> 100, e |-> Bin("==", [k |-> "ram", e |-> N(16)], Id(<<"k">>, "k")), hasMsg |-> TRUE, msg |-> "called once"],
            Imp("rts")>>]>>

LoB(nm) == [k |-> "id", name |-> nm, path |-> <<nm>>, mod |-> "<"]
HiB(nm) == [k |-> "id", name |-> nm, path |-> <<nm>>, mod |-> ">"]
Flag(nm) == Id(<<"cpu", "flags", nm>>, "cpu.flags." \o nm)
(* alphabet B: every atom is a short sequence of statements *)
AtomsB == <<
  <<Insn("lda", "imm", N(1))>>,                                                         \*  1
  <<Imp("pha")>>,                                                                       \*  2
  <<Imp("pla")>>,                                                                       \*  3
  <<Imp("php")>>,                                                                       \*  4
  <<Imp("plp")>>,                                                                       \*  5
  <<Imp("sec")>>,                                                                       \*  6
  <<Insn("lda", "imm", N(1)), Insn("sta", "dir", N(65535))>>,                           \*  7  (1 into the last byte of memory)
  <<[k |-> "label", name |-> "L", hasBody |-> FALSE, body |-> <<>>]>>,                  \*  8
  (* a vector at $00FF: low byte there, high byte at $0000 (page wrap), then jmp ($00ff) *)
  <<Insn("lda", "imm", LoB("L")), Insn("sta", "dir", N(255)), Insn("lda", "imm", HiB("L")), Insn("sta", "dir", N(0)),
    Insn("jmp", "ind", N(255))>>,                                                       \*  9
  (* return address and the current status on the stack, then rti *)
  <<Insn("lda", "imm", HiB("L")), Imp("pha"), Insn("lda", "imm", LoB("L")), Imp("pha"), Imp("php"), Imp("rti")>>,   \* 10
  <<Asrt(Bin("==", CpuA, N(52)))>>,                                                     \* 11  ($34 = pushed status with only I set)
  <<Asrt(Flag("carry"))>>,                                                              \* 12
  <<Asrt(Bin("==", Id(<<"cpu", "sp">>, "cpu.sp"), N(253)))>>,                           \* 13
  <<Asrt(Not(Flag("zero")))>>,                                                          \* 14
  <<Asrt(Bin("==", [k |-> "ram16", e |-> N(65534)], N(256)))>>,                         \* 15  ($ffff holds 1, $fffe 0)
  <<Asrt(Bin("==", [k |-> "ram", e |-> N(65535)], CpuA))>>,                             \* 16
  <<Asrt(Bin("==", [k |-> "ram16", e |-> N(65535)], N(0)))>>                            \* 17  (cannot be evaluated: fails)
>>

(* alphabet C: assembly-time variables that are assigned again between assertions and instructions.  Every assertion and *)
(* every operand has to see the value assigned last in front of its own place.                                           *)
Var(nm, e) == [k |-> "var", name |-> nm, e |-> e]
VV == Id(<<"v">>, "v")
AtomsC == <<
  <<Var("v", N(1))>>,                                                                   \*  1
  <<Var("v", N(2))>>,                                                                   \*  2
  <<Var("v", Bin("+", VV, N(1)))>>,                                                     \*  3
  <<Var("w", VV)>>,                                                                     \*  4
  <<Insn("lda", "imm", VV)>>,                                                           \*  5
  <<Imp("nop")>>,                                                                       \*  6
  <<Insn("ldx", "imm", Id(<<"w">>, "w"))>>,                                             \*  7
  <<Asrt(Bin("==", VV, N(1)))>>,                                                        \*  8
  <<Asrt(Bin("==", VV, N(2)))>>,                                                        \*  9
  <<Asrt(Bin("==", CpuA, VV))>>,                                                        \* 10
  <<Asrt(Bin("==", Id(<<"w">>, "w"), N(1)))>>,                                          \* 11
  <<Asrt(Bin("==", VV, N(3)))>>                                                         \* 12
>>

NAtoms == IF Alphabet = "A" THEN Len(AtomsA) ELSE IF Alphabet = "C" THEN Len(AtomsC) ELSE NB
AtomSeq(a) == IF Alphabet = "A" THEN <<AtomsA[a]>> ELSE IF Alphabet = "C" THEN AtomsC[a] ELSE AtomsB[a]
LabelAtom == IF Alphabet = "A" THEN 7 ELSE IF Alphabet = "C" THEN 0 ELSE 8
LabelUsers == IF Alphabet = "A" THEN {8, 9} ELSE IF Alphabet = "C" THEN {} ELSE {9, 10}
FirstAssertAtom == IF Alphabet = "C" THEN 8 ELSE 11
Count(sh, a) == Cardinality({i \in DOMAIN sh : sh[i] = a})
WellFormed(sh) == /\ Count(sh, LabelAtom) <= 1
                  /\ ((\E i \in DOMAIN sh : sh[i] \in LabelUsers) => Count(sh, LabelAtom) = 1)
                  /\ \E i \in DOMAIN sh : sh[i] >= FirstAssertAtom            \* at least one assertion
Tag(ss, i) == [j \in 1..Len(ss) |-> IF ss[j].k = "assert" THEN [ss[j] EXCEPT !.aid = i] ELSE ss[j]]
RECURSIVE Flat(_, _)
Flat(sh, i) == IF i > Len(sh) THEN <<>> ELSE Tag(AtomSeq(sh[i]), i) \o Flat(sh, i + 1)
(* alphabet C: both variables hold 1 when the body begins, so that an assertion in front of the first assignment of the body is evaluable *)
Prelude == IF Alphabet = "C" THEN <<Var("v", N(1)), Var("w", N(1))>> ELSE <<>>
Body(sh) == Prelude \o Flat(sh, 1)
Project(sh) == [segdefs |-> <<>>, files |-> <<>>,
                items |-> <<[k |-> "test", name |-> "t", body |-> Body(sh) \o <<Imp("brk")>>]>> \o Sub]

VARIABLES shape, T, s
vars == <<shape, T, s>>
Once == "AssertionFiresOnce" \in Deviations

Init == /\ \E n \in 1..MaxLen : shape \in [1..n -> 1..NAtoms]      \* (enumerated lazily: 16^5 exceeds TLC's set-size limit)
        /\ WellFormed(shape)
        /\ T = Layout(Project(shape), "t")
        /\ T.ok
        /\ s = Start(T)
Next == s.status = "running" /\ s' = Tick(T, s, Once) /\ UNCHANGED <<shape, T>>
Spec == Init /\ [][Next]_vars

Done == s.status # "running"

(* ---- the property *)
VerdictReflectsState == Done => (Agrees(s, Ideal(T)) \/ (Once /\ FiresOnceWitness(Ideal(T))))
(* the same without the weakening: violated under the implementation-shaped reading (the finding) *)
VerdictStrict == Done => Agrees(s, Ideal(T))

(* ---- step-level invariants of the machine *)
TypeInv == /\ TypeOK(s.c) /\ s.pending \subseteq 1..Len(T.asserts)
           /\ s.status \in {"running", "passed", "failed", "unspec"}
           /\ Len(s.trace) = s.n /\ Len(s.fired) = s.n
(* the runner's machine walks the declarative path *)
FollowsPath == LET p == Path(T) IN \A i \in 1..Len(s.trace) : i <= Len(p) => s.trace[i] = Regs(p[i])
FollowsPathAtEnd == Done => FollowsPath          \* the same, evaluated once per run (long-fuel configuration)
(* a failed run names an assertion placed at the pc where the machine stands, and that assertion is false there *)
FailureIsReal == s.status = "failed" =>
   \E j \in 1..Len(T.asserts) : T.asserts[j].aid = s.aid /\ T.asserts[j].pc = s.c.pc /\ Truth(T.asserts[j], s.c, T.sigma) = "false"
(* under the ideal reading no assertion is ever disarmed *)
NothingDisarmed == ~Once => s.pending = 1..Len(T.asserts)

(* ---- non-vacuity witnesses (each must be violated) *)
NoPass == ~(s.status = "passed" /\ s.n > 3)
NoFailInLoop == ~(s.status = "failed" /\ Ideal(T).visit > 1)
NoFailInSub == ~(s.status = "failed" /\ s.aid = 100)
NoUnevaluable == ~(s.status = "failed" /\ s.aid # 100 /\ shape[s.aid] = 16)
NoSkipped == ~(s.status = "passed" /\ \E j \in 1..Len(T.asserts) : \A i \in 1..Len(s.trace) : s.trace[i].pc # T.asserts[j].pc)

(* alphabet B: a passing run through the page-wrapped indirect jump / through rti / that saw the pushed break bits *)
Has(a) == \E i \in DOMAIN shape : shape[i] = a
NoWrapJumpPass == ~(s.status = "passed" /\ Has(9) /\ s.n >= 6)
NoRtiPass == ~(s.status = "passed" /\ Has(10) /\ s.n >= 7)
NoBreakBitsSeen == ~(s.status = "passed" /\ Has(11))
NoPlpFlags == ~(s.status = "passed" /\ Has(5) /\ Has(12))
NoTopByteRead == ~(s.status = "passed" /\ Has(7) /\ Has(15) /\ Has(16))
NoWordPastTop == ~(s.status = "failed" /\ s.aid \in DOMAIN shape /\ shape[s.aid] = 17)
(* alphabet C: a passing run with two assertions on v that need different values; a failing run whose first assertion on v held *)
NoTwoValuesPass == ~(s.status = "passed" /\ Has(8) /\ Has(9))
NoLateVarFail == ~(s.status = "failed" /\ s.aid \in DOMAIN shape /\ s.aid > 2 /\ \E i \in 1..(s.aid - 1) : shape[i] \in {8, 9, 12})

(* ---- cases for the implementation: one line per finished run *)
Case == [prj |-> Project(shape), shape |-> shape, ideal |-> Ideal(T).v, aid |-> Ideal(T).aid, visit |-> Ideal(T).visit, steps |-> s.n]
HashSh(sh) == LET F[i \in 0..Len(sh)] == IF i = 0 THEN 0 ELSE ((F[i - 1] * 17) + sh[i]) % 1000003 IN F[Len(sh)]
EmitCases == (Done /\ EmitCase /\ HashSh(shape) % EmitMod = 0) => PrintT(<<"CASE", ToJson(Case)>>)
================================================================================
