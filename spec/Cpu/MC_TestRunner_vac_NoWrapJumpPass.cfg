SPECIFICATION Spec
CONSTANT MaxLen = 3
CONSTANT Deviations = {}
CONSTANT EmitCase = FALSE
CONSTANT EmitMod = 1
CONSTANT Alphabet = "B"
CONSTANT MCFuelC = 60
CONSTANT NB = 17
CONSTANT FUEL <- MCFuel
INVARIANT NoWrapJumpPass
