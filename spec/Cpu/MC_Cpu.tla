--------------------------------- MODULE MC_Cpu ---------------------------------
(* Cross-checks of Cpu!Step against independent, arithmetic statements of the ISA (the step        *)
(* function computes flags bitwise; here they are stated over signed/unsigned integer ranges), for *)
(* every accumulator value x every operand x carry, and stack round trips for every stack pointer. *)
EXTENDS Cpu

VARIABLE done
Init == done = FALSE
Next == done' = TRUE
Spec == Init /\ [][Next]_done

At(a, x, y, sp, cf, bytes) ==
  [Reset(512, [i \in 512..(511 + Len(bytes)) |-> bytes[i - 511]]) EXCEPT !.a = a, !.x = x, !.y = y, !.sp = sp, !.f.c = cf]
Cin(c) == IF c THEN 1 ELSE 0

AdcArithmetic == \A a \in Byte, m \in Byte, c \in BOOLEAN :
  LET r == Step(At(a, 0, 0, 253, c, <<105, m>>))            \* adc #m
      u == a + m + Cin(c)
      sg == Signed(a) + Signed(m) + Cin(c) IN
  /\ r.a = u % 256 /\ r.f.c = (u > 255) /\ r.f.v = (sg < -128 \/ sg > 127)
  /\ r.f.z = (u % 256 = 0) /\ r.f.n = (u % 256 >= 128) /\ r.pc = 514 /\ ~r.unspec

SbcArithmetic == \A a \in Byte, m \in Byte, c \in BOOLEAN :
  LET r == Step(At(a, 0, 0, 253, c, <<233, m>>))            \* sbc #m
      u == a - m - (1 - Cin(c))
      sg == Signed(a) - Signed(m) - (1 - Cin(c)) IN
  /\ r.a = (u + 256) % 256 /\ r.f.c = (u >= 0) /\ r.f.v = (sg < -128 \/ sg > 127)
  /\ r.f.z = ((u + 256) % 256 = 0) /\ r.f.n = ((u + 256) % 256 >= 128)

CompareIsSubtractWithoutStore == \A a \in Byte, m \in Byte :
  LET r == Step(At(a, 0, 0, 253, FALSE, <<201, m>>))        \* cmp #m
      q == Step(At(a, 0, 0, 253, TRUE, <<233, m>>)) IN      \* sec / sbc #m
  r.a = a /\ r.f.c = q.f.c /\ r.f.z = q.f.z /\ r.f.n = q.f.n

LogicIsBitwise == \A a \in Byte, m \in {0, 1, 15, 85, 128, 170, 240, 255} :
  /\ Step(At(a, 0, 0, 253, FALSE, <<41, m>>)).a + Step(At(a, 0, 0, 253, FALSE, <<9, m>>)).a = a + m      \* and + or = a + m
  /\ Step(At(a, 0, 0, 253, FALSE, <<73, m>>)).a = Step(At(a, 0, 0, 253, FALSE, <<9, m>>)).a - Step(At(a, 0, 0, 253, FALSE, <<41, m>>)).a

ShiftsRoundTrip == \A a \in Byte, c \in BOOLEAN :
  LET l == Step(At(a, 0, 0, 253, c, <<42>>))                \* rol a
      b == Step([l EXCEPT !.pc = 512, !.mem = (512 :> 106) @@ @]) IN  \* ror a
  b.a = a /\ b.f.c = c /\ l.a = ((2 * a) % 256) + Cin(c) /\ l.f.c = (a >= 128)

JsrRtsRoundTrip == \A sp \in Byte :
  LET c0 == At(7, 8, 9, sp, FALSE, <<32, 16, 2>>)           \* 0200: jsr $0210
      c1 == Step([c0 EXCEPT !.mem = (528 :> 96) @@ @])      \* 0210: rts
      c2 == Step(c1) IN
  /\ c1.pc = 528 /\ c1.sp = (sp + 254) % 256
  /\ c2.pc = 515 /\ c2.sp = sp /\ c2.a = 7 /\ c2.x = 8 /\ c2.y = 9

BranchOffsets == \A off \in Byte, z \in BOOLEAN :
  LET c0 == [At(0, 0, 0, 253, FALSE, <<240, off>>) EXCEPT !.f.z = z] IN    \* beq
  Step(c0).pc = IF z THEN 514 + Signed(off) ELSE 514

ZeroPageWraps == \A x \in {0, 1, 128, 255}, b \in {0, 1, 127, 255} :
  LET c0 == At(90, x, 0, 253, FALSE, <<149, b>>) IN         \* sta b,x
  Rd(Step(c0).mem, (b + x) % 256) = 90

(* ---- round 4: status register on the stack, rti, indirect jump *)
AllFlags == [c : BOOLEAN, z : BOOLEAN, i : BOOLEAN, d : BOOLEAN, v : BOOLEAN, n : BOOLEAN]
WithFlags(c0, f) == [c0 EXCEPT !.f = f]

(* php pushes N V 1 1 D I Z C and changes nothing else; pla then sees exactly that byte *)
PhpPushesBreakBits == \A f \in AllFlags, sp \in {0, 1, 253, 255} :
  LET c1 == Step(WithFlags(At(0, 0, 0, sp, FALSE, <<8, 104>>), f))      \* php / pla
      c2 == Step(c1) IN
  /\ c1.f = f /\ c1.sp = (sp + 255) % 256 /\ c1.pc = 513
  /\ Rd(c1.mem, 256 + sp) = PByte(f) + 48
  /\ c2.a = PByte(f) + 48 /\ c2.sp = sp /\ (c2.a \div 16) % 4 = 3

(* plp loads the six flags from any byte and ignores bits 4 and 5; php;plp is the identity on the flags *)
PlpIgnoresBreakBits == \A b \in Byte :
  LET c0 == [At(0, 0, 0, 252, FALSE, <<40>>) EXCEPT !.mem = (509 :> b) @@ @]        \* plp, byte at $01FD
      c1 == Step(c0) IN
  /\ c1.sp = 253 /\ c1.pc = 513 /\ PByte(c1.f) = b - (((b \div 16) % 4) * 16)
  /\ c1.f = Step([c0 EXCEPT !.mem = (509 :> (IF (b \div 16) % 2 = 0 THEN b + 16 ELSE b - 16)) @@ @]).f      \* toggling bit 4 changes nothing
PhpPlpIdentity == \A f \in AllFlags :
  LET c2 == Step(Step(WithFlags(At(0, 0, 0, 253, FALSE, <<8, 40>>), f))) IN c2.f = f /\ c2.sp = 253

(* rti = plp, then the pc from the stack WITHOUT the +1 of rts *)
RtiRestores == \A f \in AllFlags, sp \in {0, 250, 253, 254, 255} :
  LET c0 == [At(0, 0, 0, sp, FALSE, <<64>>) EXCEPT
               !.mem = (256 + ((sp + 1) % 256) :> PByte(f)) @@ (256 + ((sp + 2) % 256) :> 52) @@ (256 + ((sp + 3) % 256) :> 18) @@ @]
      c1 == Step(c0) IN
  c1.f = f /\ c1.pc = 4660 /\ c1.sp = (sp + 3) % 256 /\ ~c1.unspec

(* jmp (v): low byte at v, high byte at v+1 -- except that v = $xxFF takes the high byte from $xx00 *)
JmpIndirect == \A lo \in Byte :
  LET v == 768 + lo                                                       \* vector in page 3
      c0 == [At(0, 0, 0, 253, FALSE, <<108, lo, 3>>) EXCEPT
               !.mem = (v :> 52) @@ (IF lo = 255 THEN (768 :> 18) @@ (1024 :> 86) ELSE (v + 1 :> 18)) @@ @]
      c1 == Step(c0) IN
  c1.pc = 4660 /\ c1.sp = 253 /\ ~c1.unspec
(* left open (finding EmulatorOverflowAtTopOfMemory): jmp ($ffff), and every instruction whose last byte is at $FFFF *)
JmpIndirectTopOfMemoryOpen == Step(At(0, 0, 0, 253, FALSE, <<108, 255, 255>>)).unspec
AtTop(bytes) == [Reset(65536 - Len(bytes), [i \in (65536 - Len(bytes))..65535 |-> bytes[i - 65535 + Len(bytes)]]) EXCEPT !.a = 1]
TopEdgeOpen == /\ Step(AtTop(<<234>>)).unspec /\ Step(AtTop(<<169, 1>>)).unspec /\ Step(AtTop(<<173, 16, 0>>)).unspec
               /\ ~TopEdge([AtTop(<<234, 0>>) EXCEPT !.pc = 65534]) /\ Step([AtTop(<<234, 0>>) EXCEPT !.pc = 65534]).pc = 65535

(* decimal mode: silent in the property's reading, binary in the implementation-shaped reading *)
DecimalReadings == \A a \in {0, 9, 25, 153}, m \in {1, 9, 25, 153} :
  LET c0 == [At(a, 0, 0, 253, FALSE, <<105, m>>) EXCEPT !.f.d = TRUE] IN
  /\ Step(c0).unspec
  /\ LET r == StepM(c0, TRUE) IN ~r.unspec /\ r.a = (a + m) % 256 /\ r.f.d /\ r.f.c = (a + m > 255)

AllHold == PhpPushesBreakBits /\ PlpIgnoresBreakBits /\ PhpPlpIdentity /\ RtiRestores /\ JmpIndirect
           /\ JmpIndirectTopOfMemoryOpen /\ TopEdgeOpen /\ DecimalReadings /\ AdcArithmetic /\ SbcArithmetic /\ CompareIsSubtractWithoutStore /\ LogicIsBitwise /\ ShiftsRoundTrip
           /\ JsrRtsRoundTrip /\ BranchOffsets /\ ZeroPageWraps
================================================================================
