SPECIFICATION Spec
CONSTANT MaxLen = 3
CONSTANT Deviations = {}
CONSTANT EmitCase = TRUE
CONSTANT EmitMod = 3
CONSTANT Alphabet = "B"
CONSTANT MCFuelC = 60
CONSTANT NB = 17
CONSTANT FUEL <- MCFuel
INVARIANT VerdictReflectsState
INVARIANT VerdictStrict
INVARIANT EmitCases
INVARIANT TypeInv
INVARIANT FollowsPath
INVARIANT FailureIsReal
INVARIANT NothingDisarmed
