---------------------------- MODULE TestRunnerTrace ----------------------------
(* impl -> spec for C18.  One record per run of `mos test' on a generated project:            *)
(*  [id, prj, lines, obs, hasTrace, runs]                                                     *)
(*   prj     the project (TestRunner.tla shapes)                                              *)
(*   lines   <<[aid, line, col, text]>>  where the renderer put each assertion's expression    *)
(*   obs     [exit, tests: <<[name, verdict]>>, failures: <<[name, line, col, msg, pc, sp, a,  *)
(*            x, y, p]>>, passed, failed, result, summary]   parsed from stdout / exit status   *)
(*   runs    with the cpu_step hook: per test [test, pc, image: <<[a, b]>> (non-zero bytes),   *)
(*            steps: <<[pc, a, x, y, sp, p, fired: <<[line, col]>>]>>, end]                      *)
(* Tier 1 (verdict): every test's reported verdict, failing location, message and registers    *)
(* against Ideal (declarative); the exit status and the summary against the reported verdicts;  *)
(* the per-instruction register trace against Cpu!Step.  A mismatch is the known deviation      *)
(* AssertionFiresOnce only if the narrow witness holds (the test must fail at an assertion that  *)
(* had been matched before) AND the observation is exactly what the once-only runner yields.     *)
(* Tier 2 (faithfulness): assembled image and the assertions matched per step -> "drift".        *)
(* Besides, one row with verdict "stat" per judged test (dev = the Ideal verdict, why = length of *)
(* the path up to the verdict) so that the harness can report what was covered.                 *)
EXTENDS TestRunner, Json, IOUtils

Rec == ndJsonDeserialize(IOEnv.TRACE)
VARIABLES l, bad
vars == <<l, bad>>
V(id, verdict, dev, why) == [id |-> id, verdict |-> verdict, dev |-> dev, why |-> why]

LineOf(r, aid) == LET i == CHOOSE i \in 1..Len(r.lines) : r.lines[i].aid = aid IN r.lines[i]
HasLine(r, aid) == \E i \in 1..Len(r.lines) : r.lines[i].aid = aid
AssertOf(T, aid) == T.asserts[CHOOSE j \in 1..Len(T.asserts) : T.asserts[j].aid = aid]
Message(r, T, aid) == LET a == AssertOf(T, aid) IN IF a.hasMsg THEN a.msg ELSE "assertion failed: " \o LineOf(r, aid).text

FailureOf(r, name) == r.obs.failures[CHOOSE i \in 1..Len(r.obs.failures) : r.obs.failures[i].name = name]
HasFailure(r, name) == \E i \in 1..Len(r.obs.failures) : r.obs.failures[i].name = name

SameRegs(f, g) == f.pc = g.pc /\ f.a = g.a /\ f.x = g.x /\ f.y = g.y /\ f.sp = g.sp /\ (f.p % 256) = (g.p % 256)
Masked(o) == [pc |-> o.pc, a |-> o.a, x |-> o.x, y |-> o.y, sp |-> o.sp, p |-> PByte([c |-> o.p % 2 = 1, z |-> (o.p \div 2) % 2 = 1,
              i |-> (o.p \div 4) % 2 = 1, d |-> (o.p \div 8) % 2 = 1, v |-> (o.p \div 64) % 2 = 1, n |-> (o.p \div 128) % 2 = 1])]

(* "" if the observed outcome of one test is the expected one (verdict v, failing assertion aid, machine state g) *)
Explains(r, T, name, ov, v, aid, g) ==
  IF v = "passed" THEN (IF ov = "ok" THEN "" ELSE "reported failed, but the run reaches BRK with every assertion on its path true")
  ELSE IF ov # "failed" THEN "reported ok, but an assertion on the executed path is false or cannot be evaluated"
  ELSE IF ~HasFailure(r, name) THEN "failed test without a failure report"
  ELSE LET f == FailureOf(r, name)
           w == LineOf(r, aid) IN
       IF f.line # w.line \/ f.col # w.col THEN "failure attributed to the wrong assertion (source location)"
       ELSE IF f.msg # Message(r, T, aid) THEN "failure message is not the assertion's message"
       ELSE IF ~SameRegs(Masked(f), g) THEN "registers reported with the failure are not the machine state at the assertion"
       ELSE ""

(* tier 2 follows the code as it is: once-only matching while the finding AssertionFiresOnce is open (ONCE = "1") *)
ImplOnce == IOEnv.ONCE = "1"

JudgeWith(r, name, ov, T) ==
  LET id == Ideal(T)
      p  == Path(T)
      m1 == IF id.v = "unspec" THEN ""
            ELSE Explains(r, T, name, ov, id.v, id.aid, IF id.v = "failed" THEN Regs(p[id.i]) ELSE Regs(p[1]))
      verdictRows ==
        IF m1 = "" THEN <<>>
        ELSE LET o == Run(T, TRUE)
                 (* the once-only run may leave what the model describes (fuel, unmodelled instruction) after the point
                    where the property already failed the test: the witness holds, its exact consequence is not predicted *)
                 m2 == IF o.status = "unspec" THEN "" ELSE Explains(r, T, name, ov, o.status, o.aid, Regs(o.c)) IN
             IF FiresOnceWitness(id) /\ m2 = ""
               THEN <<V(r.id, "deviation", "AssertionFiresOnce", "test " \o name \o ": " \o m1)>>
               ELSE <<V(r.id, "violation", "", "test " \o name \o ": " \o m1)>>
      traceRows ==
        IF ~r.hasTrace \/ ~(\E i \in 1..Len(r.runs) : r.runs[i].test = name) THEN <<>>
        ELSE LET run == r.runs[CHOOSE i \in 1..Len(r.runs) : r.runs[i].test = name]
                 img == {<<run.image[i].a, run.image[i].b>> : i \in 1..Len(run.image)}
                 exp == {<<a, T.mem0[a]>> : a \in {x \in DOMAIN T.mem0 : T.mem0[x] # 0}} IN        \* the hook reports the bank's file image
             IF img # exp \/ run.pc # T.entry
               THEN <<V(r.id, "drift", "", "test " \o name \o ": assembled image or entry differs from the layout")>>
             ELSE LET oo == Run(T, ImplOnce)                               \* the implementation-shaped run (tier 2)
                      o == IF m1 = "" THEN Run(T, FALSE) ELSE oo             \* the run that explains the reported verdict
                      n == IF Len(run.steps) < Len(o.trace) THEN Len(run.steps) ELSE Len(o.trace)
                      nf == IF Len(run.steps) < Len(oo.fired) THEN Len(run.steps) ELSE Len(oo.fired)
                      diff == {i \in 1..n : ~SameRegs(Masked(run.steps[i]), o.trace[i])}
                      fdiff == {i \in 1..nf : [j \in 1..Len(run.steps[i].fired) |-> <<run.steps[i].fired[j].line, run.steps[i].fired[j].col>>]
                                             # [j \in 1..Len(oo.fired[i]) |-> <<LineOf(r, oo.fired[i][j]).line, LineOf(r, oo.fired[i][j]).col>>]} IN
                  IF diff # {}
                    THEN <<V(r.id, "violation", "", "test " \o name \o ": machine state before instruction " \o
                             ToString(CHOOSE i \in diff : \A j \in diff : i <= j) \o " is not the 6502's (registers/flags/pc depart from Cpu!Step)")>>
                  ELSE IF o.status # "unspec" /\ Len(run.steps) # Len(o.trace)
                    THEN <<V(r.id, IF m1 = "" /\ id.v # "unspec" THEN "violation" ELSE "drift", "",
                             "test " \o name \o ": number of executed instructions differs")>>
                  ELSE IF fdiff # {} /\ id.v # "unspec"
                    THEN <<V(r.id, "drift", "", "test " \o name \o ": assertions matched at a step differ from the model")>>
                  (* implementation facts (tier 2): bits 5/4 of the emulator's status register stay 1/0 in the test runner
                     (no brk is executed, no interrupt is pending); where the property is silent because of decimal mode the
                     machine follows the implementation-shaped path (adc/sbc binary although D is set) *)
                  ELSE IF \E i \in 1..Len(run.steps) : (run.steps[i].p \div 16) % 4 # 2
                    THEN <<V(r.id, "drift", "", "test " \o name \o ": bits 5/4 of the status register are not 1/0")>>
                  ELSE IF o.status = "unspec"
                    THEN LET mp == MirrorPath(T)
                             k == IF Len(run.steps) < Len(mp) THEN Len(run.steps) ELSE Len(mp) IN
                         IF \E i \in 1..k : ~SameRegs(Masked(run.steps[i]), mp[i])
                           THEN <<V(r.id, "drift", "", "test " \o name \o ": machine departs from the implementation-shaped path (decimal flag ignored)")>>
                           ELSE <<V(r.id, "stat", "mirror", ToString(k))>>
                  ELSE <<>>
  IN <<V(r.id, "stat", id.v, ToString(id.i))>> \o verdictRows \o traceRows

Alarms(rows) == \E i \in 1..Len(rows) : rows[i].verdict \in {"violation", "drift"}
JudgeTest(r, name, ov) ==
  LET T == Layout(r.prj, name) IN
  IF ~T.ok THEN <<V(r.id, "stat", "nolayout", "0")>>
  ELSE LET ri == JudgeWith(r, name, ov, T) IN
       (* Deviations with a narrow witness: the layout has a second, implementation-shaped reading that differs from the ideal
          one for THIS test, and the observation is exactly what that reading yields (no alarm, no other deviation):
            AssertionOfOtherBankFires     an assertion assembled into a segment of another bank exists (matched by pc alone)
            TestCodeNotAtTargetAddress    the test's bank has a relocated or unwritten segment (only the file image is loaded)
            TestStartsAtDirectiveAddress  a `* =' precedes the test's first instruction (cpu started at the directive) *)
       IF ~Alarms(ri) THEN ri
       ELSE LET Alt(k) == CASE k = 1 -> [T EXCEPT !.asserts = T.allAsserts]
                            [] k = 2 -> [T EXCEPT !.mem = T.mem0]
                            [] k = 3 -> [T EXCEPT !.entry = T.entry0]
                Name(k) == CASE k = 1 -> "AssertionOfOtherBankFires" [] k = 2 -> "TestCodeNotAtTargetAddress" [] k = 3 -> "TestStartsAtDirectiveAddress"
                Explained(k) == Alt(k) # T /\ LET rk == JudgeWith(r, name, ov, Alt(k)) IN
                                               ~Alarms(rk) /\ ~(\E i \in 1..Len(rk) : rk[i].verdict = "deviation")
                ks == {k \in 1..3 : Explained(k)} IN
            IF ks = {} THEN ri
            ELSE LET k == CHOOSE k \in ks : \A j \in ks : k <= j IN
                 <<V(r.id, "stat", Ideal(T).v, "0"),
                   V(r.id, "deviation", Name(k), "test " \o name \o ": the outcome is that of the implementation-shaped reading, not of the property")>>

RECURSIVE JudgeTests(_, _, _, _)
JudgeTests(r, names, k, n) ==
  IF k > n THEN <<>> ELSE JudgeTest(r, names[k], r.obs.tests[k].verdict) \o JudgeTests(r, names, k + 1, n)

(* the tests that finished before a crash: their failure reports were never printed, only ok / failed is known *)
RECURSIVE PrefixVerdicts(_, _, _, _)
PrefixVerdicts(r, names, k, n) ==
  IF k > n THEN <<>>
  ELSE LET T == Layout(r.prj, names[k])
           id == Ideal(T)
           ov == r.obs.tests[k].verdict IN
       (IF T.ok /\ T.entry = T.entry0 /\ T.asserts = T.allAsserts /\ T.mem = T.mem0 /\ ((id.v = "passed" /\ ov # "ok") \/ (id.v = "failed" /\ ov # "failed"))
          THEN <<V(r.id, "violation", "", "test " \o names[k] \o ": reported " \o ov \o " but the property says " \o id.v)>> ELSE <<>>)
       \o PrefixVerdicts(r, names, k + 1, n)

(* the bank of test `name' (found by a walk: the segment the test lies in) is sized beyond the address space *)
Oversized(prj, name) ==
  LET T == Fix(prj, name, <<>>, 6)
      sd == SegDefs(prj) IN
  T.ok /\ T.lay.entrySeg # "" /\
  LET bank == (CHOOSE d \in {sd[i] : i \in 1..Len(sd)} : d.name = T.lay.entrySeg).bank
      ds == {sd[i] : i \in {j \in 1..Len(sd) : sd[j].bank = bank}}
      lo == CHOOSE a \in {d.start : d \in ds} : \A d \in ds : a <= d.start IN
  \E d \in ds : d.size > 0 /\ lo + d.size > 65536

(* `mos test' panicked while running test number Len(obs.tests) + 1: the tests before it are judged as usual; the crash
   itself is a recorded finding only under the witness matching the kind of panic, otherwise a violation *)
JudgeCrash(r, names) ==
  LET o == r.obs
      k == Len(o.tests) + 1 IN
  IF k > Len(names) \/ [i \in 1..Len(o.tests) |-> o.tests[i].name] # SubSeq(names, 1, k - 1)
    THEN <<V(r.id, "violation", "", "mos test crashed (" \o o.panic \o ") outside the run of a test of the project")>>
  ELSE LET T == Layout(r.prj, names[k])
           w == IF T.ok THEN CrashWitness(T) ELSE "nolayout" IN
       (* deviation OversizedBankPanics: the bank of the test that was being set up has a size option that reaches past $FFFF *)
       (IF o.panic = "slice" /\ Oversized(r.prj, names[k])
          THEN <<V(r.id, "deviation", "OversizedBankPanics", "test " \o names[k] \o ": mos test panics loading a bank that reaches past the end of the address space")>>
        ELSE IF w = "nolayout" \/ (w = "silent" /\ o.panic = "overflow") THEN <<>>
        ELSE IF w = "overflow" /\ o.panic = "overflow" THEN <<V(r.id, "deviation", "EmulatorOverflowAtTopOfMemory", "test " \o names[k] \o ": instruction at the top of memory crashes mos test")>>
        ELSE <<V(r.id, "violation", "", "test " \o names[k] \o ": mos test crashed (" \o o.panic \o ") instead of reporting a verdict")>>)
       \o PrefixVerdicts(r, names, 1, k - 1)

Judge(r) ==
  LET ideal == AllTests(r.prj)
      (* deviation TestConstantMissingAtEnumeration: tests inside `.if defined(TEST)' are not found when tests are enumerated
         without the constant; witness: the project has such a block and the tests run are exactly the others *)
      noTest == HasIfTest(r.prj) /\ TestsWithoutTEST(r.prj) # ideal /\ r.obs.panic = "none" /\ ~r.obs.hung /\ ~r.obs.buildFailed /\ ~r.obs.aborted
                /\ [i \in 1..Len(r.obs.tests) |-> r.obs.tests[i].name] = TestsWithoutTEST(r.prj)
      names == IF noTest THEN TestsWithoutTEST(r.prj) ELSE ideal
      o == r.obs
      nfail == Cardinality({i \in 1..Len(o.tests) : o.tests[i].verdict = "failed"})
      nok == Cardinality({i \in 1..Len(o.tests) : o.tests[i].verdict = "ok"}) IN
  IF o.hung
    THEN (IF \E k \in 1..Len(names) : LET T == Layout(r.prj, names[k]) IN ~T.ok \/ Ideal(T).v = "unspec" THEN <<>>
          ELSE <<V(r.id, "violation", "", "mos test does not terminate although every test reaches a verdict")>>)
  ELSE IF o.panic # "none" THEN JudgeCrash(r, names)
  (* deviation ImportedTestListedTwice: the run stops (no summary, exit 1) right after the first test of an imported file,
     when the same test is looked up again under its alias.  Witness: the project has a test in an imported file and the
     tests run are exactly those of the entry file plus the first imported one. *)
  ELSE IF o.aborted
    THEN LET nown == Len(OwnTests(r.prj)) IN
         IF Len(names) > nown /\ [i \in 1..Len(o.tests) |-> o.tests[i].name] = SubSeq(names, 1, nown + 1) /\ o.exit = 1
           THEN <<V(r.id, "deviation", "ImportedTestListedTwice", "mos test stops after test " \o names[nown + 1] \o " of an imported file: no summary")>>
                \o PrefixVerdicts(r, names, 1, nown + 1)
           ELSE <<V(r.id, "violation", "", "mos test stopped without a summary")>>
  ELSE IF o.buildFailed
    THEN (IF \A k \in 1..Len(names) : Layout(r.prj, names[k]).ok
            THEN <<V(r.id, "drift", "", "the project is rejected by the assembler but has a layout in the model")>> ELSE <<>>)
  ELSE IF [i \in 1..Len(o.tests) |-> o.tests[i].name] # names
    THEN <<V(r.id, "violation", "", "the tests run are not the tests of the project, in source order")>>
  ELSE (IF (o.exit # 0) # (nfail > 0) THEN <<V(r.id, "violation", "", "exit status is non-zero iff a test failed: violated")>> ELSE <<>>)
    \o (IF ~o.summary \/ o.passed # nok \/ o.failed # nfail \/ o.result # (IF nfail > 0 THEN "FAILED" ELSE "ok")
          THEN <<V(r.id, "violation", "", "summary line does not count the reported verdicts")>> ELSE <<>>)
    \o JudgeTests(r, names, 1, Len(names))
    \o (IF noTest THEN <<V(r.id, "deviation", "TestConstantMissingAtEnumeration", "tests inside .if defined(TEST) were not run")>> ELSE <<>>)

Init == l = 1 /\ bad = <<>>
Step1 == l <= Len(Rec) /\ bad' = bad \o Judge(Rec[l]) /\ l' = l + 1
Finish == l = Len(Rec) + 1 /\ ndJsonSerialize(IOEnv.OUT, bad) /\ l' = l + 1 /\ UNCHANGED bad
Next == Step1 \/ Finish
Spec == Init /\ [][Next]_vars
Consumed == TLCGet("stats").diameter >= Len(Rec) + 1
================================================================================
