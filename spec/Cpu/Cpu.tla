---------------------------------- MODULE Cpu ----------------------------------
(* The MOS 6502 as far as property C18 quantifies over it: registers, status flags, stack, *)
(* memory, and `Step' for loads/stores, transfers, increments/decrements, logic, shifts,   *)
(* binary-mode add/subtract, compares, bit, branches, jmp (absolute and indirect with the   *)
(* NMOS page-wrap of the vector), jsr/rts, pha/pla, php/plp/rti and the flag instructions,   *)
(* in all their addressing modes.  Written from the ISA, not from the         *)
(* emulator crate the implementation uses.  Decoding goes through the opcode table of       *)
(* Isa6502 (the same table C01 checks the assembler against).                               *)
(*                                                                                          *)
(* A cpu is [a, x, y, sp, pc, f, mem, unspec]                                               *)
(*   f     = [c, z, i, d, v, n]  booleans.  B (bit 4) and bit 5 are not flip-flops of the 6502:    *)
(*           they exist only in the copy of the status register that php/brk/interrupts push    *)
(*           (php: both 1) and are ignored by plp/rti.  StatusPushed is that copy.              *)
(*   mem   = function from the addresses touched so far to bytes; everything else reads 0   *)
(*   unspec= TRUE once an instruction outside the modelled subset was executed: from then   *)
(*           on the specification says nothing about the machine                            *)
(* Decimal mode: the property quantifies over binary-mode add/subtract only, so adc/sbc with D  *)
(* set are `unspec' in Step.  StepM(c, TRUE) is the implementation-shaped reading (tier 2): the  *)
(* emulator crate is built by mos without its `binary_coded_decimal' feature, D is just a bit     *)
(* and adc/sbc stay binary (implementation fact DecimalFlagIgnored, not a property statement).    *)
EXTENDS Integers, Sequences, FiniteSets, TLC

I == INSTANCE Isa6502

Byte == 0..255
Rd(mem, a) == IF a \in DOMAIN mem THEN mem[a] ELSE 0
Wr(mem, a, v) == (a :> v) @@ mem
Rd16(mem, a) == Rd(mem, a) + 256 * Rd(mem, (a + 1) % 65536)

Flags0 == [c |-> FALSE, z |-> FALSE, i |-> TRUE, d |-> FALSE, v |-> FALSE, n |-> FALSE]
(* power-on state of the test runner: registers 0, stack pointer $FD, interrupts disabled *)
Reset(pc, mem) == [a |-> 0, x |-> 0, y |-> 0, sp |-> 253, pc |-> pc, f |-> Flags0, mem |-> mem, unspec |-> FALSE]

(* the status register restricted to the modelled flags: N V - - D I Z C *)
FMASK == 207
PByte(f) == (IF f.c THEN 1 ELSE 0) + (IF f.z THEN 2 ELSE 0) + (IF f.i THEN 4 ELSE 0) + (IF f.d THEN 8 ELSE 0)
          + (IF f.v THEN 64 ELSE 0) + (IF f.n THEN 128 ELSE 0)

RECURSIVE BitOp(_, _, _, _)
(* bitwise combination of two naturals, n bits; op is a truth table <<f00, f01, f10, f11>> *)
BitOp(op, a, b, n) == IF n = 0 THEN 0
                      ELSE op[(2 * (a % 2)) + (b % 2) + 1] + (2 * BitOp(op, a \div 2, b \div 2, n - 1))
And8(a, b) == BitOp(<<0, 0, 0, 1>>, a, b, 8)
Or8(a, b)  == BitOp(<<0, 1, 1, 1>>, a, b, 8)
Xor8(a, b) == BitOp(<<0, 1, 1, 0>>, a, b, 8)
Bit7(v) == v >= 128
Signed(b) == IF b >= 128 THEN b - 256 ELSE b

ZN(f, v) == [f EXCEPT !.z = (v = 0), !.n = Bit7(v)]

(* ---------------------------------------------------------------- decoding *)
Dec == [op \in Byte |-> IF \E t \in I!Table : t[3] = op
                         THEN LET t == CHOOSE t \in I!Table : t[3] = op IN [ok |-> TRUE, mn |-> t[1], mode |-> t[2]]
                         ELSE [ok |-> FALSE, mn |-> "", mode |-> ""]]
ModeLen(mode) == CASE mode = "imp" -> 1
                   [] mode \in {"imm", "zp", "zpx", "zpy", "indx", "indy", "rel"} -> 2
                   [] OTHER -> 3

Modelled == {"lda","ldx","ldy","sta","stx","sty","tax","tay","txa","tya","tsx","txs",
             "inx","iny","dex","dey","inc","dec","and","ora","eor","adc","sbc","cmp","cpx","cpy","bit",
             "asl","lsr","rol","ror","bcc","bcs","beq","bne","bmi","bpl","bvc","bvs","jmp","jsr","rts",
             "pha","pla","php","plp","rti","clc","sec","cli","sei","clv","cld","sed","nop"}

(* effective address of the operand (imm: the address of the operand byte itself) *)
EA(c, mode) ==
  LET b1 == Rd(c.mem, (c.pc + 1) % 65536)
      w  == Rd16(c.mem, (c.pc + 1) % 65536) IN
  CASE mode = "imm"  -> (c.pc + 1) % 65536
    [] mode = "zp"   -> b1
    [] mode = "zpx"  -> (b1 + c.x) % 256
    [] mode = "zpy"  -> (b1 + c.y) % 256
    [] mode = "abs"  -> w
    [] mode = "absx" -> (w + c.x) % 65536
    [] mode = "absy" -> (w + c.y) % 65536
    [] mode = "indx" -> LET p == (b1 + c.x) % 256 IN Rd(c.mem, p) + 256 * Rd(c.mem, (p + 1) % 256)
    [] mode = "indy" -> ((Rd(c.mem, b1) + 256 * Rd(c.mem, (b1 + 1) % 256)) + c.y) % 65536
    (* jmp (w): the high byte of the target is fetched from the same page as the low byte (NMOS) *)
    [] mode = "ind"  -> Rd(c.mem, w) + 256 * Rd(c.mem, (256 * (w \div 256)) + ((w + 1) % 256))
    [] OTHER -> 0

Push(c, v) == [c EXCEPT !.mem = Wr(@, 256 + c.sp, v), !.sp = (c.sp + 255) % 256]
PullAddr(c, k) == 256 + ((c.sp + k) % 256)

Adc(c, m) ==
  LET s == c.a + m + (IF c.f.c THEN 1 ELSE 0)
      r == s % 256 IN
  [c EXCEPT !.a = r,
            !.f = ZN([c.f EXCEPT !.c = s > 255, !.v = (Bit7(c.a) = Bit7(m)) /\ (Bit7(r) # Bit7(c.a))], r)]

Cmp(c, r, m) == [c EXCEPT !.f = [c.f EXCEPT !.c = r >= m, !.z = (r = m), !.n = Bit7((r - m + 256) % 256)]]

Taken(f, mn) == CASE mn = "bcc" -> ~f.c [] mn = "bcs" -> f.c [] mn = "bne" -> ~f.z [] mn = "beq" -> f.z
                  [] mn = "bpl" -> ~f.n [] mn = "bmi" -> f.n [] mn = "bvc" -> ~f.v [] mn = "bvs" -> f.v

(* shifts: value and carry-in -> [v, c] *)
Shift(mn, v, cin) ==
  CASE mn = "asl" -> [v |-> (2 * v) % 256, c |-> Bit7(v)]
    [] mn = "lsr" -> [v |-> v \div 2, c |-> v % 2 = 1]
    [] mn = "rol" -> [v |-> ((2 * v) % 256) + (IF cin THEN 1 ELSE 0), c |-> Bit7(v)]
    [] mn = "ror" -> [v |-> (v \div 2) + (IF cin THEN 128 ELSE 0), c |-> v % 2 = 1]

(* the status register as php pushes it: bits 4 and 5 set; and a pulled byte read back into the flags *)
StatusPushed(f) == PByte(f) + 48
FlagsOf(b) == [c |-> b % 2 = 1, z |-> (b \div 2) % 2 = 1, i |-> (b \div 4) % 2 = 1, d |-> (b \div 8) % 2 = 1,
               v |-> (b \div 64) % 2 = 1, n |-> (b \div 128) % 2 = 1]

(* An instruction whose last byte lies at $FFFF (so that the pc would wrap to $0000 behind it), and jmp ($ffff).  *)
(* The 6502 wraps; the emulator crate's unchecked u16 additions panic there in mos' debug build (finding           *)
(* EmulatorOverflowAtTopOfMemory).  Step leaves the state open; the judge excuses a crash only under this witness. *)
TopEdge(c) == LET d == Dec[Rd(c.mem, c.pc)] IN
              d.ok /\ (c.pc + ModeLen(d.mode) >= 65536 \/ (d.mode = "ind" /\ Rd16(c.mem, (c.pc + 1) % 65536) = 65535))

(* one instruction.  The caller decides what a BRK (opcode 0) means; here it is outside the subset.   *)
(* mirror = TRUE: implementation-shaped reading of decimal mode (see the header).                     *)
StepM(c, mirror) ==
  LET d == Dec[Rd(c.mem, c.pc)] IN
  IF c.unspec \/ ~d.ok \/ d.mn \notin Modelled THEN [c EXCEPT !.unspec = TRUE]
  ELSE IF TopEdge(c) THEN [c EXCEPT !.unspec = TRUE]
  ELSE
  LET mn == d.mn
      mode == d.mode
      ea == EA(c, mode)
      m  == Rd(c.mem, ea)
      nx == [c EXCEPT !.pc = (c.pc + ModeLen(mode)) % 65536] IN
  CASE mn = "lda" -> [nx EXCEPT !.a = m, !.f = ZN(c.f, m)]
    [] mn = "ldx" -> [nx EXCEPT !.x = m, !.f = ZN(c.f, m)]
    [] mn = "ldy" -> [nx EXCEPT !.y = m, !.f = ZN(c.f, m)]
    [] mn = "sta" -> [nx EXCEPT !.mem = Wr(@, ea, c.a)]
    [] mn = "stx" -> [nx EXCEPT !.mem = Wr(@, ea, c.x)]
    [] mn = "sty" -> [nx EXCEPT !.mem = Wr(@, ea, c.y)]
    [] mn = "tax" -> [nx EXCEPT !.x = c.a, !.f = ZN(c.f, c.a)]
    [] mn = "tay" -> [nx EXCEPT !.y = c.a, !.f = ZN(c.f, c.a)]
    [] mn = "txa" -> [nx EXCEPT !.a = c.x, !.f = ZN(c.f, c.x)]
    [] mn = "tya" -> [nx EXCEPT !.a = c.y, !.f = ZN(c.f, c.y)]
    [] mn = "tsx" -> [nx EXCEPT !.x = c.sp, !.f = ZN(c.f, c.sp)]
    [] mn = "txs" -> [nx EXCEPT !.sp = c.x]
    [] mn = "inx" -> LET v == (c.x + 1) % 256 IN [nx EXCEPT !.x = v, !.f = ZN(c.f, v)]
    [] mn = "iny" -> LET v == (c.y + 1) % 256 IN [nx EXCEPT !.y = v, !.f = ZN(c.f, v)]
    [] mn = "dex" -> LET v == (c.x + 255) % 256 IN [nx EXCEPT !.x = v, !.f = ZN(c.f, v)]
    [] mn = "dey" -> LET v == (c.y + 255) % 256 IN [nx EXCEPT !.y = v, !.f = ZN(c.f, v)]
    [] mn = "inc" -> LET v == (m + 1) % 256 IN [nx EXCEPT !.mem = Wr(@, ea, v), !.f = ZN(c.f, v)]
    [] mn = "dec" -> LET v == (m + 255) % 256 IN [nx EXCEPT !.mem = Wr(@, ea, v), !.f = ZN(c.f, v)]
    [] mn = "and" -> LET v == And8(c.a, m) IN [nx EXCEPT !.a = v, !.f = ZN(c.f, v)]
    [] mn = "ora" -> LET v == Or8(c.a, m) IN [nx EXCEPT !.a = v, !.f = ZN(c.f, v)]
    [] mn = "eor" -> LET v == Xor8(c.a, m) IN [nx EXCEPT !.a = v, !.f = ZN(c.f, v)]
    [] mn = "adc" -> IF c.f.d /\ ~mirror THEN [c EXCEPT !.unspec = TRUE] ELSE Adc(nx, m)
    [] mn = "sbc" -> IF c.f.d /\ ~mirror THEN [c EXCEPT !.unspec = TRUE] ELSE Adc(nx, 255 - m)
    [] mn = "cmp" -> Cmp(nx, c.a, m)
    [] mn = "cpx" -> Cmp(nx, c.x, m)
    [] mn = "cpy" -> Cmp(nx, c.y, m)
    [] mn = "bit" -> [nx EXCEPT !.f = [c.f EXCEPT !.z = (And8(c.a, m) = 0), !.n = Bit7(m), !.v = (m \div 64) % 2 = 1]]
    [] mn \in {"asl", "lsr", "rol", "ror"} ->
         IF mode = "imp"
           THEN LET s == Shift(mn, c.a, c.f.c) IN [nx EXCEPT !.a = s.v, !.f = ZN([c.f EXCEPT !.c = s.c], s.v)]
           ELSE LET s == Shift(mn, m, c.f.c) IN [nx EXCEPT !.mem = Wr(@, ea, s.v), !.f = ZN([c.f EXCEPT !.c = s.c], s.v)]
    [] mn \in {"bcc", "bcs", "beq", "bne", "bmi", "bpl", "bvc", "bvs"} ->
         IF Taken(c.f, mn) THEN [nx EXCEPT !.pc = (c.pc + 2 + Signed(Rd(c.mem, (c.pc + 1) % 65536)) + 65536) % 65536] ELSE nx
    [] mn = "jmp" -> [nx EXCEPT !.pc = ea]
    [] mn = "jsr" -> LET r == (c.pc + 2) % 65536 IN [Push(Push(c, r \div 256), r % 256) EXCEPT !.pc = ea]
    [] mn = "rts" -> [nx EXCEPT !.sp = (c.sp + 2) % 256,
                                !.pc = (Rd(c.mem, PullAddr(c, 1)) + 256 * Rd(c.mem, PullAddr(c, 2)) + 1) % 65536]
    [] mn = "pha" -> [Push(c, c.a) EXCEPT !.pc = nx.pc]
    [] mn = "pla" -> LET v == Rd(c.mem, PullAddr(c, 1)) IN [nx EXCEPT !.sp = (c.sp + 1) % 256, !.a = v, !.f = ZN(c.f, v)]
    [] mn = "php" -> [Push(c, StatusPushed(c.f)) EXCEPT !.pc = nx.pc]
    [] mn = "plp" -> [nx EXCEPT !.sp = (c.sp + 1) % 256, !.f = FlagsOf(Rd(c.mem, PullAddr(c, 1)))]
    [] mn = "rti" -> [nx EXCEPT !.sp = (c.sp + 3) % 256, !.f = FlagsOf(Rd(c.mem, PullAddr(c, 1))),
                                !.pc = Rd(c.mem, PullAddr(c, 2)) + 256 * Rd(c.mem, PullAddr(c, 3))]
    [] mn = "clc" -> [nx EXCEPT !.f.c = FALSE]
    [] mn = "sec" -> [nx EXCEPT !.f.c = TRUE]
    [] mn = "cli" -> [nx EXCEPT !.f.i = FALSE]
    [] mn = "sei" -> [nx EXCEPT !.f.i = TRUE]
    [] mn = "clv" -> [nx EXCEPT !.f.v = FALSE]
    [] mn = "cld" -> [nx EXCEPT !.f.d = FALSE]
    [] mn = "sed" -> [nx EXCEPT !.f.d = TRUE]
    [] mn = "nop" -> nx

Step(c) == StepM(c, FALSE)

(* the registers an observer of the machine sees *)
Regs(c) == [pc |-> c.pc, a |-> c.a, x |-> c.x, y |-> c.y, sp |-> c.sp, p |-> PByte(c.f)]

TypeOK(c) == /\ c.a \in Byte /\ c.x \in Byte /\ c.y \in Byte /\ c.sp \in Byte /\ c.pc \in 0..65535
             /\ \A a \in DOMAIN c.mem : a \in 0..65535 /\ c.mem[a] \in Byte
================================================================================
