SPECIFICATION Spec
CONSTANT MaxLen = 4
CONSTANT Deviations = {}
CONSTANT EmitCase = FALSE
CONSTANT EmitMod = 1
CONSTANT Alphabet = "C"
CONSTANT MCFuelC = 60
CONSTANT NB = 17
CONSTANT FUEL <- MCFuel
INVARIANT NoTwoValuesPass
