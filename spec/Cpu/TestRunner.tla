------------------------------- MODULE TestRunner -------------------------------
(* `mos test': unit tests of 6502 code run on an emulated machine (property C18).           *)
(*                                                                                          *)
(* A project is [segdefs, items]:                                                           *)
(*   segdefs  sequence of [name, bank, start, pc, write, size]  (empty: one segment "default" *)
(*            at $C000): pc = the address the segment's code runs at (start = where the file   *)
(*            image has it), write = FALSE: not part of the file image, size = the bank's size  *)
(*            option (0: none)                                                                *)
(*   items    sequence of statements (field k):                                             *)
(*     insn  [mn, form, e]          label  [name, hasBody, body]     braces [sid, body]      *)
(*     const [name, e]              data   [w, es]                   loop   [n, sid, body]   *)
(*     assert [aid, e, hasMsg, msg] test   [name, body]              useseg [name, body]     *)
(*     var   [name, e]   (`.var name = e', may be assigned again)                              *)
(*     setpc [e]   (`* = e')     import [file, sid]   (`.import * from "file"'; top level)     *)
(*   files    sequence of [name, items]: the importable files                                 *)
(*   expressions are Expr trees; identifier nodes carry `name' (unique per spelling) and     *)
(*   `path'; two more node kinds exist in assertions: ram [e] and ram16 [e].                 *)
(*                                                                                          *)
(* Three layers:                                                                            *)
(*   Layout(prj, t)     what the assembler produces for the run of test t (only the body of  *)
(*                      the active test is assembled): entry, RAM image of the test's bank,  *)
(*                      the assertions with the pc, scope and loop indices of their position *)
(*   Ideal(T)           the property, declaratively: the execution path of the machine from  *)
(*                      the entry by Cpu!Step; passed iff it reaches a BRK and every         *)
(*                      assertion placed at a pc of the path holds in the state of that      *)
(*                      visit; failed at the first (visit, assertion) that does not          *)
(*   Tick(T, s, once)   the implementation-shaped machine, one `execute_instruction' per     *)
(*                      step: fire the assertions matched to the pc, evaluate, test for BRK, *)
(*                      execute.  once = TRUE is the deviation AssertionFiresOnce: matched   *)
(*                      assertions are removed from the pending list.                       *)
EXTENDS Cpu

E == INSTANCE Expr
A == INSTANCE Asm          \* only its pure helpers: Key, Lookup, JoinPath

Num(n) == [k |-> "num", n |-> n]
DEFAULT_PC == 49152
FUEL == 60000              \* instructions after which a run counts as not terminating (nested 256-iteration loops fit)

(* ---------------------------------------------------------------- expressions *)
RECURSIVE Ids(_)
Ids(t) == CASE t.k = "id" -> {[name |-> t.name, path |-> t.path]}
            [] t.k \in {"par", "fac", "ram", "ram16"} -> Ids(t.e)
            [] t.k = "bin" -> Ids(t.l) \cup Ids(t.r)
            [] OTHER -> {}

Resolvable(tab, scope, id) == LET r == A!Lookup(tab, scope, id.path) IN r.found /\ tab[r.key].k = "num"
EnvOf(t, tab, scope) ==
  LET ids == {i \in Ids(t) : Resolvable(tab, scope, i)} IN
  [nm \in {i.name : i \in ids} |-> LET i == CHOOSE i \in ids : i.name = nm IN tab[A!Lookup(tab, scope, i.path).key]]
Unresolved(t, tab, scope) == {i \in Ids(t) : ~Resolvable(tab, scope, i)}

Bottom == [k |-> "bin", op |-> "/", l |-> Num(1), r |-> Num(0)]      \* a tree whose value is E!UNDEF
RECURSIVE NoRam(_, _, _, _)
(* replace ram(e) / ram16(e) by the byte / little-endian word found in memory.  ram16($ffff) takes its high byte *)
(* from $0000: reads wrap around the 64K address space, as the implementation does since 730f81e (the property   *)
(* itself is silent about a word at the last address; this mirrors the code).                                     *)
NoRam(t, env, pc, mem) ==
  CASE t.k \in {"ram", "ram16"} ->
         LET v == E!Eval(NoRam(t.e, env, pc, mem), env, pc) IN
         IF v.k # "num" THEN Bottom
         ELSE IF v.n < 0 \/ v.n > 65535 THEN Bottom                        \* silent: no such address in the machine
         ELSE Num(IF t.k = "ram" THEN Rd(mem, v.n) ELSE Rd16(mem, v.n))
    [] t.k = "par" -> [t EXCEPT !.e = NoRam(t.e, env, pc, mem)]
    [] t.k = "fac" -> [t EXCEPT !.e = NoRam(t.e, env, pc, mem)]
    [] t.k = "bin" -> [t EXCEPT !.l = NoRam(t.l, env, pc, mem), !.r = NoRam(t.r, env, pc, mem)]
    [] OTHER -> t

(* CPU registers and flags as symbols.  Whether a set flag reads 1 or its mask bit is not fixed by *)
(* the property: both conventions are evaluated and an assertion on which they disagree is silent.  *)
CpuSyms(c, conv) ==
  LET fl(b, m) == Num(IF b THEN (IF conv = "mask" THEN m ELSE 1) ELSE 0) IN
  ("cpu.a" :> Num(c.a)) @@ ("cpu.x" :> Num(c.x)) @@ ("cpu.y" :> Num(c.y)) @@ ("cpu.sp" :> Num(c.sp)) @@
  ("cpu.flags.carry" :> fl(c.f.c, 1)) @@ ("cpu.flags.zero" :> fl(c.f.z, 2)) @@
  ("cpu.flags.interrupt_disable" :> fl(c.f.i, 4)) @@ ("cpu.flags.decimal" :> fl(c.f.d, 8)) @@
  ("cpu.flags.overflow" :> fl(c.f.v, 64)) @@ ("cpu.flags.negative" :> fl(c.f.n, 128))

(* "true" / "false" (zero, or cannot be evaluated) / "unspec" (the property is silent) *)
TruthC(a, c, sigma, conv) ==
  LET tab == CpuSyms(c, conv) @@ a.idx @@ sigma IN
  IF Unresolved(a.e, tab, a.scope) # {} THEN "false"
  ELSE LET env == EnvOf(a.e, tab, a.scope)
           v == E!Eval(NoRam(a.e, env, a.pc, c.mem), env, a.pc) IN
       IF v.k = "num" THEN (IF v.n = 0 THEN "false" ELSE "true") ELSE "unspec"
Truth(a, c, sigma) ==
  LET m == TruthC(a, c, sigma, "mask") IN IF m = TruthC(a, c, sigma, "bit") THEN m ELSE "unspec"

(* ---------------------------------------------------------------- layout *)
(* walk state: segs name -> [pc, mem], cur, scope, tab (definitions of this walk), idx (loop indices  *)
(* in force), asserts, entry / entrySeg (of the active test), unres (a reference was unknown: the     *)
(* statement emitted nothing, as in an assembler pass), bad (outside what this layout describes)       *)
TPc(st) == st.segs[st.cur].pc + st.segs[st.cur].toff          \* labels, `*', assertions and the cpu use target addresses
Emit(st, bytes) ==
  LET s == st.segs[st.cur]
      n == Len(bytes) IN
  IF s.pc + n > 65536 THEN [st EXCEPT !.bad = TRUE]
  ELSE [st EXCEPT !.segs[st.cur] = [s EXCEPT !.pc = s.pc + n, !.mem = [a \in s.pc..(s.pc + n - 1) |-> bytes[a - s.pc + 1]] @@ s.mem],
                  !.first = IF st.inTest /\ @ < 0 /\ n > 0 THEN s.pc + s.toff ELSE @]
Define(st, name, v) == [st EXCEPT !.tab = (A!Key(st.scope, <<name>>) :> v) @@ @]
Front(s) == SubSeq(s, 1, Len(s) - 1)

(* value of an operand: references are looked up in sigma (the converged symbol table) *)
Operand(e, st, sigma) ==
  LET tab == st.idx @@ sigma IN
  IF Unresolved(e, tab, st.scope) # {} THEN [k |-> "unres"]
  ELSE LET env == EnvOf(e, tab, st.scope) IN E!Eval(NoRam(e, env, TPc(st), <<>>), env, TPc(st))

RECURSIVE LaySeq(_, _, _, _), LayStmt(_, _, _, _), LayLoop(_, _, _, _, _), LayData(_, _, _, _, _)
LaySeq(ss, st, sigma, active) ==
  IF ss = <<>> THEN st ELSE LaySeq(Tail(ss), LayStmt(Head(ss), st, sigma, active), sigma, active)

LayLoop(s, i, st, sigma, active) ==
  IF i >= s.n THEN st
  ELSE LET k  == A!Key(Append(st.scope, s.sid), <<"index">>)
           s1 == [st EXCEPT !.scope = Append(@, s.sid), !.idx = (k :> Num(i)) @@ @]
           s2 == LaySeq(s.body, s1, sigma, active) IN
       LayLoop(s, i + 1, [s2 EXCEPT !.scope = st.scope, !.idx = st.idx], sigma, active)

LayData(es, w, st, sigma, active) ==
  IF es = <<>> THEN st
  ELSE LET v == Operand(Head(es), st, sigma) IN
       LayData(Tail(es), w, IF v.k = "unres" THEN [st EXCEPT !.unres = TRUE]
                            ELSE IF v.k # "num" THEN [st EXCEPT !.bad = TRUE]
                            ELSE Emit(st, E!Store(v.n, w)), sigma, active)

LayStmt(s, st, sigma, active) ==
  CASE s.k = "insn" ->
        IF s.form = "imp"
          THEN LET enc == I!Encode(s.mn, "imp", 0, 0) IN
               IF enc.k = "bytes" THEN Emit(st, enc.b) ELSE [st EXCEPT !.bad = TRUE]
        ELSE LET v == Operand(s.e, st, sigma) IN
          IF v.k = "unres" THEN [st EXCEPT !.unres = TRUE]
          ELSE IF v.k # "num" THEN [st EXCEPT !.bad = TRUE]
          ELSE LET enc == I!Encode(s.mn, s.form, v.n, TPc(st)) IN
               IF enc.k = "bytes" THEN Emit(st, enc.b) ELSE [st EXCEPT !.bad = TRUE]
    [] s.k = "label" ->
        LET s1 == Define(st, s.name, Num(TPc(st))) IN
        IF s.hasBody THEN [LaySeq(s.body, [s1 EXCEPT !.scope = Append(@, s.name)], sigma, active) EXCEPT !.scope = st.scope]
        ELSE s1
    [] s.k = "braces" ->
        [LaySeq(s.body, [st EXCEPT !.scope = Append(@, s.sid)], sigma, active) EXCEPT !.scope = st.scope]
    [] s.k = "const" ->
        LET v == Operand(s.e, st, sigma) IN
        IF v.k = "unres" THEN [st EXCEPT !.unres = TRUE]
        ELSE IF v.k # "num" THEN [st EXCEPT !.bad = TRUE]
        ELSE Define(st, s.name, v)
    [] s.k = "var" ->
        (* `.var name = e': a variable holds, at every point of the walk, the value assigned last before that point (it is no   *)
        (* part of the converged table: a use in front of the first assignment is unresolved).  Bound like the loop index:      *)
        (* position-dependent, so an assertion sees the value of its own place (its record carries idx).                        *)
        LET v == Operand(s.e, st, sigma) IN
        IF v.k = "unres" THEN [st EXCEPT !.unres = TRUE]
        ELSE IF v.k # "num" THEN [st EXCEPT !.bad = TRUE]
        ELSE [st EXCEPT !.idx = (A!Key(st.scope, <<s.name>>) :> v) @@ @]
    [] s.k = "data" -> LayData(s.es, s.w, st, sigma, active)
    [] s.k = "loop" -> LayLoop(s, 0, st, sigma, active)
    [] s.k = "assert" ->
        (* captured wherever it is assembled while a test is active: inside the test, in scopes, in subroutines *)
        [st EXCEPT !.asserts = Append(@, [aid |-> s.aid, pc |-> TPc(st), seg |-> st.cur, e |-> s.e, scope |-> st.scope, idx |-> st.idx,
                                          hasMsg |-> s.hasMsg, msg |-> s.msg])]
    [] s.k = "test" ->
        IF A!Key(st.scope, <<s.name>>) # active THEN st         \* bodies of the other tests are not assembled at all
        ELSE LET pc0 == TPc(st)
                 r == LaySeq(s.body, [st EXCEPT !.inTest = TRUE, !.first = -1], sigma, active) IN       \* no scope of its own
             (* entry: the test's first instruction = the first byte its body emits (a `* =' may precede it);
                entry0: the address at which the .test directive stands (where the implementation starts the cpu:
                deviation TestStartsAtDirectiveAddress) *)
             [Define(r, s.name, Num(pc0)) EXCEPT !.inTest = FALSE, !.entry = IF r.first >= 0 THEN r.first ELSE pc0, !.entry0 = pc0,
                                                 !.entrySeg = st.cur]
    [] s.k = "setpc" ->
        LET v == Operand(s.e, st, sigma) IN
        IF v.k = "unres" THEN [st EXCEPT !.unres = TRUE]
        ELSE IF v.k # "num" \/ v.n < 0 \/ v.n > 65535 THEN [st EXCEPT !.bad = TRUE]
        ELSE IF v.n - st.segs[st.cur].toff < 0 \/ v.n - st.segs[st.cur].toff > 65535 THEN [st EXCEPT !.bad = TRUE]
        ELSE [st EXCEPT !.segs[st.cur].pc = v.n - st.segs[st.cur].toff]       \* `*' is the address the code runs at (see Asm.tla)
    [] s.k = "useseg" ->
        IF s.name \notin DOMAIN st.segs THEN [st EXCEPT !.bad = TRUE]
        ELSE [LaySeq(s.body, [st EXCEPT !.cur = s.name], sigma, active) EXCEPT !.cur = st.cur]
    [] s.k = "iftest" -> LaySeq(s.body, st, sigma, active)      \* `.if defined(TEST) { .. }': TEST is defined whenever tests are run
    [] s.k = "import" ->
        (* the file is assembled in an anonymous scope below the importing one; everything it defines is then also
           visible (aliased) in the importing scope.  A test of the file keeps the path through the import scope. *)
        LET fs == {i \in 1..Len(st.files) : st.files[i].name = s.file} IN
        IF fs = {} THEN [st EXCEPT !.bad = TRUE]
        ELSE LET r == LaySeq(st.files[CHOOSE i \in fs : TRUE].items, [st EXCEPT !.scope = Append(@, s.sid)], sigma, active)
                 from == A!JoinPath(Append(st.scope, s.sid)) \o "."
                 to == IF st.scope = <<>> THEN "" ELSE A!JoinPath(st.scope) \o "."
                 exported == {k \in DOMAIN r.tab : A!HasPrefix(k, from)}
                 alias == [k2 \in {to \o A!Suffix(k, from) : k \in exported} |->
                             r.tab[CHOOSE k \in exported : to \o A!Suffix(k, from) = k2]] IN
             [r EXCEPT !.scope = st.scope, !.tab = alias @@ @]
    [] OTHER -> [st EXCEPT !.bad = TRUE]

SegDefs(prj) == IF prj.segdefs = <<>>
                  THEN <<[name |-> "default", bank |-> "default", start |-> DEFAULT_PC, pc |-> DEFAULT_PC, write |-> TRUE, size |-> 0]>>
                  ELSE prj.segdefs
Lay0(prj) ==
  LET sd == SegDefs(prj) IN
  [segs |-> [n \in {sd[i].name : i \in 1..Len(sd)} |->
               LET d == CHOOSE d \in {sd[i] : i \in 1..Len(sd)} : d.name = n IN [pc |-> d.start, mem |-> <<>>, toff |-> d.pc - d.start]],
   cur |-> sd[1].name, scope |-> <<>>, tab |-> <<>>, idx |-> <<>>, asserts |-> <<>>, entry |-> -1, entry0 |-> -1, entrySeg |-> "",
   files |-> prj.files, inTest |-> FALSE, first |-> -1, unres |-> FALSE, bad |-> FALSE]
Lay(prj, active, sigma) == LaySeq(prj.items, Lay0(prj), sigma, active)

(* the assembler's fixed point: walk again under the previous walk's symbols until nothing moves *)
RECURSIVE Fix(_, _, _, _)
Fix(prj, active, sigma, n) ==
  LET r == Lay(prj, active, sigma) IN
  IF r.bad THEN [ok |-> FALSE, lay |-> r]
  ELSE IF r.tab = sigma /\ ~r.unres THEN [ok |-> TRUE, lay |-> r]
  ELSE IF n = 0 THEN [ok |-> FALSE, lay |-> r]
  ELSE Fix(prj, active, r.tab, n - 1)

(* RAM of a test: the segments of the bank the test lies in (later definitions over earlier); nothing else *)
RECURSIVE BankMem(_, _, _, _)
(* target = FALSE: the file image (written segments at their storage addresses);  TRUE: every segment at the address it runs at *)
BankMem(sd, segs, bank, target) ==
  IF sd = <<>> THEN <<>>
  ELSE LET rest == BankMem(Front(sd), segs, bank, target)
           d == sd[Len(sd)]
           m == segs[d.name].mem
           t == segs[d.name].toff IN
       IF d.bank # bank THEN rest
       ELSE IF target THEN [a \in {k + t : k \in DOMAIN m} |-> m[a - t]] @@ rest
       ELSE IF d.write THEN m @@ rest ELSE rest

(* T = [ok, entry, entry0, mem, mem0, asserts, allAsserts, sigma]: the assembled test (ok = FALSE: outside the layout)      *)
(*   mem        what the test sees: its bank's file image, and every segment of the bank where its code runs                *)
(*   mem0       the file image alone (implementation before the repair: deviation TestCodeNotAtTargetAddress)               *)
(*   asserts    the assertions assembled into segments of the test's bank ("each test sees only the bank it is defined in") *)
(*   allAsserts every assertion assembled (matched by pc alone: deviation AssertionOfOtherBankFires)                         *)
Layout(prj, active) ==
  LET f == Fix(prj, active, <<>>, 6)
      sd == SegDefs(prj) IN
  IF ~f.ok \/ f.lay.entry < 0 THEN [ok |-> FALSE, entry |-> 0, entry0 |-> 0, mem |-> <<>>, mem0 |-> <<>>, asserts |-> <<>>, allAsserts |-> <<>>,
                                    sigma |-> <<>>, base |-> 0]
  ELSE LET BankOf(n) == (CHOOSE d \in {sd[i] : i \in 1..Len(sd)} : d.name = n).bank
           bank == BankOf(f.lay.entrySeg)
           InBank(a) == BankOf(a.seg) = bank
           m0 == BankMem(sd, f.lay.segs, bank, FALSE) IN
       [ok |-> TRUE, entry |-> f.lay.entry, entry0 |-> f.lay.entry0, mem |-> BankMem(sd, f.lay.segs, bank, TRUE) @@ m0, mem0 |-> m0,
        asserts |-> SelectSeq(f.lay.asserts, InBank), allAsserts |-> f.lay.asserts, sigma |-> f.lay.tab, base |-> 0]

(* tests in the order `mos test' runs them (the harness supplies the order of their source positions) *)
RECURSIVE TestNames(_, _)
TestNames(ss, scope) ==
  IF ss = <<>> THEN <<>>
  ELSE LET s == Head(ss)
           here == CASE s.k = "test" -> <<A!Key(scope, <<s.name>>)>>
                     [] s.k = "label" /\ s.hasBody -> TestNames(s.body, Append(scope, s.name))
                     [] s.k = "braces" -> TestNames(s.body, Append(scope, s.sid))
                     [] s.k = "useseg" -> TestNames(s.body, scope)
                     [] s.k = "iftest" -> TestNames(s.body, scope)
                     [] OTHER -> <<>>
       IN here \o TestNames(Tail(ss), scope)

(* tests of imported files come after those of the entry file (`mos test' orders by file, then position) and are *)
(* named through the import's scope                                                                              *)
RECURSIVE ImportedTests(_, _)
ImportedTests(prj, ss) ==
  IF ss = <<>> THEN <<>>
  ELSE LET s == Head(ss) IN
       (IF s.k = "import" /\ (\E i \in 1..Len(prj.files) : prj.files[i].name = s.file)
          THEN TestNames(prj.files[CHOOSE i \in 1..Len(prj.files) : prj.files[i].name = s.file].items, <<s.sid>>) ELSE <<>>)
       \o ImportedTests(prj, Tail(ss))
OwnTests(prj) == TestNames(prj.items, <<>>)
(* the tests an enumeration without the TEST constant finds (deviation TestConstantMissingAtEnumeration) *)
RECURSIVE DropIfTest(_)
DropIfTest(ss) == IF ss = <<>> THEN <<>>
                  ELSE LET s == Head(ss) IN
                       (IF s.k = "iftest" THEN <<>>
                        ELSE IF s.k \in {"label", "braces", "useseg"} /\ s.body # <<>> THEN <<[s EXCEPT !.body = DropIfTest(s.body)]>>
                        ELSE <<s>>) \o DropIfTest(Tail(ss))
HasIfTest(prj) == DropIfTest(prj.items) # prj.items
TestsWithoutTEST(prj) == TestNames(DropIfTest(prj.items), <<>>) \o ImportedTests(prj, prj.items)
AllTests(prj) == OwnTests(prj) \o ImportedTests(prj, prj.items)

(* ---------------------------------------------------------------- the property, declaratively *)
(* the machine's path from the entry: states before each instruction, ending at a BRK, at an      *)
(* instruction outside the modelled subset, when the fuel is used up -- or at the first state in   *)
(* which an assertion placed at its pc is not true: what the machine would do after that point     *)
(* cannot matter to the verdict (and a failing test may well loop forever behind its failure)      *)
Holds(T, c) == \A j \in 1..Len(T.asserts) : T.asserts[j].pc = c.pc => Truth(T.asserts[j], c, T.sigma) = "true"
(* (evaluated in chunks of CHUNK states: TLC does not eliminate tail calls, and a recursion thousands of levels deep *)
(*  makes every garbage collection scan a huge stack - measured cubic cost in the length of the run)               *)
CHUNK == 128
RECURSIVE PathChunk(_, _, _, _), PathFrom(_, _, _)
PathChunk(T, c, fuel, k) ==
  IF c.unspec THEN [p |-> <<>>, c |-> c, fuel |-> fuel, done |-> TRUE]
  ELSE IF Rd(c.mem, c.pc) = 0 \/ fuel = 0 \/ ~Holds(T, c) THEN [p |-> <<c>>, c |-> c, fuel |-> fuel, done |-> TRUE]
  ELSE IF k = 0 THEN [p |-> <<>>, c |-> c, fuel |-> fuel, done |-> FALSE]
  ELSE LET r == PathChunk(T, Step(c), fuel - 1, k - 1) IN [r EXCEPT !.p = <<c>> \o @]
PathFrom(T, c, fuel) ==
  LET r == PathChunk(T, c, fuel, CHUNK) IN
  IF r.done THEN r.p ELSE r.p \o PathFrom(T, r.c, r.fuel)
Path(T) == PathFrom(T, Reset(T.entry, T.mem), FUEL)

(* tier 2 only: the registers along the implementation-shaped path (Cpu!StepM with mirror = TRUE, i.e. adc/sbc  *)
(* binary although D is set), assertions ignored.  Used to compare hook traces of runs on which the property is   *)
(* silent because of decimal mode; a mismatch there is model drift, never a violation.                          *)
RECURSIVE MirrorChunk(_, _, _), MirrorFrom(_, _)
MirrorChunk(c, fuel, k) ==
  IF c.unspec THEN [p |-> <<>>, c |-> c, fuel |-> fuel, done |-> TRUE]
  ELSE IF Rd(c.mem, c.pc) = 0 \/ fuel = 0 THEN [p |-> <<Regs(c)>>, c |-> c, fuel |-> fuel, done |-> TRUE]
  ELSE IF k = 0 THEN [p |-> <<>>, c |-> c, fuel |-> fuel, done |-> FALSE]
  ELSE LET r == MirrorChunk(StepM(c, TRUE), fuel - 1, k - 1) IN [r EXCEPT !.p = <<Regs(c)>> \o @]
MirrorFrom(c, fuel) ==
  LET r == MirrorChunk(c, fuel, CHUNK) IN
  IF r.done THEN r.p ELSE r.p \o MirrorFrom(r.c, r.fuel)
MirrorPath(T) == MirrorFrom(Reset(T.entry, T.mem), FUEL)

(* [v \in {"passed","failed","unspec"}, aid, visit, i] *)
Ideal(T) ==
  LET p == Path(T)
      n == Len(T.asserts)
      At(i) == {j \in 1..n : T.asserts[j].pc = p[i].pc}
      NotTrue == {<<i, j>> \in (1..Len(p)) \X (1..n) : j \in At(i) /\ Truth(T.asserts[j], p[i], T.sigma) # "true"}
      Less(u, w) == u[1] < w[1] \/ (u[1] = w[1] /\ u[2] <= w[2]) IN
  IF NotTrue # {}
    THEN LET u == CHOOSE u \in NotTrue : \A w \in NotTrue : Less(u, w) IN
         IF Truth(T.asserts[u[2]], p[u[1]], T.sigma) = "false"
           THEN [v |-> "failed", aid |-> T.asserts[u[2]].aid, i |-> u[1],
                 visit |-> Cardinality({i \in 1..u[1] : p[i].pc = T.asserts[u[2]].pc})]
           ELSE [v |-> "unspec", aid |-> 0, i |-> u[1], visit |-> 0]
  ELSE LET last == p[Len(p)] IN
       IF Len(p) = 0 THEN [v |-> "unspec", aid |-> 0, i |-> 0, visit |-> 0]
       ELSE IF Rd(last.mem, last.pc) = 0 THEN [v |-> "passed", aid |-> 0, i |-> Len(p), visit |-> 0]
       ELSE [v |-> "unspec", aid |-> 0, i |-> Len(p), visit |-> 0]          \* does not terminate / leaves the subset

(* ---------------------------------------------------------------- the runner, step by step *)
(* s = [c, pending, status, aid, n, trace, fired]                                                 *)
(*   pending: positions in T.asserts (an assertion inside an assembly-time loop is one element per iteration) *)
Start(T) == [c |-> Reset(T.entry, T.mem), pending |-> 1..Len(T.asserts),
             status |-> "running", aid |-> 0, n |-> 0, trace |-> <<>>, fired |-> <<>>]

Tick(T, s, once) ==
  LET c == s.c
      IsHere(j) == T.asserts[j].pc = c.pc /\ (~once \/ j \in s.pending)
      hereIds == SelectSeq([j \in 1..Len(T.asserts) |-> j], IsHere)
      here == [i \in 1..Len(hereIds) |-> T.asserts[hereIds[i]]]
      bad == {i \in 1..Len(here) : Truth(here[i], c, T.sigma) # "true"}
      s1 == [s EXCEPT !.pending = IF once THEN @ \ {hereIds[i] : i \in 1..Len(hereIds)} ELSE @, !.n = @ + 1, !.trace = Append(@, Regs(c)),
                      !.fired = Append(@, [i \in 1..Len(here) |-> here[i].aid])] IN
  IF c.unspec THEN [s EXCEPT !.status = "unspec"]
  ELSE IF bad # {}
    THEN LET i == CHOOSE i \in bad : \A j \in bad : i <= j IN
         IF Truth(here[i], c, T.sigma) = "false" THEN [s1 EXCEPT !.status = "failed", !.aid = here[i].aid]
         ELSE [s1 EXCEPT !.status = "unspec"]
  ELSE IF Rd(c.mem, c.pc) = 0 THEN [s1 EXCEPT !.status = "passed"]
  ELSE IF s.n >= FUEL THEN [s1 EXCEPT !.status = "unspec"]
  ELSE [s1 EXCEPT !.c = Step(c)]

RECURSIVE RunChunk(_, _, _, _), RunFrom(_, _, _)
RunChunk(T, s, once, k) == IF s.status # "running" \/ k = 0 THEN s ELSE RunChunk(T, Tick(T, s, once), once, k - 1)
RunFrom(T, s, once) == LET r == RunChunk(T, s, once, CHUNK) IN IF r.status # "running" THEN r ELSE RunFrom(T, r, once)
Run(T, once) == RunFrom(T, Start(T), once)

(* the narrow witness of the open finding: the assertion the property fails the test at had already *)
(* been matched on an earlier visit of its pc                                                     *)
FiresOnceWitness(id) == id.v = "failed" /\ id.visit > 1

(* the narrow witness under which a crash of `mos test' inside test T is a recorded finding:                *)
(*  "overflow": T's path, every assertion on it true, arrives at an instruction that touches $FFFF (TopEdge) *)
(*              or at a halting (KIL) opcode: both end in an arithmetic overflow panic inside the emulator     *)
(*  ("silent": the property says nothing about T from some point on, so the witness cannot be evaluated)     *)
KIL == {2, 18, 34, 50, 66, 82, 98, 114, 146, 178, 210, 242}      \* the halting opcodes: 0 cycles in the emulator crate's table
CrashWitness(T) ==
  LET id == Ideal(T)
      p == Path(T) IN
  IF id.v = "unspec" /\ Len(p) > 0 /\ (TopEdge(p[Len(p)]) \/ Rd(p[Len(p)].mem, p[Len(p)].pc) \in KIL) /\ Holds(T, p[Len(p)])
     /\ Rd(p[Len(p)].mem, p[Len(p)].pc) # 0 THEN "overflow"
  ELSE IF id.v = "unspec" THEN "silent"          \* the model has left the test earlier (decimal add, unmodelled instruction, fuel): it cannot tell
  ELSE "none"

(* does a finished run agree with the property? *)
Agrees(s, id) ==
  \/ id.v = "unspec" \/ s.status = "unspec"
  \/ id.v = "passed" /\ s.status = "passed"
  \/ id.v = "failed" /\ s.status = "failed" /\ s.aid = id.aid
================================================================================
