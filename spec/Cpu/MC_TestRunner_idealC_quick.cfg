SPECIFICATION Spec
CONSTANT MaxLen = 4
CONSTANT Deviations = {}
CONSTANT EmitCase = TRUE
CONSTANT EmitMod = 3
CONSTANT Alphabet = "C"
CONSTANT MCFuelC = 60
CONSTANT NB = 14
CONSTANT FUEL <- MCFuel
INVARIANT VerdictReflectsState
INVARIANT VerdictStrict
INVARIANT EmitCases
INVARIANT TypeInv
INVARIANT FollowsPath
INVARIANT FailureIsReal
INVARIANT NothingDisarmed
