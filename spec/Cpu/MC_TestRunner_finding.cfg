SPECIFICATION Spec
CONSTANT MaxLen = 3
CONSTANT Deviations = {"AssertionFiresOnce"}
CONSTANT EmitCase = FALSE
CONSTANT EmitMod = 1
CONSTANT FUEL <- MCFuel
INVARIANT VerdictStrict
