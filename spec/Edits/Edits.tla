---------------------------------- MODULE Edits ----------------------------------
(* LSP text edits (C17).  A document is a sequence of UTF-16 code units (10 = line feed); a position is             *)
(* (line, character) with character counted in UTF-16 code units, as the LSP specification prescribes.               *)
(* An edit is [sl, sc, el, ec, new] with new a sequence of code units.                                               *)
(*   WellFormed(doc, edits)  in range, ordered, non-overlapping                                                      *)
(*   Apply(doc, edits)       the standard LSP semantics: all ranges refer to the original document                    *)
(*   EditsOf(chunks, mode)   what the server's formatting handler computes from a diff: the delete/equal/insert       *)
(*                           merge rule and the line/character tracker (mode "u16": columns in code units, the ideal; *)
(*                           mode "bytes": columns advance by UTF-8 bytes, as coded in formatting.rs RangeKeeper)      *)
EXTENDS Integers, Sequences, FiniteSets, TLC

NL == 10
NumLines(doc) == 1 + Cardinality({i \in 1..Len(doc) : doc[i] = NL})
(* offset (0-based) of the first unit of line k (0-based) *)
RECURSIVE LineStartFrom(_, _, _)
LineStartFrom(doc, k, from) ==
  IF k = 0 THEN from
  ELSE IF from >= Len(doc) THEN Len(doc)
  ELSE LineStartFrom(doc, IF doc[from + 1] = NL THEN k - 1 ELSE k, from + 1)
LineStart(doc, k) == LineStartFrom(doc, k, 0)
(* length of line k without its terminator (a CR before the LF belongs to the terminator) *)
LineEnd(doc, k) == LET nxt == LineStart(doc, k + 1) IN
                   IF k + 1 >= NumLines(doc) THEN Len(doc)
                   ELSE IF nxt >= 2 /\ doc[nxt - 1] = 13 THEN nxt - 2 ELSE nxt - 1
LineLen(doc, k) == LineEnd(doc, k) - LineStart(doc, k)

InRange(doc, e) == /\ e.sl >= 0 /\ e.el < NumLines(doc) /\ e.sc >= 0 /\ e.ec >= 0
                   /\ (e.sl < e.el \/ (e.sl = e.el /\ e.sc <= e.ec))
                   /\ e.sc <= LineLen(doc, e.sl) /\ e.ec <= LineLen(doc, e.el)
Before(a, b) == a.el < b.sl \/ (a.el = b.sl /\ a.ec <= b.sc)          \* a ends where or before b starts
WellFormed(doc, edits) == /\ \A i \in 1..Len(edits) : InRange(doc, edits[i])
                          /\ \A i \in 1..(Len(edits) - 1) : Before(edits[i], edits[i + 1])

Min(a, b) == IF a < b THEN a ELSE b
Offset(doc, line, ch) == IF line >= NumLines(doc) THEN Len(doc) ELSE LineStart(doc, line) + Min(ch, LineLen(doc, line))
Slice(doc, a, b) == IF b <= a THEN <<>> ELSE SubSeq(doc, a + 1, b)        \* units a..b-1 (0-based, half open)

(* LSP application of well-formed (ordered) edits *)
RECURSIVE ApplyFrom(_, _, _, _)
ApplyFrom(doc, edits, i, at) ==
  IF i > Len(edits) THEN Slice(doc, at, Len(doc))
  ELSE LET a == Offset(doc, edits[i].sl, edits[i].sc)
           b == Offset(doc, edits[i].el, edits[i].ec) IN
       Slice(doc, at, a) \o edits[i].new \o ApplyFrom(doc, edits, i + 1, IF b > at THEN b ELSE at)
Apply(doc, edits) == ApplyFrom(doc, edits, 1, 0)

(* ---------------------------------------------------------------- the handler, as a function of the diff *)
(* chunk = [op \in {"eq", "del", "ins"}, s]  *)
Utf8Width(u) == IF u < 128 THEN 1 ELSE IF u < 2048 THEN 2 ELSE IF u >= 55296 /\ u <= 57343 THEN 2 ELSE 3   \* a surrogate pair is 4 bytes
Width(s, mode) == IF mode = "u16" THEN Len(s)
                  ELSE LET F[i \in 0..Len(s)] == IF i = 0 THEN 0 ELSE F[i - 1] + Utf8Width(s[i]) IN F[Len(s)]
LastNl(s) == IF \E i \in 1..Len(s) : s[i] = NL THEN CHOOSE i \in 1..Len(s) : s[i] = NL /\ \A j \in (i + 1)..Len(s) : s[j] # NL ELSE 0
Push(rk, s, mode) ==
  LET n == Cardinality({i \in 1..Len(s) : s[i] = NL}) IN
  IF n = 0 THEN [line |-> rk.line, ch |-> rk.ch + Width(s, mode)]
  ELSE [line |-> rk.line + n, ch |-> Width(SubSeq(s, LastNl(s) + 1, Len(s)), mode)]
ToEdit(rk, del, ins, mode) == LET e == Push(rk, del, mode) IN [sl |-> rk.line, sc |-> rk.ch, el |-> e.line, ec |-> e.ch, new |-> ins]

RECURSIVE EditsFrom(_, _, _, _)
EditsFrom(ch, i, rk, mode) ==
  IF i > Len(ch) THEN <<>>
  ELSE LET c == ch[i] IN
    IF c.op = "del" /\ i + 2 <= Len(ch) /\ ch[i + 1].op = "eq" /\ ch[i + 2].op = "ins" /\ ch[i + 2].s = c.s
      THEN LET del == c.s \o ch[i + 1].s IN          \* delete X, keep E, insert X  ==>  replace XE by EX
           <<ToEdit(rk, del, ch[i + 1].s \o c.s, mode)>> \o EditsFrom(ch, i + 3, Push(rk, del, mode), mode)
    ELSE IF c.op = "del" /\ i + 1 <= Len(ch) /\ ch[i + 1].op = "ins"
      THEN <<ToEdit(rk, c.s, ch[i + 1].s, mode)>> \o EditsFrom(ch, i + 2, Push(rk, c.s, mode), mode)
    ELSE IF c.op = "eq" THEN EditsFrom(ch, i + 1, Push(rk, c.s, mode), mode)
    ELSE IF c.op = "ins" THEN <<ToEdit(rk, <<>>, c.s, mode)>> \o EditsFrom(ch, i + 1, rk, mode)
    ELSE <<ToEdit(rk, c.s, <<>>, mode)>> \o EditsFrom(ch, i + 1, Push(rk, c.s, mode), mode)
EditsOf(chunks, mode) == EditsFrom(chunks, 1, [line |-> 0, ch |-> 0], mode)

RECURSIVE Cat(_, _)
Cat(ch, ops) == IF ch = <<>> THEN <<>> ELSE (IF Head(ch).op \in ops THEN Head(ch).s ELSE <<>>) \o Cat(Tail(ch), ops)
OldOf(chunks) == Cat(chunks, {"eq", "del"})
NewOf(chunks) == Cat(chunks, {"eq", "ins"})

(* the property *)
Reproduces(doc, edits, target) == WellFormed(doc, edits) /\ Apply(doc, edits) = target
(* witness of the recorded deviation: a character outside ASCII on a line an edit starts or ends on *)
NonAsciiOnLine(doc, k) == k < NumLines(doc) /\ \E i \in (LineStart(doc, k) + 1)..LineEnd(doc, k) : doc[i] >= 128
ByteColumnWitness(doc, edits) == \E i \in 1..Len(edits) : NonAsciiOnLine(doc, edits[i].sl) \/ NonAsciiOnLine(doc, edits[i].el)
(* witness of the second recorded deviation: an edit position one past the end of a CRLF-terminated line, i.e. between  *)
(* the CR and the LF (the server treats the CR as a character of the line)                                              *)
CrlfLine(doc, k) == k + 1 < NumLines(doc) /\ LineStart(doc, k + 1) >= 2 /\ doc[LineStart(doc, k + 1) - 1] = 13
IntoCrlf(doc, k, c) == k < NumLines(doc) /\ CrlfLine(doc, k) /\ c = LineLen(doc, k) + 1
CrlfWitness(doc, edits) == \E i \in 1..Len(edits) : IntoCrlf(doc, edits[i].sl, edits[i].sc) \/ IntoCrlf(doc, edits[i].el, edits[i].ec)
================================================================================
