-------------------------------- MODULE EditsTrace --------------------------------
(* impl -> spec for C17.  One record per (buffer, request): r = [id, kind, status, answered (non-null edit list),      *)
(* doc: code units of the buffer, edits: <<[sl, sc, el, ec, new]>>, fmtOk, formatted: code units `mos format` wrote]   *)
EXTENDS Edits, Json, IOUtils
Rec == ndJsonDeserialize(IOEnv.TRACE)
VARIABLES l, bad
vars == <<l, bad>>
V(id, verdict, dev, why) == [id |-> id, verdict |-> verdict, dev |-> dev, why |-> why]

Judge(r) ==
  IF r.status # "ok" THEN <<V(r.id, "violation", "", "formatting request not answered: " \o r.status)>>
  ELSE IF ~r.answered \/ ~r.fmtOk THEN <<>>                  \* C17 speaks about requests answered with edits, on error-free buffers
  ELSE IF Reproduces(r.doc, r.edits, r.formatted) THEN <<>>
  ELSE IF CrlfWitness(r.doc, r.edits)
    THEN <<V(r.id, "deviation", "EditInsideCrlfTerminator", r.kind \o ": an edit position lies between the CR and LF of a line terminator")>>
  ELSE IF ByteColumnWitness(r.doc, r.edits)
    THEN <<V(r.id, "deviation", "EditColumnsInBytes", r.kind \o ": edits do not reproduce `mos format` on a buffer with a non-ASCII character before an edit")>>
  ELSE IF ~WellFormed(r.doc, r.edits) THEN <<V(r.id, "violation", "", r.kind \o ": edits out of range, unordered or overlapping")>>
  ELSE <<V(r.id, "violation", "", r.kind \o ": applying the edits does not yield the text `mos format` writes")>>

Init == l = 1 /\ bad = <<>>
Step == l <= Len(Rec) /\ bad' = bad \o Judge(Rec[l]) /\ l' = l + 1
Finish == l = Len(Rec) + 1 /\ ndJsonSerialize(IOEnv.OUT, bad) /\ l' = l + 1 /\ UNCHANGED bad
Next == Step \/ Finish
Spec == Init /\ [][Next]_vars
Consumed == TLCGet("stats").diameter >= Len(Rec) + 1
================================================================================
