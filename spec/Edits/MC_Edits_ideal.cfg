SPECIFICATION Spec
CONSTANT MaxChunks = 4
CONSTANT Mode = "u16"
INVARIANT Holds
