SPECIFICATION Spec
POSTCONDITION Consumed
