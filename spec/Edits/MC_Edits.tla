--------------------------------- MODULE MC_Edits ---------------------------------
(* Design level for C17: every diff of up to MaxChunks chunks over strings with ASCII, 2-, 3- and 4-byte characters   *)
(* and line feeds.  With the ideal tracker the handler's edits reproduce the new text; with the coded (byte) tracker   *)
(* they do so unless a non-ASCII character sits on a touched line (deviation EditColumnsInBytes).                       *)
EXTENDS Edits
CONSTANTS MaxChunks, Mode
Strs == {<<97>>, <<233>>, <<10>>, <<97, 10, 98>>, <<55357, 56832>>, <<27721, 32>>, <<32, 32>>}
Ops == {"eq", "del", "ins"}
VARIABLE chunks
Init == chunks = <<>>
Next == Len(chunks) < MaxChunks /\ \E o \in Ops, s \in Strs :
          /\ (IF chunks = <<>> THEN TRUE ELSE chunks[Len(chunks)].op # o)            \* a diff never has two adjacent chunks of one kind
          /\ chunks' = Append(chunks, [op |-> o, s |-> s])
Spec == Init /\ [][Next]_chunks
Holds == Reproduces(OldOf(chunks), EditsOf(chunks, Mode), NewOf(chunks))
HoldsW == Holds \/ ByteColumnWitness(OldOf(chunks), EditsOf(chunks, Mode))
================================================================================
