SPECIFICATION Spec
CONSTANT MaxChunks = 4
CONSTANT Mode = "bytes"
INVARIANT HoldsW
