------------------------------ MODULE MC_Format ------------------------------
(* Design level for C12: the formatter machine (Visit token by token, then Join chunk by chunk) run by TLC on     *)
(* every statement form x every gap x every comment kind x the option grid.  Invariants at the end of a run:      *)
(*   CommentsKept   every comment of the source is in the chunk list, in order   (C12 "never loses comments")    *)
(*   NoJoin         a line comment is the last thing on its output line          (C12 "never changes meaning")   *)
(*   TerminalsKept  the code/label chunks spell exactly the terminals of the source, in order                    *)
(*   StepwiseIsFunctional  the stepwise machine ends in Format(file, opts)                                        *)
(* Two constants: Devs (Format.tla) selects for every recorded defect the pinned or the repaired reading of the    *)
(* machine; Allowed names the deviations by which the invariants are weakened.  A regular run has Devs = Allowed  *)
(* = the findings still open.  For every recorded defect d - open or repaired - a run with d in Devs and d not in *)
(* Allowed must be refuted by TLC: that is the design-level exhibition of the defect (open) resp. the binding     *)
(* demonstration that the pinned reading is no longer what the property accepts (repaired).                      *)
(* Every finished run is printed as a case for replay into the real formatter.                                   *)
EXTENDS Format, Json

CONSTANTS Allowed, Indents, Margins, CodeMargins, ReplayIndent, CasePairs,
          FormLimit     \* only Forms[1..FormLimit] are used (31 = all; the width-boundary run uses a few)

T0 == <<>>
W == <<[k |-> "ws", p |-> <<" ">>]>>
N1 == <<[k |-> "nl", p |-> <<>>]>>
P(t, j, g) == [g |-> g, t |-> t, j |-> j]
St(k, tag, p1, p2, blk, lead) == [k |-> k, lead |-> lead, tag |-> tag, p1 |-> p1, p2 |-> p2, blk |-> blk, ge |-> T0]
Nop == St("insn", "nop", <<>>, <<>>, <<>>, N1 \o W)
B(body) == [l |-> W, body |-> body, r |-> W]
NopIn == St("insn", "nop", <<>>, <<>>, <<>>, W)

(* one base statement per form; every Part / block brace / else is a gap that can take a comment *)
Forms == <<
  St("insn", "lda", <<P("#", "t", W), P("1", "t", T0)>>, <<>>, <<>>, T0),
  St("insn", "sta", <<P("$d020", "t", W), P(",", "c", T0), P("x", "r", W)>>, <<>>, <<>>, T0),
  St("insn", "lda", <<P("(", "t", W), P("$10", "t", T0), P(")", "t", T0), P(",", "c", T0), P("y", "r", T0)>>, <<>>, <<>>, T0),
  St("label", "foo", <<>>, <<>>, <<>>, T0),
  St("label", "a_long_label", <<>>, <<>>, <<B(<<NopIn>>)>>, T0),
  St("data", ".byte", <<P("1", "t", W), P(",", "c", T0), P("2", "t", W)>>, <<>>, <<>>, T0),
  St("braces", "", <<>>, <<>>, <<[l |-> T0, body |-> <<NopIn>>, r |-> W]>>, T0),
  [St("if", ".if", <<P("1", "t", W)>>, <<>>, <<B(<<NopIn>>), B(<<NopIn>>)>>, T0) EXCEPT !.ge = W],
  St("loop", ".loop", <<P("2", "t", W)>>, <<>>, <<B(<<>>)>>, T0),
  St("var", ".const", <<P("c", "t", W), P("=", "t", W), P("1", "t", W), P("+", "b", W), P("2", "t", W)>>, <<>>, <<>>, T0),
  St("macro", ".macro", <<P("m", "t", W), P("(", "t", T0), P("a", "t", T0), P(")", "t", T0)>>, <<>>, <<B(<<NopIn>>)>>, T0),
  St("call", "m", <<P("(", "t", T0), P("1", "t", T0), P(")", "t", T0)>>, <<>>, <<>>, T0),
  St("assert", ".assert", <<P("1", "t", W)>>, <<P("\"m\"", "t", W)>>, <<>>, T0),
  St("trace", ".trace", <<>>, <<>>, <<>>, T0),
  St("text", ".text", <<P("\"t\"", "t", W)>>, <<P("petscii", "t", W)>>, <<>>, T0),
  St("pc", "*", <<P("=", "t", W), P("$1000", "t", W)>>, <<>>, <<>>, T0),
  (* 17.. : the remaining addressing forms, modifiers, directives, imports and configuration maps *)
  St("insn", "lda", <<P("(", "t", W), P("$10", "t", T0), P(",", "c", T0), P("x", "r", T0), P(")", "t", T0)>>, <<>>, <<>>, T0),
  St("insn", "jmp", <<P("(", "t", W), P("$1234", "t", T0), P(")", "t", T0)>>, <<>>, <<>>, T0),
  St("insn", "lda", <<P("#", "t", W), P("<", "t", T0), P("foo", "t", T0)>>, <<>>, <<>>, T0),
  St("data", ".dword", <<P("$12345678", "t", W)>>, <<>>, <<>>, T0),
  St("var", ".var", <<P("v", "t", W), P("=", "t", W), P("true", "t", W)>>, <<>>, <<>>, T0),
  St("align", ".align", <<P("8", "t", W)>>, <<>>, <<>>, T0),
  St("test", ".test", <<P("\"t\"", "t", W)>>, <<>>, <<B(<<NopIn>>)>>, T0),
  St("segment", ".segment", <<P("\"default\"", "t", W)>>, <<>>, <<>>, T0),
  St("segment", ".segment", <<P("\"default\"", "t", W)>>, <<>>, <<B(<<NopIn>>)>>, T0),
  St("file", ".file", <<P("\"f.bin\"", "t", W)>>, <<>>, <<>>, T0),
  St("text", ".text", <<P("\"a{c}b\"", "t", W)>>, <<P("petscreen", "t", W)>>, <<>>, T0),
  St("import", ".import", <<P("*", "c", W)>>, <<P("from", "t", W), P("\"o.asm\"", "t", W)>>, <<>>, T0),
  St("import", ".import", <<P("*", "c", W), P("as", "a", W), P("m", "t", W)>>, <<P("from", "t", W), P("\"o.asm\"", "t", W)>>, <<>>, T0),
  St("import", ".import", <<P("foo", "c", W), P("as", "a", W), P("bar", "t", W), P(",", "c", T0), P("baz", "c", W)>>,
     <<P("from", "t", W), P("\"o.asm\"", "t", W)>>, <<B(<<NopIn>>)>>, T0),
  St("define", ".define", <<P("segment", "t", W)>>, <<>>,
     <<B(<<St("cfgpair", "name", <<P("=", "t", W), P("s1", "t", W)>>, <<>>, <<>>, W),
          St("cfgpair", "start", <<P("=", "t", W), P("$4000", "t", W), P("+", "b", W), P("4", "t", W)>>, <<>>, <<>>, N1 \o W)>>)>>, T0) >>

Block1 == [k |-> "c", p |-> <<"/* c */">>]
Block2 == [k |-> "c", p |-> <<"/* c", "d */">>]
LineC == [k |-> "c", p |-> <<"// c">>]
(* comment trivia for a single-line gap (parser: ws) and for a multi-line gap (parser: mws) *)
Inline == {W \o <<Block1>> \o W, W \o <<Block2>> \o W}
Multi == Inline \cup {W \o <<LineC>> \o N1, N1 \o <<Block1>> \o N1}

Gaps(s) == {<<"lead", 0, 0>>} \cup {<<"p1", n, 0>> : n \in 1..Len(s.p1)} \cup {<<"p2", n, 0>> : n \in 1..Len(s.p2)}
           \cup (IF s.k = "braces" THEN {} ELSE {<<"bl", n, 0>> : n \in 1..Len(s.blk)}) \cup {<<"br", n, 0>> : n \in 1..Len(s.blk)}
           \cup (IF Len(s.blk) = 2 THEN {<<"ge", 0, 0>>} ELSE {})
           \cup (IF s.k = "define"      \* the gaps inside the key = value pairs of a configuration map
                 THEN UNION {{<<"il", n, 0>>} \cup {<<"ip", n, m>> : m \in 1..Len(s.blk[1].body[n].p1)} : n \in 1..Len(s.blk[1].body)} ELSE {})
(* parser: mws (newlines and line comments allowed) in front of a statement, "{", "}", else, `from`, and everywhere in a config map *)
IsMulti(s, g) == g[1] \in {"lead", "bl", "br", "ge", "il", "ip"} \/ (s.k = "import" /\ g[1] = "p2" /\ g[2] = 1)
Put(s, g, tr) ==
  CASE g[1] = "lead" -> [s EXCEPT !.lead = @ \o tr]
    [] g[1] = "p1" -> [s EXCEPT !.p1[g[2]].g = tr]
    [] g[1] = "p2" -> [s EXCEPT !.p2[g[2]].g = tr]
    [] g[1] = "bl" -> [s EXCEPT !.blk[g[2]].l = tr]
    [] g[1] = "br" -> [s EXCEPT !.blk[g[2]].r = tr]
    [] g[1] = "ge" -> [s EXCEPT !.ge = tr]
    [] g[1] = "il" -> [s EXCEPT !.blk[1].body[g[2]].lead = tr]
    [] g[1] = "ip" -> [s EXCEPT !.blk[1].body[g[2]].p1[g[3]].g = tr]

Variants(s, g, tr) == { [body |-> <<Nop, [Put(s, g, tr) EXCEPT !.lead = N1 \o @], Nop>>, eof |-> N1],
                        [body |-> <<Put(s, g, tr)>>, eof |-> T0] }
Files == UNION { UNION { UNION { Variants(Forms[f], g, tr) : tr \in (IF IsMulti(Forms[f], g) THEN Multi ELSE Inline) }
                         : g \in Gaps(Forms[f]) } : f \in 1..FormLimit }
(* two statements sharing a source line (no newline in the gap between them), and `else` already on a line of its own *)
Ident == St("insn", "lda", <<P("foo", "t", W)>>, <<>>, <<>>, T0)
SameLineFiles == { [body |-> <<a, [b EXCEPT !.lead = W]>>, eof |-> N1] : a \in {Ident, Forms[12], Forms[6]}, b \in {Forms[1], Forms[12], Forms[4], Forms[6]} }
(* a statement that shares its line with the closing brace of the previous statement's block: labelled block, bare block,
   .if/else, .loop, .macro, .test, .segment, .import with block, .define map *)
AfterBraceFiles == { [body |-> <<Forms[f], [b EXCEPT !.lead = W]>>, eof |-> N1] : f \in {5, 7, 8, 9, 11, 23, 25, 30, 31}, b \in {Forms[1], Forms[4]} }
ElseFiles == { [body |-> <<[Forms[8] EXCEPT !.ge = g]>>, eof |-> N1] : g \in {W, N1 \o W, N1 \o <<Block1>> \o N1} }
AllFiles == Files \cup SameLineFiles \cup AfterBraceFiles \cup ElseFiles
OptGrid == { [mcase |-> SubSeq(cp, 1, 1), rcase |-> SubSeq(cp, 2, 2), brace |-> b, indent |-> i, lm |-> m, align |-> a, cm |-> c]
             : cp \in CasePairs, b \in {"same", "new"}, i \in Indents, m \in Margins, a \in {"l", "r"}, c \in CodeMargins }

VARIABLES file, opts, phase, vst, i, js, k
vars == <<file, opts, phase, vst, i, js, k>>

Init == /\ file \in AllFiles /\ opts \in OptGrid
        /\ phase = "visit" /\ vst = VisitStart(VInit, file.body, file.eof, FALSE) /\ i = 1 /\ js = JInit /\ k = 1
VisitTok == /\ phase = "visit" /\ i <= Len(file.body) + 1
            /\ vst' = VisitStep(vst, file.body, file.eof, i, opts) /\ i' = i + 1
            /\ UNCHANGED <<file, opts, phase, js, k>>
StartJoin == /\ phase = "visit" /\ i = Len(file.body) + 2 /\ phase' = "join" /\ UNCHANGED <<file, opts, vst, i, js, k>>
JoinChunk == /\ phase = "join" /\ k <= Len(vst.ch)
             /\ js' = JoinStep(js, vst.ch, k, opts) /\ k' = k + 1
             /\ UNCHANGED <<file, opts, phase, vst, i>>
Emit == opts.indent = ReplayIndent => PrintT(<<"CASE", ToJson([file |-> file, opts |-> opts, text |-> JoinNl(js.res), special |-> file \in SameLineFiles \cup AfterBraceFiles \cup ElseFiles])>>)
Done == /\ phase = "join" /\ k = Len(vst.ch) + 1 /\ phase' = "done" /\ Emit /\ UNCHANGED <<file, opts, vst, i, js, k>>
Next == VisitTok \/ StartJoin \/ JoinChunk \/ Done
Spec == Init /\ [][Next]_vars

(* terminals of the source, spelled as the formatter has to print them (casing, canonical directive names) *)
RECURSIVE PartsText(_, _), BodyText(_, _)
PartsText(ps, o) == IF Len(ps) = 0 THEN "" ELSE (IF Head(ps).j = "r" THEN Cased(o.rcase, Head(ps).t) ELSE Head(ps).t) \o PartsText(Tail(ps), o)
BlkText(b, o) == "{" \o BodyText(b.body, o) \o "}"
StmtText(s, o) ==
  (IF s.k = "insn" THEN Cased(o.mcase, s.tag) ELSE IF s.k = "label" THEN s.tag \o ":" ELSE s.tag)
  \o (IF s.k = "text" THEN PartsText(s.p2, o) \o PartsText(s.p1, o) ELSE PartsText(s.p1, o) \o PartsText(s.p2, o))
  \o (IF Len(s.blk) >= 1 THEN BlkText(s.blk[1], o) ELSE "") \o (IF Len(s.blk) >= 2 THEN "else" \o BlkText(s.blk[2], o) ELSE "")
BodyText(body, o) == IF Len(body) = 0 THEN "" ELSE StmtText(Head(body), o) \o BodyText(Tail(body), o)
RECURSIVE Squeeze(_)
Squeeze(s) == IF Len(s) = 0 THEN "" ELSE (IF IsWs(Ch(s, 1)) THEN "" ELSE Ch(s, 1)) \o Squeeze(SubSeq(s, 2, Len(s)))
RECURSIVE ChunkText(_)
ChunkText(ch) == IF Len(ch) = 0 THEN "" ELSE (IF Head(ch).ty = "comment" THEN "" ELSE Squeeze(Head(ch).p[1])) \o ChunkText(Tail(ch))

AtEnd == phase = "done"
CommentsKept ==      \* the pinned readings may drop the comments of their gaps only while the deviation is tolerated
  AtEnd => \/ ChunkComments(vst.ch) = AllComments(file)
           \/ /\ ChunkComments(vst.ch) = ForwardedComments(file)
              /\ (BodyHasDroppedComment(file.body) /\ "OpenBraceGapDropped" \in Devs) => "OpenBraceGapDropped" \in Allowed
              /\ (BodyHasImportArgComment(file.body) /\ "ImportArgGapDropped" \in Devs) => "ImportArgGapDropped" \in Allowed
NoJoin == AtEnd => LineCommentEndsLine(vst.ch)
TerminalsKept == AtEnd => ChunkText(vst.ch) = BodyText(file.body, opts)
StepwiseIsFunctional == AtEnd => JoinNl(js.res) = Format(file, opts)
(* ---- C13 at design level: what a second run depends on.  The output must be in the formatter's own canonical   *)
(* form (no trailing blanks, no two blank lines in a row) and a comment must read back as the same comment: the     *)
(* continuation line of the two-line comment must start in column 1, otherwise the blanks put in front of it are    *)
(* part of the comment the next run sees and it moves again (named deviation BlockCommentContinuationPadded).       *)
HasBlock2Forwarded == \E n \in 1..Len(ForwardedComments(file)) : ForwardedComments(file)[n] = Block2.p
NoTrailingBlanks == AtEnd => \A n \in 1..Len(js.res) : js.res[n] = TrimEnd(js.res[n])
NoDoubleBlank == AtEnd => \A n \in 1..(Len(js.res) - 1) : ~(js.res[n] = "" /\ js.res[n + 1] = "")
ContinuationVerbatim ==
  (AtEnd /\ HasBlock2Forwarded) =>
     \/ \E n \in 1..Len(js.res) : Len(js.res[n]) >= 4 /\ SubSeq(js.res[n], 1, 4) = "d */"
     \/ "BlockCommentContinuationPadded" \in Allowed /\ opts.lm + opts.indent > 0
(* every top-level statement that is not a label gets (at least) a line of its own: gluing `lda foo` and `lda #1`  *)
(* changes the tokens (C12; named deviation SameLineStatementsGlued)                                               *)
NonBlankCount(ls) == Cardinality({n \in 1..Len(ls) : ls[n] # ""})
OneStatementPerLine ==
  AtEnd => \/ NonBlankCount(js.res) >= Cardinality({n \in 1..Len(file.body) : file.body[n].k # "label"})
           \/ "SameLineStatementsGlued" \in Allowed /\ BodyHasSameLinePair(file.body)
(* an `else` that follows its "}" directly (same line or next line, possibly after a comment line) is not pushed    *)
(* away by a blank line: otherwise the formatter's own output is not a fixed point (C13; ElseOnNewLineGainsBlankLine) *)
RECURSIVE TrimStart(_)
TrimStart(x) == IF Len(x) > 0 /\ Ch(x, 1) = " " THEN TrimStart(SubSeq(x, 2, Len(x))) ELSE x
ElseStaysAttached ==
  (AtEnd /\ file \in ElseFiles) =>
     \/ \A n \in 1..(Len(js.res) - 1) : js.res[n] = "" => TrimStart(js.res[n + 1]) \notin {"else", "/* c */"}
     \/ "ElseOnNewLineGainsBlankLine" \in Allowed /\ opts.brace = "new"
(* formatting is total over the configurations: no width derived from the options makes `format!` panic (C12 quantifies over
   every formatter configuration; named deviation FormatWidthPanics, tolerated only where a width really exceeds MaxWidth) *)
NeverPanics ==
  ~js.panic \/ ("FormatWidthPanics" \in Allowed /\ (opts.lm + opts.cm > MaxWidth \/ opts.indent * 3 > MaxWidth))
(* vacuity witnesses (expected to be violated) *)
NeverDone == ~AtEnd
NeverDropped == AtEnd => ~BodyHasDroppedComment(file.body)
=============================================================================
