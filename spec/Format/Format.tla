------------------------------- MODULE Format -------------------------------
(* The mos source formatter (mos-core/src/formatting/mod.rs) as a transducer, implementation-shaped:   *)
(*                                                                                                      *)
(*   program (statements = terminals + the trivia of every gap in front of a terminal)                  *)
(*     --Visit-->   chunk list        (format_tokens / format_token / format_block / Formattable)       *)
(*     --Join-->    output lines      (join_chunks: label / code / comment columns, indent, squeezing)  *)
(*                                                                                                      *)
(* Text is exact: terminals, comments and lines are strings, so Format(file, o) is the very text the    *)
(* implementation has to print (checked by FormatTrace, tier 2) and the properties of C12/C13 are       *)
(* stated on it.  One operator per function of the code; VisitStep / JoinStep are the per-token and     *)
(* per-chunk transition functions used as actions by MC_Format / MC_Idem.                               *)
(*                                                                                                      *)
(* Shapes (all JSON-friendly, fixed field sets):                                                        *)
(*   Trivia  = Seq([k: "ws"|"nl"|"c", p: Seq(STRING)])    "c": p = the comment's lines (no newline chars) *)
(*   Part    = [g: Trivia, t: STRING, j: "t"|"b"|"c"|"r"|"a"] a terminal (or run of terminals printed tight) *)
(*             j = how the formatter spaces it: t tight, b binary operator, c comma (also an import argument: *)
(*             spc_if_next after it), r index register, a the `as` of an import                           *)
(*   Block   = [l: Trivia, body: Seq(Stmt), r: Trivia]    l/r = gap before the opening / closing brace   *)
(*   Stmt    = [k, lead: Trivia, tag: STRING, p1, p2: Seq(Part), blk: Seq(Block), ge: Trivia]            *)
(*   File    = [body: Seq(Stmt), eof: Trivia]                                                           *)
(*   Opts    = [mcase, rcase: "l"|"u", brace: "same"|"new", indent, lm, cm: Nat, align: "l"|"r"]         *)
(*   Chunk   = [ty: "code"|"label"|"comment", ind: Nat, sp: BOOLEAN, p: Seq(STRING)]                         *)
(*             p = str.split_inclusive('\n'); sp = the pending spc_if_next blank was put in front of p[1] *)
EXTENDS Naturals, Sequences, FiniteSets, TLC

(* Names of recorded defects whose PINNED reading (the code before its repair) the operators below transcribe.       *)
(* A name that is absent selects the repaired reading.  The checks pass the deviations that are still `open` in       *)
(* known_findings.jsonl; a repaired defect is shown to be refuted by running its pinned reading once more.           *)
(*   "OpenBraceGapDropped"          format_block never emits the trivia in front of a block's "{"                      *)
(*   "SameLineStatementsGlued"      format_tokens pushes "\n" only by the token-pair rules, also between statements    *)
(*                                  that share a source line                                                           *)
(*   "ElseOnNewLineGainsBlankLine"  brace position new-line pushes "\n" in front of "{" / else unconditionally        *)
(*   "ImportArgGapDropped"          the trivia in front of a named import argument (`.import /*c*/ foo from ..`) is     *)
(*                                  never emitted (it sits on the Located<SpecificImportArg>, only its .data is used)  *)
(*   "FormatWidthPanics"            join_chunks uses label-margin, label-margin + code-margin and the indent unchecked *)
(*                                  as `format!` widths; a width beyond MaxWidth panics (repaired: capped at MaxWidth)  *)
CONSTANT Devs,
         MaxWidth      \* the widest padding `format!` supports: 65535 (u16::MAX); model checking places small margins on it

NL == "\n"
RECURSIVE Sp(_)
Sp(n) == IF n = 0 THEN "" ELSE " " \o Sp(n - 1)
Ch(s, i) == SubSeq(s, i, i)
IsWs(c) == c = " " \/ c = NL \/ c = "\t"
Blank(s) == \A i \in 1..Len(s) : IsWs(Ch(s, i))                       \* str::trim().is_empty()
RECURSIVE TrimEnd(_)
TrimEnd(s) == IF Len(s) > 0 /\ IsWs(Ch(s, Len(s))) THEN TrimEnd(SubSeq(s, 1, Len(s) - 1)) ELSE s
PadR(s, w) == IF Len(s) >= w THEN s ELSE s \o Sp(w - Len(s))          \* format!("{:<w$}", s)
PadL(s, w) == IF Len(s) >= w THEN s ELSE Sp(w - Len(s)) \o s          \* format!("{:>w$}", s)
EndsNl(s) == Len(s) > 0 /\ Ch(s, Len(s)) = NL
RECURSIVE JoinNl(_)
JoinNl(ls) == IF Len(ls) = 0 THEN "" ELSE IF Len(ls) = 1 THEN ls[1] ELSE ls[1] \o NL \o JoinNl(Tail(ls))

Upper == [adc |-> "ADC", and |-> "AND", asl |-> "ASL", bcc |-> "BCC", bcs |-> "BCS", beq |-> "BEQ", bit |-> "BIT",
          bmi |-> "BMI", bne |-> "BNE", bpl |-> "BPL", brk |-> "BRK", bvc |-> "BVC", bvs |-> "BVS", clc |-> "CLC",
          cld |-> "CLD", cli |-> "CLI", clv |-> "CLV", cmp |-> "CMP", cpx |-> "CPX", cpy |-> "CPY", dec |-> "DEC",
          dex |-> "DEX", dey |-> "DEY", eor |-> "EOR", inc |-> "INC", inx |-> "INX", iny |-> "INY", jmp |-> "JMP",
          jsr |-> "JSR", lda |-> "LDA", ldx |-> "LDX", ldy |-> "LDY", lsr |-> "LSR", nop |-> "NOP", ora |-> "ORA",
          pha |-> "PHA", php |-> "PHP", pla |-> "PLA", plp |-> "PLP", rol |-> "ROL", ror |-> "ROR", rti |-> "RTI",
          rts |-> "RTS", sbc |-> "SBC", sec |-> "SEC", sed |-> "SED", sei |-> "SEI", sta |-> "STA", stx |-> "STX",
          sty |-> "STY", tax |-> "TAX", tay |-> "TAY", tsx |-> "TSX", txa |-> "TXA", txs |-> "TXS", tya |-> "TYA",
          x |-> "X", y |-> "Y"]
Cased(c, s) == IF c = "u" THEN Upper[s] ELSE s                        \* Casing::format on a mnemonic / register

(* ------------------------------------------------------------------ Visit: program -> chunks *)
(* visitor state = CodeFormatter{chunks, indent, spc_if_next} *)
VInit == [ch |-> <<>>, ind |-> 0, spc |-> FALSE]

(* push_type: the pending spc_if_next space goes in front of whatever is pushed next (also a comment or "\n") *)
Push(st, ty, p) ==
  [st EXCEPT !.ch = Append(@, [ty |-> ty, ind |-> st.ind, sp |-> st.spc,
                               p |-> IF st.spc THEN <<" " \o p[1]>> \o Tail(p) ELSE p]),
             !.spc = FALSE]
PushS(st, s) == Push(st, "code", <<s>>)
S(st) == PushS(st, " ")
SP(st) == [st EXCEPT !.spc = TRUE]
CL(st) == [st EXCEPT !.spc = FALSE]
IsNlChunk(c) == c.p = <<NL>>                                          \* chunk.str == "\n"

CommentPieces(c) == [i \in 1..Len(c) |-> IF i < Len(c) THEN c[i] \o NL ELSE c[i]]

(* impl Formattable for &Vec<Trivia>: comments become comment chunks, newlines "\n" chunks, whitespace vanishes *)
RECURSIVE Gap(_, _)
Gap(st, tr) ==
  IF Len(tr) = 0 THEN st
  ELSE LET x == Head(tr) IN
       Gap(IF x.k = "c" THEN Push(st, "comment", CommentPieces(x.p)) ELSE IF x.k = "nl" THEN PushS(st, NL) ELSE st, Tail(tr))

(* fmt(Located<T>) = trivia, then data; the spacing class says what the enclosing construct pushes around it *)
Part(st, pt, o) ==
  CASE pt.j = "t" -> PushS(Gap(st, pt.g), pt.t)
    [] pt.j = "b" -> S(PushS(Gap(S(st), pt.g), pt.t))                 \* push(" ").fmt(op).push(" ")
    [] pt.j = "c" -> SP(PushS(Gap(st, pt.g), pt.t))                   \* fmt(comma).spc_if_next()
    [] pt.j = "r" -> CL(PushS(Gap(st, pt.g), Cased(o.rcase, pt.t)))   \* fmt(register cased); clear_spc_if_next()
    [] pt.j = "a" -> S(PushS(Gap(st, pt.g), pt.t))                    \* ImportAs: fmt(tag).push(" ")  (the path follows tight)
RECURSIVE Parts(_, _, _)
Parts(st, ps, o) == IF Len(ps) = 0 THEN st ELSE Parts(Part(st, Head(ps), o), Tail(ps), o)

(* format_tokens: which token kinds get a "\n" pushed in front (newline_if_same, newline_if_diff) *)
Rule(pk, k, hasblk) ==
  CASE k \in {"assert", "trace"} -> <<FALSE, pk \notin {"assert", "trace"}>>
    [] k \in {"braces", "define", "if", "loop", "segment"} -> <<TRUE, TRUE>>
    [] k \in {"data", "text"} -> <<FALSE, pk \notin {"data", "text"}>>
    [] k = "import" -> <<hasblk, TRUE>>
    [] k \in {"insn", "call"} -> <<FALSE, pk \notin {"insn", "call"}>>
    [] k = "label" -> <<hasblk, hasblk \/ pk \in {"braces", "if"}>>
    [] OTHER -> <<FALSE, TRUE>>
NeedNl(pk, k, hasblk) == IF pk = k THEN Rule(pk, k, hasblk)[1] ELSE Rule(pk, k, hasblk)[2]

RECURSIVE DropLeadingNl(_, _)
DropLeadingNl(ch, n0) ==      \* trim_leading_trivia: remove "\n" chunks at position n0+1
  IF Len(ch) > n0 /\ IsNlChunk(ch[n0 + 1]) THEN DropLeadingNl(SubSeq(ch, 1, n0) \o SubSeq(ch, n0 + 2, Len(ch)), n0) ELSE ch
RECURSIVE PopTrailingNl(_)
PopTrailingNl(ch) == IF Len(ch) > 0 /\ IsNlChunk(ch[Len(ch)]) THEN PopTrailingNl(SubSeq(ch, 1, Len(ch) - 1)) ELSE ch

HasNl(tr) == \E i \in 1..Len(tr) : tr[i].k = "nl"
LeadOf(body, i, eoftr) == IF i <= Len(body) THEN body[i].lead ELSE eoftr
KindOf(body, i) == IF i <= Len(body) THEN body[i].k ELSE "eof"
HasBlk(body, i) == i <= Len(body) /\ Len(body[i].blk) > 0

RECURSIVE Toks(_, _, _, _, _), Loop(_, _, _, _, _), Tok(_, _, _), Blk(_, _, _, _)

(* repaired readings: newline_unless_present() and the comments of the gap in front of "{" *)
NlUnlessPresent(st) == IF Len(st.ch) > 0 /\ IsNlChunk(st.ch[Len(st.ch)]) THEN st ELSE PushS(st, NL)
IsLineComment(x) == Len(x.p) = 1 /\ Len(x.p[1]) >= 2 /\ SubSeq(x.p[1], 1, 2) = "//"
RECURSIVE BraceGap(_, _)
BraceGap(st, tr) ==         \* comments only; a line comment is followed by a "\n" of its own, other newlines are dropped
  IF Len(tr) = 0 THEN st
  ELSE LET x == Head(tr) IN
       BraceGap(IF x.k # "c" THEN st
                ELSE IF IsLineComment(x) THEN PushS(Push(st, "comment", CommentPieces(x.p)), NL)
                ELSE Push(st, "comment", CommentPieces(x.p)), Tail(tr))
LastIsLineComment(tr) == LET cs == SelectSeq(tr, LAMBDA x : x.k = "c") IN Len(cs) > 0 /\ IsLineComment(cs[Len(cs)])

(* format_block(block, format_lparen_trivia).  Pinned OpenBraceGapDropped: the opening brace's trivia (b.l) is not
   used at all.  Repaired: its comments are emitted (withL is FALSE only for a bare block, whose brace trivia is the
   statement's leading trivia).  The closing brace's trivia (b.r) becomes the trivia of a synthetic Eof token at the
   end of the inner tokens.  Brace position new-line: pinned ElseOnNewLineGainsBlankLine pushes "\n" in front of the
   brace unconditionally (except, once the gap is emitted, right after a line comment's own "\n"). *)
Blk(st, b, withL, o) ==
  LET keepL == withL /\ "OpenBraceGapDropped" \notin Devs
      s0 == IF keepL THEN BraceGap(st, b.l) ELSE st
      sn == IF "ElseOnNewLineGainsBlankLine" \in Devs
            THEN (IF keepL /\ LastIsLineComment(b.l) THEN s0 ELSE PushS(s0, NL))
            ELSE NlUnlessPresent(s0)
      s1 == IF o.brace = "same" THEN PushS(PushS(s0, "{"), NL) ELSE PushS(PushS(sn, "{"), NL)
      s2 == Toks([s1 EXCEPT !.ind = @ + o.indent], b.body, b.r, TRUE, o)
      s3 == [s2 EXCEPT !.ind = st.ind, !.ch = PopTrailingNl(@)]
  IN PushS(PushS(s3, NL), "}")
OptBlk(st, bs, o) == IF Len(bs) = 0 THEN st ELSE Blk(st, bs[1], TRUE, o)

ImportArgPart(pt) == pt.j = "c" /\ pt.t \notin {"*", ","}            \* the path of a named import argument
(* format_token, one disjunct per Token variant that the model covers *)
Tok(st, s, o) ==
  CASE s.k = "insn"    -> CL(Parts(SP(PushS(st, Cased(o.mcase, s.tag))), s.p1, o))
    [] s.k = "label"   -> OptBlk(Push(st, "label", <<s.tag \o ":">>), s.blk, o)
    [] s.k = "data"    -> CL(Parts(S(PushS(st, s.tag)), s.p1, o))
    [] s.k = "braces"  -> Blk(st, s.blk[1], FALSE, o)
    [] s.k = "if"      -> LET a == Blk(S(Parts(S(PushS(st, s.tag)), s.p1, o)), s.blk[1], TRUE, o) IN
                          IF Len(s.blk) < 2 THEN a
                          ELSE IF o.brace = "same" THEN Blk(S(PushS(Gap(S(a), s.ge), "else")), s.blk[2], TRUE, o)
                          ELSE IF "ElseOnNewLineGainsBlankLine" \in Devs
                               THEN Blk(PushS(Gap(PushS(a, NL), s.ge), "else"), s.blk[2], TRUE, o)          \* push("\n").fmt(tag_else)
                               ELSE Blk(PushS(NlUnlessPresent(Gap(a, s.ge)), "else"), s.blk[2], TRUE, o)    \* trivia; newline_unless_present(); "else"
    [] s.k = "loop"    -> Blk(S(Parts(S(PushS(st, s.tag)), s.p1, o)), s.blk[1], TRUE, o)
    [] s.k = "segment" -> OptBlk(S(Parts(S(PushS(st, s.tag)), s.p1, o)), s.blk, o)
    [] s.k = "test"    -> Blk(SP(Parts(SP(PushS(st, s.tag)), s.p1, o)), s.blk[1], TRUE, o)
    [] s.k = "macro"   -> Blk(SP(Parts(S(PushS(st, s.tag)), s.p1, o)), s.blk[1], TRUE, o)
    [] s.k = "call"    -> CL(Parts(PushS(st, s.tag), s.p1, o))
    [] s.k = "var"     -> Parts(S(Part(S(Part(S(PushS(st, s.tag)), s.p1[1], o)), s.p1[2], o)), SubSeq(s.p1, 3, Len(s.p1)), o)
    [] s.k = "pc"      -> Parts(S(Part(S(PushS(st, s.tag)), s.p1[1], o)), Tail(s.p1), o)
    [] s.k = "align"   -> Parts(S(PushS(st, s.tag)), s.p1, o)
    [] s.k = "text"    -> Parts(SP(Parts(SP(PushS(st, s.tag)), s.p2, o)), s.p1, o)
    [] s.k = "assert"  -> Parts(SP(Parts(S(PushS(st, s.tag)), s.p1, o)), s.p2, o)   \* the space stays pending without a message
    [] s.k = "trace"   -> IF Len(s.p1) = 0 THEN CL(PushS(st, s.tag)) ELSE Parts(SP(PushS(st, s.tag)), s.p1, o)
    [] s.k = "file"    -> Parts(S(PushS(st, s.tag)), s.p1, o)
    (* .import: p1 = arguments (`*` / paths: class c, `as`: class a, its path: t, commas: c), p2 = <<from, "file">> *)
    [] s.k = "import"  -> LET args == IF "ImportArgGapDropped" \in Devs
                                      THEN [n \in DOMAIN s.p1 |-> IF ImportArgPart(s.p1[n]) THEN [s.p1[n] EXCEPT !.g = <<>>] ELSE s.p1[n]]
                                      ELSE s.p1 IN
                          OptBlk(SP(Part(S(Part(S(CL(Parts(S(PushS(st, s.tag)), args, o))), s.p2[1], o)), s.p2[2], o)), s.blk, o)
    (* .define id { key = value ... }: p1 = <<id>>, the block holds "cfgpair" statements *)
    [] s.k = "define"  -> Blk(S(Part(S(PushS(st, s.tag)), s.p1[1], o)), s.blk[1], TRUE, o)
    (* ConfigPair: tag = key, p1 = <<"=", value parts...>>, or a nested map: ge = trivia of the value, blk = <<map>> *)
    [] s.k = "cfgpair" -> LET a == S(Part(S(PushS(st, s.tag)), s.p1[1], o)) IN
                          IF Len(s.blk) = 0 THEN Parts(a, Tail(s.p1), o) ELSE Blk(Gap(a, s.ge), s.blk[1], TRUE, o)

(* one iteration of the loop of format_tokens: optional "\n"s, the token, then the trivia of the NEXT token.
   Repaired SameLineStatementsGlued: a token (not Eof) whose leading trivia holds no newline first gets the line
   break the source lacks; the rule table then applies as it does to statements on separate lines *)
OnSameLine(body, eoftr, i) ==      \* (a label without block may share its line with the statement that follows it)
  /\ i > 1 /\ i <= Len(body) /\ "SameLineStatementsGlued" \notin Devs
  /\ ~(body[i - 1].k = "label" /\ Len(body[i - 1].blk) = 0) /\ ~HasNl(LeadOf(body, i, eoftr))
RuleNl(body, i) == i > 1 /\ NeedNl(KindOf(body, i - 1), KindOf(body, i), HasBlk(body, i))
VisitStep(st, body, eoftr, i, o) ==
  LET s0 == IF OnSameLine(body, eoftr, i) THEN PushS(st, NL) ELSE st
      sa == IF RuleNl(body, i) THEN PushS(s0, NL) ELSE s0
      sb == IF i <= Len(body) THEN Tok(sa, body[i], o) ELSE sa
  IN IF i <= Len(body) THEN Gap(sb, LeadOf(body, i + 1, eoftr)) ELSE sb
Loop(st, body, eoftr, i, o) == IF i > Len(body) + 1 THEN st ELSE Loop(VisitStep(st, body, eoftr, i, o), body, eoftr, i + 1, o)
VisitStart(st, body, eoftr, trim) ==
  LET s1 == Gap(st, LeadOf(body, 1, eoftr)) IN IF trim THEN [s1 EXCEPT !.ch = DropLeadingNl(@, Len(st.ch))] ELSE s1
Toks(st, body, eoftr, trim, o) == Loop(VisitStart(st, body, eoftr, trim), body, eoftr, 1, o)

Visit(file, o) == Toks(VInit, file.body, file.eof, FALSE, o).ch

(* ------------------------------------------------------------------ Join: chunks -> lines (join_chunks) *)
JInit == [res |-> <<>>, line |-> "", hasInd |-> FALSE, ind |-> 0, had |-> FALSE, pnl |-> 0, panic |-> FALSE]
Cap(x) == IF "FormatWidthPanics" \in Devs \/ x <= MaxWidth THEN x ELSE MaxWidth

(* one piece `str` of chunk c; eol = "next chunk is a newline chunk or there is none"; last = c is the last chunk *)
JPiece(js, c, str, eol, last, o) ==
  LET lm == o.lm                                                                     \* comparisons use the option itself
      lmw == Cap(o.lm)                                                               \* widths are capped once repaired
      w == Cap(o.lm + o.cm)
      ign == c.ty = "code" /\ str = NL /\ js.line # "" /\ Len(js.line) <= lm          \* label alone so far: keep the line open
      line1 == CASE c.ty = "label" ->
                      IF Len(js.line) > lm THEN js.line \o str \o " "
                      ELSE js.line \o (IF o.align = "l" THEN PadR(str \o " ", lmw) ELSE PadL(str \o " ", lmw))
                 [] c.ty = "code" -> IF ign THEN js.line ELSE PadR(js.line, lmw) \o str
                 [] c.ty = "comment" -> IF eol THEN PadR(js.line, w) \o str ELSE PadR(js.line, lmw) \o str \o " "
      flush == (~ign /\ EndsNl(str)) \/ last
      blank == Blank(line1)
      stand == ~blank /\ Len(line1) > w /\ Blank(SubSeq(line1, 1, w))                 \* only comments: move to the code column
      line2 == IF stand THEN Sp(lmw) \o SubSeq(line1, w + 1, Len(line1)) ELSE line1
      add == IF blank THEN ~js.had /\ js.pnl = 0 ELSE TRUE
      indw == Cap(IF js.hasInd THEN js.ind ELSE 0)
      out == TrimEnd(Sp(indw) \o line2)
      (* the widths this piece hands to format! *)
      used == (IF c.ty = "label" /\ Len(js.line) > lm THEN {} ELSE IF c.ty = "code" /\ ign THEN {} ELSE IF c.ty = "comment" /\ eol THEN {w} ELSE {lmw})
              \cup (IF flush /\ stand THEN {lmw} ELSE {}) \cup (IF flush /\ add THEN {indw} ELSE {})
      pan == js.panic \/ \E x \in used : x > MaxWidth
  IN IF ~flush THEN [js EXCEPT !.line = line1, !.panic = pan]
     ELSE [res |-> IF add THEN Append(js.res, out) ELSE js.res, line |-> "", hasInd |-> FALSE, ind |-> 0,
           had |-> IF blank THEN js.had ELSE stand,
           pnl |-> IF blank THEN (IF add THEN js.pnl + 1 ELSE js.pnl) ELSE 0, panic |-> pan]

RECURSIVE JPieces(_, _, _, _, _, _)
JPieces(js, c, ps, eol, last, o) == IF Len(ps) = 0 THEN js ELSE JPieces(JPiece(js, c, Head(ps), eol, last, o), c, Tail(ps), eol, last, o)

(* one chunk: the line's indent is taken from the first chunk that finds it unset (not re-set between pieces) *)
JoinStep(js, chunks, i, o) ==
  LET c == chunks[i]
      j0 == IF js.hasInd THEN js ELSE [js EXCEPT !.hasInd = TRUE, !.ind = c.ind]
  IN JPieces(j0, c, c.p, i = Len(chunks) \/ IsNlChunk(chunks[i + 1]), i = Len(chunks), o)
RECURSIVE JoinFrom(_, _, _, _)
JoinFrom(js, chunks, i, o) == IF i > Len(chunks) THEN js ELSE JoinFrom(JoinStep(js, chunks, i, o), chunks, i + 1, o)
JoinLines(chunks, o) == JoinFrom(JInit, chunks, 1, o).res
Join(chunks, o) == JoinNl(JoinLines(chunks, o))
JoinPanics(chunks, o) == JoinFrom(JInit, chunks, 1, o).panic

Format(file, o) == Join(Visit(file, o), o)

(* ------------------------------------------------------------------ what the properties talk about *)
RECURSIVE TrivComments(_)
TrivComments(tr) == IF Len(tr) = 0 THEN <<>> ELSE (IF Head(tr).k = "c" THEN <<Head(tr).p>> ELSE <<>>) \o TrivComments(Tail(tr))
RECURSIVE PartsComments(_)
PartsComments(ps) == IF Len(ps) = 0 THEN <<>> ELSE TrivComments(Head(ps).g) \o PartsComments(Tail(ps))
RECURSIVE BodyComments(_, _), StmtComments(_, _), BlkComments(_, _, _)
(* comments of a block in source order; withL = count the gap in front of its opening brace *)
BlkComments(b, withL, fwdOnly) == (IF withL THEN TrivComments(b.l) ELSE <<>>) \o BodyComments(b.body, fwdOnly) \o TrivComments(b.r)
(* source order inside a statement: lead, then (text: encoding before the expression; others: p1 before p2), blocks *)
StmtComments(s, fwdOnly) ==
  LET p1f == IF s.k = "import" /\ fwdOnly /\ "ImportArgGapDropped" \in Devs THEN SelectSeq(s.p1, LAMBDA pt : ~ImportArgPart(pt)) ELSE s.p1
      head == IF s.k = "text" THEN PartsComments(s.p2) \o PartsComments(s.p1) ELSE PartsComments(p1f) \o PartsComments(s.p2)
      (* a bare block's brace trivia IS the statement's lead, which the model keeps in s.lead (b.l is empty there) *)
      b1 == IF Len(s.blk) >= 1 THEN (IF s.k = "cfgpair" THEN TrivComments(s.ge) ELSE <<>>) \o BlkComments(s.blk[1], ~(fwdOnly /\ "OpenBraceGapDropped" \in Devs), fwdOnly) ELSE <<>>
      b2 == IF Len(s.blk) >= 2 THEN TrivComments(s.ge) \o BlkComments(s.blk[2], ~(fwdOnly /\ "OpenBraceGapDropped" \in Devs), fwdOnly) ELSE <<>>
  IN TrivComments(s.lead) \o head \o b1 \o b2
BodyComments(body, fwdOnly) == IF Len(body) = 0 THEN <<>> ELSE StmtComments(Head(body), fwdOnly) \o BodyComments(Tail(body), fwdOnly)
AllComments(file) == BodyComments(file.body, FALSE) \o TrivComments(file.eof)          \* every comment of the source, in order
ForwardedComments(file) == BodyComments(file.body, TRUE) \o TrivComments(file.eof)    \* all but those in gaps the pinned readings (Devs) drop

(* comments carried by a chunk list, as lists of lines *)
UnNl(s) == IF EndsNl(s) THEN SubSeq(s, 1, Len(s) - 1) ELSE s
ChunkComments(chunks) ==
  LET idx == {i \in 1..Len(chunks) : chunks[i].ty = "comment"}
      Piece(c, k) == LET u == UnNl(c.p[k]) IN IF k = 1 /\ c.sp THEN SubSeq(u, 2, Len(u)) ELSE u
      F[i \in 0..Len(chunks)] == IF i = 0 THEN <<>> ELSE F[i - 1] \o (IF i \in idx THEN <<[k \in 1..Len(chunks[i].p) |-> Piece(chunks[i], k)]>> ELSE <<>>)
  IN F[Len(chunks)]

(* a line comment ("//...") swallows the rest of its line: it must be the last thing a chunk list puts on a line *)
LineCommentEndsLine(chunks) ==
  \A i \in 1..Len(chunks) :
    (chunks[i].ty = "comment" /\ Len(chunks[i].p) = 1 /\ Len(chunks[i].p[1]) >= 2
       /\ (SubSeq(chunks[i].p[1], 1, 2) = "//" \/ SubSeq(chunks[i].p[1], 1, 3) = " //"))
    => (i = Len(chunks) \/ EndsNl(chunks[i + 1].p[1]))

(* the gap that format_block discards: named deviation of C12 *)
RECURSIVE BodyHasDroppedComment(_), BlkHasDropped(_)
BlkHasDropped(b) == TrivComments(b.l) # <<>> \/ BodyHasDroppedComment(b.body)
BodyHasDroppedComment(body) ==
  \E i \in 1..Len(body) : \E n \in 1..Len(body[i].blk) : BlkHasDropped(body[i].blk[n])

RECURSIVE BodyHasImportArgComment(_)
BodyHasImportArgComment(body) ==
  \/ \E i \in 1..Len(body) : body[i].k = "import" /\ \E n \in 1..Len(body[i].p1) : ImportArgPart(body[i].p1[n]) /\ TrivComments(body[i].p1[n].g) # <<>>
  \/ \E i \in 1..Len(body) : \E n \in 1..Len(body[i].blk) : BodyHasImportArgComment(body[i].blk[n].body)

(* statements that share a source line and between which format_tokens pushes no "\n": their texts are glued *)
RECURSIVE BodyHasSameLinePair(_)
BodyHasSameLinePair(body) ==
  \/ \E i \in 2..Len(body) : ~HasNl(body[i].lead) /\ ~NeedNl(body[i - 1].k, body[i].k, Len(body[i].blk) > 0)
  \/ \E i \in 1..Len(body) : \E n \in 1..Len(body[i].blk) : BodyHasSameLinePair(body[i].blk[n].body)

(* statements that share a source line at all (the label that may share its line with its statement excepted) *)
RECURSIVE BodySharesLine(_)
BodySharesLine(body) ==
  \/ \E i \in 2..Len(body) : ~HasNl(body[i].lead) /\ ~(body[i - 1].k = "label" /\ Len(body[i - 1].blk) = 0)
  \/ \E i \in 1..Len(body) : \E n \in 1..Len(body[i].blk) : BodySharesLine(body[i].blk[n].body)
=============================================================================
