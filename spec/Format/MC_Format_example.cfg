\* Example only: checks/C12|C13/check.py write the configuration they run (lib/fmtlib.py mc_cfg) from the findings
\* that are still open.  Devs = readings of Format.tla that are pinned to a recorded defect; Allowed = deviations the
\* invariants tolerate.  Regular run: Devs = Allowed = open findings.  Refutation run for defect d: d in Devs, d not in Allowed.
SPECIFICATION Spec
CONSTANTS Devs = {"OpenBraceGapDropped", "SameLineStatementsGlued", "ElseOnNewLineGainsBlankLine", "ImportArgGapDropped"}
  Allowed = {"OpenBraceGapDropped", "SameLineStatementsGlued", "ElseOnNewLineGainsBlankLine", "BlockCommentContinuationPadded"}
  Indents = {0, 2}
  Margins = {0, 4}
  CodeMargins = {0, 6}
  ReplayIndent = 2
  CasePairs = {"lu", "ul"}
  MaxWidth = 65535
  FormLimit = 31
INVARIANTS CommentsKept NoJoin TerminalsKept StepwiseIsFunctional OneStatementPerLine NoTrailingBlanks NoDoubleBlank ContinuationVerbatim ElseStaysAttached
