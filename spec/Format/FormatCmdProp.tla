---------------------------- MODULE FormatCmdProp ----------------------------
(* C12, second sentence, as a predicate on (did any file have a parse error, file texts before, the texts format()  *)
(* gives, file texts after): used as invariant of FormatCmd (abstract texts) and by FormatTrace on observed runs.    *)
CmdPost(parseError, before, expect, after) == IF parseError THEN after = before ELSE after = expect
=============================================================================
