---------------------------- MODULE FormatCmdProp ----------------------------
(* C12, second sentence ("`mos format` rewrites each file of the project with exactly that text and leaves all files   *)
(* untouched if any file has a parse error") as a predicate on one run: used as invariant of FormatCmd (abstract       *)
(* texts) and by FormatTrace on observed runs of the real binary.                                                      *)
(*   outcome      "ok" (exit 0) | "error" (diagnostic, exit code 1) | "crash" (panic / signal)                         *)
(*   parseError   some file of the project has a parse error                                                           *)
(*   cfgBeyond    the configuration asks for a width beyond what the formatter can lay out (it may be refused)         *)
(*   before / expect / after      texts of the project's files: as found, as format() gives them, after the run        *)
(*   otherBefore / otherAfter     texts of files that are NOT part of the project (e.g. a main.asm in a subdirectory)  *)
CmdPost(outcome, parseError, cfgBeyond, before, expect, after, otherBefore, otherAfter) ==
  /\ outcome # "crash"
  /\ otherAfter = otherBefore
  /\ IF parseError THEN outcome = "error" /\ after = before
     ELSE IF cfgBeyond THEN (outcome = "error" /\ after = before) \/ (outcome = "ok" /\ after = expect)
     ELSE outcome = "ok" /\ after = expect
=============================================================================
