---- MODULE MC_FormatCmd ----
EXTENDS FormatCmd
====
