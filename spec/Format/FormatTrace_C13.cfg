SPECIFICATION Spec
CONSTANT Prop = "C13"
POSTCONDITION Consumed
