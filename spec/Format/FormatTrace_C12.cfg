SPECIFICATION Spec
CONSTANT Prop = "C12"
POSTCONDITION Consumed
