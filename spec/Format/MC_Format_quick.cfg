SPECIFICATION Spec
CONSTANTS Deviations = {"OpenBraceGapDropped", "BlockCommentContinuationPadded"}
  Indents = {0, 2}
  Margins = {0, 4}
  CodeMargins = {0, 6}
  ReplayIndent = 2
INVARIANTS CommentsKept NoJoin TerminalsKept StepwiseIsFunctional NoTrailingBlanks NoDoubleBlank ContinuationVerbatim
