------------------------------ MODULE FormatCmd ------------------------------
(* `mos format` (mos/src/commands/format.rs) as a state machine over the files of a project:                  *)
(*     ParseAll ; for every file of the parse tree: Truncate f ; Write f                                       *)
(* parse_or_err fails before any file is opened, so a parse error anywhere leaves every file untouched.        *)
(* Files are indices 1..N; content is abstract: "src" (as found), "" (truncated), "fmt" (= format(file)).      *)
(* MC_FormatCmd checks the invariants for N <= 3 and every subset of files with a parse error; FormatTrace     *)
(* binds CmdPost to observed runs of the real binary (before / after / expected text of every file).          *)
EXTENDS Naturals, Sequences, FiniteSets, FormatCmdProp

CONSTANTS N,            \* number of files in the project (entry + imports)
          Deviations    \* {} or {"WriteBeforeParseAll"}: a hypothetical bug used to show the invariant is not vacuous
VARIABLES disk,         \* [1..N -> {"src", "", "fmt"}]
          bad,          \* set of files with a parse error (chosen initially)
          pc,           \* "parse" | "files" | "done" | "failed"
          todo,         \* files still to rewrite (the code iterates a HashMap: any order)
          cur           \* file opened with truncate, not yet written (0 = none)
cvars == <<disk, bad, pc, todo, cur>>

CInit == /\ disk = [f \in 1..N |-> "src"] /\ bad \in SUBSET (1..N) /\ pc = "parse" /\ todo = {} /\ cur = 0
ParseAll == /\ pc = "parse"
            /\ IF bad # {} /\ "WriteBeforeParseAll" \notin Deviations
               THEN pc' = "failed" /\ todo' = {}
               ELSE pc' = "files" /\ todo' = 1..N \ (IF "WriteBeforeParseAll" \in Deviations THEN bad ELSE {})
            /\ UNCHANGED <<disk, bad, cur>>
Truncate(f) == /\ pc = "files" /\ cur = 0 /\ f \in todo
               /\ disk' = [disk EXCEPT ![f] = ""] /\ cur' = f /\ UNCHANGED <<bad, pc, todo>>
Write == /\ pc = "files" /\ cur # 0
         /\ disk' = [disk EXCEPT ![cur] = "fmt"] /\ todo' = todo \ {cur} /\ cur' = 0 /\ UNCHANGED <<bad, pc>>
Finish == /\ pc = "files" /\ cur = 0 /\ todo = {} /\ pc' = "done" /\ UNCHANGED <<disk, bad, todo, cur>>
CNext == ParseAll \/ (\E f \in 1..N : Truncate(f)) \/ Write \/ Finish
CSpec == CInit /\ [][CNext]_cvars /\ WF_cvars(CNext)

(* C12, second sentence *)
Seqd(v) == [f \in 1..N |-> v]
UntouchedOnError == bad # {} => CmdPost(TRUE, Seqd("src"), Seqd("fmt"), disk)          \* in every reachable state
AllRewritten == pc = "done" => CmdPost(bad # {}, Seqd("src"), Seqd("fmt"), disk)
Terminates == <>(pc \in {"done", "failed"})

=============================================================================
