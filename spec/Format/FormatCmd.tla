------------------------------ MODULE FormatCmd ------------------------------
(* `mos format` (mos/src/commands/format.rs, mos/src/main.rs) as a state machine over the files on disk:               *)
(*     CheckConfig ; ParseAll ; for every file of the parse tree: Format f ; Truncate f ; Write f                       *)
(* parse_or_err fails before any file is opened, so a parse error anywhere leaves every file untouched.                *)
(* Files 1..N are the project (entry + imports, below the project root); file 0 is a `main.asm` in a subdirectory that  *)
(* is NOT part of the project (present iff decoy).  The command is started in the root or in that subdirectory.         *)
(* Content is abstract: "src" (as found), "" (truncated), "fmt" (= format(file)).                                       *)
(* Pinned readings (Deviations), each with its repaired counterpart:                                                    *)
(*   "FormatEntryFromCwd"   the entry is looked up relative to the current directory instead of the project root       *)
(*   "FormatWidthPanics"    a margin / indent beyond the formatter's width limit makes format() panic                   *)
(*   "WriteBeforeParseAll"  hypothetical, only to show UntouchedOnError is not vacuous                                  *)
(* Tolerated = the deviations the invariants accept (the findings still open).                                          *)
EXTENDS Naturals, Sequences, FiniteSets, FormatCmdProp

CONSTANTS N, Deviations, Tolerated
VARIABLES disk,         \* [0..N -> {"src", "", "fmt"}]
          bad,          \* set of project files with a parse error (chosen initially)
          cwd,          \* "root" | "sub"
          decoy,        \* a main.asm exists in the subdirectory
          beyond,       \* the configuration has a margin beyond the width limit
          pc,           \* "config" | "parse" | "files" | "done" | "failed" | "crashed"
          todo,         \* files still to rewrite (the code iterates a HashMap: any order)
          cur           \* file opened with truncate, not yet written (N + 1 = none)
cvars == <<disk, bad, cwd, decoy, beyond, pc, todo, cur>>
Pinned(d) == d \in Deviations

CInit == /\ disk = [f \in 0..N |-> "src"] /\ bad \in SUBSET (1..N) /\ cwd \in {"root", "sub"} /\ decoy \in BOOLEAN
         /\ beyond \in BOOLEAN /\ pc = "config" /\ todo = {} /\ cur = N + 1
(* repaired: a configuration the formatter cannot lay out is refused with a diagnostic before anything else happens *)
CheckConfig == /\ pc = "config"
               /\ pc' = IF beyond /\ ~Pinned("FormatWidthPanics") THEN "failed" ELSE "parse"
               /\ UNCHANGED <<disk, bad, cwd, decoy, beyond, todo, cur>>
(* which files the parse tree holds: the project - or, pinned, whatever `entry` names in the current directory *)
ParseAll == /\ pc = "parse"
            /\ IF Pinned("FormatEntryFromCwd") /\ cwd = "sub"
               THEN IF decoy THEN pc' = "files" /\ todo' = {0} ELSE pc' = "failed" /\ todo' = {}       \* "could not find 'main.asm'"
               ELSE IF bad # {} /\ ~Pinned("WriteBeforeParseAll") THEN pc' = "failed" /\ todo' = {}
               ELSE pc' = "files" /\ todo' = 1..N \ (IF Pinned("WriteBeforeParseAll") THEN bad ELSE {})
            /\ UNCHANGED <<disk, bad, cwd, decoy, beyond, cur>>
(* format(file) runs before the file is opened: a panic there touches nothing *)
Truncate(f) == /\ pc = "files" /\ cur = N + 1 /\ f \in todo
               /\ IF beyond /\ Pinned("FormatWidthPanics")
                  THEN pc' = "crashed" /\ UNCHANGED <<disk, cur>>
                  ELSE disk' = [disk EXCEPT ![f] = ""] /\ cur' = f /\ UNCHANGED pc
               /\ UNCHANGED <<bad, cwd, decoy, beyond, todo>>
Write == /\ pc = "files" /\ cur # N + 1
         /\ disk' = [disk EXCEPT ![cur] = "fmt"] /\ todo' = todo \ {cur} /\ cur' = N + 1 /\ UNCHANGED <<bad, cwd, decoy, beyond, pc>>
Finish == /\ pc = "files" /\ cur = N + 1 /\ todo = {} /\ pc' = "done" /\ UNCHANGED <<disk, bad, cwd, decoy, beyond, todo, cur>>
CNext == CheckConfig \/ ParseAll \/ (\E f \in 0..N : Truncate(f)) \/ Write \/ Finish
CSpec == CInit /\ [][CNext]_cvars /\ WF_cvars(CNext)

Seqd(v) == [f \in 1..N |-> v]
Proj == [f \in 1..N |-> disk[f]]
Outcome == IF pc = "done" THEN "ok" ELSE IF pc = "failed" THEN "error" ELSE "crash"
(* the shapes under which a still-open defect is tolerated *)
Excused == \/ ("FormatEntryFromCwd" \in Tolerated /\ cwd = "sub")
           \/ ("FormatWidthPanics" \in Tolerated /\ beyond)
           \/ "WriteBeforeParseAll" \in Tolerated
(* C12, second sentence *)
UntouchedOnError == (bad # {} /\ ~Excused) => Proj = Seqd("src")                              \* in every reachable state
OnlyProjectTouched == ~Excused => disk[0] = "src"
FinalPost == (pc \in {"done", "failed", "crashed"} /\ ~Excused) =>
                CmdPost(Outcome, bad # {}, beyond, Seqd("src"), Seqd("fmt"), Proj, <<"src">>, <<disk[0]>>)
Terminates == <>(pc \in {"done", "failed", "crashed"})
=============================================================================
