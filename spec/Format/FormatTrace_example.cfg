\* Example only: the checks write this file themselves (lib/fmtlib.py trace_cfg): Prop selects the property,
\* Devs the readings of Format.tla that are still pinned to an open finding.
SPECIFICATION Spec
CONSTANTS Prop = "C12"
  Devs = {"OpenBraceGapDropped", "SameLineStatementsGlued", "ElseOnNewLineGainsBlankLine"}
  MaxWidth = 65535
POSTCONDITION Consumed
