SPECIFICATION Spec
CONSTANTS Deviations = {}
  Indents = {2}
  Margins = {4}
  CodeMargins = {6}
  ReplayIndent = 99
INVARIANTS CommentsKept
