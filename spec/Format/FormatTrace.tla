----------------------------- MODULE FormatTrace -----------------------------
(* impl -> spec for C12 and C13: every observation of the real formatter (harness/src/bin/fmtdrive.rs, or       *)
(* `mos format` for kind "cmd") is judged here.                                                                 *)
(*                                                                                                              *)
(* record kind "fmt":  [id, kind, hasModel, file (Format.tla shape; empty when hasModel = FALSE), opts, ok,      *)
(*    panic, panicWidth, reparse_ok, asm, asm_same, ast, ast_fmt, comments, comments_fmt, lex, lex_fmt, dropgap, dropimp (texts),     *)
(*    fmt, fmt2, lines, lines2 (Seq([n, s, q, lc, lo, cs, el, cont]))]                                                              *)
(* record kind "cmd":  [id, kind, outcome, parseError, cfgBeyond, panicWidth, cwd, decoy,                          *)
(*    files: Seq([name, before, after, expect]), others: Seq([name, before, after])]      (FormatCmd.tla)         *)
(*                                                                                                              *)
(* tier 1 (verdict): the property on the observation alone.  A failure is a "deviation" only when the narrow     *)
(* witness of a named, recorded defect matches, otherwise a "violation".                                         *)
(* tier 2 (faithfulness, only with a model): Format(file, opts) must be exactly the text the code printed,       *)
(* otherwise "drift" (the model is stale; never an alarm).                                                       *)
EXTENDS Format, FormatCmdProp, Json, IOUtils

CONSTANT Prop            \* "C12" or "C13"

Rec == ndJsonDeserialize(IOEnv.TRACE)
VARIABLES l, bad
vars == <<l, bad>>
V(id, verdict, dev, why) == [id |-> id, verdict |-> verdict, dev |-> dev, why |-> why]

(* greedy in-order matching: the elements of a that find no partner in b (after the previous partner) *)
RECURSIVE Lost(_, _)
Lost(a, b) ==
  IF Len(a) = 0 THEN <<>>
  ELSE LET hits == {j \in 1..Len(b) : b[j] = a[1]} IN
       IF hits = {} THEN <<a[1]>> \o Lost(Tail(a), b)
       ELSE LET j == CHOOSE x \in hits : \A y \in hits : x <= y IN Lost(Tail(a), SubSeq(b, j + 1, Len(b)))
Range(s) == {s[i] : i \in 1..Len(s)}

(* a comment with its empty lines removed (witness of BlockCommentInnerBlankLineDropped) *)
RECURSIVE NoEmptyLines(_)
NoEmptyLines(c) == IF Len(c) < 2 THEN c
                   ELSE IF SubSeq(c, 1, 2) = "\n\n" THEN NoEmptyLines(SubSeq(c, 2, Len(c)))
                   ELSE SubSeq(c, 1, 1) \o NoEmptyLines(SubSeq(c, 2, Len(c)))
(* ---- C12, tier 1 ---- *)
(* a witness of a recorded defect is consulted only while that defect is pinned (open): once it is repaired, an          *)
(* observation of its old shape has to find another explanation or is a violation                                       *)
SameLineWitness(r) == "SameLineStatementsGlued" \in Devs /\ r.hasModel /\ BodyHasSameLinePair(r.file.body)
C12Rows(r) ==
  IF ~r.ok THEN <<>>                                                   \* programs with parse errors are outside C12
  ELSE IF r.panic # "" THEN
       IF "FormatWidthPanics" \in Devs /\ r.panicWidth /\ (r.opts.lm + r.opts.cm > MaxWidth \/ r.opts.indent * 16 > MaxWidth)
       THEN <<V(r.id, "deviation", "FormatWidthPanics", "format() panics on a width beyond 65535: " \o r.panic)>>
       ELSE <<V(r.id, "violation", "", "formatter or parser panicked: " \o r.panic)>>
  ELSE
   LET lost == Lost(r.comments, r.comments_fmt)
       meaning ==
         IF ~r.reparse_ok THEN "formatted text does not parse without errors"
         ELSE IF r.ast # r.ast_fmt THEN "formatted text parses to different tokens"
         ELSE IF r.lex # r.lex_fmt THEN "formatted text differs from the source in more than whitespace, comments and letter case"
         ELSE IF r.asm /\ ~r.asm_same THEN "formatted program assembles to different bytes or diagnostics"
         ELSE ""
       rowsM == IF meaning = "" THEN <<>>
                ELSE IF SameLineWitness(r) THEN <<V(r.id, "deviation", "SameLineStatementsGlued", meaning)>>
                ELSE <<V(r.id, "violation", "", meaning)>>
       rowsC == IF lost = <<>> THEN <<>>
                ELSE IF \A c \in Range(lost) : NoEmptyLines(c) # c /\ NoEmptyLines(c) \in Range(r.comments_fmt)
                     THEN <<V(r.id, "deviation", "BlockCommentInnerBlankLineDropped", "empty line inside a block comment deleted: " \o lost[1])>>
                ELSE IF "ImportArgGapDropped" \in Devs /\ Range(lost) \subseteq Range(r.dropimp)
                     THEN <<V(r.id, "deviation", "ImportArgGapDropped", "comment in front of a named import argument deleted: " \o lost[1])>>
                ELSE IF "OpenBraceGapDropped" \in Devs /\ Range(lost) \subseteq Range(r.dropgap) THEN <<V(r.id, "deviation", "OpenBraceGapDropped", "comment in front of a block's opening brace deleted: " \o lost[1])>>
                ELSE <<V(r.id, "violation", "", "comment lost or reordered: " \o lost[1])>>
       (* tier 2 *)
       pred == Format(r.file, r.opts)
       rowsD == IF r.hasModel /\ pred # r.fmt THEN <<V(r.id, "drift", "Format", "model predicts a different text: " \o pred)>> ELSE <<>>
   IN rowsM \o rowsC \o rowsD

(* ---- C13, tier 1 ---- *)
(* witness of the recorded drift: join_chunks treats every continuation line of a multi-line block comment as a    *)
(* fresh line, so it is re-indented on every run (which also moves the end-of-line comment column of that line and  *)
(* can flip the blank-line squeezing next to it).  Only lines that start inside a block comment may differ, only in   *)
(* blanks; blank lines may come and go.  Any change on another line, or of a non-blank character, is a violation.     *)
KeepIdx(ls, drop(_)) == SelectSeq([i \in 1..Len(ls) |-> i], LAMBDA i : ~drop(i))
Keep(ls, drop(_)) == [k \in DOMAIN KeepIdx(ls, drop) |-> ls[KeepIdx(ls, drop)[k]]]
BlankAfterCont(ls, i) == ls[i].s = "" /\ (ls[i].cont \/ (i > 1 /\ ls[i - 1].cont))    \* empty line inside, or directly after, a block comment
BlankBeforeElse(ls, i) ==      \* blank line with only comment lines between it and a following `else` or bare `{` line
  ls[i].s = "" /\ \E j \in (i + 1)..Len(ls) : (ls[j].el \/ ls[j].s = "{") /\ \A k \in (i + 1)..(j - 1) : (ls[k].cs \/ ls[k].cont \/ ls[k].s = "")
BlankAfterLabelComment(ls, i) == ls[i].s = "" /\ i > 1 /\ (ls[i - 1].lc \/ ls[i - 1].lo)
OnlyContLinesDiffer(a, b) ==
  /\ Len(a) = Len(b)
  /\ \A i \in 1..Len(a) : a[i] # b[i] => (a[i].cont /\ b[i].cont /\ a[i].q = b[i].q)
HasCont(r) == \E i \in 1..Len(r.lines) : r.lines[i].cont
ContinuationDrift(r) ==
  LET D1(i) == BlankAfterCont(r.lines, i)
      D2(i) == BlankAfterCont(r.lines2, i)
  IN HasCont(r) /\ OnlyContLinesDiffer(Keep(r.lines, D1), Keep(r.lines2, D2))
FirstDiff(r) ==
  LET n == IF Len(r.lines) < Len(r.lines2) THEN Len(r.lines) ELSE Len(r.lines2)
      d == {i \in 1..n : r.lines[i] # r.lines2[i]}
  IN IF d = {} THEN "line count changes" ELSE LET i == CHOOSE x \in d : \A y \in d : x <= y IN "[" \o r.lines[i].s \o "]  =>  [" \o r.lines2[i].s \o "]"
(* witnesses of two recorded one-step drifts (format(p) is not yet the fixed point, format(format(p)) is):            *)
(*  - brace position "new": `else` and `{` are pushed after a "\n" of their own, the re-parsed text has a second one   *)
(*    in the trivia in front of them: a blank line appears in front of `else` / a bare `{` (and their comments);        *)
(*  - a line holding a label and a comment, or only a label that does not fit the label margin: the first run ends     *)
(*    that line with ONE newline (the label's own newline was swallowed, or the code followed on the same source line), *)
(*    the second run sees that newline in the trivia and pushes its own: a blank line appears after the label line.     *)
ElseDrift(r) ==
  LET D1(i) == BlankBeforeElse(r.lines, i)
      D2(i) == BlankBeforeElse(r.lines2, i)
  IN "ElseOnNewLineGainsBlankLine" \in Devs /\ r.opts.brace = "new" /\ Keep(r.lines, D1) = Keep(r.lines2, D2)
LabelCommentDrift(r) ==
  LET D1(i) == BlankAfterLabelComment(r.lines, i)
      D2(i) == BlankAfterLabelComment(r.lines2, i)
  IN Keep(r.lines, D1) = Keep(r.lines2, D2)
ElseOpen == "ElseOnNewLineGainsBlankLine" \in Devs
CombinedDrift(r) ==          \* several of the recorded drifts in one file
  LET D1(i) == BlankAfterCont(r.lines, i) \/ (ElseOpen /\ r.opts.brace = "new" /\ BlankBeforeElse(r.lines, i)) \/ BlankAfterLabelComment(r.lines, i)
      D2(i) == BlankAfterCont(r.lines2, i) \/ (ElseOpen /\ r.opts.brace = "new" /\ BlankBeforeElse(r.lines2, i)) \/ BlankAfterLabelComment(r.lines2, i)
  IN OnlyContLinesDiffer(Keep(r.lines, D1), Keep(r.lines2, D2))
C13Rows(r) ==
  IF ~r.ok \/ r.panic # "" \/ ~r.reparse_ok THEN <<>>                  \* then format(p) is not a formatter input at all (C12 reports it)
  ELSE IF r.fmt2 = r.fmt THEN <<>>
  ELSE IF r.lines = r.lines2 THEN <<V(r.id, "violation", "", "format(format(p)) differs from format(p) (ill-formed record: the line lists agree)")>>
  ELSE IF SameLineWitness(r) /\ r.ast # r.ast_fmt THEN <<V(r.id, "deviation", "SameLineStatementsGlued", "glued statements re-parse differently: " \o FirstDiff(r))>>
  ELSE IF "SameLineStatementsGlued" \in Devs /\ r.hasModel /\ BodySharesLine(r.file.body) /\ SelectSeq(r.lines, LAMBDA x : x.s # "") = SelectSeq(r.lines2, LAMBDA x : x.s # "")
       THEN <<V(r.id, "deviation", "SameLineStatementsGlued", "statements sharing a source line get their separating blank line only on the second run")>>
  ELSE IF ContinuationDrift(r) THEN <<V(r.id, "deviation", "BlockCommentContinuationPadded", "continuation line of a block comment is re-indented on every run: " \o FirstDiff(r))>>
  ELSE IF ElseDrift(r) THEN <<V(r.id, "deviation", "ElseOnNewLineGainsBlankLine", "second run inserts a blank line in front of else or a bare {")>>
  ELSE IF LabelCommentDrift(r) THEN <<V(r.id, "deviation", "LabelCommentLineGainsBlankLine", "second run inserts a blank line after a label line (label + comment, or label wider than the margin)")>>
  ELSE IF CombinedDrift(r) THEN <<V(r.id, "deviation", IF HasCont(r) THEN "BlockCommentContinuationPadded" ELSE IF ElseOpen THEN "ElseOnNewLineGainsBlankLine" ELSE "LabelCommentLineGainsBlankLine",
                                    "several recorded drifts in one file: " \o FirstDiff(r))>>
  ELSE <<V(r.id, "violation", "", "format(format(p)) differs from format(p): " \o FirstDiff(r))>>

(* ---- `mos format` (C12 second sentence), judged with FormatCmd's post-condition ---- *)
CmdRows(r) ==
  LET before == [i \in 1..Len(r.files) |-> r.files[i].before]
      after == [i \in 1..Len(r.files) |-> r.files[i].after]
      expect == [i \in 1..Len(r.files) |-> r.files[i].expect]
      ob == [i \in 1..Len(r.others) |-> r.others[i].before]
      oa == [i \in 1..Len(r.others) |-> r.others[i].after]
  IN IF CmdPost(r.outcome, r.parseError, r.cfgBeyond, before, expect, after, ob, oa) THEN <<>>
     (* a margin / indent beyond the width limit: format() panics before any file is opened *)
     ELSE IF "FormatWidthPanics" \in Devs /\ r.outcome = "crash" /\ r.cfgBeyond /\ r.panicWidth /\ after = before /\ oa = ob
          THEN <<V(r.id, "deviation", "FormatWidthPanics", "mos format panics (Formatting argument out of range) on a margin or indent beyond 65535")>>
     (* started in a subdirectory: the entry is looked up there; the project itself is never touched *)
     ELSE IF "FormatEntryFromCwd" \in Devs /\ r.cwd = "sub" /\ ~r.cfgBeyond /\ after = before /\ r.outcome # "crash"
             /\ (r.decoy \/ (r.outcome = "error" /\ oa = ob))
          THEN <<V(r.id, "deviation", "FormatEntryFromCwd", IF r.decoy THEN "started in a subdirectory, mos format rewrites that directory's main.asm instead of the project"
                                                                     ELSE "started in a subdirectory, mos format cannot find the entry")>>
     ELSE <<V(r.id, "violation", "",
              IF r.outcome = "crash" THEN "mos format crashed"
              ELSE IF oa # ob THEN "mos format changed a file that is not part of the project"
              ELSE IF r.parseError THEN "mos format changed a file (or reported success) although a file of the project has a parse error"
              ELSE IF r.outcome = "error" THEN "mos format failed although the project has no parse error and the configuration is in range"
              ELSE "mos format did not write exactly format(file) into every file of the project")>>

Judge(r) == IF r.kind = "cmd" THEN (IF Prop = "C12" THEN CmdRows(r) ELSE <<>>)
            ELSE IF Prop = "C12" THEN C12Rows(r) ELSE C13Rows(r)

Init == l = 1 /\ bad = <<>>
Step == l <= Len(Rec) /\ bad' = bad \o Judge(Rec[l]) /\ l' = l + 1
Finish == l = Len(Rec) + 1 /\ ndJsonSerialize(IOEnv.OUT, bad) /\ l' = l + 1 /\ UNCHANGED bad
Next == Step \/ Finish
Spec == Init /\ [][Next]_vars
Consumed == TLCGet("stats").diameter >= Len(Rec) + 1
=============================================================================
