SPECIFICATION Spec
CONSTANTS Deviations = {"OpenBraceGapDropped", "BlockCommentContinuationPadded"}
  Indents = {0, 2, 8}
  Margins = {0, 4, 20}
  CodeMargins = {0, 6, 30}
  ReplayIndent = 2
INVARIANTS CommentsKept NoJoin TerminalsKept StepwiseIsFunctional NoTrailingBlanks NoDoubleBlank ContinuationVerbatim
