SPECIFICATION CSpec
CONSTANTS N = 3
  Deviations = {}
INVARIANTS UntouchedOnError AllRewritten
PROPERTY Terminates
