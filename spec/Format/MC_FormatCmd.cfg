\* Example (all repaired); checks/C12/check.py writes the configurations it runs (lib/fmtlib.py cmd_cfg) from the open findings.
SPECIFICATION CSpec
CONSTANTS N = 3
  Deviations = {}
  Tolerated = {}
INVARIANTS UntouchedOnError OnlyProjectTouched FinalPost
PROPERTY Terminates
