SPECIFICATION CSpec
CONSTANTS N = 3
  Deviations = {"WriteBeforeParseAll"}
INVARIANTS UntouchedOnError
