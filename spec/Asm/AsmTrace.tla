-------------------------------- MODULE AsmTrace --------------------------------
(* impl -> spec for C02: every successful build observed on the real assembler must be a   *)
(* fixed point of the reference semantics under its own final symbol values.                *)
(* Record: [id, prog, pc0, ok, syms: <<[path, ty, kind, val]>>, segs: <<[name, start, end,   *)
(*          pc, bytes]>>, vice: <<[addr, path]>>, hasVice, files: [name |-> statements]]       *)
EXTENDS Asm, Json, IOUtils

Rec == ndJsonDeserialize(IOEnv.TRACE)
VARIABLES l, bad
vars == <<l, bad>>
V(id, verdict, dev, why) == [id |-> id, verdict |-> verdict, dev |-> dev, why |-> why]

SymVal(s) == IF s.kind = "num" THEN Num(s.val) ELSE IF s.kind = "str" THEN [k |-> "str", s |-> s.val] ELSE [k |-> "macro"]
Sigma(r) == [p \in {r.syms[i].path : i \in 1..Len(r.syms)} |->
               SymVal(r.syms[CHOOSE i \in 1..Len(r.syms) : r.syms[i].path = p])]
(* the valuation references are resolved in: without the variables, which every walk reads from its own course *)
SigmaRef(r) == LET keep == {i \in 1..Len(r.syms) : r.syms[i].ty # "var"} IN
               [p \in {r.syms[i].path : i \in keep} |-> SymVal(r.syms[CHOOSE i \in keep : r.syms[i].path = p])]
ObsSeg(r, n) == r.segs[CHOOSE i \in 1..Len(r.segs) : r.segs[i].name = n]
ObsSegNames(r) == {r.segs[i].name : i \in 1..Len(r.segs)}

(* why a reference result does not explain the observation ("" = it does) *)
Mismatch(r, sg, R) ==
  IF R.unspec THEN ""
  ELSE IF R.errs # {} THEN "reference semantics rejects the program under the final symbol values"
  ELSE IF \E k \in DOMAIN R.tab : R.tab[k].k = "num" /\ (k \notin DOMAIN sg \/ sg[k] # R.tab[k])
         THEN "a symbol's final value is not the address/value the reference layout gives it"
  ELSE IF \E i \in 1..Len(r.syms) : r.syms[i].kind = "num" /\ r.syms[i].ty # "arg" /\ r.syms[i].path \notin DOMAIN R.tab
         THEN "observed symbol that the program does not define"     \* (macro arguments of earlier passes' numbering may linger)
  ELSE IF DOMAIN R.segs # ObsSegNames(r) THEN "segment sets differ"
  ELSE IF \E n \in DOMAIN R.segs : LET o == ObsSeg(r, n) IN
              \/ o.bytes # SegBytes(R.segs[n])
              \/ (o.bytes # <<>> /\ (o.start # SegLo(R.segs[n]) \/ o.end # SegHi(R.segs[n])))
              \/ o.pc # R.segs[n].pc
         THEN "image differs from the reference layout under the final symbol values"
  ELSE IF r.hasVice /\ {<<r.vice[i].addr, r.vice[i].path>> : i \in 1..Len(r.vice)} # {<<R.tab[k].n, k>> : k \in R.labels}
         THEN "VICE symbols differ from the label addresses"
  ELSE ""

Judge(r) ==
  IF ~r.ok THEN <<>>                        \* C02 speaks about successful builds only
  ELSE LET sg == Sigma(r)
           sr == SigmaRef(r)
           m1 == Mismatch(r, sg, RefF(r.prog, r.files, sr, r.pc0, TRUE)) IN
       IF m1 = "" THEN <<>>
       ELSE LET m2 == Mismatch(r, sg, RefF(r.prog, r.files, sr, r.pc0, FALSE)) IN     \* .align may pad 0 at an aligned pc
            IF m2 = "" THEN <<>> ELSE <<V(r.id, "violation", "", m1)>>

Init == l = 1 /\ bad = <<>>
Step == l <= Len(Rec) /\ bad' = bad \o Judge(Rec[l]) /\ l' = l + 1
Finish == l = Len(Rec) + 1 /\ ndJsonSerialize(IOEnv.OUT, bad) /\ l' = l + 1 /\ UNCHANGED bad
Next == Step \/ Finish
Spec == Init /\ [][Next]_vars
Consumed == TLCGet("stats").diameter >= Len(Rec) + 1
================================================================================
