SPECIFICATION Spec
CONSTANTS MaxLen = 4  MaxLen2 = 4  MaxLen3 = 4  MaxLen4 = 4  MaxLen5 = 3  Shrinking = FALSE  MaxPass = 12  Origin = 252
INVARIANT FixedPoint
INVARIANT Terminates
POSTCONDITION Export
