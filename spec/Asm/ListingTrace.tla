------------------------------- MODULE ListingTrace -------------------------------
(* C11: the source map and the listings of a successful build, judged against the reference *)
(* walk under the observed final symbols.                                                   *)
(* Record: AsmTrace's fields plus  bpl, move, nlines, lineOf: [sid |-> line],                *)
(*   srcmap: <<[line, lo, hi]>>  (observed entries of the main file, in emission order)       *)
(*   rows:   <<[line, hasAddr, addr, bytes, src]>>  (parsed listing of the main file)         *)
EXTENDS AsmTrace

Concat2(ss) == LET F[i \in 0..Len(ss)] == IF i = 0 THEN <<>> ELSE F[i - 1] \o ss[i] IN F[Len(ss)]

(* bytes of one source-map entry: what the segment holds at the entry's (target) addresses *)
EntryBytes(R, e) == LET s == R.segs[e.seg] IN
                    [i \in 1..e.n |-> LET a == e.lo + i - 1 - s.toff IN IF a \in DOMAIN s.mem THEN [addr |-> e.lo + i - 1, b |-> s.mem[a]] ELSE [addr |-> e.lo + i - 1, b |-> 0]]
LineEntries(R, lineOf, L) == SelectSeq(R.srcmap, LAMBDA e : lineOf[e.sid] = L)
LineBytes(R, lineOf, L) == LET es == LineEntries(R, lineOf, L) IN Concat2([i \in 1..Len(es) |-> EntryBytes(R, es[i])])

(* rows of one source line: runs of at most bpl bytes at CONSECUTIVE addresses, each row starting at the address of its first
   byte (the bytes of a line may lie in several places: a loop body, a macro that emits into two segments) *)
RECURSIVE Runs(_, _, _)
Runs(bs, bpl, from) ==          \* <<lo, hi>> index pairs
  IF from > Len(bs) THEN <<>>
  ELSE LET F[i \in from..Len(bs)] == IF i < Len(bs) /\ i - from + 1 < bpl /\ bs[i + 1].addr = bs[i].addr + 1 THEN F[i + 1] ELSE i
           hi == F[from] IN
       <<<<from, hi>>>> \o Runs(bs, bpl, hi + 1)
(* the chunking before the repair of the listing rows: bpl bytes per row whatever their addresses *)
ByCount(bs, bpl) == [c \in 1..((Len(bs) + bpl - 1) \div bpl) |-> <<(c - 1) * bpl + 1, IF c * bpl < Len(bs) THEN c * bpl ELSE Len(bs)>>]
RowsWith(L, bs, chunks) ==
  IF bs = <<>> THEN <<[line |-> L, hasAddr |-> FALSE, addr |-> 0, bytes |-> <<>>, src |-> TRUE]>>
  ELSE [c \in 1..Len(chunks) |->
          LET lo == chunks[c][1]
              hi == chunks[c][2] IN
          [line |-> L, hasAddr |-> TRUE, addr |-> bs[lo].addr, bytes |-> [i \in 1..(hi - lo + 1) |-> bs[lo + i - 1].b], src |-> c = 1]]
RowsOf(L, bs, bpl) == RowsWith(L, bs, Runs(bs, bpl, 1))
Listing(R, lineOf, nlines, bpl) == Concat2([L \in 1..nlines |-> RowsOf(L, LineBytes(R, lineOf, L), bpl)])

(* The implementation-shaped listing: the bytes of an entry are looked up by *address*: the first segment (in
   definition order) whose storage range covers the entry's target address range supplies them, read at that
   address.  It differs from Listing exactly when a segment is relocated (pc # start) or two segments' ranges
   overlap -- the recorded deviation ListingLookupByAddressRange. *)
ImplEntryBytes(R, order, e) ==
  LET cands == SelectSeq(order, LAMBDA n : DOMAIN R.segs[n].mem # {} /\ SegLo(R.segs[n]) <= e.lo /\ SegHi(R.segs[n]) >= e.lo + e.n) IN
  IF cands = <<>> THEN <<>>
  ELSE LET s == R.segs[cands[1]] IN
       [i \in 1..e.n |-> LET a == e.lo + i - 1 IN [addr |-> a, b |-> IF a \in DOMAIN s.mem THEN s.mem[a] ELSE 0]]
ImplLineBytes(R, order, lineOf, L) == LET es == LineEntries(R, lineOf, L) IN Concat2([i \in 1..Len(es) |-> ImplEntryBytes(R, order, es[i])])
ListingImpl(R, order, lineOf, nlines, bpl) == Concat2([L \in 1..nlines |-> RowsOf(L, ImplLineBytes(R, order, lineOf, L), bpl)])
Relocated(R) == {n \in DOMAIN R.segs : R.segs[n].toff # 0}
Overlapping(R) == \E m, n \in DOMAIN R.segs : m # n /\ DOMAIN R.segs[m].mem # {} /\ DOMAIN R.segs[n].mem # {}
                     /\ SegLo(R.segs[m]) + R.segs[m].toff < SegHi(R.segs[n]) + R.segs[n].toff /\ SegLo(R.segs[n]) + R.segs[n].toff < SegHi(R.segs[m]) + R.segs[m].toff

(* entries of statements of the main file only (lineOf = 0 marks statements of imported files: they belong to other listings) *)
SrcMapOf(R, lineOf) == LET m == SelectSeq(R.srcmap, LAMBDA e : lineOf[e.sid] # 0) IN
                       [i \in 1..Len(m) |-> [line |-> lineOf[m[i].sid], lo |-> m[i].lo, hi |-> m[i].lo + m[i].n]]

(* every emitted byte is covered by exactly one source-map entry (per segment) *)
Partition(R) == \A n \in DOMAIN R.segs :
   LET s == R.segs[n]
       cover(a) == Cardinality({i \in 1..Len(R.srcmap) : R.srcmap[i].seg = n /\ a + s.toff >= R.srcmap[i].lo /\ a + s.toff < R.srcmap[i].lo + R.srcmap[i].n}) IN
   \A a \in DOMAIN s.mem : cover(a) >= 1

JudgeL(r) ==
  IF ~r.ok THEN <<>>
  ELSE LET sg == Sigma(r)
           R == RefL(r.prog, r.files, SigmaRef(r), r.pc0, TRUE, r.move)
           m == Mismatch(r, sg, R) IN
       IF R.unspec THEN <<>>
       ELSE IF m # "" THEN <<>>                                 \* not a fixed point / align variant: C02's business, not judged here
       ELSE IF r.hasSrcmap /\ r.srcmap # SrcMapOf(R, r.lineOf)
         THEN <<V(r.id, "violation", "", "source map differs: a byte range is not attributed to the statement that emitted it")>>
       ELSE IF r.rows = Listing(R, r.lineOf, r.nlines, r.bpl) THEN <<>>
       ELSE IF (Relocated(R) # {} \/ Overlapping(R)) /\ r.rows = ListingImpl(R, [i \in 1..Len(r.segs) |-> r.segs[i].name], r.lineOf, r.nlines, r.bpl)
         THEN <<V(r.id, "deviation", "ListingLookupByAddressRange", "listing bytes looked up by address: wrong or missing for relocated / overlapping segments")>>
       ELSE <<V(r.id, "violation", "", "listing rows differ from the bytes/addresses of the source lines")>>

StepL == l <= Len(Rec) /\ bad' = bad \o JudgeL(Rec[l]) /\ l' = l + 1
NextL == StepL \/ Finish
SpecL == Init /\ [][NextL]_vars
================================================================================
