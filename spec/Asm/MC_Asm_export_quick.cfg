SPECIFICATION Spec
CONSTANTS MaxLen = 3  MaxLen2 = 3  MaxLen3 = 3  MaxLen4 = 3  MaxLen5 = 2  Shrinking = FALSE  MaxPass = 12  Origin = 252
INVARIANT FixedPoint
INVARIANT Terminates
POSTCONDITION Export
