--------------------------------- MODULE MC_Asm ---------------------------------
(* Design level for C02 (and the pass-loop part of C06): every program of up to MaxLen    *)
(* statements over a small alphabet placed on the zero-page boundary is run through the   *)
(* pass machine.  Checked: a build that ends "ok" is a fixed point of the reference       *)
(* semantics (no value of an earlier pass survives), and the loop ends within MaxPass.    *)
EXTENDS Asm, Json, IOUtils, SequencesExt
CONSTANTS MaxLen, MaxLen2, MaxLen3, MaxLen4, MaxLen5, MaxPass, Origin, Shrinking

N(n) == [k |-> "num", n |-> n, radix |-> "dec", lz |-> 0]
Id(p) == [k |-> "id", name |-> JoinPath(p), path |-> p, mod |-> ""]
IdM(p, m) == [k |-> "id", name |-> JoinPath(p), path |-> p, mod |-> m]
Plus(e, n) == [k |-> "bin", op |-> "+", l |-> e, r |-> N(n)]
Insn(mn, form, e) == [k |-> "insn", mn |-> mn, form |-> form, e |-> e, sid |-> "0"]
Label(n) == [k |-> "label", name |-> n, hasBody |-> FALSE, body |-> <<>>, sid |-> "0"]
Names == {"a", "b"}

Alphabet ==
     {Label(n) : n \in Names}
  \cup {Insn("lda", "dir", Id(<<n>>)) : n \in Names}
  \cup {Insn("jmp", "dir", Id(<<n>>)) : n \in Names}
  \cup {Insn("bne", "dir", Id(<<"a">>)), Insn("lda", "dirx", Plus(Id(<<"b">>), 1)), Insn("nop", "imp", N(0)),
        Insn("lda", "imm", IdM(<<"b">>, "<")),
        [k |-> "data", w |-> 2, es |-> <<Id(<<"a">>)>>, sid |-> "0"],
        [k |-> "align", e |-> N(4), sid |-> "0"],
        [k |-> "const", name |-> "c", e |-> Plus(Id(<<"b">>), 254), sid |-> "0"],
        Insn("sta", "dir", Id(<<"c">>)),
        [k |-> "label", name |-> "s", hasBody |-> TRUE, sid |-> "0",
           body |-> <<Insn("lda", "dir", Id(<<"super", "b">>)), [k |-> "label", name |-> "b", hasBody |-> FALSE, body |-> <<>>, sid |-> "0"]>>],
        (* a reference in front of the inner definition of a name the outer scope has too: the inner one is meant *)
        [k |-> "braces", sid |-> "$B",
           body |-> <<Insn("jmp", "dir", Id(<<"b">>)), Insn("nop", "imp", N(0)), [k |-> "label", name |-> "b", hasBody |-> FALSE, body |-> <<>>, sid |-> "0"]>>]}

(* a second family: two segments (one relocated), a brace scope with block symbols, a forward constant, `* =` backwards *)
Alphabet2 ==
     {Label(n) : n \in Names}
  \cup {Insn("lda", "dir", Id(<<n>>)) : n \in Names}
  \cup {Insn("jmp", "dir", Id(<<"b">>)), Insn("beq", "dir", Id(<<"+">>)), Insn("bne", "dir", Id(<<"-">>)),
        [k |-> "useseg", name |-> "s2", hasBody |-> TRUE, sid |-> "0", body |-> <<Label("b"), Insn("lda", "dir", Id(<<"a">>))>>],
        [k |-> "useseg", name |-> "s2", hasBody |-> FALSE, sid |-> "0", body |-> <<>>],
        [k |-> "braces", sid |-> "$B", body |-> <<Insn("beq", "dir", Id(<<"+">>)), Insn("lda", "dir", Id(<<"a">>)), Insn("bne", "dir", Id(<<"-">>))>>],
        [k |-> "setpc", e |-> N(248), sid |-> "0"],
        [k |-> "data", w |-> 2, es |-> <<[k |-> "id", name |-> "segments.s2.end", path |-> <<"segments", "s2", "end">>, mod |-> ""]>>, sid |-> "0"],
        [k |-> "const", name |-> "c", e |-> Plus(Id(<<"a">>), 1), sid |-> "0"]}
Prelude2 == <<[k |-> "defseg", name |-> "s1", start |-> N(Origin), hasPc |-> FALSE, pc |-> N(0), sid |-> "d1"],
              [k |-> "defseg", name |-> "s2", start |-> N(254), hasPc |-> TRUE, pc |-> N(512), sid |-> "d2"]>>
(* a third family: `.text' with interpolated symbols just below 100, where one more byte makes the decimal spelling of an
   address one character longer.  With Shrinking = TRUE a constant that *decreases* as its label moves up is added: such
   programs may have no fixed point at all (the layout oscillates), which only the pass bound can end. *)
Txt(n) == [k |-> "text", enc |-> "", e |-> [k |-> "istr", parts |-> <<[ref |-> n, path |-> <<n>>]>>], sid |-> "0"]
Alphabet3 ==
     {Label(n) : n \in Names} \cup {Txt(n) : n \in Names}
  \cup {Insn("nop", "imp", N(0)), Insn("lda", "dir", Id(<<"b">>)), [k |-> "data", w |-> 1, es |-> <<IdM(<<"a">>, "<")>>, sid |-> "0"]}
  \cup (IF Shrinking THEN {[k |-> "const", name |-> "c", e |-> [k |-> "bin", op |-> "-", l |-> N(109), r |-> Id(<<"b">>)], sid |-> "0"], Txt("c")} ELSE {})
Programs3 == UNION {[1..n -> Alphabet3] : n \in 1..MaxLen3}
SetPc3 == [k |-> "setpc", e |-> N(97), sid |-> "org"]
(* a fourth family: a condition that is a forward reference.  While it is unknown the `.if' is skipped, so the macro
   invocations after it are numbered differently than in the final pass: symbols of `$macro_0' at the top level exist in an
   early pass only.  With NoPrune substituted for PruneStale (the pinned reading) FixedPoint is violated by such a program. *)
MacroM == [k |-> "macrodef", name |-> "m", params |-> <<>>, sid |-> "0", body |-> <<Label("l"), Insn("nop", "imp", N(0))>>]
CallM == [k |-> "macrocall", name |-> "m", args |-> <<>>, sid |-> "0"]
Gt0(n) == [k |-> "bin", op |-> ">", l |-> Id(<<n>>), r |-> N(0)]
Alphabet4 ==
  {Label("a"), CallM, Insn("lda", "dir", Id(<<"a">>)),
   [k |-> "braces", sid |-> "$B", body |-> <<[k |-> "if", e |-> Gt0("a"), then |-> <<CallM>>, hasElse |-> FALSE, else |-> <<>>, sid |-> "0"]>>],
   [k |-> "if", e |-> Gt0("a"), then |-> <<CallM>>, hasElse |-> TRUE, else |-> <<Insn("nop", "imp", N(0))>>, sid |-> "0"]}
Programs4 == UNION {[1..n -> Alphabet4] : n \in 1..MaxLen4}
NoPrune == FALSE
(* a fifth family: one statement in front of the segment definitions of the second family.  It has no segment to go to:
   the build must fail; in the pinned reading (SilentDrop for NoSegmentError) it succeeded without the statement's bytes *)
Programs5 == UNION {[1..n -> Alphabet2] : n \in 0..(MaxLen5 - 1)}       \* MaxLen5 = 0 switches the family off
Fronts == {Insn("nop", "imp", N(0)), Insn("lda", "dir", Id(<<"a">>)), [k |-> "data", w |-> 2, es |-> <<N(7)>>, sid |-> "0"]}
SilentDrop == FALSE
(* a sixth family: constants defined in terms of constants further down (a chain needs one pass per link) next to statements
   that ask whether, and as what, the head of the chain is defined: a loop that stops one pass early leaves `defined(a)' at 0 *)
Const6(n, e) == [k |-> "const", name |-> n, e |-> e, sid |-> "0"]
Alphabet6 == {Const6("a", Id(<<"b">>)), Const6("b", Id(<<"c">>)), Const6("c", N(1)),
              [k |-> "data", w |-> 1, es |-> <<[k |-> "def", name |-> "a", path |-> <<"a">>]>>, sid |-> "0"],
              [k |-> "data", w |-> 1, es |-> <<Id(<<"a">>)>>, sid |-> "0"], Insn("lda", "imm", Id(<<"b">>))}
MaxLen6 == 4
Programs6 == UNION {[1..n -> Alphabet6] : n \in 1..MaxLen6}
Programs == UNION {[1..n -> Alphabet] : n \in 1..MaxLen}
Programs2 == UNION {[1..n -> Alphabet2] : n \in 1..MaxLen2}
Sid(p) == [i \in 1..Len(p) |-> [p[i] EXCEPT !.sid = ToString(i)]]
SetPc == [k |-> "setpc", e |-> N(Origin), sid |-> "org"]

VARIABLES prog, m
vars == <<prog, m>>

InitProgs == {<<SetPc>> \o Sid(p) : p \in Programs} \cup {Prelude2 \o Sid(p) : p \in Programs2} \cup {<<SetPc3>> \o Sid(p) : p \in Programs3}
                  \cup {<<MacroM, SetPc>> \o Sid(p) : p \in Programs4}
                  \cup {<<SetPc>> \o Sid(p) : p \in Programs6}
                  \cup (IF MaxLen5 = 0 THEN {} ELSE {<<[f EXCEPT !.sid = "front"]>> \o Prelude2 \o Sid(p) : f \in Fronts, p \in Programs5})
Init == /\ prog \in InitProgs
        /\ m = MInit
(* spec -> implementation: the whole explored program space goes to the real assembler as well (checks/C02) *)
Export == ndJsonSerialize(IOEnv.OUT, SetToSeq({[prog |-> p] : p \in InitProgs}))
Pass == /\ m.phase = "run" /\ m.pass < MaxPass
        /\ m' = Decide(m, RunPass(prog, m, TRUE), 8192)
        /\ UNCHANGED prog
Next == Pass
Spec == Init /\ [][Next]_vars

(* C02 at design level *)
FixedPoint ==
  m.phase = "ok" =>
    LET R == Ref(prog, m.tab, 8192, TRUE) IN
    /\ R.errs = {}
    /\ \A k \in DOMAIN R.tab : R.tab[k].k = "num" => (k \in DOMAIN m.tab /\ m.tab[k] = R.tab[k])
    /\ \A k \in DOMAIN m.tab : m.tab[k].k = "num" => k \in DOMAIN R.tab
    /\ DOMAIN R.segs = DOMAIN m.segs
    /\ \A n \in DOMAIN R.segs : R.segs[n].mem = m.segs[n].mem /\ R.segs[n].pc = m.segs[n].pc
    (* the image holds the bytes of every statement: a top-level instruction or data statement has a source-map entry *)
    /\ \A i \in 1..Len(prog) : prog[i].k \in {"insn", "data"} => \E j \in 1..Len(R.srcmap) : R.srcmap[j].sid = prog[i].sid
(* the pass loop terminates within the bound on this program space *)
Terminates == ~(m.phase = "run" /\ m.pass >= MaxPass)
(* vacuity witnesses: these are *expected to be violated* (used by the check to show that "ok" and "failed"
   endings and multi-pass runs are reachable in the explored space) *)
NeverOk == m.phase # "ok"
NeverFailed == m.phase # "failed"
NeverFourPasses == m.pass < 4
================================================================================
