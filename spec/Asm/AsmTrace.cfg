SPECIFICATION Spec
POSTCONDITION Consumed
