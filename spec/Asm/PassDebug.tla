--------------------------------- MODULE PassDebug ---------------------------------
EXTENDS PassTrace
RECURSIVE Show(_, _, _, _)
Show(r, m, i, cx) ==
  IF i > Len(r.passes) \/ m.phase # "run" THEN PrintT(<<"end", m.phase, m.pass>>)
  ELSE LET st0 == [InitState(m.tab, [n \in DOMAIN m.segs |-> ResetSeg(m.segs[n])], m.cur0) EXCEPT !.undef = m.undef, !.vars = m.vars, !.nodes = m.nodes]
           w  == WalkSeq(r.prog, st0, <<>>, FALSE, TRUE, cx)
           ss == SegSyms(w.segs)
           changed == {k \in DOMAIN ss : k \in DOMAIN w.tab /\ w.tab[k] # ss[k]}
           rr == [w EXCEPT !.tab = ss @@ @, !.undef = @ \cup {[scope |-> <<>>, name |-> k, sid |-> "seg"] : k \in changed}] IN
       /\ PrintT(<<"pass", i - 1, "model", NumTab(rr.tab), "undef", UndefNames(rr.undef), "errs", rr.errs>>)
       /\ PrintT(<<"pass", i - 1, "obs  ", ObsTab(r.passes[i]), "undef", r.passes[i].undefined, "nerr", r.passes[i].nerrors>>)
       /\ Show(r, Decide(m, rr, r.pc0), i + 1, cx)
StepD == l = 1 /\ l' = 2 /\ UNCHANGED bad /\ Show(Rec[1], MInit, 1, [md |-> MacroDefs(Rec[1].prog, <<>>), files |-> Rec[1].files, moveMacro |-> FALSE])
SpecD == Init /\ [][StepD]_vars
================================================================================
