SPECIFICATION Spec
CONSTANTS MaxLen = 0  MaxLen2 = 0  MaxLen3 = 0  MaxLen4 = 3  MaxLen5 = 0  Shrinking = FALSE  MaxPass = 12  Origin = 252
CONSTANT PruneStale <- NoPrune
INVARIANT FixedPoint
