SPECIFICATION Spec
CONSTANTS MaxLen = 0  MaxLen2 = 0  MaxLen3 = 4  MaxLen4 = 0  MaxLen5 = 0  Shrinking = TRUE  MaxPass = 12  Origin = 252
INVARIANT Terminates
