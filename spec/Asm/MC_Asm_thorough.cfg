SPECIFICATION Spec
CONSTANTS MaxLen = 4  MaxLen2 = 4  MaxPass = 12  Origin = 252
INVARIANT FixedPoint
INVARIANT Terminates
