SPECIFICATION Spec
POSTCONDITION Consumed
