SPECIFICATION Spec
CONSTANTS MaxLen = 0  MaxLen2 = 0  MaxLen3 = 0  MaxLen4 = 0  MaxLen5 = 2  Shrinking = FALSE  MaxPass = 12  Origin = 252
CONSTANT NoSegmentError <- SilentDrop
INVARIANT FixedPoint
