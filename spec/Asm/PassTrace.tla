--------------------------------- MODULE PassTrace ---------------------------------
(* Tier 2 for the pass machine of Asm.tla: the per-pass observations of the real pass loop  *)
(* (hook: pass observer, called after every pass) must be the states RunPass/Decide go       *)
(* through on the same program.  A mismatch is model drift (the design-level results of      *)
(* MC_Asm would no longer speak about the code), not a property violation.                   *)
(* Record: AsmTrace's fields plus passes: <<[syms <<[path, kind, val]>>, undefined <<id>>,    *)
(*          nerrors, segs <<[name, pc]>>]>> and ended \in {"ok", "failed"}.                    *)
EXTENDS AsmTrace

NumTab(t) == [k \in {x \in DOMAIN t : t[x].k = "num"} |-> t[k].n]
ObsTab(p) == [k \in {p.syms[i].path : i \in {j \in 1..Len(p.syms) : p.syms[j].kind = "num"}} |->
                p.syms[CHOOSE i \in 1..Len(p.syms) : p.syms[i].path = k].val]
UndefNames(u) == {x.name : x \in u}

RECURSIVE Follow(_, _, _, _)
(* "" when the observed passes i.. are what the machine does from state m; else a description of the first difference *)
Follow(r, m, i, cx) ==
  IF i > Len(r.passes)
    THEN (IF m.phase = "run" THEN "the real loop stopped after " \o ToString(Len(r.passes)) \o " passes, the machine goes on"
          ELSE IF m.phase # r.ended THEN "the machine ends '" \o m.phase \o "', the real loop '" \o r.ended \o "'" ELSE "")
  ELSE IF m.phase # "run" THEN "the machine ended '" \o m.phase \o "' after " \o ToString(i - 1) \o " passes, the real loop ran " \o ToString(Len(r.passes))
  ELSE LET st0 == [InitState(m.tab, [n \in DOMAIN m.segs |-> ResetSeg(m.segs[n])], m.cur0) EXCEPT !.undef = m.undef, !.vars = m.vars, !.nodes = m.nodes]
           w  == WalkSeq(r.prog, st0, <<>>, FALSE, TRUE, cx)
           ss == SegSyms(w.segs)
           changed == {k \in DOMAIN ss : k \in DOMAIN w.tab /\ w.tab[k] # ss[k]}
           rr == [w EXCEPT !.tab = ss @@ @, !.undef = @ \cup {[scope |-> <<>>, name |-> k, sid |-> "seg"] : k \in changed}]
           p  == r.passes[i] IN
       IF rr.unspec THEN ""
       ELSE IF NumTab(rr.tab) # ObsTab(p) THEN "symbol table after pass " \o ToString(i - 1) \o " differs"
       ELSE IF UndefNames(rr.undef) # {p.undefined[j] : j \in 1..Len(p.undefined)} THEN "undefined set after pass " \o ToString(i - 1) \o " differs"
       ELSE IF (rr.errs = {}) # (p.nerrors = 0) THEN "errors after pass " \o ToString(i - 1) \o " differ"
       ELSE Follow(r, Decide(m, rr, r.pc0), i + 1, cx)

JudgeP(r) ==
  LET d == Follow(r, MInit, 1, [md |-> MacroDefs(r.prog, <<>>), files |-> r.files, moveMacro |-> FALSE]) IN
  IF d = "" THEN <<>> ELSE <<V(r.id, "drift", "PassMachine", d)>>

StepP == l <= Len(Rec) /\ bad' = bad \o JudgeP(Rec[l]) /\ l' = l + 1
NextP == StepP \/ Finish
SpecP == Init /\ [][NextP]_vars
================================================================================
