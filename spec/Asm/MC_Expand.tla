-------------------------------- MODULE MC_Expand --------------------------------
(* Design level for C07: for every small nest of constructs, the pass machine run on P and  *)
(* on ExpandAll(InlineConsts(P)) ends the same way with the same image.                      *)
EXTENDS Expand
CONSTANTS MaxBody, MaxPass

RECURSIVE Run(_, _, _)
Run(prog, m, k) == IF m.phase # "run" \/ k = 0 THEN m ELSE Run(prog, Decide(m, RunPass(prog, m, TRUE), 8192), k - 1)
Final(prog) == Run(prog, MInit, MaxPass)
Image(m) == [n \in DOMAIN m.segs |-> m.segs[n].mem]

N(n) == [k |-> "num", n |-> n, radix |-> "dec", lz |-> 0]
Id(p) == [k |-> "id", name |-> JoinPath(p), path |-> p, mod |-> ""]
BinE(op, l, r) == [k |-> "bin", op |-> op, l |-> l, r |-> r]
Insn(mn, form, e) == [k |-> "insn", mn |-> mn, form |-> form, e |-> e, sid |-> "0"]
Label(n) == [k |-> "label", name |-> n, hasBody |-> FALSE, body |-> <<>>, sid |-> "0"]
Data(e) == [k |-> "data", w |-> 1, es |-> <<e>>, sid |-> "0"]
Loop(n, b) == [k |-> "loop", e |-> N(n), sid |-> "$L", body |-> b]
If(c, t, f) == [k |-> "if", e |-> c, then |-> t, hasElse |-> TRUE, else |-> f, sid |-> "0"]
Braces(b, s) == [k |-> "braces", sid |-> s, body |-> b]
Call(a) == [k |-> "macrocall", name |-> "m", args |-> <<a>>, sid |-> "0"]

(* simple statements usable in bodies *)
Simple == { Insn("lda", "imm", Id(<<"index">>)), Data(BinE("*", Id(<<"index">>), N(2))), Insn("jmp", "dir", Id(<<"tgt">>)),
            Insn("lda", "dir", Id(<<"tgt">>)), Insn("ldx", "imm", Id(<<"k">>)), Insn("nop", "imp", N(0)) }
Bodies1 == {<<s>> : s \in Simple} \cup {<<s, t>> : s \in Simple, t \in {Insn("nop", "imp", N(0)), Insn("lda", "dir", Id(<<"tgt">>))}}
Conds == {N(0), N(1), BinE("==", Id(<<"index">>), N(1)), BinE("-", Id(<<"index">>), N(1))}
(* level-1 constructs over simple bodies, level-2 constructs over level-1 constructs *)
C1 == {Loop(n, b) : n \in {0, 2}, b \in Bodies1} \cup {If(c, b, <<Insn("nop", "imp", N(0))>>) : c \in Conds, b \in Bodies1}
      \cup {Braces(b, "$B") : b \in Bodies1} \cup {Call(N(3)), Call(Id(<<"k">>))}
C2 == {Loop(2, <<c>>) : c \in {x \in C1 : x.k \in {"if", "braces"}}} \cup {If(N(1), <<c>>, <<>>) : c \in C1}
      \cup {Braces(<<c>>, "$O") : c \in {x \in C1 : x.k # "braces"}}
Constructs == IF MaxBody >= 2 THEN C1 \cup C2 ELSE C1

MacroM == [k |-> "macrodef", name |-> "m", params |-> <<"p">>, sid |-> "0",
           body |-> <<Insn("lda", "imm", Id(<<"p">>)), Label("ml"), Insn("bne", "dir", Id(<<"ml">>))>>]
Prelude == <<[k |-> "setpc", e |-> N(250), sid |-> "0"], [k |-> "const", name |-> "k", e |-> N(5), sid |-> "0"], MacroM>>
Postlude == <<Label("tgt"), Insn("rts", "imp", N(0))>>
(* index is defined outside loops too, so that every body is a valid program at top level *)
Programs == {Prelude \o <<[k |-> "const", name |-> "index", e |-> N(9), sid |-> "0"]>> \o <<c>> \o Postlude : c \in Constructs}
            \cup {Prelude \o <<[k |-> "const", name |-> "index", e |-> N(9), sid |-> "0"]>> \o <<c, d>> \o Postlude : c \in C1, d \in {Call(N(3)), Loop(2, <<Insn("lda", "imm", Id(<<"index">>))>>)}}
Sid(p) == [i \in 1..Len(p) |-> IF p[i].k \in {"braces", "loop"} THEN p[i] ELSE [p[i] EXCEPT !.sid = ToString(i)]]

VARIABLES prog, a, b, phase
vars == <<prog, a, b, phase>>
Init == prog \in {Sid(p) : p \in Programs} /\ a = MInit /\ b = MInit /\ phase = "start"
Assemble == /\ phase = "start" /\ phase' = "done"
            /\ a' = Final(prog)
            /\ b' = Final(ExpandAll(InlineConsts(prog), <<>>))
            /\ UNCHANGED prog
Next == Assemble
Spec == Init /\ [][Next]_vars

SameMeaning == phase = "done" => (a.phase = b.phase /\ (a.phase = "ok" => Image(a) = Image(b)))
(* vacuity witness, expected to be violated: some program of the space builds *)
NeverOk == ~(phase = "done" /\ a.phase = "ok")
================================================================================
