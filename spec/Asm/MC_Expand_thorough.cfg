SPECIFICATION Spec
CONSTANTS MaxBody = 2 MaxPass = 12
INVARIANT SameMeaning
