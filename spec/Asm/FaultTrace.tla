-------------------------------- MODULE FaultTrace --------------------------------
(* MODE "inject": [id, prog, files, class, v, infile, path, pos] -> [id, prog, files, predicted]             *)
(* MODE "judge" : [id, class, exit, lines (lines of the injected statements), col, file, diags <<[file,line,  *)
(*                 col,msg]>>, before/after (snapshots of the target directory), crashed] -> verdict rows      *)
EXTENDS Fault, Json, IOUtils
Rec == ndJsonDeserialize(IOEnv.TRACE)
VARIABLES l, out
vars == <<l, out>>
V(id, verdict, dev, why) == [id |-> id, verdict |-> verdict, dev |-> dev, why |-> why]

Injected(r) ==
  LET frag == Fragment(r.class, r.v)
      p2 == IF r.infile = "main" THEN InsertAt(r.prog, r.path, r.pos, frag) ELSE r.prog
      f2 == IF r.infile = "main" THEN r.files ELSE [r.files EXCEPT ![r.infile] = InsertAt(@, r.path, r.pos, frag)] IN
  <<[id |-> r.id, prog |-> p2, files |-> f2, predicted |-> Predicted(p2, f2)]>>

(* an unclosed block is reported where the closing delimiter is missed: anywhere from the opening line on, in the same file *)
Located(r) == \E i \in 1..Len(r.diags) : r.diags[i].file = r.file
                                          /\ (IF r.class = "unclosed" THEN r.diags[i].line >= r.lines[1] ELSE r.diags[i].line \in {r.lines[j] : j \in 1..Len(r.lines)})
                                          /\ (r.class \in {"malformed", "unclosed"} \/ (r.diags[i].col >= r.colLo /\ r.diags[i].col <= r.colHi))
Judge(r) ==
  IF r.crashed THEN <<V(r.id, "violation", "", "mos build crashed on an invalid program")>>
  ELSE IF r.exit = 0 THEN <<V(r.id, "violation", "", "build of a program with a fault of a known class succeeded")>>
  ELSE IF r.before # r.after THEN <<V(r.id, "violation", "", "a failing build created or modified an output file")>>
  ELSE IF Len(r.diags) = 0 THEN <<V(r.id, "violation", "", "failing build reported no diagnostic")>>
  \* (code across the end of the address space is C09's class of error: an error and no file, no word about where it is reported)
  ELSE IF r.class # "pastend" /\ ~Located(r) THEN <<V(r.id, "violation", "", "no diagnostic names the file and line (and column) of the offending construct")>>
  ELSE <<>>

Init == l = 1 /\ out = <<>>
Step == /\ l <= Len(Rec)
        /\ out' = out \o (IF IOEnv.MODE = "inject" THEN Injected(Rec[l]) ELSE Judge(Rec[l]))
        /\ l' = l + 1
Finish == l = Len(Rec) + 1 /\ ndJsonSerialize(IOEnv.OUT, out) /\ l' = l + 1 /\ UNCHANGED out
Next == Step \/ Finish
Spec == Init /\ [][Next]_vars
Consumed == TLCGet("stats").diameter >= Len(Rec) + 1
================================================================================
