---------------------------------- MODULE Fault ----------------------------------
(* C04: one fault of a known class injected into an otherwise valid program.            *)
(*  Fragment(class)   the statements that constitute the fault (sid "F1"/"F2" mark them) *)
(*  InsertAt          places them at a site (path to a statement list + position)        *)
(*  Predicted(prog)   what the pass machine of Asm.tla does with the result              *)
(* "raw" statements carry literal text the AST cannot express (malformed statement,     *)
(* unclosed block); the machine treats them as parse errors.                             *)
EXTENDS Asm

N(n) == [k |-> "num", n |-> n, radix |-> "dec", lz |-> 0]
Id(p) == [k |-> "id", name |-> JoinPath(p), path |-> p, mod |-> ""]
Insn(mn, form, e, sid) == [k |-> "insn", mn |-> mn, form |-> form, e |-> e, sid |-> sid]
Raw(t, sid) == [k |-> "raw", text |-> t, sid |-> sid]
Nop(sid) == Insn("nop", "imp", N(0), sid)
Bin(op, l, r) == [k |-> "bin", op |-> op, l |-> l, r |-> r]
Def(p) == [k |-> "def", name |-> JoinPath(p), path |-> p]

Classes == {"undefsym", "undefmacro", "undefseg", "labelredef", "constredef", "illegalmode", "immrange",
            "branchrange", "arity", "malformed", "unclosed", "pastend", "textundef"}
SemanticClasses == Classes \ {"malformed", "unclosed"}

(* the base program must define: macro mm with one parameter, and a label `far' more than 128 bytes away *)
Fragment(c, v) ==
  CASE c = "undefsym"    -> (* also names that exist only as a namespace (a scope without a value) *)
                            <<CASE v = 0 -> Insn("lda", "dir", Id(<<"nosuchsym">>), "F1")
                                [] v = 1 -> Insn("jmp", "dir", Id(<<"nosuchsym">>), "F1")
                                [] v = 2 -> Insn("lda", "dir", Id(<<"segments">>), "F1")
                                [] v = 3 -> Insn("ldx", "imm", [k |-> "id", name |-> "segments.default", path |-> <<"segments", "default">>, mod |-> ">"], "F1")
                                (* the undefined name shares its expression with a `defined(..)' probe, on either side *)
                                [] v = 4 -> Insn("lda", "imm", Bin("+", Id(<<"nosuchsym">>), Def(<<"far">>)), "F1")
                                [] v = 5 -> Insn("lda", "imm", Bin("+", Def(<<"nosuchsym2">>), Id(<<"nosuchsym">>)), "F1")
                                [] v = 6 -> [k |-> "if", e |-> Bin("&&", Id(<<"nosuchsym">>), Def(<<"far">>)), hasElse |-> FALSE, else |-> <<>>, sid |-> "F1", then |-> <<Nop("F2")>>]
                                [] v = 7 -> [k |-> "data", w |-> 1, es |-> <<N(1), Bin("-", Id(<<"nosuchsym">>), Def(<<"far">>))>>, sid |-> "F1"]
                                (* the undefined name in every other place a statement evaluates an expression *)
                                [] v = 8 -> [k |-> "align", e |-> Id(<<"nosuchsym">>), sid |-> "F1"]
                                [] v = 9 -> [k |-> "setpc", e |-> Bin("+", Id(<<"nosuchsym">>), N(8192)), sid |-> "F1"]
                                [] v = 10 -> [k |-> "if", e |-> Id(<<"nosuchsym">>), hasElse |-> TRUE, else |-> <<Nop("F2")>>, sid |-> "F1", then |-> <<>>]
                                [] v = 11 -> [k |-> "const", name |-> "dupq", e |-> Bin("*", Id(<<"nosuchsym">>), N(2)), sid |-> "F1"]
                                [] v = 12 -> [k |-> "macrocall", name |-> "mm", args |-> <<Id(<<"nosuchsym">>)>>, sid |-> "F1"]
                                [] OTHER -> [k |-> "data", w |-> 2, es |-> <<Id(<<"nosuchsym">>)>>, sid |-> "F1"]>>
    [] c = "undefmacro"  -> <<[k |-> "macrocall", name |-> "nosuchmacro", args |-> (IF v = 0 THEN <<>> ELSE <<N(1)>>), sid |-> "F1"]>>
    [] c = "undefseg"    -> <<[k |-> "useseg", name |-> "nosuchseg", hasBody |-> (v = 0), body |-> (IF v = 0 THEN <<Nop("F2")>> ELSE <<>>), sid |-> "F1"]>>
    [] c = "labelredef"  -> <<[k |-> "label", name |-> "dupl", hasBody |-> FALSE, body |-> <<>>, sid |-> "F1"], Nop("x"),
                              [k |-> "label", name |-> "dupl", hasBody |-> FALSE, body |-> <<>>, sid |-> "F2"]>>
    [] c = "constredef"  -> <<[k |-> "const", name |-> "dupc", e |-> N(1), sid |-> "F1"], [k |-> "const", name |-> "dupc", e |-> N(2 + v), sid |-> "F2"]>>
    [] c = "illegalmode" -> <<IF v = 0 THEN Insn("sta", "imm", N(5), "F1") ELSE Insn("stx", "dirx", N(16), "F1")>>
    [] c = "immrange"    -> (* v >= 2: out of range only in the first iteration when placed in a loop body *)
                            <<IF v < 2 THEN Insn(IF v = 0 THEN "lda" ELSE "cpx", "imm", N(256 + v), "F1")
                              ELSE Insn("lda", "imm", [k |-> "bin", op |-> "*", l |-> [k |-> "par", e |-> [k |-> "bin", op |-> "-", l |-> N(1), r |-> Id(<<"index">>)]], r |-> N(256)], "F1")>>
    [] c = "branchrange" -> <<Insn(IF v = 0 THEN "bne" ELSE "bcc", "dir", Id(<<"far">>), "F1")>>
    [] c = "arity"       -> (* v >= 2: only in the first iteration when placed in a loop body *)
                            IF v < 2 THEN <<[k |-> "macrocall", name |-> "mm", args |-> (IF v = 0 THEN <<>> ELSE <<N(1), N(2)>>), sid |-> "F1"]>>
                            ELSE <<[k |-> "if", e |-> [k |-> "bin", op |-> "==", l |-> Id(<<"index">>), r |-> N(0)], hasElse |-> FALSE, else |-> <<>>, sid |-> "F1",
                                    then |-> <<[k |-> "macrocall", name |-> "mm", args |-> <<>>, sid |-> "F2"]>>]>>
    [] c = "pastend"     -> (* an instruction that does not fit below the end of the address space *)
                            <<[k |-> "setpc", e |-> N(65534 + (v % 2)), sid |-> "F1"], Insn("lda", "dir", N(4660), "F2")>>
    [] c = "textundef"   -> (* a name no pass can resolve, interpolated into a text *)
                            <<[k |-> "text", enc |-> (IF v % 2 = 0 THEN "" ELSE "petscii"), sid |-> "F1",
                               e |-> [k |-> "istr", parts |-> <<[lit |-> <<97>>], [ref |-> "nosuchsym", path |-> <<"nosuchsym">>]>>]]>>
    [] c = "malformed"   -> <<Raw(IF v = 0 THEN "lda #" ELSE ".byte ,", "F1")>>
    [] c = "unclosed"    -> <<Raw(IF v = 0 THEN "{" ELSE ".if 1 {", "F1")>>

(* path: sequence of <<index, field>> steps down to a statement list; pos: 0..Len of that list *)
RECURSIVE InsertAt(_, _, _, _)
InsertAt(p, path, pos, stmts) ==
  IF path = <<>> THEN SubSeq(p, 1, pos) \o stmts \o SubSeq(p, pos + 1, Len(p))
  ELSE LET i == path[1][1]
           f == path[1][2] IN
       [p EXCEPT ![i] = [@ EXCEPT ![f] = InsertAt(@, Tail(path), pos, stmts)]]

RECURSIVE HasRaw(_)
HasRaw(p) == \E i \in 1..Len(p) :
   \/ p[i].k = "raw"
   \/ (p[i].k \in {"label", "braces", "loop", "macrodef", "useseg"} /\ HasRaw(p[i].body))
   \/ (p[i].k = "if" /\ (HasRaw(p[i].then) \/ HasRaw(p[i].else)))

RECURSIVE Run(_, _, _, _)
Run(prog, files, m, k) ==
  IF m.phase # "run" \/ k = 0 THEN m
  ELSE LET st0 == [InitState(m.tab, [n \in DOMAIN m.segs |-> ResetSeg(m.segs[n])], m.cur0) EXCEPT !.undef = m.undef, !.vars = m.vars, !.nodes = m.nodes]
           r == WalkSeq(prog, st0, <<>>, FALSE, TRUE, [md |-> MacroDefs(prog, <<>>), files |-> files, moveMacro |-> FALSE]) IN
       Run(prog, files, Decide(m, [r EXCEPT !.tab = SegSyms(r.segs) @@ @], 8192), k - 1)
(* the model's verdict on a (possibly faulty) program: "parse-error", "failed", "ok", "undecided" *)
Predicted(prog, files) ==
  IF HasRaw(prog) \/ \E f \in DOMAIN files : HasRaw(files[f]) THEN "parse-error"
  ELSE LET m == Run(prog, files, MInit, 16) IN IF m.phase = "run" THEN "undecided" ELSE m.phase
================================================================================
