SPECIFICATION SpecL
POSTCONDITION Consumed
