SPECIFICATION Spec
CONSTANTS MaxBody = 1 MaxPass = 12
INVARIANT NeverOk
