SPECIFICATION Spec
CONSTANTS MaxLen = 3  MaxLen2 = 3  MaxPass = 12  Origin = 252
INVARIANT NeverFourPasses
