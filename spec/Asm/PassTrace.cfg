SPECIFICATION SpecP
POSTCONDITION Consumed
