SPECIFICATION Spec
POSTCONDITION Consumed
