------------------------------- MODULE ExpandTrace -------------------------------
(* Two uses, selected by IOEnv.MODE:                                                        *)
(*  "expand": for every record [id, prog, files] write [id, all, one] where                 *)
(*            all = ExpandAll(InlineConsts(prog)) and one = Expand1(prog)   (spec -> impl)  *)
(*  "judge" : for every record [id, p, e, e1] (observations of the program, its full and    *)
(*            its one-level expansion on the real assembler: [ok, segs, unk]) decide C07     *)
EXTENDS Expand, Json, IOUtils

Rec == ndJsonDeserialize(IOEnv.TRACE)
VARIABLES l, out
vars == <<l, out>>
V(id, verdict, dev, why) == [id |-> id, verdict |-> verdict, dev |-> dev, why |-> why]

Expanded(r) == <<[id |-> r.id, all |-> ExpandAll(InlineConsts(r.prog), r.files), one |-> Expand1(r.prog, r.files)]>>

SameImage(a, b) == a.segs = b.segs
(* a build that failed only with "unknown identifier" diagnostics for names the program defines: the pass loop gave up
   while symbols were still moving (known deviation of the pass loop, see C06) *)
Spurious(o) == ~o.ok /\ o.unk
Pair(r, x, what) ==
  IF r.p.ok /\ x.ok THEN (IF SameImage(r.p, x) THEN <<>> ELSE <<V(r.id, "violation", "", "program and its " \o what \o " expansion assemble to different bytes")>>)
  ELSE IF ~r.p.ok /\ ~x.ok THEN <<>>
  ELSE IF Spurious(r.p) \/ Spurious(x) THEN <<V(r.id, "deviation", "BailOutWhileStillChanging", "one of the pair is rejected with 'unknown identifier' for a defined name")>>
  ELSE <<V(r.id, "violation", "", "only one of program / " \o what \o " expansion assembles")>>
Judge(r) == Pair(r, r.e, "full") \o Pair(r, r.e1, "one-level")

Init == l = 1 /\ out = <<>>
Step == /\ l <= Len(Rec)
        /\ out' = out \o (IF IOEnv.MODE = "expand" THEN Expanded(Rec[l]) ELSE Judge(Rec[l]))
        /\ l' = l + 1
Finish == l = Len(Rec) + 1 /\ ndJsonSerialize(IOEnv.OUT, out) /\ l' = l + 1 /\ UNCHANGED out
Next == Step \/ Finish
Spec == Init /\ [][Next]_vars
Consumed == TLCGet("stats").diameter >= Len(Rec) + 1
================================================================================
