---------------------------------- MODULE Asm ----------------------------------
(* The mos assembler as a pass machine, and its one-pass reference semantics.             *)
(*                                                                                        *)
(* A program is a sequence of statement records (field k):                                *)
(*   label  [name, hasBody, body]      braces [sid, body]          insn  [mn, form, e]     *)
(*   data   [w, es]                    setpc  [e]                  align [e]               *)
(*   const  [name, e]   var [name, e]  defseg [name, start, hasPc, pc]                     *)
(*   useseg [name, hasBody, body]      if [e, then, hasElse, else] loop  [e, sid, body]    *)
(*   macrodef [name, params, body]     macrocall [name, args]                              *)
(*   import [file, sid, hasAs, as, hasParams, params, sel]   .import * [as m] from "file" [{params}];            *)
(*          sel = <<[name, as]>> non-empty: .import name [as other], ... from "file" [{params}]                  *)
(* Expressions are Expr trees; identifier nodes carry name (a key unique per spelling)     *)
(* and path (sequence of identifiers, possibly starting with "super").                     *)
(*                                                                                        *)
(* Walk(prog, sigma, frozen, alignFull) lays the program out once, front to back.          *)
(*   frozen = TRUE : every reference is looked up in sigma  (reference semantics Ref)      *)
(*   frozen = FALSE: references see the table as it is being rebuilt during the walk, i.e. *)
(*                   this pass's value for symbols already passed, the previous pass's for *)
(*                   those still ahead -- what one assembler pass does.                    *)
(* C02 is then:  a successful build with final symbols sigma is a fixed point of Ref.      *)
EXTENDS Integers, Sequences, FiniteSets, TLC

E == INSTANCE Expr
I == INSTANCE Isa6502

Num(n) == [k |-> "num", n |-> n]
IsNumV(v) == v.k = "num"

(* ---------------------------------------------------------------- paths and lookup *)
RECURSIVE JoinPath(_)
JoinPath(p) == IF Len(p) = 0 THEN "" ELSE IF Len(p) = 1 THEN p[1] ELSE p[1] \o "." \o JoinPath(Tail(p))
Key(scope, path) == JoinPath(scope \o path)
Front(s) == SubSeq(s, 1, Len(s) - 1)
HasSuper(path) == \E i \in 1..Len(path) : path[i] = "super"

RECURSIVE Bubble(_, _, _)
Bubble(tab, scope, path) ==
  LET k == Key(scope, path) IN
  IF k \in DOMAIN tab THEN [found |-> TRUE, key |-> k]
  ELSE IF scope = <<>> THEN [found |-> FALSE, key |-> ""]
  ELSE Bubble(tab, Front(scope), path)

RECURSIVE StripSuper(_, _)
StripSuper(scope, path) ==
  IF path # <<>> /\ Head(path) = "super"
    THEN IF scope = <<>> THEN [ok |-> FALSE, scope |-> <<>>, path |-> <<>>]
         ELSE StripSuper(Front(scope), Tail(path))
  ELSE [ok |-> ~HasSuper(path) /\ path # <<>>, scope |-> scope, path |-> path]

(* innermost scope outward; a path through `super' is not searched further out *)
Lookup(tab, scope, path) ==
  IF HasSuper(path)
    THEN LET r == StripSuper(scope, path) IN
         IF r.ok /\ Key(r.scope, r.path) \in DOMAIN tab
           THEN [found |-> TRUE, key |-> Key(r.scope, r.path)]
           ELSE [found |-> FALSE, key |-> ""]
  ELSE Bubble(tab, scope, path)

(* identifiers used by an expression tree: set of [name, path] *)
RECURSIVE Ids(_)
Ids(t) ==
  CASE t.k = "id"  -> {[name |-> t.name, path |-> t.path]}
    [] t.k = "def" -> {}
    [] t.k = "par" -> Ids(t.e)
    [] t.k = "fac" -> Ids(t.e)
    [] t.k = "bin" -> Ids(t.l) \cup Ids(t.r)
    [] t.k = "istr" -> {[name |-> t.parts[i].ref, path |-> IF "path" \in DOMAIN t.parts[i] THEN t.parts[i].path ELSE <<t.parts[i].ref>>]
                          : i \in {j \in 1..Len(t.parts) : "ref" \in DOMAIN t.parts[j]}}
    [] OTHER -> {}
RECURSIVE DefIds(_)
DefIds(t) ==
  CASE t.k = "def" -> {[name |-> t.name, path |-> t.path]}
    [] t.k = "par" -> DefIds(t.e)
    [] t.k = "fac" -> DefIds(t.e)
    [] t.k = "bin" -> DefIds(t.l) \cup DefIds(t.r)
    [] OTHER -> {}

(* Lookup during a pass: a scope node that exists but has no value yet (its label is defined later in this pass, or it is
   only a namespace) ends the search at that level -- the implementation does not look further out. *)
RECURSIVE BubbleN(_, _, _, _)
BubbleN(tab, nodes, scope, path) ==
  LET k == Key(scope, path) IN
  IF k \in DOMAIN tab THEN [found |-> TRUE, key |-> k]
  ELSE IF k \in nodes THEN [found |-> FALSE, key |-> ""]
  ELSE IF scope = <<>> THEN [found |-> FALSE, key |-> ""]
  ELSE BubbleN(tab, nodes, Front(scope), path)
LookupN(tab, nodes, scope, path) == IF HasSuper(path) THEN Lookup(tab, scope, path) ELSE BubbleN(tab, nodes, scope, path)

Resolvable(tab, nodes, scope, id) == LET r == LookupN(tab, nodes, scope, id.path) IN r.found /\ tab[r.key].k \in {"num", "str"}
EnvFor(t, tab, nodes, scope) ==
  LET ids == {i \in Ids(t) \cup DefIds(t) : Resolvable(tab, nodes, scope, i)} IN
  [nm \in {i.name : i \in ids} |-> LET i == CHOOSE i \in ids : i.name = nm IN tab[LookupN(tab, nodes, scope, i.path).key]]
Unresolved(t, tab, nodes, scope) == {i \in Ids(t) : ~Resolvable(tab, nodes, scope, i)}

(* string helpers (TLC evaluates Len/SubSeq on strings) *)
HasPrefix(k, p) == Len(k) > Len(p) /\ SubSeq(k, 1, Len(p)) = p
Suffix(k, p) == SubSeq(k, Len(p) + 1, Len(k))
SpecialFirst(k, p) == LET c == SubSeq(k, Len(p) + 1, Len(p) + 1) IN c = "$" \/ c = "-" \/ c = "+"

(* ---------------------------------------------------------------- walk state *)
(* seg: [init, toff, pc, mem]   mem: function written address -> byte             *)
(* rlo/rhi: the range the implementation keeps (grown by every emission, also an empty one; touched = data allocated) *)
NoSegmentError == TRUE
NewSeg(init, target) == [init |-> init, toff |-> target - init, pc |-> init, mem |-> <<>>, rlo |-> init, rhi |-> init, touched |-> FALSE]
TPc(st) == LET s == st.segs[st.cur] IN s.pc + s.toff
HasSeg(st) == st.cur # "" /\ st.cur \in DOMAIN st.segs

InitState(tab, segs, cur) ==
  [segs |-> segs, cur |-> cur, scope |-> <<>>, tab |-> tab, defined |-> {}, errs |-> {}, undef |-> {},
   macroN |-> 0, unspec |-> FALSE, srcmap |-> <<>>, labels |-> {}, vars |-> {}, aliases |-> {}, nodes |-> {}]

Err(st, e) == [st EXCEPT !.errs = @ \cup {e}]
Unspec(st) == [st EXCEPT !.unspec = TRUE]

Emit(st, bytes, sid) ==
  IF ~HasSeg(st)
    THEN (* no segment at all: the first pass of a program that relies on the default segment emits nothing.  But code in front
            of the first `.define segment' of a program that defines its own has nowhere to go in any pass: a diagnostic
            (NoSegmentError = FALSE is the pinned reading: such statements were dropped in silence) *)
         IF NoSegmentError /\ DOMAIN st.segs # {} /\ bytes # <<>> THEN Err(st, [k |-> "nosegment", sid |-> sid]) ELSE st
  ELSE LET s == st.segs[st.cur]
           n == Len(bytes) IN
       IF s.pc > 65535 \/ s.pc + n > 65536 THEN Err(st, [k |-> "range", sid |-> sid])
       ELSE IF s.pc + s.toff < 0 \/ s.pc + s.toff + n > 65536 THEN Err(st, [k |-> "range", sid |-> sid])     \* a relocated segment pushed out of the address space on its target side

       ELSE LET mem2 == [a \in s.pc..(s.pc + n - 1) |-> bytes[a - s.pc + 1]] @@ s.mem IN
            [st EXCEPT !.segs[st.cur].mem = mem2, !.segs[st.cur].pc = s.pc + n,
                       !.segs[st.cur].rlo = IF ~s.touched \/ s.pc < s.rlo THEN s.pc ELSE s.rlo,
                       !.segs[st.cur].rhi = IF ~s.touched \/ s.pc + n > s.rhi THEN s.pc + n ELSE s.rhi,
                       !.segs[st.cur].touched = TRUE,
                       !.srcmap = Append(@, [sid |-> sid, seg |-> st.cur, lo |-> s.pc + s.toff, n |-> n, scope |-> st.scope])]

(* define a symbol in the current scope.
   first = TRUE : block symbols - and +: the first definition in a pass wins (a later one is an ignored error).
   Otherwise, as the implementation's insertion rule: a read-only symbol that already got a *different* value in
   this pass is a redefinition error; a symbol whose value differs from what the table held (from the previous
   pass) is overwritten and recorded as undefined so that another pass follows; variables never force a pass. *)
Define(st, name, v, first) ==
  LET k == Key(st.scope, <<name>>) IN
  IF first /\ k \in st.defined THEN st
  ELSE IF ~first /\ k \in st.defined /\ st.tab[k] # v /\ k \notin st.vars
    THEN Err(st, [k |-> "redefine", key |-> k])
  ELSE LET changed == k \notin st.vars /\ \/ (k \in DOMAIN st.tab /\ st.tab[k] # v)
                                             \/ (k \notin DOMAIN st.tab /\ k \in st.nodes)     \* a scope node gets its value
           s1 == [st EXCEPT !.tab = (k :> v) @@ @, !.defined = @ \cup {k}] IN
       IF changed THEN [s1 EXCEPT !.undef = @ \cup {[scope |-> st.scope, name |-> name, sid |-> "def"]}] ELSE s1
DefineVar(st, name, v) ==
  LET k == Key(st.scope, <<name>>) IN
  [st EXCEPT !.tab = (k :> v) @@ @, !.defined = @ \cup {k}, !.vars = @ \cup {k}]

(* entering a scope creates its node in the symbol table (without a value), and it stays there in later passes *)
Push(st, name) == [st EXCEPT !.scope = Append(@, name), !.nodes = @ \cup {Key(st.scope, <<name>>)}]
Pop(st) == [st EXCEPT !.scope = Front(@)]
BlockStart(st) == IF HasSeg(st) THEN Define(st, "-", Num(TPc(st)), TRUE) ELSE st
BlockEnd(st)   == IF HasSeg(st) THEN Define(st, "+", Num(TPc(st)), TRUE) ELSE st

(* macro definitions by key, collected from the program text (the table value of a macro is its text) *)
RECURSIVE MacroDefs(_, _)
MacroDefs(prog, scope) ==
  IF prog = <<>> THEN <<>>
  ELSE LET s == Head(prog)
           here == CASE s.k = "macrodef" -> (Key(scope, <<s.name>>) :> s)
                     [] s.k = "label" /\ s.hasBody -> MacroDefs(s.body, Append(scope, s.name))
                     [] s.k = "braces" -> MacroDefs(s.body, Append(scope, s.sid))
                     [] s.k = "useseg" /\ s.hasBody -> MacroDefs(s.body, scope)
                     [] s.k = "if" -> MacroDefs(s.then, scope) @@ (IF s.hasElse THEN MacroDefs(s.else, scope) ELSE <<>>)
                     [] s.k = "loop" -> MacroDefs(s.body, Append(scope, s.sid))
                     [] OTHER -> <<>>
       IN here @@ MacroDefs(Tail(prog), scope)

(* ---------------------------------------------------------------- one pass *)
RECURSIVE WalkSeq(_, _, _, _, _, _), WalkStmt(_, _, _, _, _, _), LoopIter(_, _, _, _, _, _, _, _)

(* the table references are resolved in *)
(* `index' exists only while its loop iteration is walked, so no final valuation holds it: it is always taken from the walk *)
IsIndexKey(k) == k = "index" \/ (Len(k) > 6 /\ SubSeq(k, Len(k) - 5, Len(k)) = ".index")
(* variables are sequential as well: a frozen walk reads them from the walk, never from the final valuation (which must be
   given without them: a read in front of the first assignment finds nothing) *)
RefTab(st, sigma, frozen) ==
  IF frozen THEN [k \in {x \in DOMAIN st.tab : IsIndexKey(x) \/ x \in st.vars} |-> st.tab[k]] @@ sigma ELSE st.tab

EvalE(t, st, sigma, frozen) ==
  LET tab == RefTab(st, sigma, frozen)
      nodes == IF frozen THEN {} ELSE st.nodes IN
  IF Unresolved(t, tab, nodes, st.scope) # {} THEN [k |-> "unres", ids |-> Unresolved(t, tab, nodes, st.scope)]
  ELSE E!Eval(t, EnvFor(t, tab, nodes, st.scope), IF HasSeg(st) THEN TPc(st) ELSE 0)

NoteUnresAt(st, v, frozen, sid) ==
  IF frozen THEN Err(st, [k |-> "unresolved", ids |-> {i.name : i \in v.ids}])
  ELSE [st EXCEPT !.undef = @ \cup {[scope |-> st.scope, name |-> i.name, sid |-> sid] : i \in v.ids}]
NoteUnres(st, v, frozen) == NoteUnresAt(st, v, frozen, "?")

WalkSeq(prog, st, sigma, frozen, af, md) ==
  IF prog = <<>> THEN st
  ELSE WalkSeq(Tail(prog), WalkStmt(Head(prog), st, sigma, frozen, af, md), sigma, frozen, af, md)

LoopIter(s, i, n, st, sigma, frozen, af, md) ==
  IF i >= n THEN st
  ELSE LET s1 == BlockStart(Push(st, s.sid))
           s2 == Define(s1, "index", Num(i), FALSE)
           s3 == WalkSeq(s.body, s2, sigma, frozen, af, md)
           k  == Key(s3.scope, <<"index">>)
           s4 == [s3 EXCEPT !.tab = [x \in (DOMAIN @) \ {k} |-> @[x]], !.defined = @ \ {k}]
           s5 == Pop(BlockEnd(s4)) IN
       LoopIter(s, i + 1, n, s5, sigma, frozen, af, md)

WalkStmt(s, st, sigma, frozen, af, md) ==
  CASE s.k = "label" ->
        LET s1 == IF HasSeg(st) THEN [Define(st, s.name, Num(TPc(st)), FALSE) EXCEPT !.labels = @ \cup {Key(st.scope, <<s.name>>)}] ELSE st IN
        IF s.hasBody
          THEN Pop(BlockEnd(WalkSeq(s.body, BlockStart(Push(s1, s.name)), sigma, frozen, af, md)))
          ELSE s1
    [] s.k = "braces" ->
        Pop(BlockEnd(WalkSeq(s.body, BlockStart(Push(st, s.sid)), sigma, frozen, af, md)))
    [] s.k = "insn" ->
        IF s.form = "imp"
          THEN LET enc == I!Encode(s.mn, "imp", 0, 0) IN
               IF enc.k = "bytes" THEN Emit(st, enc.b, s.sid) ELSE Err(Emit(st, <<0>>, s.sid), [k |-> "invalid", sid |-> s.sid])
        ELSE LET v == EvalE(s.e, st, sigma, frozen) IN
          IF v.k = "unres" THEN Emit(NoteUnresAt(st, v, frozen, s.sid), <<>>, s.sid)
          ELSE IF v.k # "num" THEN Unspec(st)
          ELSE LET enc == I!Encode(s.mn, s.form, v.n, IF HasSeg(st) THEN TPc(st) ELSE v.n - 2) IN
               IF enc.k = "bytes" THEN Emit(st, enc.b, s.sid)
               ELSE IF enc.k = "err"
                 THEN (IF I!IsBranch(s.mn) /\ s.form = "dir"
                         THEN Err(st, [k |-> "branch", sid |-> s.sid, v |-> v.n, pc |-> IF HasSeg(st) THEN TPc(st) ELSE 0])   \* the message names both addresses
                         ELSE Err(Emit(st, <<0>>, s.sid), [k |-> "invalid", sid |-> s.sid]))     \* a BRK is emitted in its place
               ELSE Unspec(st)
    [] s.k = "data" ->
        LET F[i \in 0..Len(s.es)] ==
              IF i = 0 THEN st
              ELSE LET p == F[i - 1]
                       v == EvalE(s.es[i], p, sigma, frozen) IN
                   IF v.k = "unres" THEN Emit(NoteUnresAt(p, v, frozen, s.sid), <<>>, s.sid)
                   ELSE IF v.k # "num" THEN Unspec(p)
                   ELSE Emit(p, E!Store(v.n, s.w), s.sid)
        IN F[Len(s.es)]
    [] s.k = "text" ->       \* `.text [encoding] "...{name}..."': the bytes of the interpolated string; nothing while a name is unresolved
        LET v == EvalE(s.e, st, sigma, frozen) IN
        IF v.k = "unres"
          THEN (* as coded: an unresolved name interpolates as nothing (and is noted), the rest of the string is emitted in this pass *)
               LET known == [k |-> "istr", parts |-> SelectSeq(s.e.parts, LAMBDA p : "lit" \in DOMAIN p \/ p.ref \notin {i.name : i \in v.ids})]
                   w == EvalE(known, st, sigma, frozen)
                   s1 == NoteUnresAt(st, v, frozen, s.sid) IN
               IF frozen THEN s1 ELSE IF w.k # "str" THEN Unspec(s1) ELSE Emit(s1, E!TextBytes(s.enc, w.s), s.sid)
        ELSE IF v.k # "str" THEN Unspec(st)
        ELSE Emit(st, E!TextBytes(s.enc, v.s), s.sid)
    [] s.k \in {"assert", "trace"} -> st      \* read by the test runner only: a build does not even evaluate them
    [] s.k = "test" ->       \* a build only enumerates tests: the name is a symbol at the current pc, the body is not assembled
        IF HasSeg(st) THEN Define(st, s.name, Num(TPc(st)), FALSE) ELSE st
    [] s.k = "setpc" ->
        LET v == EvalE(s.e, st, sigma, frozen) IN
        IF v.k = "unres" THEN NoteUnresAt(st, v, frozen, s.sid)
        ELSE IF v.k # "num" \/ v.n < 0 THEN Unspec(st)
        (* `*' is the address the code runs at: in a relocated segment (toff # 0) the assignment moves the place where the bytes *)
        (* are stored by the same distance (the code took the value for the storage position: a label behind `* = $8010' in a    *)
        (* segment stored at $4000 and running at $8000 became $C010; repaired)                                                   *)
        ELSE IF HasSeg(st) THEN (IF v.n - st.segs[st.cur].toff < 0 \/ v.n - st.segs[st.cur].toff > 65535 THEN Unspec(st)
                                 ELSE [st EXCEPT !.segs[st.cur].pc = v.n - st.segs[st.cur].toff]) ELSE st
    [] s.k = "align" ->      \* the value is evaluated (and an unknown name in it noted) also where no segment is active
        LET v == EvalE(s.e, st, sigma, frozen) IN
          IF v.k = "unres" THEN NoteUnresAt(st, v, frozen, s.sid)
          ELSE IF ~HasSeg(st) THEN st
          ELSE IF v.k # "num" \/ v.n <= 0 THEN Unspec(st)
          ELSE LET r == TPc(st) % v.n
                   pad == IF af THEN v.n - r ELSE (IF r = 0 THEN 0 ELSE v.n - r) IN
               Emit(st, [i \in 1..pad |-> 0], s.sid)
    [] s.k \in {"const", "var"} ->
        LET v == EvalE(s.e, st, sigma, frozen) IN
        (* a constant defined in terms of a symbol with its own name (`.const e = e - 16' shadowing an outer e): which
           e is meant is not fixed by the property; the reference semantics does not judge such programs *)
        IF frozen /\ \E i \in Ids(s.e) : i.path[Len(i.path)] = s.name THEN Unspec(st)
        ELSE IF v.k = "unres" THEN NoteUnresAt(st, v, frozen, s.sid)
        ELSE IF v.k = "undef" THEN Unspec(st)
        ELSE IF s.k = "var" THEN DefineVar(st, s.name, v) ELSE Define(st, s.name, v, FALSE)
    [] s.k = "defseg" ->
        LET a == EvalE(s.start, st, sigma, frozen)
            b == IF s.hasPc THEN EvalE(s.pc, st, sigma, frozen) ELSE a IN
        IF a.k = "unres" \/ b.k = "unres"
          THEN LET s0 == IF a.k = "unres" THEN NoteUnresAt(st, a, frozen, s.sid) ELSE st
                   s1 == IF b.k = "unres" THEN NoteUnresAt(s0, b, frozen, s.sid) ELSE s0 IN
               [s1 EXCEPT !.segs = (s.name :> NewSeg(0, 0)) @@ @, !.cur = IF @ = "" THEN s.name ELSE @]
        ELSE IF a.k # "num" \/ b.k # "num" \/ a.n < 0 \/ b.n < 0 THEN Unspec(st)
        ELSE [st EXCEPT !.segs = (s.name :> NewSeg(a.n, b.n)) @@ @, !.cur = IF @ = "" THEN s.name ELSE @]
    [] s.k = "useseg" ->
        IF s.name \notin DOMAIN st.segs THEN Err(st, [k |-> "unknownseg", sid |-> s.sid])
        ELSE IF s.hasBody
          THEN LET r == WalkSeq(s.body, [st EXCEPT !.cur = s.name], sigma, frozen, af, md) IN
               (* as coded: an error inside the block returns early, and the previous segment is not restored for the rest of the pass *)
               IF ~frozen /\ r.errs # st.errs THEN r ELSE [r EXCEPT !.cur = st.cur]
          ELSE [st EXCEPT !.cur = s.name]
    [] s.k = "if" ->
        LET v == EvalE(s.e, st, sigma, frozen) IN
        IF v.k = "unres" THEN NoteUnresAt(st, v, frozen, s.sid)
        ELSE IF v.k # "num" THEN Unspec(st)
        ELSE IF v.n # 0 THEN WalkSeq(s.then, st, sigma, frozen, af, md)
        ELSE IF s.hasElse THEN WalkSeq(s.else, st, sigma, frozen, af, md) ELSE st
    [] s.k = "loop" ->
        LET v == EvalE(s.e, st, sigma, frozen) IN
        IF v.k = "unres" THEN NoteUnresAt(st, v, frozen, s.sid)
        ELSE IF v.k # "num" \/ v.n < 0 \/ v.n > 64 THEN Unspec(st)
        ELSE LoopIter(s, 0, v.n, st, sigma, frozen, af, md)
    [] s.k = "macrodef" ->
        Define(st, s.name, [k |-> "macro"], FALSE)
    [] s.k = "macrocall" ->
        LET r == Lookup(md.md, st.scope, <<s.name>>)
            (* during a pass a macro is known once its definition has been walked (in this pass or an earlier one) *)
            q == LookupN(st.tab, st.nodes, st.scope, <<s.name>>)
            known == frozen \/ (q.found /\ st.tab[q.key].k = "macro") IN
        IF ~r.found \/ ~known THEN (IF frozen THEN Err(st, [k |-> "unknownmacro", sid |-> s.sid])
                          ELSE [st EXCEPT !.undef = @ \cup {[scope |-> st.scope, name |-> s.name, sid |-> s.sid]}])
        ELSE LET d == md.md[r.key] IN
          IF Len(d.params) # Len(s.args) THEN Err(st, [k |-> "arity", sid |-> s.sid])
          ELSE LET mscope == "$macro_" \o ToString(st.macroN)
                   s0 == Push([st EXCEPT !.macroN = @ + 1], mscope)
                   (* as coded (and as the by-hand expansion `{ .const p1 = (a1) .const p2 = (a2) body }' has it): the arguments are
                      evaluated one by one inside the macro's scope, so an argument that mentions the name of a parameter
                      denotes that parameter, not an outer symbol of the same name *)
                   B[i \in 0..Len(d.params)] ==
                     IF i = 0 THEN s0
                     ELSE LET p == B[i - 1]
                              v == EvalE(s.args[i], p, sigma, frozen) IN
                          IF v.k = "unres" THEN NoteUnresAt(p, v, frozen, s.sid)
                          ELSE IF v.k = "undef" THEN Unspec(p)
                          ELSE Define(p, d.params[i], v, FALSE)
                   r2 == WalkSeq(d.body, B[Len(d.params)], sigma, frozen, af, md)
                   (* listing mode: what the macro's own scope emitted is attributed to the invocation *)
                   r3 == IF md.moveMacro
                           THEN [r2 EXCEPT !.srcmap = [i \in 1..Len(@) |-> IF @[i].scope = r2.scope THEN [@[i] EXCEPT !.sid = s.sid, !.scope = st.scope] ELSE @[i]]]
                           ELSE r2
               IN Pop(r3)
    [] s.k = "import" ->
        IF s.file \notin DOMAIN md.files THEN st
        ELSE LET s0 == Push(st, s.sid)
                 s1 == IF s.hasParams THEN WalkSeq(s.params, BlockStart(s0), sigma, frozen, af, md) ELSE s0
                 s2 == WalkSeq(md.files[s.file], s1, sigma, frozen, af, md)
                 s3 == Pop(IF s.hasParams THEN BlockEnd(s2) ELSE s2)
                 (* export: every non-special child of the import scope becomes visible in the importing scope
                    (or in the scope named by `as'), together with everything below it *)
                 from == Key(st.scope, <<s.sid>>) \o "."
                 to   == IF s.hasAs THEN Key(st.scope, <<s.as>>) \o "." ELSE (IF st.scope = <<>> THEN "" ELSE Key(st.scope, <<>>) \o ".")
                 (* `.import *': all non-special children; `.import a, b as c': the named ones under their (new) names *)
                 sel == IF "sel" \in DOMAIN s THEN s.sel ELSE <<>>
                 Root(k) == \E i \in 1..Len(sel) : k = from \o sel[i].name \/ HasPrefix(k, from \o sel[i].name \o ".")
                 NewName(k) == LET i == CHOOSE i \in 1..Len(sel) : k = from \o sel[i].name \/ HasPrefix(k, from \o sel[i].name \o ".") IN
                               to \o sel[i].as \o Suffix(k, from \o sel[i].name)
                 exported == IF sel = <<>> THEN {k \in DOMAIN s3.tab : HasPrefix(k, from) /\ ~SpecialFirst(k, from)}
                             ELSE {k \in DOMAIN s3.tab : Root(k)}
                 Target(k) == IF sel = <<>> THEN to \o Suffix(k, from) ELSE NewName(k)
                 alias == [k2 \in {Target(k) : k \in exported} |-> s3.tab[CHOOSE k \in exported : Target(k) = k2]]
                 clash == \E k2 \in DOMAIN alias : k2 \in DOMAIN s3.tab /\ k2 \notin s3.aliases /\ s3.tab[k2] # alias[k2]
                 (* a name that exists only as a scope node so far (a block label before the first segment exists) can be exported *)
                 missing == {i \in 1..Len(sel) : from \o sel[i].name \notin DOMAIN s3.tab /\ (frozen \/ from \o sel[i].name \notin s3.nodes)}
                 s4 == IF missing = {} \/ frozen THEN s3
                       ELSE [s3 EXCEPT !.undef = @ \cup {[scope |-> st.scope, name |-> sel[i].name, sid |-> s.sid] : i \in missing}]
             IN IF clash THEN Err(s4, [k |-> "importclash", sid |-> s.sid])
                ELSE IF frozen /\ missing # {} THEN Err(s4, [k |-> "unresolved", ids |-> {sel[i].name : i \in missing}])
                ELSE [s4 EXCEPT !.tab = alias @@ @, !.aliases = @ \cup DOMAIN alias,
                                !.labels = @ \cup {Target(k) : k \in {x \in exported : x \in s4.labels}}]
    [] OTHER -> st

(* symbols the pass loop registers for every segment after each pass *)
SegLo(s) == IF s.touched THEN s.rlo ELSE s.init
SegHi(s) == IF s.touched THEN s.rhi ELSE s.init
SegSyms(segs) ==
  LET names == DOMAIN segs IN
  [k \in {"segments." \o n \o ".start" : n \in names} \cup {"segments." \o n \o ".end" : n \in names} |->
     LET n == CHOOSE n \in names : k = "segments." \o n \o ".start" \/ k = "segments." \o n \o ".end" IN
     IF k = "segments." \o n \o ".start" THEN Num(SegLo(segs[n])) ELSE Num(SegHi(segs[n]))]

(* range bytes of a segment as the implementation reports them: gaps read as 0 *)
SegBytes(s) == IF ~s.touched THEN <<>>
               ELSE [i \in 1..(SegHi(s) - SegLo(s)) |-> LET a == SegLo(s) + i - 1 IN IF a \in DOMAIN s.mem THEN s.mem[a] ELSE 0]

(* ---------------------------------------------------------------- reference semantics *)
(* Ref(prog, sigma, defaultPc, af): one frozen walk.  The default segment exists from the start unless *)
(* the program defines segments itself.                                                            *)
DefinesSegments(prog) == \E i \in 1..Len(prog) : prog[i].k = "defseg"
Ref(prog, sigma, defaultPc, af) ==
  LET segs0 == IF DefinesSegments(prog) THEN <<>> ELSE ("default" :> NewSeg(defaultPc, defaultPc))
      cur0  == IF DefinesSegments(prog) THEN "" ELSE "default"
      r == WalkSeq(prog, InitState(<<>>, segs0, cur0), sigma, TRUE, af, [md |-> MacroDefs(prog, <<>>), files |-> <<>>, moveMacro |-> FALSE]) IN
  [r EXCEPT !.tab = SegSyms(r.segs) @@ @]
(* the same for a multi-file project: files maps a file name to its statements *)
RefF(prog, files, sigma, defaultPc, af) ==
  LET segs0 == IF DefinesSegments(prog) THEN <<>> ELSE ("default" :> NewSeg(defaultPc, defaultPc))
      cur0  == IF DefinesSegments(prog) THEN "" ELSE "default"
      r == WalkSeq(prog, InitState(<<>>, segs0, cur0), sigma, TRUE, af, [md |-> MacroDefs(prog, <<>>), files |-> files, moveMacro |-> FALSE]) IN
  [r EXCEPT !.tab = SegSyms(r.segs) @@ @]

(* reference walk in listing mode (macro output attributed to the invocation site when move = TRUE) *)
RefL(prog, files, sigma, defaultPc, af, move) ==
  LET segs0 == IF DefinesSegments(prog) THEN <<>> ELSE ("default" :> NewSeg(defaultPc, defaultPc))
      cur0  == IF DefinesSegments(prog) THEN "" ELSE "default"
      r == WalkSeq(prog, InitState(<<>>, segs0, cur0), sigma, TRUE, af, [md |-> MacroDefs(prog, <<>>), files |-> files, moveMacro |-> move]) IN
  [r EXCEPT !.tab = SegSyms(r.segs) @@ @]

(* ---------------------------------------------------------------- the pass loop *)
(* Machine state: [tab, segs, cur0, undef, prevUndef, errs, prevErrs, pass, phase, confirmed]  *)
(*   phase \in {"run", "ok", "failed"}                                                       *)
ResetSeg(s) == [s EXCEPT !.pc = s.init, !.mem = <<>>, !.rlo = s.init, !.rhi = s.init, !.touched = FALSE]
MInit == [tab |-> <<>>, segs |-> <<>>, cur0 |-> "", undef |-> {}, prevUndef |-> {}, errs |-> {}, prevErrs |-> {},
          pass |-> 0, phase |-> "run", vars |-> {}, nodes |-> {}, confirmed |-> FALSE]

(* one pass: walk in place, then (re)register the segment symbols through the same insertion rule *)
RunPass(prog, m, af) ==
  LET st0 == [InitState(m.tab, [n \in DOMAIN m.segs |-> ResetSeg(m.segs[n])], m.cur0) EXCEPT !.undef = m.undef, !.vars = m.vars, !.nodes = m.nodes]
      r  == WalkSeq(prog, st0, <<>>, FALSE, af, [md |-> MacroDefs(prog, <<>>), files |-> <<>>, moveMacro |-> FALSE])
      ss == SegSyms(r.segs)
      K  == DOMAIN ss
      Reg[S \in SUBSET K] ==          \* insertion of the segment symbols, one at a time
        IF S = {} THEN r
        ELSE LET k == CHOOSE k \in S : TRUE
                 p == Reg[S \ {k}] IN
             IF k \in DOMAIN p.tab /\ p.tab[k] # ss[k]
               THEN [p EXCEPT !.tab = (k :> ss[k]) @@ @, !.undef = @ \cup {[scope |-> <<>>, name |-> k, sid |-> "seg"]}]
               ELSE [p EXCEPT !.tab = (k :> ss[k]) @@ @]
  IN Reg[K]

(* When the loop ends successfully, what the final pass did not define (again) is dropped from the table: a symbol of an
   earlier pass only - e.g. of a macro invocation that was numbered differently while an `.if' condition was still unknown -
   is not part of the program.  (PruneStale = FALSE is the pinned reading: such symbols stayed and reached the symbol file.) *)
PruneStale == TRUE
FinalTab(r) == IF PruneStale THEN [k \in (r.defined \cup r.aliases \cup DOMAIN SegSyms(r.segs)) \cap DOMAIN r.tab |-> r.tab[k]] ELSE r.tab
(* The table a pass hands to the next one: what that pass defined, without the variables - a symbol the pass did not define
   (again) may not be resolved by the next pass, and variables are sequential, every pass starts without them.
   (PruneStale = FALSE, the pinned reading: everything any earlier pass defined stayed visible, and a variable read in front of
   its first assignment saw the last value of the previous pass.) *)
NextTab(r) == IF PruneStale THEN [k \in DOMAIN FinalTab(r) \ r.vars |-> r.tab[k]] ELSE r.tab

(* the decision after a pass (the implementation's bail-out rules) *)
Decide(m, r, defaultPc) ==
  IF DOMAIN r.segs = {}            \* pass 0 of a program without segment definitions: create the default segment
    THEN [m EXCEPT !.tab = NextTab(r), !.segs = ("default" :> NewSeg(defaultPc, defaultPc)), !.cur0 = "default",
                   !.undef = r.undef, !.prevErrs = r.errs, !.errs = {}, !.pass = @ + 1, !.vars = r.vars, !.nodes = r.nodes]
  ELSE IF r.errs # {} /\ r.errs = m.prevErrs
    THEN [m EXCEPT !.tab = r.tab, !.segs = r.segs, !.errs = r.errs, !.phase = "failed"]
  ELSE IF r.errs = {} /\ r.undef = {} /\ m.confirmed
    THEN [m EXCEPT !.tab = FinalTab(r), !.segs = r.segs, !.errs = {}, !.undef = {}, !.phase = "ok"]
  ELSE IF r.errs = {} /\ r.undef = {}       \* first clean pass: one more pass has to confirm the symbols (shadowing forward references)
    THEN [m EXCEPT !.tab = NextTab(r), !.segs = r.segs, !.vars = r.vars, !.nodes = r.nodes, !.confirmed = TRUE,
                   !.prevErrs = {}, !.errs = {}, !.undef = {}, !.pass = @ + 1]
  ELSE IF r.errs = {} /\ r.undef = m.prevUndef
    THEN [m EXCEPT !.tab = r.tab, !.segs = r.segs, !.undef = r.undef, !.phase = "failed"]     \* "unknown identifier"
  ELSE [m EXCEPT !.tab = NextTab(r), !.segs = r.segs, !.vars = r.vars, !.nodes = r.nodes,
                 !.prevUndef = IF r.errs = {} THEN r.undef ELSE @,
                 !.undef = IF r.errs = {} THEN {} ELSE r.undef,
                 !.prevErrs = r.errs, !.errs = {}, !.pass = @ + 1]
================================================================================
