SPECIFICATION Spec
CONSTANTS MaxLen = 2  MaxLen2 = 3  MaxPass = 12  Origin = 252
INVARIANT NeverFailed
