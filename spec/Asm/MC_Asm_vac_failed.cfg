SPECIFICATION Spec
CONSTANTS MaxLen = 2  MaxLen2 = 3  MaxLen3 = 3  MaxLen4 = 0  MaxLen5 = 0  Shrinking = FALSE  MaxPass = 12  Origin = 252
INVARIANT NeverFailed
