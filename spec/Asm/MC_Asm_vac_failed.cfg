SPECIFICATION Spec
CONSTANTS MaxLen = 2  MaxPass = 12  Origin = 252
INVARIANT NeverFailed
