-------------------------------- MODULE AsmDebug --------------------------------
(* Diagnosis aid: prints the reference result next to the observation for one record. *)
EXTENDS AsmTrace
D == LET r == Rec[1] sg == Sigma(r) R == RefF(r.prog, r.files, sg, r.pc0, TRUE) IN
     /\ PrintT(<<"errs", R.errs, "unspec", R.unspec>>)
     /\ PrintT(<<"ref-tab", [k \in {x \in DOMAIN R.tab : R.tab[x].k = "num"} |-> R.tab[k].n]>>)
     /\ PrintT(<<"obs-tab", [k \in {x \in DOMAIN sg : sg[x].k = "num"} |-> sg[k].n]>>)
     /\ PrintT(<<"ref-segs", [n \in DOMAIN R.segs |-> <<SegLo(R.segs[n]), SegHi(R.segs[n]), R.segs[n].pc, SegBytes(R.segs[n])>>]>>)
     /\ PrintT(<<"obs-segs", r.segs>>)
     /\ PrintT(<<"why", Mismatch(r, sg, R)>>)
ASSUME D
================================================================================
