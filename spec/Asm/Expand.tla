--------------------------------- MODULE Expand ---------------------------------
(* C07: what the structuring constructs mean, as a source-to-source expansion.              *)
(*   .loop n {B}        ->  B[index := 0] ... B[index := n-1]                               *)
(*   .if c {T} else {F} ->  T or F (when c is a constant expression)                        *)
(*   m(a1..ak)          ->  { .const p1 = (a1) ... .const pk = (ak)  body }   (fresh scope)  *)
(*   .const c = e       ->  every use of c replaced by (e)          (top-level, unique c)    *)
(*   { B }              ->  { B }                                                          *)
(*   .import * from f   ->  the statements of f in place;  .import * as m from f [{P}] -> m: {P f}  *)
(*   .import a as b from f [{P}] -> impN: {P f}  .const b = impN.a                                *)
(* ExpandAll applies this everywhere (innermost constructs of macro bodies included), so    *)
(* nesting composes; Expand1 expands only the outermost constructs of the top level.        *)
EXTENDS Asm

Lit(n) == [k |-> "num", n |-> n, radix |-> "dec", lz |-> 0]
ParE(e) == [k |-> "par", e |-> e]

(* substitute the plain identifier nm by expression r *)
RECURSIVE SubstE(_, _, _)
SubstE(t, nm, r) ==
  CASE t.k = "id"  -> IF t.path = <<nm>> /\ t.mod = "" THEN r ELSE t
    [] t.k = "par" -> [t EXCEPT !.e = SubstE(t.e, nm, r)]
    [] t.k = "fac" -> [t EXCEPT !.e = SubstE(t.e, nm, r)]
    [] t.k = "bin" -> [t EXCEPT !.l = SubstE(t.l, nm, r), !.r = SubstE(t.r, nm, r)]
    [] OTHER -> t

RECURSIVE SubstSeq(_, _, _), SubstS(_, _, _)
SubstSeq(p, nm, r) == [i \in 1..Len(p) |-> SubstS(p[i], nm, r)]
SubstS(s, nm, r) ==
  CASE s.k = "insn"  -> [s EXCEPT !.e = SubstE(s.e, nm, r)]
    [] s.k = "data"  -> [s EXCEPT !.es = [i \in 1..Len(s.es) |-> SubstE(s.es[i], nm, r)]]
    [] s.k \in {"setpc", "align"} -> [s EXCEPT !.e = SubstE(s.e, nm, r)]
    [] s.k \in {"const", "var"} -> [s EXCEPT !.e = SubstE(s.e, nm, r)]
    [] s.k = "label" -> [s EXCEPT !.body = SubstSeq(s.body, nm, r)]
    [] s.k = "braces" -> [s EXCEPT !.body = SubstSeq(s.body, nm, r)]
    [] s.k = "useseg" -> [s EXCEPT !.body = SubstSeq(s.body, nm, r)]
    [] s.k = "if" -> [s EXCEPT !.e = SubstE(s.e, nm, r), !.then = SubstSeq(s.then, nm, r), !.else = SubstSeq(s.else, nm, r)]
    [] s.k = "loop" -> IF nm = "index" THEN [s EXCEPT !.e = SubstE(s.e, nm, r)]     \* an inner loop rebinds index
                       ELSE [s EXCEPT !.e = SubstE(s.e, nm, r), !.body = SubstSeq(s.body, nm, r)]
    [] s.k = "macrocall" -> [s EXCEPT !.args = [i \in 1..Len(s.args) |-> SubstE(s.args[i], nm, r)]]
    [] s.k = "macrodef" -> IF \E i \in 1..Len(s.params) : s.params[i] = nm THEN s ELSE [s EXCEPT !.body = SubstSeq(s.body, nm, r)]
    [] OTHER -> s

(* copies of a body made by the expansion get distinguishable statement / scope ids *)
RECURSIVE TagSeq(_, _), TagS(_, _)
TagSeq(p, tag) == [i \in 1..Len(p) |-> TagS(p[i], tag)]
TagS(s, tag) ==
  LET t == [s EXCEPT !.sid = @ \o tag] IN
  CASE s.k = "label"  -> [t EXCEPT !.body = TagSeq(s.body, tag)]
    [] s.k \in {"braces", "loop", "macrodef"} -> [t EXCEPT !.body = TagSeq(s.body, tag)]
    [] s.k = "useseg" -> [t EXCEPT !.body = TagSeq(s.body, tag)]
    [] s.k = "if" -> [t EXCEPT !.then = TagSeq(s.then, tag), !.else = TagSeq(s.else, tag)]
    [] OTHER -> t

Concat(ss) == LET F[i \in 0..Len(ss)] == IF i = 0 THEN <<>> ELSE F[i - 1] \o ss[i] IN F[Len(ss)]

ConstVal(e) == E!Eval(e, <<>>, 0)          \* value of an expression without identifiers (undef otherwise)
IsConstE(e) == Ids(e) = {} /\ DefIds(e) = {} /\ ConstVal(e).k = "num"

(* macro definitions of one statement list by name (top level of that list only) *)
LocalMacros(p) == [nm \in {p[i].name : i \in {j \in 1..Len(p) : p[j].k = "macrodef"}} |->
                     p[CHOOSE i \in 1..Len(p) : p[i].k = "macrodef" /\ p[i].name = nm]]

(* deep = TRUE: expand everywhere; FALSE: only constructs at this level (bodies are left alone) *)
RECURSIVE ExpSeq(_, _, _, _), ExpS(_, _, _, _)
ExpSeq(p, macros, files, deep) ==
  LET ms == LocalMacros(p) @@ macros IN
  Concat([i \in 1..Len(p) |-> ExpS(p[i], ms, files, deep)])
ExpS(s, macros, files, deep) ==
  LET Sub(b) == IF deep THEN ExpSeq(b, macros, files, deep) ELSE b IN
  CASE s.k = "loop" /\ IsConstE(s.e) /\ ConstVal(s.e).n \in 0..64 ->
         Concat([i \in 1..ConstVal(s.e).n |-> Sub(TagSeq(SubstSeq(s.body, "index", Lit(i - 1)), "_" \o ToString(i - 1)))])
    [] s.k = "if" /\ IsConstE(s.e) ->
         IF ConstVal(s.e).n # 0 THEN Sub(s.then) ELSE IF s.hasElse THEN Sub(s.else) ELSE <<>>
    [] s.k = "macrocall" /\ s.name \in DOMAIN macros /\ Len(macros[s.name].params) = Len(s.args) ->
         LET d == macros[s.name]
             binds == [i \in 1..Len(d.params) |-> [k |-> "const", name |-> d.params[i], e |-> ParE(s.args[i]), sid |-> s.sid]] IN
         <<[k |-> "braces", sid |-> "$x" \o s.sid, body |-> binds \o Sub(TagSeq(d.body, "x" \o s.sid))]>>
    [] s.k = "if" -> <<[s EXCEPT !.then = Sub(s.then), !.else = Sub(s.else)]>>        \* condition not constant: both branches stay
    [] s.k = "loop" -> <<[s EXCEPT !.body = Sub(s.body)]>>                                  \* count not constant: the loop stays
    [] s.k = "macrodef" -> IF deep THEN <<>> ELSE <<s>>
    [] s.k = "label" /\ s.hasBody -> <<[s EXCEPT !.body = Sub(s.body)]>>
    [] s.k = "braces" -> <<[s EXCEPT !.body = Sub(s.body)]>>
    [] s.k = "useseg" /\ s.hasBody -> <<[s EXCEPT !.body = Sub(s.body)]>>
    [] s.k = "import" /\ s.file \in DOMAIN files /\ (~s.hasParams \/ s.hasAs \/ s.sel # <<>>) ->
         (* the file's text (after the parameter block) in a scope at the import site, the imported names visible:
            `* as m'  -> a block labelled m;   `a as b, ..' -> a block with a private label and constants b = block.a;
            `*' without parameters -> the statements in place *)
         LET text == (IF s.hasParams THEN Sub(s.params) ELSE <<>>) \o Sub(files[s.file])
             priv == "imp" \o s.sid IN
         IF s.sel # <<>>
           THEN <<[k |-> "label", name |-> priv, hasBody |-> TRUE, body |-> text, sid |-> s.sid]>>
                \o [i \in 1..Len(s.sel) |-> [k |-> "const", name |-> s.sel[i].as, sid |-> s.sid,
                                              e |-> [k |-> "id", name |-> priv \o "." \o s.sel[i].name, path |-> <<priv, s.sel[i].name>>, mod |-> ""]]]
         ELSE IF s.hasAs THEN <<[k |-> "label", name |-> s.as, hasBody |-> TRUE, body |-> text, sid |-> s.sid]>>
         ELSE text
    [] OTHER -> <<s>>

(* top-level constants whose name is defined nowhere else are replaced by their (parenthesised) value, one after the other; the value is
   taken from the program as rewritten so far, so a constant defined in terms of another inlined constant ends up closed *)
RECURSIVE InlineFrom(_, _, _)
InlineFrom(q, p, S) ==
  IF S = {} THEN q
  ELSE LET i == CHOOSE i \in S : \A j \in S : i <= j
           d == q[CHOOSE k \in 1..Len(q) : q[k].k = "const" /\ q[k].name = p[i].name] IN
       InlineFrom(SubstSeq(q, p[i].name, ParE(d.e)), p, S \ {i})
(* how often a name is defined anywhere in a statement list (constants, variables, labels at any depth, macro parameters):
   only a name defined exactly once can be replaced by its value without asking which definition a use denotes *)
RECURSIVE DefCount(_, _)
DefCount(p, nm) ==
  IF p = <<>> THEN 0
  ELSE LET s == Head(p)
           here == (IF s.k \in {"const", "var", "label"} /\ s.name = nm THEN 1 ELSE 0)
                   + (IF s.k = "macrodef" THEN Cardinality({i \in 1..Len(s.params) : s.params[i] = nm}) ELSE 0)
           inner == (IF "body" \in DOMAIN s THEN DefCount(s.body, nm) ELSE 0)
                    + (IF s.k = "if" THEN DefCount(s.then, nm) + DefCount(s.else, nm) ELSE 0)
                    + (IF s.k = "import" /\ "params" \in DOMAIN s THEN DefCount(s.params, nm) ELSE 0) IN
       here + inner + DefCount(Tail(p), nm)
InlineConsts(p) ==
  LET idx == {i \in 1..Len(p) : p[i].k = "const" /\ DefCount(p, p[i].name) = 1}
  IN SelectSeq(InlineFrom(p, p, idx), LAMBDA s : ~(s.k = "const" /\ \E i \in idx : p[i].name = s.name))

ExpandAll(p, files) == ExpSeq(p, <<>>, files, TRUE)
Expand1(p, files) == ExpSeq(p, <<>>, files, FALSE)
================================================================================
