SPECIFICATION SpecD
