SPECIFICATION Spec
CONSTANTS LibLines <- NoLib  Lines <- Id3  Prog <- ProgFail  BpSets <- BpsTiny  MaxReq = 3  Deviations <- NoDev  Fuel = 10
INVARIANT TypeOK
INVARIANT StepEndsTest
INVARIANT StoppedIsHalted
INVARIANT StepExact
