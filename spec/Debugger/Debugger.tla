-------------------------------- MODULE Debugger --------------------------------
(* The test-runner debug adapter of mos as a system of threads (C19).                              *)
(*                                                                                                 *)
(*   machine thread  mos/src/debugger/adapters/test_runner/mod.rs:56-145                           *)
(*       MRead   copy the run state (state lock taken and released)                                *)
(*       MCheck  under runner read lock + breakpoint lock (+ state lock on a hit): if pc differs   *)
(*               from the last checked pc, remember it and, on a breakpoint, state := Stopped(pc), *)
(*               send RunningStateChanged                                                          *)
(*       MExec   under the runner write lock: execute one instruction (end of test: Disconnected)   *)
(*   session thread  mos/src/debugger/mod.rs:802-855, one DAP request or one machine event at a    *)
(*               time (crossbeam select), requests run under the adapter write lock                *)
(*       continue = Resume; pause = PRead (pc under runner read lock), PSet (state := Stopped(pc), *)
(*       event); next/stepIn/stepOut = SExec (runner write lock) then pause; setBreakpoints;       *)
(*       stackTrace reads the stored state, variables reads the CPU: two requests, two steps       *)
(*   poller          mos/src/debugger/adapters/mod.rs:29-44: takes the adapter write lock, checks  *)
(*               is_connected, poll() is a no-op for this adapter                                  *)
(*   event channel   unbounded crossbeam channel machine -> session, forwarded as DAP events       *)
(*   client          sends requests the way an IDE does: pause while it believes the machine runs, *)
(*               continue/step/inspect after a stopped event, setBreakpoints any time              *)
(*                                                                                                 *)
(* The adapter-level state is ONE record `s` and every action is an operator on it (XxxEn, Xxx),   *)
(* so that DebuggerTrace.tla can replay the hook's lock-ordered event log through the very same    *)
(* operators. The CPU is the index `ix` into the uninterrupted run R of DbgCpu (deterministic).    *)
(*                                                                                                 *)
(* "StepRacesMachineThread": a step releases the runner lock before it stores Stopped: the machine thread, which has checked *)
(*   the breakpoints for the OLD pc, may execute the instruction at the new pc in between (a step sent while running).       *)
(* "StepSwallowsTestEnd": next/stepIn/stepOut drop the runner's result (test failed / test ended).   *)
(* "SetBreakpointsForgetsOtherFiles": setBreakpoints for one source file replaces the whole list.   *)
(* "NextIgnoresCallDepth": next over a jsr stops as soon as pc = pc0 + 3, also inside a nested call.  *)
(* "StepOutReadsTopOfStack": stepOut trusts the two bytes above the stack pointer (DbgAdapter).     *)
(* Deviations (DESIGN.md section 3): with "PauseRace" in Deviations the model is implementation-   *)
(* shaped: MExec does not look at the state again and pause is two critical sections. With the     *)
(* deviation removed the model is the candidate repair: pause holds the runner read lock across    *)
(* PSet, MExec re-reads the state under the runner write lock.                                     *)
EXTENDS DbgAdapter

(* =============================== the closed system =============================== *)
CONSTANTS Prog,          \* the program under debug
          Fuel,          \* bound on the run length
          Lines,         \* Lines[k] = source line of instruction k (several instructions may share a line)
          LibLines,      \* the source lines that live in a second file (setBreakpoints works per file)
          BpSets,        \* breakpoint sets (SOURCE LINES of ONE file) the client may install
          MaxReq,        \* number of requests the client sends after launch
          Deviations

R == RunOf(Prog, Fuel)

VARIABLES s,      \* adapter-level state (above)
          req,    \* request in flight client -> session ([k |-> "none"] when none)
          cl,     \* what the client believes: "running", "stopped", "stepwait", "contwait", "terminated"
          nreq,
          lk,     \* adapter RwLock holder: "free", "session", "poller"
          g       \* ghost bookkeeping for the properties
vars == <<s, req, cl, nreq, lk, g>>

NoReq == [k |-> "none", b |-> {}, f |-> 1]
FileOf(l) == IF l \in LibLines THEN 2 ELSE 1
LinesOfFile(f) == {l \in {Lines[k] : k \in 1..Len(Lines)} : FileOf(l) = f}
FilesOfReq(b) == IF b = {} THEN {1, 2} ELSE {FileOf(CHOOSE l \in b : TRUE)}
G0 == [halt |-> [on |-> FALSE, pc |-> 0, ix |-> 0, rix |-> 0],
       curL |-> {}, arm |-> {}, stopIx |-> 0, skipped |-> FALSE, race |-> FALSE,
       probe |-> [on |-> FALSE, ix |-> 0, L |-> {}], skippedP |-> FALSE, swallowed |-> FALSE, forgot |-> FALSE,
       stepFrom |-> 0, stepWant |-> {}, stepBad |-> FALSE, insp |-> [on |-> FALSE, pc |-> 0, ix |-> 0, seen |-> FALSE]]

(* SetBreakpointsRequestHandler: a source line -> all pc ranges assembled from it. "FirstPcOnly" and "StaleBpCopy" are  *)
(* HYPOTHETICAL deviations (not recorded for the tree): they exist to show that NoSkippedBreakpoint / NoSkipAfterProbe  *)
(* are not vacuous (MC_Debugger_cex_dup.cfg, MC_Debugger_cex_stale.cfg).                                                *)
BpPcs(L) == IF "FirstPcOnly" \in Deviations THEN FirstPcOfLines(Lines, L) ELSE PcsOfLines(Lines, L)
LineAt(j) == Lines[Pc(R, j)]
Init == /\ \E b \in BpSets : s = Start(AInit(BpPcs(b))) /\ g = [G0 EXCEPT !.curL = b]   \* launch, setBreakpoints, configurationDone
        /\ req = NoReq /\ cl = "running" /\ nreq = 0 /\ lk = "free"

Halt(sn, reported) == [on |-> TRUE, pc |-> sn.st.pc, ix |-> sn.ix, rix |-> reported]
NoHalt == [on |-> FALSE, pc |-> 0, ix |-> 0, rix |-> 0]

(* machine *)
AMRead  == /\ MReadEn(s)
           /\ s' = IF "StaleBpCopy" \in Deviations /\ s.st.k # "Running" THEN [MRead(s) EXCEPT !.cbps = s.bps] ELSE MRead(s)
           /\ g' = [g EXCEPT !.arm = g.curL]           \* lines with a breakpoint installed before this iteration read the state
           /\ UNCHANGED <<req, cl, nreq, lk>>
BpView == IF "StaleBpCopy" \in Deviations THEN s.cbps ELSE s.bps
AMCheck == /\ MCheckEn(s) /\ s' = MCheckWith(R, s, BpView)
           /\ g' = IF MCheckHitWith(R, s, BpView) THEN [g EXCEPT !.halt = Halt(s', s.ix), !.stopIx = s.ix, !.probe = [on |-> FALSE, ix |-> 0, L |-> {}]] ELSE g
           /\ UNCHANGED <<req, cl, nreq, lk>>
AMExec  == /\ MExecEn(s) /\ s' = MExec(R, s, Deviations)
           /\ g' = IF MExecRuns(s, Deviations) /\ ~AtEnd(R, s.ix)
                   THEN [g EXCEPT !.race = @ \/ s.st.k # "Running" \/ s.sp = "pset",
                                  !.skipped = @ \/ (s.st.k = "Running" /\ LineAt(s.ix) \in g.arm /\ g.stopIx # s.ix),
                                  !.skippedP = @ \/ (s.st.k = "Running" /\ g.probe.on /\ s.ix > g.probe.ix /\ LineAt(s.ix) \in g.probe.L /\ g.stopIx # s.ix)]
                   ELSE g
           /\ UNCHANGED <<req, cl, nreq, lk>>

(* client *)
(* "ClientStepsWhileRunning" is a scenario switch, not a defect: the client also sends steps while it believes the machine runs *)
Allowed == CASE cl = "running" -> {"pause", "setBps", "probe"} \cup (IF "ClientStepsWhileRunning" \in Deviations THEN {"stepIn", "next"} ELSE {})
             [] cl = "stopped" -> {"continue", "stepIn", "next", "stepOut", "setBps", "inspect"}
             [] OTHER -> {}
Send == /\ req.k = "none" /\ nreq < MaxReq
        /\ \E k \in Allowed : \E b \in (IF k = "setBps" THEN BpSets ELSE {{}}) : \E f \in (IF k = "setBps" THEN FilesOfReq(b) ELSE {1}) :
              /\ req' = [k |-> k, b |-> b, f |-> f]
              /\ cl' = CASE k = "continue" -> "contwait" [] k \in {"stepIn", "next", "stepOut"} -> "stepwait" [] OTHER -> cl
        /\ nreq' = nreq + 1
        /\ UNCHANGED <<s, lk, g>>

(* session: one request (possibly several critical sections) or one machine event at a time *)
Idle == s.sp = "idle"
Atomic == "PauseRace" \notin Deviations
PauseNow(sn) == IF Atomic THEN PSet(PRead(R, sn)) ELSE PRead(R, sn)
GStop(gn, sn) == [gn EXCEPT !.halt = Halt(sn, sn.rix), !.stopIx = sn.ix, !.probe = [on |-> FALSE, ix |-> 0, L |-> {}],
                            !.stepBad = @ \/ (gn.stepFrom # 0 /\ sn.ix \notin gn.stepWant), !.stepFrom = 0]

TakeLock == Idle /\ lk = "free" /\ req.k # "none" /\ ~(req.k = "inspect" /\ g.insp.on) /\ lk' = "session" /\ UNCHANGED <<s, req, cl, nreq, g>>
Held == lk = "session"
Done == req' = NoReq /\ lk' = "free"

SContinue == /\ Held /\ Idle /\ req.k = "continue" /\ s' = Resume(s) /\ Done
             /\ g' = [g EXCEPT !.halt = NoHalt] /\ UNCHANGED <<cl, nreq>>
(* setBreakpoints replaces the breakpoints of ONE source file; with "SetBreakpointsForgetsOtherFiles" the adapter replaces all *)
NewLines == (g.curL \ LinesOfFile(req.f)) \cup req.b
SSetBps   == /\ Held /\ Idle /\ req.k = "setBps" /\ Done
             /\ s' = SetBps(s, IF "SetBreakpointsForgetsOtherFiles" \in Deviations THEN BpPcs(req.b) ELSE BpPcs(NewLines))
             /\ g' = [g EXCEPT !.curL = NewLines, !.arm = @ \cap NewLines,       \* armed = installed without interruption since that read
                               !.probe = [@ EXCEPT !.L = @ \cap NewLines],
                               !.forgot = @ \/ ("SetBreakpointsForgetsOtherFiles" \in Deviations /\ BpPcs(req.b) # BpPcs(NewLines))]
             /\ UNCHANGED <<cl, nreq>>
(* the client reads the registers of the RUNNING machine (Registers scope while no stop is pending): whatever was installed *)
(* before that reading is armed for every instruction after the instant it saw                                             *)
SProbe    == /\ Held /\ Idle /\ req.k = "probe" /\ Done
             /\ g' = [g EXCEPT !.probe = IF s.st.k = "Running" THEN [on |-> TRUE, ix |-> s.ix, L |-> g.curL] ELSE @]
             /\ UNCHANGED <<s, cl, nreq>>
             /\ UNCHANGED <<cl, nreq>>
SPause    == /\ Held /\ Idle /\ req.k = "pause" /\ s' = PauseNow(s)
             /\ IF Atomic THEN Done /\ g' = GStop(g, s') ELSE UNCHANGED <<req, lk, g>>
             /\ UNCHANGED <<cl, nreq>>
StepWant(kind, j) == CASE kind = "stepIn" -> {StepInT(R, j)}
                       [] kind = "next" -> {NextT(Prog, R, j)}
                       [] kind = "stepOut" -> IF UnspecOut(R, j) THEN j..Len(R) ELSE {StepOutT(R, j)}
SStep     == /\ Held /\ Idle /\ req.k \in {"stepIn", "next", "stepOut"} /\ ~SEnds(R, s, Deviations)
             /\ LET sx == SExec(Prog, R, s, req.k, Deviations)
                    gx == [g EXCEPT !.halt = NoHalt, !.stepFrom = s.ix, !.stepWant = StepWant(req.k, s.ix),
                                    !.swallowed = @ \/ AtEnd(R, s.ix)] IN         \* the uninterrupted run ends here; this step does not
                IF "StepRacesMachineThread" \in Deviations
                THEN s' = sx /\ g' = gx /\ UNCHANGED <<req, lk>>                \* the runner lock is released between the step and the store of Stopped
                ELSE s' = PSet(PRead(R, sx)) /\ g' = GStop(gx, s') /\ Done     \* one critical section (the runner write lock is kept)
             /\ UNCHANGED <<cl, nreq>>
SStepEnd  == /\ Held /\ Idle /\ req.k \in {"stepIn", "next", "stepOut"} /\ SEnds(R, s, Deviations)
             /\ s' = SEnd(s) /\ Done /\ g' = [g EXCEPT !.halt = NoHalt] /\ UNCHANGED <<cl, nreq>>
SPRead    == /\ Held /\ s.sp = "pread" /\ s' = PauseNow(s)
             /\ IF Atomic THEN Done /\ g' = GStop(g, s') ELSE UNCHANGED <<req, lk, g>>
             /\ UNCHANGED <<cl, nreq>>
SPSet     == /\ Held /\ s.sp = "pset" /\ s' = PSet(s) /\ Done /\ g' = GStop(g, s') /\ UNCHANGED <<cl, nreq>>
(* stackTrace then variables: the frame comes from the stored state, the registers from the CPU *)
SInsp1    == /\ Held /\ Idle /\ req.k = "inspect" /\ ~g.insp.on
             /\ g' = [g EXCEPT !.insp = [on |-> TRUE, pc |-> s.st.pc, ix |-> 0, seen |-> FALSE]]
             /\ lk' = "free" /\ UNCHANGED <<s, req, cl, nreq>>                 \* first request answered, lock released
SInsp2    == /\ Idle /\ lk = "free" /\ req.k = "inspect" /\ g.insp.on /\ ~g.insp.seen
             /\ g' = [g EXCEPT !.insp = [@ EXCEPT !.ix = s.ix, !.seen = TRUE]]
             /\ UNCHANGED <<s, req, cl, nreq, lk>>
SInspEnd  == /\ req.k = "inspect" /\ g.insp.seen /\ req' = NoReq
             /\ g' = [g EXCEPT !.insp = [on |-> FALSE, pc |-> 0, ix |-> 0, seen |-> FALSE]]
             /\ UNCHANGED <<s, cl, nreq, lk>>

(* forwarding one machine event to the client *)
Forward == /\ Idle /\ lk # "session" /\ s.chan # <<>>
           /\ LET e == Head(s.chan) IN
              /\ s' = [s EXCEPT !.chan = Tail(@)]
              /\ cl' = CASE e.k = "disc" -> "terminated"
                         [] e.new = "Stopped" /\ cl \in {"running", "stepwait", "stopped"} -> "stopped"
                         [] e.new = "Running" /\ cl = "contwait" -> "running"
                         [] OTHER -> cl          \* a stopped event older than the continue the client is waiting on
           /\ UNCHANGED <<req, nreq, lk, g>>

(* poller: holds the adapter lock for an instant *)
PollTake == lk = "free" /\ s.conn /\ lk' = "poller" /\ UNCHANGED <<s, req, cl, nreq, g>>
PollRel  == lk = "poller" /\ lk' = "free" /\ UNCHANGED <<s, req, cl, nreq, g>>

Next == AMRead \/ AMCheck \/ AMExec \/ Send \/ TakeLock \/ SContinue \/ SSetBps \/ SProbe \/ SPause \/ SStep \/ SStepEnd \/ SPRead \/ SPSet
        \/ SInsp1 \/ SInsp2 \/ SInspEnd \/ Forward \/ PollTake \/ PollRel
Spec == Init /\ [][Next]_vars

(* =============================== properties =============================== *)
(* every stop leaves the machine halted where it was reported, until the client resumes or steps *)
StoppedIsHalted == g.halt.on => (Pc(R, s.ix) = g.halt.pc /\ s.ix = g.halt.ix)
(* what the client sees through stackTrace + variables while it may believe the machine stopped *)
InspectConsistent == (g.insp.seen /\ g.halt.on) => Pc(R, g.insp.ix) = g.insp.pc
(* a free-running instruction at a breakpoint installed before that iteration read the state is preceded by a stop there *)
NoSkippedBreakpoint == ~g.skipped
(* the same seen from the client: after it has read the running machine's registers at instant p, no instruction after p *)
(* on a line whose breakpoint was installed before that reading (and kept) runs without a stop there                     *)
NoSkipAfterProbe == ~g.skippedP
(* stepping visits exactly what the uninterrupted run executes: where that run ends (brk, failing assertion) a step ends the test too *)
StepEndsTest == ~g.swallowed
(* weakened only by the recorded witness: a setBreakpoints request for one file dropped breakpoints of another file (also an empty *)
(* request for a file that has none)                                                                                              *)
NoSkippedBreakpoint_files == NoSkippedBreakpoint \/ g.forgot
NoSkipAfterProbe_files == NoSkipAfterProbe \/ g.forgot
(* a completed step ends where the property says (next: behind the call; stepOut: behind the call of this subroutine) *)
StepExact == ~g.stepBad

(* the same properties weakened ONLY by the recorded witness (g.race): the machine thread executed an instruction *)
(* between pause's two critical sections (the stored pc is stale from the start) or executed the one instruction  *)
(* it had already decided on before the state left Running. The machine is never BEHIND the reported instant, and *)
(* once Stopped is stored at most one more instruction runs.                                                      *)
RaceWitness == g.race /\ g.halt.on /\ s.ix >= g.halt.rix /\ s.ix - g.halt.ix \in 0..1
StoppedIsHalted_impl == StoppedIsHalted \/ RaceWitness
InspectConsistent_impl == InspectConsistent \/ g.race
StepExact_impl == StepExact \/ g.race
AtMostOneInFlight == g.halt.on => s.ix - g.halt.ix \in 0..1

(* type/sanity and vacuity helpers *)
TypeOK == /\ s.ix \in 1..Len(R) /\ s.m \in {"read", "check", "exec", "done"} /\ s.sp \in {"idle", "pread", "pset"}
          /\ lk \in {"free", "session", "poller"} /\ cl \in {"running", "stopped", "stepwait", "contwait", "terminated"}
NeverStopped == ~g.halt.on
NeverTerminated == cl # "terminated"
NeverStepOutInSub == ~(g.stepFrom # 0 /\ s.kind = "stepOut" /\ Depth(R[g.stepFrom]) > 0)
NeverRace == ~g.race
NeverProbeArmed == ~(g.probe.on /\ g.probe.L # {})
================================================================================
