------------------------------ MODULE DebuggerTrace ------------------------------
(* impl -> spec for C19. One record per debug session:                                            *)
(*   [id, prog: <<[op, arg]>>, lines: <<source line of instruction k>>, base, fuel,               *)
(*    obs:  <<protocol-visible observations in stream order>>,                                    *)
(*    hook: <<events of the lock-ordered hook log of this session>>,                              *)
(*    devs: <<names of the deviations pinned for this tree>>]                                      *)
(* obs rows: [k |-> "setbps", lines], [k |-> "launch"], [k |-> "req", c], [k |-> "ev", e],         *)
(*           [k |-> "snap", hasFrame, line, a, x, y, cyc, ev]  (stackTrace + Registers + evaluate) *)
(*                                                                                                 *)
(* Tier 1 (verdict): the statement of C19 on the protocol-visible stream, with the uninterrupted   *)
(* run RunOf(prog) of DbgCpu as the reference for "where the machine really is".                   *)
(* Tier 2 (faithfulness): the hook log must be a behaviour of the adapter-level actions of         *)
(* DbgAdapter (the operators Debugger.tla is model-checked with); a mismatch is "drift".           *)
EXTENDS DbgAdapter, Json, IOUtils

Rec == ndJsonDeserialize(IOEnv.TRACE)
VARIABLES l, bad
vars == <<l, bad>>
V(id, verdict, dev, why) == [id |-> id, verdict |-> verdict, dev |-> dev, why |-> why]
SeqSet(q) == {q[n] : n \in 1..Len(q)}

Addr(r, k) == AddrOf(r.prog, r.base, k)
EndAddr(r) == Addr(r, Len(r.prog)) + Size(r.prog[Len(r.prog)])
(* requests outside the protocol's happy path that every client can produce; each must be answered (or ignored), none may end the session *)
Malformed == {"unknown_command", "variables_reference", "setbps_no_path", "setbps_line0", "completions_end", "event_message"}
(* ======================================= tier 1 ======================================= *)
T0 == [mode |-> "init", bps |-> {}, stable |-> {}, resume |-> 1, exempt |-> FALSE, at |-> 0, credit |-> FALSE,
       inflight |-> 0, cause |-> "", pend |-> [kind |-> "", from |-> 0], first |-> FALSE, line |-> 0, out |-> <<>>,
       files |-> {}, lastFile |-> 0]

LineOf(r, R, j) == r.lines[R[j].i]
Executed(t, j) == IF t.resume = 0 THEN {} ELSE {k \in t.resume..(j - 1) : ~(t.exempt /\ k = t.resume)}
Skipped(r, R, t, j) == {k \in Executed(t, j) : LineOf(r, R, k) \in t.stable}
StepWantT(r, R, kind, j) == CASE kind = "stepIn" -> {StepInT(R, j)}
                              [] kind = "next" -> {NextT(r.prog, R, j)}
                              [] kind = "stepOut" -> IF UnspecOut(R, j) THEN j..Len(R) ELSE {StepOutT(R, j)}
EvalOf(c) == c.y * 16 + c.x        \* the expression the driver evaluates: cpu.y * 16 + cpu.x

Viol(r, t, why) == [t EXCEPT !.out = Append(@, V(r.id, "violation", "", why))]
Devi(r, t, dev, why) == [t EXCEPT !.out = Append(@, V(r.id, "deviation", dev, why))]
(* source lines of the second file are numbered 1000 + line (the harness' table); setBreakpoints works per file *)
FileOfLine(ln) == IF ln >= 1000 THEN 1 ELSE 0
(* a skipped breakpoint: the recorded witness is a breakpoint of one file that was dropped when another file's were set *)
SkipV(r, R, t, tn, sk, what) ==
  LET k == CHOOSE k \in sk : TRUE IN
  IF t.files = {0, 1} /\ \A m \in sk : FileOfLine(LineOf(r, R, m)) # t.lastFile
  THEN Devi(r, tn, "SetBreakpointsForgetsOtherFiles", "the breakpoint on line " \o ToString(LineOf(r, R, k)) \o " was dropped when the breakpoints of the other file were set: " \o what)
  ELSE Viol(r, tn, "NoSkippedBreakpoint: " \o what \o " (run index " \o ToString(k) \o ")")

(* first snapshot after a stopped event: is the machine where the property says it must be? *)
FirstSnap(r, R, t, o, j) ==
  LET here == LineOf(r, R, j) = o.line
      t1 == [t EXCEPT !.at = j, !.first = FALSE, !.line = o.line] IN
  IF (t.cause = "step" /\ t.pend.from = 0) \/ (t.cause # "step" /\ t.resume = 0)
  THEN (* the position before this step/run is unknown (an earlier snapshot was rejected): only the frame can be judged *)
       IF here THEN t1 ELSE Viol(r, t1, "StoppedIsHalted: frame line " \o ToString(o.line) \o " does not contain the pc of run index " \o ToString(j))
  ELSE IF t.cause = "step" THEN
     LET want == StepWantT(r, R, t.pend.kind, t.pend.from)
         raceWant == {Succ(R, w) : w \in want} \cup StepWantT(r, R, t.pend.kind, Succ(R, t.pend.from)) IN
     IF j \in want /\ here THEN t1
     ELSE IF t.inflight > 0 /\ j \in raceWant
          THEN Devi(r, [t1 EXCEPT !.inflight = 0], "PauseRace", "after " \o t.pend.kind \o ": the in-flight instruction of the machine thread ran during the step")
     ELSE IF t.pend.kind = "next" /\ j = NextImpl(r.prog, R, t.pend.from) /\ Depth(R[j]) > Depth(R[t.pend.from]) /\ here
          THEN Devi(r, t1, "NextIgnoresCallDepth", "next over a jsr stopped inside a nested call: the address behind the jsr was reached at call depth "
                           \o ToString(Depth(R[j])) \o " instead of " \o ToString(Depth(R[t.pend.from])))
     ELSE IF t.pend.kind = "stepOut" /\ Depth(R[t.pend.from]) > 0 /\ ~TopIsRet(R[t.pend.from]) /\ j = StepOutImpl(R, t.pend.from) /\ here
          THEN Devi(r, t1, "StepOutReadsTopOfStack", "stepOut with data pushed inside the subroutine ran to the end of the test")
     ELSE IF t.inflight > 0 /\ t.pend.kind = "stepOut" /\ Depth(R[Succ(R, t.pend.from)]) > 0 /\ ~TopIsRet(R[Succ(R, t.pend.from)])
             /\ j = StepOutImpl(R, Succ(R, t.pend.from)) /\ here
          THEN (* both recorded defects at once: the in-flight instruction was the push, then stepOut read the pushed byte as return address *)
               Devi(r, [t1 EXCEPT !.inflight = 0], "StepOutReadsTopOfStack", "stepOut after the machine thread's in-flight push (PauseRace) ran to the end of the test")
     ELSE Viol(r, t1, "StepExact: after " \o t.pend.kind \o " from run index " \o ToString(t.pend.from) \o " the machine is at run index " \o ToString(j) \o ", frame line " \o ToString(o.line))
  ELSE
     LET sk == Skipped(r, R, t, j)
         t2 == IF sk # {} THEN SkipV(r, R, t, t1, sk, "an instruction at a breakpoint line was executed without stopping") ELSE t1 IN
     IF j < t.resume THEN Viol(r, t1, "machine is behind the point it was resumed from")
     ELSE IF here THEN t2
     ELSE IF t.cause = "pause" /\ \E k \in t.resume..(j - 1) : LineOf(r, R, k) = o.line
          THEN Devi(r, [t2 EXCEPT !.line = o.line], "PauseRace", "after pause: frame line " \o ToString(o.line) \o " but registers/CYC are those of run index " \o ToString(j) \o " (line " \o ToString(LineOf(r, R, j)) \o ")")
     ELSE Viol(r, t2, "StoppedIsHalted: frame line " \o ToString(o.line) \o " does not contain the pc of run index " \o ToString(j) \o " (line " \o ToString(LineOf(r, R, j)) \o "), stop cause " \o t.cause)

(* later snapshots of the same stop: nothing may have changed *)
LaterSnap(r, R, t, o, j) ==
  IF o.line # t.line
  THEN (* PauseRace, third shape: pause stored a stale pc, and the machine thread's in-flight iteration then hit a breakpoint at the *)
       (* real pc and stored Stopped(real pc): the frame is CORRECTED while stopped (second stopped event, registers unchanged)   *)
       IF t.inflight > 0 /\ j = t.at /\ o.line = LineOf(r, R, j) /\ t.line # LineOf(r, R, j)
       THEN Devi(r, [t EXCEPT !.line = o.line, !.inflight = 0], "PauseRace", "stale frame line " \o ToString(t.line) \o " replaced by line " \o ToString(o.line) \o " while stopped (in-flight breakpoint check of the machine thread)")
       ELSE Viol(r, t, "reported frame changed while stopped")
  ELSE IF j = t.at THEN t
  ELSE IF j = t.at + 1 /\ t.inflight > 0
       THEN Devi(r, [t EXCEPT !.at = j, !.inflight = 0], "PauseRace", "registers changed while stopped: the machine thread executed its in-flight instruction (run index " \o ToString(t.at) \o " -> " \o ToString(j) \o ")")
  ELSE Viol(r, [t EXCEPT !.at = j], "StoppedIsHalted: machine moved from run index " \o ToString(t.at) \o " to " \o ToString(j) \o " while stopped")

Snap(r, R, t, o) ==
  IF t.mode # "stopped" THEN t
  ELSE IF ~o.hasFrame THEN Viol(r, [t EXCEPT !.first = FALSE], "no stack frame while stopped")
  ELSE LET js == {j \in 1..Len(R) : R[j].cyc = o.cyc} IN
       IF js = {} THEN Viol(r, [t EXCEPT !.first = FALSE], "registers (CYC=" \o ToString(o.cyc) \o ") correspond to no instant of the run")
       ELSE LET j == CHOOSE j \in js : TRUE
                c == R[j] IN
            IF <<c.a, c.x, c.y>> # <<o.a, o.x, o.y>> THEN Viol(r, [t EXCEPT !.first = FALSE], "registers are not those of the instant CYC names")
            ELSE IF o.ev # EvalOf(c) /\ ~(t.inflight > 0 /\ o.ev = EvalOf(R[Succ(R, j)]))
                 THEN Viol(r, [t EXCEPT !.first = FALSE], "evaluate does not reflect the registers of the same instant")
            ELSE IF o.star # Addr(r, c.i) /\ o.star # EndAddr(r) /\ ~(t.inflight > 0 /\ o.star = Addr(r, R[Succ(R, j)].i))
                 THEN Viol(r, [t EXCEPT !.first = FALSE], "evaluate `*` = " \o ToString(o.star) \o " is not the program counter " \o ToString(Addr(r, c.i)) \o " of the stop")
            ELSE IF r.linesDefault /\ o.line + 1 = LineOf(r, R, j)
                 THEN Devi(r, [t EXCEPT !.first = FALSE, !.mode = "terminated"], "LinesStartAt1DefaultsToFalse", "initialize without linesStartAt1: the frame is reported 0-based (line " \o ToString(o.line) \o " for source line " \o ToString(LineOf(r, R, j)) \o ")")
            ELSE LET ts == IF o.star # Addr(r, c.i) /\ o.star = EndAddr(r)        \* recorded witness: `*` = where assembly ended; judging goes on
                               THEN Devi(r, t, "EvaluateStarIsNotPc", "evaluate `*` answers " \o ToString(o.star) \o " (where assembly ended), the machine is stopped at " \o ToString(Addr(r, c.i)))
                               ELSE t IN
                 IF t.first THEN FirstSnap(r, R, ts, o, j) ELSE LaterSnap(r, R, ts, o, j)

(* Registers read while the machine runs freely (the client saw no stop since the last launch/continue). The reading is  *)
(* an instant p of the run (runner read lock). Every breakpoint installed before it is in force for every instruction    *)
(* after p (instruction p itself may already have passed its check: one in-flight instruction of grace), so p becomes the *)
(* new anchor of the free run with ALL current breakpoints armed. Before that, the stretch up to p is judged as usual.    *)
Probe(r, R, t, o) ==
  IF t.mode # "running" THEN t
  ELSE LET js == {j \in 1..Len(R) : R[j].cyc = o.cyc} IN
       IF js = {} THEN Viol(r, t, "registers of the running machine (CYC=" \o ToString(o.cyc) \o ") correspond to no instant of the run")
       ELSE LET j == CHOOSE j \in js : TRUE
                sk == Skipped(r, R, t, j)
                t1 == [t EXCEPT !.resume = j, !.exempt = TRUE, !.stable = t.bps] IN
            IF <<R[j].a, R[j].x, R[j].y>> # <<o.a, o.x, o.y>> THEN Viol(r, t, "registers of the running machine are not those of the instant CYC names")
            ELSE IF j < t.resume THEN Viol(r, t, "running machine is behind the point it was resumed from")
            ELSE IF sk # {} THEN SkipV(r, R, t, t1, sk, "an instruction at a breakpoint line was executed without stopping")
            ELSE IF t.bps # {} /\ j > 1 /\ j < Len(R) /\ \E k \in (j + 1)..(Len(R) - 1) : LineOf(r, R, k) \in t.bps
                 THEN [t1 EXCEPT !.out = Append(@, V(r.id, "info", "ProbeAnchored", "1"))]     \* non-vacuity: the breakpoint line is still ahead
            ELSE t1

(* evaluate of ram(a) / ram16(a) while stopped. The test's memory is the program image at base and zero elsewhere, and the 16-bit  *)
(* address space wraps: every such request is answered, with the value of the byte(s) at a, a+1 mod 65536 (0 outside the image).      *)
(* The driver only reads outside the image. An unanswered request = the session thread died in the handler.                           *)
EvalMem(r, t, o) ==
  IF t.mode # "stopped" THEN t
  ELSE IF o.answered /\ o.ok /\ o.val = 0 THEN t
  ELSE IF ~o.answered /\ o.width = 2 /\ o.addr = 65535
       THEN Devi(r, t, "EvaluatePastEndOfMemoryPanics", "evaluate ram16($ffff) is never answered (the read crosses the end of the address space)")
  ELSE Viol(r, t, "evaluate ram" \o (IF o.width = 2 THEN "16" ELSE "") \o "(" \o ToString(o.addr) \o ") " \o (IF o.answered THEN "gave a wrong value or an error" ELSE "was never answered"))

Obs1(r, R, t, o) ==
  CASE o.k = "setbps" -> LET nb == {ln \in t.bps : FileOfLine(ln) # o.file} \cup SeqSet(o.lines) IN      \* replaces the breakpoints of that file only
                         [t EXCEPT !.bps = nb, !.stable = IF t.mode = "running" THEN @ \cap nb ELSE nb, !.files = @ \cup {o.file}, !.lastFile = o.file]
    [] o.k = "launch" -> [t EXCEPT !.mode = "running", !.resume = 1, !.exempt = FALSE, !.stable = t.bps, !.credit = FALSE]
    [] o.k = "req" ->
         (CASE o.c = "pause" -> IF t.mode = "running" THEN [t EXCEPT !.credit = TRUE] ELSE t
            [] o.c = "continue" -> IF t.mode = "stopped"
                                   THEN [t EXCEPT !.mode = "running", !.resume = t.at, !.exempt = TRUE, !.stable = t.bps, !.credit = FALSE, !.inflight = 0]
                                   ELSE t
            [] o.c \in {"stepIn", "next", "stepOut"} -> IF t.mode = "stopped"
                                   THEN [t EXCEPT !.mode = "stepping", !.pend = [kind |-> o.c, from |-> t.at]]
                                   ELSE IF t.mode = "running"
                                   THEN (* a step sent while the machine runs: which thread executed which instruction is not visible in the protocol *)
                                        (* (a step ignores breakpoints, the free run does not): only the hook log (tier 2) can tell; judging ends here  *)
                                        [t EXCEPT !.mode = "terminated"]
                                   ELSE t
            [] OTHER -> t)
    [] o.k = "ev" ->
         (CASE o.e = "stopped" ->
                 (CASE t.mode = "running" -> [t EXCEPT !.mode = "stopped", !.first = TRUE, !.cause = IF t.credit THEN "pause" ELSE "bp",
                                                        !.inflight = IF t.credit THEN 1 ELSE 0]
                    [] t.mode = "stepping" ->
                         IF t.pend.from = Len(R) /\ t.pend.from > 0 /\ AtBrk(r.prog, R[Len(R)])
                         THEN (* the uninterrupted run ends at the instruction this step started from (brk / failing assertion): the step must end the test *)
                              Devi(r, [t EXCEPT !.mode = "terminated"], "StepSwallowsTestEnd", "a " \o t.pend.kind \o " at the end of the test (" \o r.prog[R[Len(R)].i].op \o ") reported a stop instead of ending the test")
                         ELSE [t EXCEPT !.mode = "stopped", !.first = TRUE, !.cause = "step"]
                    [] OTHER -> t)
            [] o.e = "terminated" ->
                 IF t.mode = "running"
                 THEN LET sk == Skipped(r, R, t, Len(R))
                          t1 == [t EXCEPT !.mode = "terminated"] IN
                      IF sk # {} THEN SkipV(r, R, t, t1, sk, "the test ran to its end over a breakpoint") ELSE t1
                 ELSE [t EXCEPT !.mode = "terminated"]
            [] OTHER -> t)
    [] o.k = "snap" -> Snap(r, R, t, o)
    [] o.k = "probe" -> Probe(r, R, t, o)
    [] o.k = "evalmem" -> EvalMem(r, t, o)
    [] o.k = "alive" -> IF o.answered THEN t
                        ELSE IF o.after \in Malformed THEN Devi(r, [t EXCEPT !.mode = "terminated"], "MalformedRequestKillsDebugThread", "after the request `" \o o.after \o "` the adapter answers nothing any more")
                        ELSE Viol(r, [t EXCEPT !.mode = "terminated"], "the adapter stopped answering after `" \o o.after \o "`")
    [] OTHER -> t

RECURSIVE Fold1(_, _, _, _)
Fold1(r, R, t, n) == IF n > Len(r.obs) THEN t ELSE Fold1(r, R, Obs1(r, R, t, r.obs[n]), n + 1)

(* ======================================= tier 2 ======================================= *)
IdxOfAddr(r, a) == IF \E k \in 1..Len(r.prog) : Addr(r, k) = a THEN CHOOSE k \in 1..Len(r.prog) : Addr(r, k) = a ELSE 0
(* r.devs: the deviations pinned for the tree under test (open findings); the hook log is replayed under that reading *)
DevsOf(r) == {r.devs[k] : k \in 1..Len(r.devs)}
(* h = [a |-> adapter record, ok |-> TRUE/FALSE, n |-> index of first unmatched event, races |-> count, live] *)
H0 == [a |-> AInit({}), ok |-> TRUE, n |-> 0, races |-> 0, live |-> TRUE, why |-> ""]
Rej(h, n, why) == [h EXCEPT !.ok = FALSE, !.n = n, !.why = why]
Ev2(r, R, h, e, n) ==
  LET a == h.a
      pcNow == Addr(r, Pc(R, a.ix)) IN
  CASE e.ev = "start" -> IF a.st.k = "Launching" THEN [h EXCEPT !.a = Start(a)] ELSE Rej(h, n, "start while not launching")
    [] e.ev = "set_bps" ->
         LET idxs == {IdxOfAddr(r, e.pcs[k]) : k \in 1..Len(e.pcs)} \ {0} IN
         IF idxs # PcsOfLines(r.lines, {r.lines[k] : k \in idxs})        \* Debugger!BpPcs: a line's breakpoint is all its instructions
         THEN Rej(h, n, "set_bps: the machine breakpoints are not ALL instructions assembled from their source lines")
         ELSE [h EXCEPT !.a = SetBps(a, idxs)]
    [] e.ev = "m_read" -> IF MReadEn(a) /\ a.st.k = "Running" THEN [h EXCEPT !.a = MRead(a)] ELSE Rej(h, n, "m_read(Running) not enabled")
    [] e.ev = "m_check" ->
         IF ~MCheckEn(a) THEN Rej(h, n, "m_check not enabled")
         ELSE IF e.pc # pcNow THEN Rej(h, n, "m_check at another pc than the model's cpu")
         ELSE IF e.checked # (a.last # Pc(R, a.ix)) THEN Rej(h, n, "last-checked-pc rule differs")
         ELSE IF e.hit # MCheckHit(R, a) THEN Rej(h, n, "breakpoint hit differs")
         ELSE IF e.hit /\ e.old # a.st.k THEN Rej(h, n, "old state of the stop event differs")
         ELSE [h EXCEPT !.a = MCheck(R, a)]
    [] e.ev = "m_exec" ->
         IF ~MExecEn(a) THEN Rej(h, n, "m_exec not enabled")
         ELSE IF e.pc # pcNow THEN Rej(h, n, "m_exec: pc differs")      \* (e.state is read just before the instruction, not atomically with this log line: not compared)
         ELSE IF ~MExecRuns(a, DevsOf(r)) THEN Rej(h, n, "m_exec although the state was no longer Running when the runner lock was taken")
         ELSE IF a.last # Pc(R, a.ix) /\ "StepRacesMachineThread" \notin DevsOf(r)
              THEN Rej(h, n, "m_exec at a pc the breakpoints were not checked for (a step moved the machine between check and execute)")
         ELSE LET a1 == MExec(R, a, DevsOf(r)) IN
              IF e["end"] # AtEnd(R, a.ix) THEN Rej(h, n, "m_exec: end of test differs")
              ELSE IF e.pc1 # Addr(r, Pc(R, a1.ix)) \/ e.cyc # R[a1.ix].cyc THEN Rej(h, n, "m_exec: successor state differs from DbgCpu!Step")
              ELSE [h EXCEPT !.a = a1, !.races = @ + (IF a.st.k # "Running" \/ a.sp = "pset" THEN 1 ELSE 0)]
    [] e.ev = "m_skip" -> IF MExecEn(a) /\ ~MExecRuns(a, DevsOf(r)) THEN [h EXCEPT !.a = MExec(R, a, DevsOf(r))]
                          ELSE Rej(h, n, "m_skip: the machine thread skipped an instruction the model executes")
    [] e.ev = "p_read" -> IF a.sp \in {"idle", "pread"} /\ e.pc = pcNow /\ e.cyc = R[a.ix].cyc THEN [h EXCEPT !.a = PRead(R, a)]
                          ELSE Rej(h, n, "p_read: not enabled or pc differs")
    [] e.ev = "set_state" ->
         IF e.new = "Running" THEN (IF a.sp = "idle" /\ e.old = a.st.k THEN [h EXCEPT !.a = Resume(a)] ELSE Rej(h, n, "resume: not enabled or old state differs"))
         ELSE IF e.new = "Stopped" THEN (IF a.sp = "pset" /\ e.old = a.st.k /\ e.pc = Addr(r, a.tmp) THEN [h EXCEPT !.a = PSet(a)]
                                          ELSE Rej(h, n, "pause store: not enabled, old state or stored pc differs"))
         ELSE Rej(h, n, "unknown state")
    [] e.ev = "s_exec" ->
         IF a.sp # "idle" \/ e.pc # pcNow THEN Rej(h, n, "s_exec: not enabled or pc differs")
         ELSE LET a1 == IF SEnds(R, a, DevsOf(r)) THEN SEnd(a) ELSE SExec(r.prog, R, a, e.kind, DevsOf(r)) IN
              IF e.pc1 # Addr(r, Pc(R, a1.ix)) \/ e.cyc # R[a1.ix].cyc THEN Rej(h, n, "s_exec(" \o e.kind \o "): target differs from the runner model")
              ELSE [h EXCEPT !.a = a1]
    [] e.ev = "stop" -> [h EXCEPT !.live = FALSE]
    [] OTHER -> h

RECURSIVE Fold2(_, _, _, _)
Fold2(r, R, h, n) == IF n > Len(r.hook) \/ ~h.ok \/ ~h.live THEN h ELSE Fold2(r, R, Ev2(r, R, h, r.hook[n], n), n + 1)

Judge(r) ==
  LET R == RunOf(r.prog, r.fuel)
      t == Fold1(r, R, T0, 1)
      h == Fold2(r, R, H0, 1) IN
  t.out
  \o (IF h.ok THEN <<>> ELSE <<V(r.id, "drift", "DbgAdapter", "hook event " \o ToString(h.n) \o ": " \o h.why)>>)
  \o (IF h.races > 0 THEN <<V(r.id, "info", "RaceAtHookLevel", ToString(h.races))>> ELSE <<>>)
  \o (IF Len(r.hook) > 0 /\ h.ok THEN <<V(r.id, "info", "HookEventsReplayed", ToString(Len(r.hook)))>> ELSE <<>>)

Init == l = 1 /\ bad = <<>>
Step1 == l <= Len(Rec) /\ bad' = bad \o Judge(Rec[l]) /\ l' = l + 1
Finish == l = Len(Rec) + 1 /\ ndJsonSerialize(IOEnv.OUT, bad) /\ l' = l + 1 /\ UNCHANGED bad
Next == Step1 \/ Finish
Spec == Init /\ [][Next]_vars
Consumed == TLCGet("stats").diameter >= Len(Rec) + 1
================================================================================
