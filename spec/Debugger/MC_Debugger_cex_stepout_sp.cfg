SPECIFICATION Spec
CONSTANTS LibLines <- NoLib  Lines <- Id12  Prog <- ProgPushCall  BpSets <- BpsPushCall  MaxReq = 2  Deviations <- SpDev  Fuel = 40
INVARIANT StepExact
