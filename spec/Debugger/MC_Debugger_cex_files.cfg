SPECIFICATION Spec
CONSTANTS LibLines <- LibSub  Lines <- Id7  Prog <- ProgLoopSub  BpSets <- BpsFiles  MaxReq = 2  Deviations <- FilesDev  Fuel = 40
INVARIANT NoSkippedBreakpoint
