SPECIFICATION Spec
CONSTANTS LibLines <- NoLib  Lines <- Id3  Prog <- ProgFail  BpSets <- BpsTiny  MaxReq = 3  Deviations <- SwallowDev  Fuel = 10
INVARIANT StepEndsTest
