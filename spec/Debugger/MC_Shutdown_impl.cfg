SPECIFICATION Spec
CONSTANT Deviations <- AllDev
INVARIANT TypeOK
INVARIANT CleanExit_impl
PROPERTY Terminates
