------------------------------ MODULE ShutdownTrace ------------------------------
(* impl -> spec for C20. One record per run of a real `mos lsp` process:                                   *)
(*   [id, state, mode, order, rc, ms, bound, portAfter, panicAt, blocked: <<wchan>>, life: <<[what, n]>>,  *)
(*    others: <<"file|message" of panics of threads other than main>>]                                     *)
(*   state: session state when the LSP client acts: "none" | "idle" | "running" | "paused" | "busy" (the   *)
(*          session thread is inside a `next` that never returns); shutdownReply: was `shutdown` answered  *)
(*   mode : "shutdown_exit" | "close" (pipe closed, no shutdown) | "shutdown_close"                        *)
(*   rc   : exit status; 1000 + signal when killed by a signal; -1 = still alive when the bound expired    *)
(* Tier 1: CleanExit / Terminates of Shutdown.tla on the process observables.                              *)
(* Tier 2: the lifecycle hook log must be a run of Shutdown.tla's thread operators ("drift" otherwise).    *)
EXTENDS ShutdownOps, Json, IOUtils, FiniteSets

Rec == ndJsonDeserialize(IOEnv.TRACE)
VARIABLES l, bad
tvars == <<l, bad>>
V(id, verdict, dev, why) == [id |-> id, verdict |-> verdict, dev |-> dev, why |-> why]

SelectPanic == "crossbeam-channel/src/select.rs|dropped `SelectedOperation` without completing the operation"
JoinPanic == "mos/src/debugger/mod.rs|Could not join debugger thread: Any { .. }"
PoisonPanic == "mos/src/lsp/mod.rs|called `Result::unwrap()` on an `Err` value: PoisonError { .. }"
LaunchUnwrap == "mos/src/debugger/mod.rs|called `Option::unwrap()` on a `None` value"
PauseLaunchPanic == "mos/src/debugger/mod.rs|Should never receive any machine events during launch."
PortBusyPanic == "mos/src/debugger/mod.rs|Couldn't listen on port N: Address already in use (os error 98)"
UnwrapPanic == "mos/src/lsp/mod.rs|called `Option::unwrap()` on a `None` value"
Has(r, w) == \E k \in 1..Len(r.life) : r.life[k].what = w
SharedAtUnwrap(r) == \/ r.life = <<>>                                   \* no hooks in this tree: the panic site alone is the witness
                     \/ /\ \E k \in 1..Len(r.life) : r.life[k].what = "main_loop_left" /\ r.life[k].n > 1
                        /\ ~Has(r, "io_joined")
Tier1(r) ==
  LET terminated == r.rc >= 0
      clean == IF r.mode = "shutdown_exit" THEN r.rc = 0 ELSE (terminated /\ r.rc # 101 /\ r.rc < 128)
      where == " (state " \o r.state \o ", " \o r.mode \o ", " \o r.order \o ")" IN
  IF clean /\ ~r.portAfter THEN <<>>
  ELSE IF r.rc = 101 /\ r.panicAt = UnwrapPanic /\ SharedAtUnwrap(r) /\ ~r.portAfter
       THEN <<V(r.id, "deviation", "UnwrapSharedContext", "exit status 101: panic at the unwrap of the shared context" \o where)>>
  ELSE IF r.rc = 101 /\ r.panicAt = JoinPanic /\ r.others # <<>> /\ ~r.portAfter
       THEN <<V(r.id, "deviation", "DeadDebugThreadFailsShutdown", "exit status 101: DebugServer::join panicked because the debug thread had panicked earlier" \o where)>>
  ELSE IF r.rc = 101 /\ r.panicAt = PoisonPanic /\ r.state = "notoml" /\ (\E k \in 1..Len(r.others) : r.others[k] = LaunchUnwrap) /\ ~r.portAfter
       THEN <<V(r.id, "deviation", "LaunchWithoutConfigPanics", "exit status 101: the context lock was poisoned by the launch handler's panic" \o where)>>
  ELSE IF r.rc = 1006 /\ r.state = "hugeheader" /\ ~r.portAfter
       THEN <<V(r.id, "deviation", "HugeContentLengthAbortsProcess", "the process was aborted (SIGABRT) by a Content-Length header on the debug port" \o where)>>
  ELSE IF ~terminated
       THEN <<V(r.id, "violation", "", "Terminates: still alive " \o ToString(r.bound) \o " ms after the client finished; threads wait in " \o ToString(r.blocked)
                \o (IF Has(r, "dbg_join_enter") /\ ~Has(r, "dbg_join_return") THEN "; main is in DebugServer::join" ELSE "")
                \o (IF ~r.shutdownReply THEN "; the `shutdown` request was never answered" ELSE "")
                \o (IF Has(r, "shutdown_request") /\ ~Has(r, "exit_notification") /\ r.mode = "shutdown_exit" THEN "; main is blocked inside the shutdown handshake (MShutdown not completed)" ELSE "")
                \o where)>>
  ELSE IF r.portAfter THEN <<V(r.id, "violation", "", "the debug port is still bound after the process ended" \o where)>>
  ELSE <<V(r.id, "violation", "", "CleanExit: exit status " \o ToString(r.rc) \o ", panic '" \o r.panicAt \o "'" \o where)>>

(* ---- tier 2 ---- *)
(* r.devs: the deviations pinned for the tree under test (open findings and the latent ones behind them) *)
DevsOf(r) == {r.devs[k] : k \in 1..Len(r.devs)}
(* matrix states in which the session thread does not react: "busy" (the driver sent it into a step that never returns) and        *)
(* "unresponsive" (the driver could not bring the session into the intended state because requests were not answered or failed)     *)
NoReaction == {"busy", "unresponsive"}
(* the debug thread leaves no life event when it panics; stderr says that it did (r.others) *)
Died(r) == \E k \in 1..Len(r.others) : r.others[k] # SelectPanic
Poisoned(r) == \E k \in 1..Len(r.others) : r.others[k] = LaunchUnwrap
H0(r) == [s |-> S0, ok |-> TRUE, n |-> 0, why |-> "", dev |-> DevsOf(r), died |-> Died(r), poison |-> Poisoned(r), busy |-> (r.state \in NoReaction)]
Rej(h, n, why) == [h EXCEPT !.ok = FALSE, !.n = n, !.why = why]
Need(h, n, cond, sn, why) == IF cond THEN [h EXCEPT !.s = sn] ELSE Rej(h, n, why)
Ev(h, e, n) ==
  LET s == h.s
      Impl == h.dev IN
  CASE e.what = "dbg_started" -> h
    [] e.what = "lsp_initialized" -> Need(h, n, s.m = "init", MInit(s), "initialized twice")
    [] e.what = "shutdown_request" -> Need(h, n, MShutdownEn(s, Impl), MShutdown(s), "shutdown outside the main loop")
    [] e.what = "exit_notification" -> Need(h, n, s.m = "wait_exit", MExit(s), "exit seen without shutdown")
    [] e.what = "main_loop_left" -> Need(h, n, s.m \in {"serve", "drain"} /\ e.n - s.refs \in -1..(IF s.d = "dead" THEN 2 ELSE 1) /\ (e.n > 1) = (s.refs > 1),   \* the count is read while the other thread may be cloning/dropping (or unwinding)
                                         MLeft(s), "main loop left in model state " \o s.m \o " with refcount " \o ToString(e.n) \o " (model " \o ToString(s.refs) \o ")")
    [] e.what = "io_joined" -> Need(h, n, s.m = "left" /\ MUnwrap(s, Impl).m = "io", MUnwrap(s, Impl), "IO threads joined although the model's unwrap panics")
    [] e.what = "dbg_join_enter" -> Need(h, n, s.m = "io", MSetFlag(s, Impl), "DebugServer::join entered early")
    [] e.what = "dbg_join_return" -> Need(h, n, MJoinEn(s, Impl), MJoin(s, Impl), "join returned while the debug thread has not ended")
    [] e.what = "session_new" -> Need(h, n, DTopEn(s) /\ ~s.flag, DTop(s), "new session in model state " \o s.d)
    [] e.what = "accept_enter" -> Need(h, n, s.d = "new", DBind(s), "accept entered in model state " \o s.d)
    [] e.what = "accepted" -> Need(h, n, s.d = "accept", DAccept(s), "accepted without blocking accept")
    [] e.what = "handler_registered" -> Need(h, n, DRegEn(s), DReg(s, Impl), "handler registered while the context lock is held by the shutdown handshake")
    [] e.what = "client_gone" -> Need(h, n, s.d = "session", DEndSess(s), "client gone outside a session")
    [] e.what = "shutdown_signal" -> Need(h, n, s.d = "session" /\ s.sig, DSig(s, Impl), "shutdown signal without an invoked handler")
    [] e.what = "session_end" -> Need(h, n, s.d = "ending", DDrop(s), "session end in model state " \o s.d)
    [] e.what = "dbg_thread_end" -> Need(h, n, DTopEn(s) /\ s.flag, DTop(s), "debug thread ended without the flag")
    [] OTHER -> h
RECURSIVE Fold(_, _, _)
(* before the first step of the main thread towards the end, a debug thread that is known to have died is dead in the model too *)
(* ... and a session thread that the driver has sent into a step that never returns (state "busy") is busy in the model too *)
Busied(h, e) == IF h.busy /\ e.what \in {"shutdown_request", "main_loop_left"} /\ h.s.d = "session"
                THEN [h EXCEPT !.s = DBusy(h.s), !.busy = FALSE] ELSE h
Killed(h, e) == IF h.died /\ e.what \in {"shutdown_request", "main_loop_left"} /\ h.s.d \in {"new", "accept", "accepted", "session"}
                THEN [h EXCEPT !.s = DKill(h.s, h.poison), !.died = FALSE] ELSE h
Fold(r, h, n) == IF n > Len(r.life) \/ ~h.ok THEN h ELSE Fold(r, Ev(Busied(Killed(h, r.life[n]), r.life[n]), r.life[n], n), n + 1)
Tier2(r) ==
  LET h == Fold(r, H0(r), 1)
      s == h.s
      Impl == h.dev IN
  IF ~h.ok THEN <<V(r.id, "drift", "Shutdown", "life event " \o ToString(h.n) \o ": " \o h.why)>>
  ELSE IF r.life = <<>> THEN <<>>
  ELSE (* what the model says about the end of this run must be what was observed *)
       LET predicted == IF s.m = "left" THEN MUnwrap(s, Impl).exit ELSE s.exit IN
       IF s.m = "left" /\ predicted = 101 /\ r.rc # 101 THEN <<V(r.id, "drift", "Shutdown", "model predicts the unwrap panic, observed status " \o ToString(r.rc))>>
       ELSE <<V(r.id, "info", "LifeEventsReplayed", ToString(Len(r.life)))>>

OtherPanic(r, p) == IF p = PauseLaunchPanic /\ r.state = "launchpause"
                    THEN V(r.id, "deviation", "PauseWhileLaunchingPanics", "the debug thread panicked on a pause that arrived before configurationDone")
                    ELSE IF p = LaunchUnwrap /\ r.state = "notoml"
                    THEN V(r.id, "deviation", "LaunchWithoutConfigPanics", "the debug thread panicked in the launch handler (no mos.toml)")
                    ELSE IF p = PortBusyPanic /\ r.state = "portbusy"
                    THEN V(r.id, "info", "PortInUse", "1")       \* the environment's fault, reported by a deliberate panic: not judged
                    ELSE IF p = SelectPanic /\ (r.life = <<>> \/ Has(r, "shutdown_signal"))
                    THEN V(r.id, "deviation", "SignalPanicsDebugThread", "the debug thread panicked when it received the LSP shutdown signal (state " \o r.state \o ", " \o r.mode \o ", " \o r.order \o ")")
                    ELSE V(r.id, "violation", "", "a thread panicked during shutdown: " \o p)
Others(r) == [k \in 1..Len(r.others) |-> OtherPanic(r, r.others[k])]
(* Shutdown!ThreadEndsUnlessBusy on the hook log: main came back from DebugServer::join (dbg_join_return) - then the debug thread's  *)
(* last words (dbg_thread_end) must stand before it, unless the session thread was busy inside a step that does not return (state     *)
(* "busy": the deliberate give-up) or had died earlier (stderr shows its panic). Needs the hooks; nothing is demanded without them.     *)
Pos(r, w) == IF Has(r, w) THEN CHOOSE k \in 1..Len(r.life) : r.life[k].what = w /\ \A m \in 1..(k - 1) : r.life[m].what # w ELSE 0
Count(r, w) == Cardinality({k \in 1..Len(r.life) : r.life[k].what = w})
Zombie(r) ==
  IF ~Has(r, "dbg_join_return") \/ r.state \in NoReaction \/ Died(r) THEN <<>>
  ELSE IF ~Has(r, "dbg_thread_end") \/ Pos(r, "dbg_thread_end") > Pos(r, "dbg_join_return")
       THEN <<V(r.id, "violation", "", "ThreadEndsUnlessBusy: the process ended while the debug thread was still blocked (no dbg_thread_end before DebugServer::join returned; last life events "
                \o ToString([k \in 1..(IF Len(r.life) < 4 THEN Len(r.life) ELSE 4) |-> r.life[Len(r.life) - (IF Len(r.life) < 4 THEN Len(r.life) ELSE 4) + k].what])
                \o ") (state " \o r.state \o ", " \o r.mode \o ", " \o r.order \o ")")>>
  ELSE IF Count(r, "session_end") < Count(r, "session_new")
       THEN <<V(r.id, "violation", "", "ThreadEndsUnlessBusy: a debug session was never ended (state " \o r.state \o ", " \o r.mode \o ", " \o r.order \o ")")>>
  ELSE <<>>
Judge(r) == Tier1(r) \o Others(r) \o Zombie(r) \o Tier2(r)
Init == l = 1 /\ bad = <<>>
Step1 == l <= Len(Rec) /\ bad' = bad \o Judge(Rec[l]) /\ l' = l + 1
Finish == l = Len(Rec) + 1 /\ ndJsonSerialize(IOEnv.OUT, bad) /\ l' = l + 1 /\ UNCHANGED bad
TNext == Step1 \/ Finish
TSpec == Init /\ [][TNext]_tvars
Consumed == TLCGet("stats").diameter >= Len(Rec) + 1
================================================================================
