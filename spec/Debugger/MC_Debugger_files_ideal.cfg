SPECIFICATION Spec
CONSTANTS LibLines <- LibSub  Lines <- Id7  Prog <- ProgLoopSub  BpSets <- BpsFiles  MaxReq = 3  Deviations <- NoDev  Fuel = 40
INVARIANT TypeOK
INVARIANT NoSkippedBreakpoint
INVARIANT NoSkipAfterProbe
INVARIANT StoppedIsHalted
