SPECIFICATION Spec
CONSTANTS LibLines <- NoLib  Lines <- LinesDup  Prog <- ProgDup  BpSets <- BpsDup  MaxReq = 2  Deviations <- DupDev  Fuel = 20
INVARIANT NoSkippedBreakpoint
