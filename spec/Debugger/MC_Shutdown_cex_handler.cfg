SPECIFICATION Spec
CONSTANT Deviations <- HandlerDev
INVARIANT DebugThreadAlive
