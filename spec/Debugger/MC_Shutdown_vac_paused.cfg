SPECIFICATION Spec
CONSTANT Deviations <- NoDev
INVARIANT NeverPaused
