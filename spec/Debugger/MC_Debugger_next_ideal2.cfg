SPECIFICATION Spec
CONSTANTS LibLines <- NoLib  Lines <- Id6  Prog <- ProgAdjacent  BpSets <- BpsAdjacent  MaxReq = 2  Deviations <- NoDev  Fuel = 60
INVARIANT TypeOK
INVARIANT StoppedIsHalted
INVARIANT StepExact
INVARIANT NoSkippedBreakpoint
