SPECIFICATION Spec
CONSTANTS LibLines <- NoLib  Lines <- Id12  Prog <- ProgPushCall  BpSets <- BpsPushCall  MaxReq = 2  Deviations <- NoDev  Fuel = 40
INVARIANT TypeOK
INVARIANT StepExact
INVARIANT StoppedIsHalted
