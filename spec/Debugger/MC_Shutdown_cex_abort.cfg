SPECIFICATION Spec
CONSTANT Deviations <- AbortDev
INVARIANT CleanExit
