-------------------------------- MODULE ShutdownOps --------------------------------
(* Server state of `mos lsp` and the steps of its main and debug-server threads as operators on one  *)
(* record; shared by Shutdown.tla (closed system, model checking) and ShutdownTrace.tla (judge).      *)
(* See Shutdown.tla for the description.                                                              *)
EXTENDS Integers, Sequences, TLC


S0 == [m |-> "init", d |-> "top", refs |-> 3, flag |-> FALSE, handler |-> FALSE, sig |-> FALSE, inv |-> FALSE, poison |-> FALSE, bound |-> FALSE,
       exit |-> -1, mach |-> "none"]

(* ------------------------------ main thread ------------------------------ *)
MInit(s)     == [s EXCEPT !.m = "serve"]                               \* LSP initialize handshake done
(* (a debug thread that panicked while it held the context lock has poisoned it: the main thread panics at its next lock().unwrap()) *)
MShutdown(s) == IF s.poison THEN [s EXCEPT !.m = "panicked", !.exit = 101]
                ELSE [s EXCEPT !.m = "wait_exit", !.sig = s.handler, !.handler = FALSE, !.inv = TRUE]   \* handlers invoked (and taken), reply sent
(* invoke_shutdown_handlers sends on a channel of capacity 1 per handler (mos/src/lsp/mod.rs add_shutdown_handler): the send  *)
(* never waits for the session thread. With capacity 0 (hypothetical deviation "RendezvousSignal") it is a rendezvous: the   *)
(* main thread can only complete `shutdown` while the session thread sits in its select loop.                                *)
MShutdownEn(s, dev) == s.m = "serve" /\ ("RendezvousSignal" \in dev => (~s.handler \/ s.d = "session"))
MExit(s)     == [s EXCEPT !.m = "drain"]                               \* exit notification seen by handle_shutdown
MLeft(s)     == [s EXCEPT !.m = "left"]                                \* receiver closed: main loop left
MErr(s)      == [s EXCEPT !.m = "done", !.exit = 1]                    \* stdin closed while waiting for exit: protocol error is returned
MUnwrap(s, dev) == IF s.poison \/ (s.refs > 1 /\ "UnwrapSharedContext" \in dev)
                   THEN [s EXCEPT !.m = "panicked", !.exit = 101]      \* main thread panics: the process ends with status 101
                   ELSE [s EXCEPT !.m = "io"]                          \* IO threads joined
(* DebugServer::join. As written: set the flag, wait for the thread. Repaired ("SessionIgnoresFlag" off): the handlers are  *)
(* invoked here as well (the LSP may have ended without `shutdown`), and a handler registered after an invocation is told  *)
(* at once (DReg). Repaired ("UnboundedJoin" off): the wait is bounded, a thread that does not end is left behind.    *)
MSetFlag(s, dev) == IF "SessionIgnoresFlag" \in dev THEN [s EXCEPT !.m = "join_dbg", !.flag = TRUE]
                    ELSE [s EXCEPT !.m = "join_dbg", !.flag = TRUE, !.sig = s.sig \/ s.handler, !.handler = FALSE, !.inv = TRUE]
(* The bounded wait is a time-out in the code (2 s). Without clocks: every step of the debug thread that is not blocked is taken in  *)
(* time (woken accept, signalled session), so the only thread the bound ever leaves behind is one that is BUSY inside a request that *)
(* does not return. "JoinGivesUpEarly" (hypothetical) lets join return while the thread could still end.                             *)
MJoinEn(s, dev) == s.m = "join_dbg" /\ (s.d \in {"ended", "dead"} \/ ("UnboundedJoin" \notin dev /\ (s.d = "busy" \/ "JoinGivesUpEarly" \in dev)))
MJoin(s, dev) == IF s.d = "dead" /\ "DeadThreadFailsJoin" \in dev THEN [s EXCEPT !.m = "panicked", !.exit = 101]     \* join().expect(..) on a panicked thread
                ELSE [s EXCEPT !.m = "done", !.exit = 0]

(* ------------------------------ debug server thread ------------------------------ *)
DTopEn(s)   == s.d = "top"
DTop(s)     == IF s.flag THEN [s EXCEPT !.d = "ended"] ELSE [s EXCEPT !.d = "new", !.refs = @ + 1]   \* DebugSession::new clones the Arc
DBind(s)    == [s EXCEPT !.d = "accept", !.bound = TRUE]               \* TcpListener::bind, then blocked in accept()
DAccept(s)  == [s EXCEPT !.d = "accepted", !.bound = FALSE]            \* a client connected; the listener is dropped
DRegEn(s)   == s.d = "accepted" /\ s.m # "wait_exit"                   \* needs the context lock, which handle_message holds while waiting for exit
DReg(s, dev) == IF s.inv /\ "SessionIgnoresFlag" \notin dev THEN [s EXCEPT !.d = "session", !.handler = TRUE, !.sig = TRUE]
                ELSE [s EXCEPT !.d = "session", !.handler = TRUE]
DEndSess(s) == [s EXCEPT !.d = "ending", !.handler = FALSE, !.sig = FALSE]
(* the session's select loop is told to shut down. As written (mos/src/debugger/mod.rs:834-837) the branch leaves the *)
(* loop without completing the selected receive: crossbeam panics ("dropped SelectedOperation without completing     *)
(* the operation"), the debug thread dies and its two Arc clones (closure, session) are dropped while unwinding.      *)
DSig(s, dev) == IF "SignalPanicsDebugThread" \in dev
                THEN [s EXCEPT !.d = "dead", !.refs = @ - 2, !.handler = FALSE, !.sig = FALSE]
                ELSE DEndSess(s)
DDrop(s)    == [s EXCEPT !.d = "top", !.refs = @ - 1]
(* fifth session state: the session thread is busy inside a request that does not return (DAP `next` over a call to a        *)
(* subroutine that never returns: TestRunner::step_over loops on the session thread, holding the adapter and runner locks).  *)
(* It is not in its select loop: it neither sees the shutdown signal nor notices its client going away.                      *)
DBusy(s)     == [s EXCEPT !.d = "busy", !.mach = "stepping"]
(* a panic on the debug thread outside the shutdown path (a request handler that panics, the port already in use): the thread is  *)
(* gone for the rest of the process, its two Arc clones are dropped; if it held the context lock at that moment the lock is poisoned *)
DKill(s, poison) == [s EXCEPT !.d = "dead", !.refs = @ - 2, !.handler = FALSE, !.sig = FALSE, !.poison = poison]

================================================================================
