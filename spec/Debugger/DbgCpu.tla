-------------------------------- MODULE DbgCpu --------------------------------
(* The emulated test machine as far as the debugger properties (C19) need it:               *)
(* a program is a sequence of instructions, one per source line; the CPU state is            *)
(* [i, a, x, y, z, stk, cyc] with i = index of the instruction the program counter points    *)
(* at. The machine is deterministic, so "where the machine really is" is an index into the   *)
(* uninterrupted run RunOf(prog); CYC (protocol-visible through the Registers scope) grows   *)
(* strictly along the run and identifies that index.                                         *)
(*                                                                                            *)
(* Instruction = [op, arg]: arg is the immediate for lda/ldx/ldy, the target instruction      *)
(* index for jsr/jmp/bne, 0 otherwise.                                                        *)
EXTENDS Integers, Sequences, FiniteSets

Ops == {"lda", "ldx", "ldy", "inx", "iny", "dex", "dey", "nop", "pha", "pla", "jsr", "rts", "bne", "jmp", "brk"}

Size(ins) == CASE ins.op \in {"lda", "ldx", "ldy", "bne"} -> 2
               [] ins.op \in {"jsr", "jmp"} -> 3
               [] OTHER -> 1

(* address of instruction k when the first one sits at base (the source map's ranges) *)
RECURSIVE AddrOf(_, _, _)
AddrOf(prog, base, k) == IF k = 1 THEN base ELSE AddrOf(prog, base, k - 1) + Size(prog[k - 1])

(* source lines: `lines[k]` is the source line instruction k was assembled from. A line that is assembled several  *)
(* times (.loop body, macro invoked twice, file imported twice) owns several instructions: a breakpoint on the line  *)
(* is a breakpoint on ALL of them (mos/src/debugger/mod.rs:436-511, source_map line_col_to_offsets).                 *)
PcsOfLines(lines, L) == {k \in 1..Len(lines) : lines[k] \in L}
FirstPcOfLines(lines, L) == {k \in 1..Len(lines) : lines[k] \in L /\ \A m \in 1..(k - 1) : lines[m] # lines[k]}

B8(v) == v % 256
Cpu0 == [i |-> 1, a |-> 0, x |-> 0, y |-> 0, z |-> FALSE, stk |-> <<>>, cyc |-> 0]

Ret(k)  == [k |-> "ret", v |-> k]       \* return address of the jsr at instruction k (two bytes on the real stack)
Data(v) == [k |-> "data", v |-> v]
Top(c)  == c.stk[Len(c.stk)]
Pop(c)  == SubSeq(c.stk, 1, Len(c.stk) - 1)

(* "fail" = an instruction with a failing `.assert` in front of it: the runner evaluates the assertion before the instruction *)
(* and ends the test there (FAILED), exactly as `brk` ends it (ok)                                                          *)
AtBrk(prog, c) == prog[c.i].op \in {"brk", "fail"}
(* rts/pla on a stack whose top is not what they expect: outside the programs we generate; the machine sticks *)
Stuck(prog, c) == \/ prog[c.i].op = "rts" /\ (c.stk = <<>> \/ Top(c).k # "ret")
                  \/ prog[c.i].op = "pla" /\ (c.stk = <<>> \/ Top(c).k # "data")

(* one instruction; `brk` ends the test: the runner does not execute it, the machine stays there *)
Step(prog, c) ==
  LET ins == prog[c.i]
      nx  == c.i + 1 IN
  IF AtBrk(prog, c) \/ Stuck(prog, c) THEN c ELSE
  CASE ins.op = "lda" -> [c EXCEPT !.i = nx, !.a = ins.arg, !.z = (ins.arg = 0), !.cyc = @ + 2]
    [] ins.op = "ldx" -> [c EXCEPT !.i = nx, !.x = ins.arg, !.z = (ins.arg = 0), !.cyc = @ + 2]
    [] ins.op = "ldy" -> [c EXCEPT !.i = nx, !.y = ins.arg, !.z = (ins.arg = 0), !.cyc = @ + 2]
    [] ins.op = "inx" -> [c EXCEPT !.i = nx, !.x = B8(c.x + 1), !.z = (B8(c.x + 1) = 0), !.cyc = @ + 2]
    [] ins.op = "iny" -> [c EXCEPT !.i = nx, !.y = B8(c.y + 1), !.z = (B8(c.y + 1) = 0), !.cyc = @ + 2]
    [] ins.op = "dex" -> [c EXCEPT !.i = nx, !.x = B8(c.x + 255), !.z = (B8(c.x + 255) = 0), !.cyc = @ + 2]
    [] ins.op = "dey" -> [c EXCEPT !.i = nx, !.y = B8(c.y + 255), !.z = (B8(c.y + 255) = 0), !.cyc = @ + 2]
    [] ins.op = "nop" -> [c EXCEPT !.i = nx, !.cyc = @ + 2]
    [] ins.op = "pha" -> [c EXCEPT !.i = nx, !.stk = Append(@, Data(c.a)), !.cyc = @ + 3]
    [] ins.op = "pla" -> [c EXCEPT !.i = nx, !.a = Top(c).v, !.z = (Top(c).v = 0), !.stk = Pop(c), !.cyc = @ + 4]
    [] ins.op = "jsr" -> [c EXCEPT !.i = ins.arg, !.stk = Append(@, Ret(c.i)), !.cyc = @ + 6]
    [] ins.op = "rts" -> [c EXCEPT !.i = Top(c).v + 1, !.stk = Pop(c), !.cyc = @ + 6]
    [] ins.op = "jmp" -> [c EXCEPT !.i = ins.arg, !.cyc = @ + 3]
    [] ins.op = "bne" -> IF c.z THEN [c EXCEPT !.i = nx, !.cyc = @ + 2]
                                ELSE [c EXCEPT !.i = ins.arg, !.cyc = @ + 3]     \* no page crossing in these tiny programs

(* the uninterrupted run: R[1] = initial state, R[j+1] = Step(R[j]); ends at the brk (or when the fuel is spent) *)
RECURSIVE RunFrom(_, _, _)
RunFrom(prog, c, fuel) ==
  IF fuel = 0 \/ AtBrk(prog, c) \/ Stuck(prog, c) THEN <<c>>
  ELSE <<c>> \o RunFrom(prog, Step(prog, c), fuel - 1)
RunOf(prog, fuel) == RunFrom(prog, Cpu0, fuel)

Min2(a, b) == IF a < b THEN a ELSE b
Depth(c) == Cardinality({k \in 1..Len(c.stk) : c.stk[k].k = "ret"})
Succ(R, j) == Min2(j + 1, Len(R))        \* the last index (brk) absorbs
First(R, j, P(_)) == IF \E k \in (j + 1)..Len(R) : P(k) THEN CHOOSE k \in (j + 1)..Len(R) : P(k) /\ \A m \in (j + 1)..(k - 1) : ~P(m)
                     ELSE Len(R)

(* ---- what a step must do (the property's reading) ---- *)
StepInT(R, j) == Succ(R, j)
(* `next`: a subroutine call counts as one step: first time control is back behind the call at the caller's depth *)
NextT(prog, R, j) ==
  IF prog[R[j].i].op = "jsr"
  THEN LET P(k) == R[k].i = R[j].i + 1 /\ Depth(R[k]) = Depth(R[j]) IN First(R, j, P)
  ELSE Succ(R, j)
(* `stepOut`: run to the instruction after the call of the current subroutine. Outside any subroutine the    *)
(* statement says nothing: UnspecOut marks that.                                                              *)
UnspecOut(R, j) == Depth(R[j]) = 0
StepOutT(R, j) == LET P(k) == Depth(R[k]) = Depth(R[j]) - 1 IN First(R, j, P)

(* ---- what the runner does (mos/src/test_runner/mod.rs:341-390), on run indices ---- *)
(* step_over: opcode jsr => execute until pc = pc0 + 3 (checked after every instruction), else one instruction *)
NextImpl(prog, R, j) ==
  IF prog[R[j].i].op = "jsr"
  THEN LET P(k) == R[k].i = R[j].i + 1 IN First(R, j, P)
  ELSE Succ(R, j)
(* step_out: the return address is read from the two bytes above the stack pointer, whatever they are.         *)
(* With data pushed inside the subroutine (or no call at all) the address is garbage and the loop runs until   *)
(* the test ends.                                                                                              *)
TopIsRet(c) == c.stk # <<>> /\ Top(c).k = "ret"
(* a third way to find "the" rts (hypothetical, seeded change C19-5): remember the stack pointer at the request and stop behind the *)
(* first rts that leaves it higher. Wrong when the subroutine has data of its own on the stack at that moment: a nested call made   *)
(* after the data was pulled returns above that mark as well.                                                                      *)
StackBytes(c) == Cardinality({k \in 1..Len(c.stk) : c.stk[k].k = "ret"}) * 2 + Cardinality({k \in 1..Len(c.stk) : c.stk[k].k = "data"})
StepOutBySp(prog, R, j) == LET P(k) == prog[R[k - 1].i].op = "rts" /\ StackBytes(R[k]) < StackBytes(R[j]) IN First(R, j, P)
StepOutImpl(R, j) ==
  IF TopIsRet(R[j])
  THEN LET t == Top(R[j]).v + 1
           P(k) == R[k].i = t IN
       IF R[j].i = t THEN j ELSE First(R, j, P)
  ELSE Len(R)
================================================================================
