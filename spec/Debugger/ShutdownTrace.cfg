SPECIFICATION TSpec
POSTCONDITION Consumed
