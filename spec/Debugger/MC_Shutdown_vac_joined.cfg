SPECIFICATION Spec
CONSTANT Deviations <- NoDev
INVARIANT NeverJoined
