SPECIFICATION Spec
CONSTANTS Prog <- ProgLoopSub  BpSets <- Bps3  MaxReq = 4  Deviations <- ImplDev  Fuel = 40
INVARIANT TypeOK
INVARIANT StoppedIsHalted_impl
INVARIANT InspectConsistent_impl
INVARIANT NoSkippedBreakpoint
INVARIANT StepExact_impl
INVARIANT AtMostOneInFlight
