SPECIFICATION Spec
CONSTANTS Lines <- Id7  Prog <- ProgLoopSub  BpSets <- Bps3  MaxReq = 4  Deviations <- ImplDev  Fuel = 40
INVARIANT TypeOK
INVARIANT StoppedIsHalted_impl
INVARIANT InspectConsistent_impl
INVARIANT NoSkippedBreakpoint
INVARIANT NoSkipAfterProbe
INVARIANT StepExact_impl
INVARIANT AtMostOneInFlight
