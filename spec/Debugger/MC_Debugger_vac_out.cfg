SPECIFICATION Spec
CONSTANTS LibLines <- NoLib  Lines <- Id7  Prog <- ProgLoopSub  BpSets <- Bps2  MaxReq = 3  Deviations <- StepRaceOnly  Fuel = 40
INVARIANT NeverStepOutInSub
