SPECIFICATION Spec
CONSTANT Deviations <- EarlyDev
INVARIANT ThreadEndsUnlessBusy
