------------------------------ MODULE MC_Debugger ------------------------------
(* Model-checking instance of Debugger.tla: one loop (two iterations), one subroutine, 12-step run. *)
EXTENDS Debugger
I(op, arg) == [op |-> op, arg |-> arg]
(* 1 ldx #2 / 2 loop: jsr sub / 3 dex / 4 bne loop / 5 brk / 6 sub: iny / 7 rts *)
ProgLoopSub == <<I("ldx", 2), I("jsr", 6), I("dex", 0), I("bne", 2), I("brk", 0), I("iny", 0), I("rts", 0)>>
(* the subroutine pushes a byte: stepOut between pha and pla reads data as return address *)
(* 1 jsr 4 / 2 nop / 3 brk / 4 sub: pha / 5 nop / 6 pla / 7 rts *)
ProgPush == <<I("jsr", 4), I("nop", 0), I("brk", 0), I("pha", 0), I("nop", 0), I("pla", 0), I("rts", 0)>>
(* 1 nop / 2 w: jmp w  -- a one-instruction loop: the pc never differs from the last checked pc *)
ProgSelf == <<I("nop", 0), I("jmp", 2), I("brk", 0)>>
(* 1 ldx #0 / 2 .loop 2 { inx } (line 2 twice) / 3 iny / 4 brk : one source line, two instructions *)
ProgDup == <<I("ldx", 0), I("inx", 0), I("inx", 0), I("iny", 0), I("brk", 0)>>
LinesDup == <<1, 2, 2, 3, 4>>
BpsDup == {{}, {2}}
Id7 == <<1, 2, 3, 4, 5, 6, 7>>
Id3 == <<1, 2, 3>>
DupDev == {"FirstPcOnly"}
StaleDev == {"StaleBpCopy"}
Bps3 == {{}, {3}, {6}}
Bps2 == {{}, {6}}
BpsPush == {{5}}
BpsSelf == {{}, {2}}
NoDev == {}
ImplDev == {"PauseRace", "StepOutReadsTopOfStack"}
RaceDev == {"PauseRace"}
StepOutDev == {"StepOutReadsTopOfStack"}
NextDev == {"NextIgnoresCallDepth"}
(* 1 lda #5 / 2 jsr s / 3 nop / 4 brk / 5 s: pha / 6 iny / 7 pla / 8 jsr inner / 9 iny / 10 rts / 11 inner: inx / 12 rts *)
ProgPushCall == <<I("lda", 5), I("jsr", 5), I("nop", 0), I("brk", 0), I("pha", 0), I("iny", 0), I("pla", 0), I("jsr", 11), I("iny", 0), I("rts", 0), I("inx", 0), I("rts", 0)>>
Id12 == <<1, 2, 3, 4, 5, 6, 7, 8, 9, 10, 11, 12>>
BpsPushCall == {{6}}
SpDev == {"StepOutComparesStackDepth"}
StepRunDev == {"ClientStepsWhileRunning", "StepRacesMachineThread"}
StepRaceOnly == {"StepRacesMachineThread"}
StepRunOnly == {"ClientStepsWhileRunning"}
SwallowDev == {"StepSwallowsTestEnd"}
FilesDev == {"SetBreakpointsForgetsOtherFiles"}
(* 1 nop / 2 brk ; 1 nop / 2 <failing assertion> nop / 3 brk *)
ProgTiny == <<I("nop", 0), I("brk", 0)>>
ProgFail == <<I("nop", 0), I("fail", 0), I("brk", 0)>>
Id2 == <<1, 2>>
BpsTiny == {{1}}
NoLib == {}
LibSub == {6, 7}          \* ProgLoopSub with its subroutine in a second file
BpsFiles == {{3}, {6}}
(* recursion: the address behind `go: jsr f` is reached inside the nested call first                              *)
(* 1 ldx #2 / 2 jsr f / 3 nop / 4 brk / 5 f: dex / 6 bne go / 7 jmp out / 8 go: jsr f / 9 out: rts              *)
ProgRecur == <<I("ldx", 2), I("jsr", 5), I("nop", 0), I("brk", 0), I("dex", 0), I("bne", 8), I("jmp", 9), I("jsr", 5), I("rts", 0)>>
(* the subroutine directly follows the call: 1 ldx #2 / 2 jsr f / 3 f: dex / 4 bne ret / 5 brk / 6 ret: rts         *)
ProgAdjacent == <<I("ldx", 2), I("jsr", 3), I("dex", 0), I("bne", 6), I("brk", 0), I("rts", 0)>>
Id9 == <<1, 2, 3, 4, 5, 6, 7, 8, 9>>
Id6 == <<1, 2, 3, 4, 5, 6>>
BpsRecur == {{8}}
BpsAdjacent == {{2}}
================================================================================
