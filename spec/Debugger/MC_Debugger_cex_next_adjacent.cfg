SPECIFICATION Spec
CONSTANTS LibLines <- NoLib  Lines <- Id6  Prog <- ProgAdjacent  BpSets <- BpsAdjacent  MaxReq = 2  Deviations <- NextDev  Fuel = 60
INVARIANT StepExact
