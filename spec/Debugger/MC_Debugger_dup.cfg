SPECIFICATION Spec
CONSTANTS LibLines <- NoLib  Lines <- LinesDup  Prog <- ProgDup  BpSets <- BpsDup  MaxReq = 3  Deviations <- NoDev  Fuel = 20
INVARIANT TypeOK
INVARIANT StoppedIsHalted
INVARIANT NoSkippedBreakpoint
INVARIANT NoSkipAfterProbe
INVARIANT StepExact
