SPECIFICATION Spec
CONSTANTS LibLines <- NoLib  Lines <- Id7  Prog <- ProgLoopSub  BpSets <- Bps2  MaxReq = 3  Deviations <- StaleDev  Fuel = 40
INVARIANT NoSkipAfterProbe
