SPECIFICATION Spec
CONSTANTS LibLines <- NoLib  Lines <- Id9  Prog <- ProgRecur  BpSets <- BpsRecur  MaxReq = 2  Deviations <- NextDev  Fuel = 60
INVARIANT StepExact
