SPECIFICATION Spec
CONSTANT Deviations <- AllDev
INVARIANT CleanExit
