SPECIFICATION Spec
CONSTANT Deviations <- PoisonDev
INVARIANT CleanExit
