SPECIFICATION Spec
POSTCONDITION Consumed
