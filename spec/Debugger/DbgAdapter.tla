-------------------------------- MODULE DbgAdapter --------------------------------
(* Adapter-level state and actions of the test-runner debug adapter as operators on ONE record, *)
(* shared by the closed system (Debugger.tla, model checking) and by the trace judge            *)
(* (DebuggerTrace.tla, replay of the hook's lock-ordered event log). See Debugger.tla.          *)
EXTENDS DbgCpu, TLC


St(k, pc) == [k |-> k, pc |-> pc]
Pc(R, j) == R[j].i
AtEnd(R, j) == j = Len(R)
StateEv(old, new) == [k |-> "state", old |-> old, new |-> new]
DiscEv == [k |-> "disc", old |-> "", new |-> ""]

AInit(bps0) == [st |-> St("Launching", 0), ix |-> 1, bps |-> bps0, cbps |-> bps0, last |-> 0, m |-> "read", conn |-> TRUE,
                sp |-> "idle", tmp |-> 0, rix |-> 0, kind |-> "", chan |-> <<>>]

(* ------------------------------ machine thread ------------------------------ *)
MReadEn(s) == s.m = "read" /\ s.conn
MRead(s)   == [s EXCEPT !.m = IF s.st.k = "Running" THEN "check" ELSE "read"]

MCheckEn(s) == s.m = "check"
(* B = the breakpoint list the check looks at: the shared list s.bps (locked for every instruction) in the code as   *)
(* written; the hypothetical deviation "StaleBpCopy" of Debugger.tla passes a thread-local copy instead.            *)
MCheckHitWith(R, s, B) == s.last # Pc(R, s.ix) /\ Pc(R, s.ix) \in B
MCheckHit(R, s) == MCheckHitWith(R, s, s.bps)
MCheckWith(R, s, B) ==
  LET pc == Pc(R, s.ix) IN
  IF s.last = pc THEN [s EXCEPT !.m = "exec"]
  ELSE IF pc \in B
       THEN [s EXCEPT !.last = pc, !.st = St("Stopped", pc), !.chan = Append(@, StateEv(s.st.k, "Stopped")), !.m = "read"]
       ELSE [s EXCEPT !.last = pc, !.m = "exec"]

MCheck(R, s) == MCheckWith(R, s, s.bps)

MExecEn(s) == s.m = "exec"
MExecRuns(s, dev) == "PauseRace" \in dev \/ s.st.k = "Running"
MExec(R, s, dev) ==
  IF ~MExecRuns(s, dev) THEN [s EXCEPT !.m = "read"]
  ELSE IF AtEnd(R, s.ix) THEN [s EXCEPT !.conn = FALSE, !.m = "done", !.chan = Append(@, DiscEv)]
  ELSE [s EXCEPT !.ix = @ + 1, !.m = "read"]

(* ------------------------------ session thread, adapter level ------------------------------ *)
Start(s)  == [s EXCEPT !.st = St("Running", 0)]                         \* configurationDone: no event
Resume(s) == [s EXCEPT !.st = St("Running", 0), !.chan = Append(@, StateEv(s.st.k, "Running"))]
PRead(R, s) == [s EXCEPT !.tmp = Pc(R, s.ix), !.rix = s.ix, !.sp = "pset"]
PSet(s)   == [s EXCEPT !.st = St("Stopped", s.tmp), !.chan = Append(@, StateEv(s.st.k, "Stopped")), !.sp = "idle", !.kind = ""]
(* stepOut: "StepOutReadsTopOfStack" in dev = the return address is taken from the top of the stack (DbgCpu!StepOutImpl); *)
(* without it = nested calls are counted until the rts of the current subroutine has run (outside any subroutine: to the  *)
(* end of the test, which the property leaves open).                                                                      *)
StepOutRun(prog, R, j, dev) == IF "StepOutReadsTopOfStack" \in dev THEN StepOutImpl(R, j)
                         ELSE IF "StepOutComparesStackDepth" \in dev /\ Depth(R[j]) > 0 THEN StepOutBySp(prog, R, j)     \* hypothetical (seed C19-5)
                         ELSE IF Depth(R[j]) = 0 THEN Len(R) ELSE StepOutT(R, j)
StepImpl(prog, R, kind, j, dev) == CASE kind = "stepIn" -> Succ(R, j)
                                [] kind = "next" -> IF "NextIgnoresCallDepth" \in dev THEN NextImpl(prog, R, j)   \* waits for pc0 + 3 only
                                                    ELSE NextT(prog, R, j)                                   \* step in, then out: call depth counts
                                [] kind = "stepOut" -> StepOutRun(prog, R, j, dev)
SExec(prog, R, s, kind, dev) == [s EXCEPT !.ix = StepImpl(prog, R, kind, s.ix, dev), !.sp = "pread", !.kind = kind]
SetBps(s, B) == [s EXCEPT !.bps = B]
(* a step taken where the uninterrupted run ends (brk, failing assertion) ends the test: Message + Disconnected, no pause.  *)
(* With "StepSwallowsTestEnd" the result of the step is dropped: the machine stays (and a swallowed assertion is gone).     *)
SEnds(R, s, dev) == AtEnd(R, s.ix) /\ "StepSwallowsTestEnd" \notin dev
SEnd(s) == [s EXCEPT !.conn = FALSE, !.chan = Append(@, DiscEv)]

================================================================================
