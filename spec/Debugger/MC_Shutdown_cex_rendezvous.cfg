SPECIFICATION Spec
CONSTANT Deviations <- RendezvousDev
PROPERTY Terminates
