SPECIFICATION Spec
CONSTANTS LibLines <- NoLib  Lines <- Id9  Prog <- ProgRecur  BpSets <- BpsRecur  MaxReq = 2  Deviations <- NoDev  Fuel = 60
INVARIANT TypeOK
INVARIANT StoppedIsHalted
INVARIANT StepExact
INVARIANT NoSkippedBreakpoint
