SPECIFICATION Spec
CONSTANT Deviations <- NoUnwrapDev
PROPERTY Terminates
