SPECIFICATION Spec
CONSTANT Deviations <- DeadJoinDev
INVARIANT CleanExit
