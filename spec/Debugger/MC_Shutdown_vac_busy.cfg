SPECIFICATION Spec
CONSTANT Deviations <- NoDev
INVARIANT NeverBusyAtShutdown
