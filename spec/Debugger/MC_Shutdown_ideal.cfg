SPECIFICATION Spec
CONSTANT Deviations <- NoDev
INVARIANT TypeOK
INVARIANT CleanExit
INVARIANT DebugThreadAlive
PROPERTY Terminates
