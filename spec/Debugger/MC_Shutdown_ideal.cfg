SPECIFICATION Spec
CONSTANT Deviations <- NoDev
INVARIANT TypeOK
INVARIANT CleanExit
INVARIANT DebugThreadAlive
INVARIANT ThreadEndsUnlessBusy
PROPERTY Terminates
