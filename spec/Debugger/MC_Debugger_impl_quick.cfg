SPECIFICATION Spec
CONSTANTS Lines <- Id7  Prog <- ProgLoopSub  BpSets <- Bps2  MaxReq = 3  Deviations <- ImplDev  Fuel = 40
INVARIANT TypeOK
INVARIANT StoppedIsHalted_impl
INVARIANT InspectConsistent_impl
INVARIANT NoSkippedBreakpoint
INVARIANT NoSkipAfterProbe
INVARIANT StepExact_impl
INVARIANT AtMostOneInFlight
