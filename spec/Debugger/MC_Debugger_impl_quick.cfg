SPECIFICATION Spec
CONSTANTS Prog <- ProgLoopSub  BpSets <- Bps2  MaxReq = 3  Deviations <- ImplDev  Fuel = 40
INVARIANT TypeOK
INVARIANT StoppedIsHalted_impl
INVARIANT InspectConsistent_impl
INVARIANT NoSkippedBreakpoint
INVARIANT StepExact_impl
INVARIANT AtMostOneInFlight
