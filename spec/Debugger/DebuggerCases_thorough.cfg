SPECIFICATION Spec
CONSTANT MaxLen = 4
