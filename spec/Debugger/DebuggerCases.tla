------------------------------ MODULE DebuggerCases ------------------------------
(* spec -> impl for C19: every client script the closed system of Debugger.tla allows (the client's   *)
(* Allowed sets, by what it believes) up to MaxLen requests, for every initial breakpoint choice.       *)
(* "wait" = let the machine run into a breakpoint or to the end. A/B are two breakpoint sets the        *)
(* harness instantiates per program (a line inside the loop, a line inside the subroutine).             *)
EXTENDS Integers, Sequences, SequencesExt, TLC, Json, IOUtils
CONSTANT MaxLen
WhenRunning == {"pause", "wait", "setBpsA", "setBpsB", "setBpsNone", "probe"}   \* probe = read the Registers scope of the running machine
WhenStopped == {"continue", "stepIn", "next", "stepOut", "setBpsA", "setBpsB", "inspect"}
After(view, a) == CASE a \in {"pause", "wait"} -> "stopped"
                    [] a = "continue" -> "running"
                    [] OTHER -> view
RECURSIVE Scripts(_, _)
Scripts(view, n) ==
  IF n = 0 THEN {<<>>}
  ELSE {<<>>} \cup UNION {{<<a>> \o q : q \in Scripts(After(view, a), n - 1)} : a \in (IF view = "running" THEN WhenRunning ELSE WhenStopped)}
(* scripts that end in a state-changing request only (a trailing setBps/inspect observes nothing new) *)
Useful(q) == /\ q # <<>> /\ q[Len(q)] \notin {"setBpsA", "setBpsB", "setBpsNone", "inspect", "probe"}
             /\ \A n \in 1..Len(q) : q[n] = "probe" => (n > 1 /\ q[n - 1] \in {"setBpsA", "setBpsB"})   \* a probe anchors a breakpoint just installed
(* run-through scripts for programs in which the breakpoint line is assembled several times: stop at every copy   *)
(* (wait, then n times continue + wait): longer than MaxLen but a single path, instantiated on every such program  *)
RECURSIVE RunThrough(_)
RunThrough(n) == IF n = 0 THEN <<"wait">> ELSE RunThrough(n - 1) \o <<"continue", "wait">>
All == {[bps0 |-> b, script |-> q, family |-> "general"] : b \in {"None", "A", "B"}, q \in {q \in Scripts("running", MaxLen) : Useful(q)}}
       \cup {[bps0 |-> b, script |-> RunThrough(n), family |-> "runthrough"] : b \in {"A", "B"}, n \in 1..3}
       (* `next` on a call whose return address is reached inside the call first (recursion; subroutine right behind the call), *)
       (* and memory reads at the end of the address space while stopped: always driven on the programs built for them          *)
       \cup {[bps0 |-> "B", script |-> q, family |-> "nextover"] : q \in {<<"wait", "next">>, <<"wait", "next", "next">>, <<"wait", "next", "stepOut">>}}
       \cup {[bps0 |-> "A", script |-> <<"wait", "evalmem", "inspect">>, family |-> "evalmem"]}
       (* round 5: a step where the uninterrupted run ends; breakpoints in two source files; a client that relies on the protocol's   *)
       (* default line base; requests outside the happy path followed by a plain one                                                   *)
       \cup {[bps0 |-> "A", script |-> q, family |-> "stepend"] : q \in {<<"wait", "stepIn", "stepIn">>, <<"wait", "next", "next">>, <<"wait", "stepIn", "stepOut">>}}
       \cup {[bps0 |-> "A", script |-> <<"setBpsB", "wait", "continue", "wait", "continue", "wait">>, family |-> "twofile"]}
       \cup {[bps0 |-> "A", script |-> <<"wait", "stepIn">>, family |-> "linesdefault"]}
       (* round 6: stepOut between a push and a pull inside a subroutine that calls another one afterwards; steps sent while running *)
       \cup {[bps0 |-> "B", script |-> q, family |-> "stepoutpush"] : q \in {<<"wait", "stepOut">>, <<"wait", "stepOut", "stepIn">>, <<"wait", "stepIn", "stepOut">>}}
       \cup {[bps0 |-> b, script |-> <<"runstep", "continue", "wait">>, family |-> "steprun"] : b \in {"A", "B"}}
       (* round 7: breakpoints that carry a column (inside the instruction's span): the line's instruction must stop the machine all the same *)
       \cup {[bps0 |-> "A", script |-> RunThrough(2), family |-> "column"]}
       \cup {[bps0 |-> "A", script |-> <<"wait", "malformed:" \o k, "inspect">>, family |-> "malformed"] :
               k \in {"unknown_command", "variables_reference", "setbps_no_path", "setbps_line0", "completions_end", "event_message"}}
VARIABLE x
Init == x = 0 /\ ndJsonSerialize(IOEnv.OUT, SetToSeq(All)) /\ PrintT(<<"CASES", Cardinality(All)>>)
Next == UNCHANGED x
Spec == Init /\ [][Next]_x
================================================================================
