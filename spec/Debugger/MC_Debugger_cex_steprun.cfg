SPECIFICATION Spec
CONSTANTS LibLines <- NoLib  Lines <- Id7  Prog <- ProgLoopSub  BpSets <- Bps2  MaxReq = 2  Deviations <- StepRunDev  Fuel = 40
INVARIANT NoSkippedBreakpoint
