SPECIFICATION Spec
CONSTANTS LibLines <- NoLib  Lines <- Id7  Prog <- ProgLoopSub  BpSets <- Bps2  MaxReq = 3  Deviations <- StepRunOnly  Fuel = 40
INVARIANT TypeOK
INVARIANT NoSkippedBreakpoint
INVARIANT StoppedIsHalted
