SPECIFICATION Spec
CONSTANT Deviations <- SelectDev
INVARIANT DebugThreadAlive
