SPECIFICATION Spec
CONSTANT Deviations <- HandlerDev
INVARIANT TypeOK
INVARIANT CleanExit
INVARIANT ThreadEndsUnlessBusy
PROPERTY Terminates
