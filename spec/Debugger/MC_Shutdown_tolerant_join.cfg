SPECIFICATION Spec
CONSTANT Deviations <- HandlerDev
INVARIANT TypeOK
INVARIANT CleanExit
PROPERTY Terminates
