SPECIFICATION Spec
CONSTANT MaxLen = 3
