------------------------------ MODULE MC_Shutdown ------------------------------
EXTENDS Shutdown
NoDev == {}
AllDev == {"UnwrapSharedContext", "JoinBlockedInAccept", "SessionIgnoresFlag", "SignalPanicsDebugThread", "BusyStepBlocksJoin"}
BusyDev == {"BusyStepBlocksJoin"}
RendezvousDev == AllDev \cup {"RendezvousSignal"}
SelectDev == {"SignalPanicsDebugThread"}
NoUnwrapDev == {"JoinBlockedInAccept", "SessionIgnoresFlag"}
LateDev == {"SessionIgnoresFlag"}
================================================================================
