------------------------------ MODULE MC_Shutdown ------------------------------
EXTENDS Shutdown
NoDev == {}
AllDev == {"UnwrapSharedContext", "JoinBlockedInAccept", "SessionIgnoresFlag", "SignalPanicsDebugThread", "UnboundedJoin"}
DeadJoinDev == {"HandlerPanics", "DeadThreadFailsJoin"}
HandlerDev == {"HandlerPanics"}
PoisonDev == {"HandlerPanics", "HandlerPanicPoisons"}
AbortDev == {"HugeMessageAborts"}
EarlyDev == {"JoinGivesUpEarly"}
BusyDev == {"UnboundedJoin"}
RendezvousDev == AllDev \cup {"RendezvousSignal"}
SelectDev == {"SignalPanicsDebugThread"}
NoUnwrapDev == {"JoinBlockedInAccept", "UnboundedJoin"}
LateDev == {"SessionIgnoresFlag", "UnboundedJoin"}
================================================================================
