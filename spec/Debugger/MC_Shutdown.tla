------------------------------ MODULE MC_Shutdown ------------------------------
EXTENDS Shutdown
NoDev == {}
AllDev == {"UnwrapSharedContext", "JoinBlockedInAccept", "SessionIgnoresFlag", "SignalPanicsDebugThread"}
SelectDev == {"SignalPanicsDebugThread"}
NoUnwrapDev == {"JoinBlockedInAccept", "SessionIgnoresFlag"}
LateDev == {"SessionIgnoresFlag"}
================================================================================
