------------------------------ MODULE MC_Shutdown ------------------------------
EXTENDS Shutdown
NoDev == {}
AllDev == {"UnwrapSharedContext", "JoinBlockedInAccept", "SessionIgnoresFlag", "SignalPanicsDebugThread", "UnboundedJoin"}
BusyDev == {"UnboundedJoin"}
RendezvousDev == AllDev \cup {"RendezvousSignal"}
SelectDev == {"SignalPanicsDebugThread"}
NoUnwrapDev == {"JoinBlockedInAccept", "UnboundedJoin"}
LateDev == {"SessionIgnoresFlag", "UnboundedJoin"}
================================================================================
