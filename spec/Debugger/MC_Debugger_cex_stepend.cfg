SPECIFICATION Spec
CONSTANTS LibLines <- NoLib  Lines <- Id2  Prog <- ProgTiny  BpSets <- BpsTiny  MaxReq = 3  Deviations <- SwallowDev  Fuel = 10
INVARIANT StepEndsTest
