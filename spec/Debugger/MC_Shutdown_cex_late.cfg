SPECIFICATION Spec
CONSTANT Deviations <- LateDev
PROPERTY Terminates
