-------------------------------- MODULE Shutdown --------------------------------
(* Lifecycle of `mos lsp -p <port>` (C20): the main thread (command glue mos/src/commands/lsp.rs:15-29,   *)
(* LspServer::start mos/src/lsp/mod.rs:381-427), the debug server thread (mos/src/debugger/mod.rs:48-72,  *)
(* DebugSession::start 802-855, DebugConnection::tcp connection.rs:14-28) and the two clients (LSP on      *)
(* stdio, DAP on TCP).                                                                                     *)
(*                                                                                                         *)
(* The state is ONE record and every step of the two server threads is an operator on it, so that          *)
(* ShutdownTrace.tla replays the lifecycle hook's event log through the same operators.                    *)
(*   refs   strong count of the shared context Arc: LspServer + DebugServer (held by the main thread)      *)
(*          + the debug thread's closure + one per live DebugSession object                                *)
(*   m      main thread: "init" -> "serve" -(shutdown)-> "wait_exit" -(exit)-> "drain" -> "left" ->        *)
(*          unwrap -> "io" -> "join_dbg" -> "done"   | "panicked"                                          *)
(*   d      debug thread: "top" -> "new" -> "accept" -> "accepted" -> "session" -> "ending" -> "top" ...   *)
(*          | "ended"                                                                                       *)
(* Deviations: "UnwrapSharedContext" (Arc::try_unwrap(..).ok().unwrap() while refs > 1 panics, exit 101),  *)
(*             "JoinBlockedInAccept" (nothing wakes a thread blocked in accept(); join never returns).     *)
(*             "SessionIgnoresFlag" (a session whose shutdown handler was registered after the handlers     *)
(*             were invoked is never told; it only ends when its client goes away).                         *)
(*             "SignalPanicsDebugThread" (the select branch for the LSP shutdown signal breaks out without  *)
(*             completing the selected operation: crossbeam panics, the debug thread dies).                  *)
(*             "UnboundedJoin" (DebugServer::join waits for the thread without a bound: a session thread   *)
(*             busy inside a step that never returns, or one nobody wakes, keeps the process alive; latent). *)
(*             "RendezvousSignal" is HYPOTHETICAL (capacity-0 handler channel): *)
(*             it shows that Terminates constrains the shutdown handshake in the busy state.                       *)
(*             "HandlerPanics" / "HandlerPanicPoisons" (a DAP request can kill the debug thread, possibly holding *)
(*             the context lock), "DeadThreadFailsJoin" (join().expect(..) turns that into exit 101 at shutdown).  *)
(* With a deviation removed the model is the candidate repair: no unique ownership needed to join the IO   *)
(* threads; accept is woken when the flag is set.                                                          *)
EXTENDS ShutdownOps

(* =============================== the closed system =============================== *)
CONSTANTS Deviations
VARIABLES s,       \* server state (above)
          lspc,    \* LSP client: "init", "open", "sent_shutdown", "sent_exit", "closed"
          dapc,    \* DAP client: "none", "connected", "gone"
          goal     \* what the LSP client is going to do: "shutdown_exit", "close", "shutdown_close"
vars == <<s, lspc, dapc, goal>>

Init == s = S0 /\ lspc = "init" /\ dapc = "none" /\ goal \in {"shutdown_exit", "close", "shutdown_close"}

Srv(sn) == s' = sn /\ UNCHANGED <<lspc, dapc, goal>>
(* LSP client *)
CInit     == lspc = "init" /\ s.m = "init" /\ s' = MInit(s) /\ lspc' = "open" /\ UNCHANGED <<dapc, goal>>
CShutdown == lspc = "open" /\ goal # "close" /\ MShutdownEn(s, Deviations) /\ s' = MShutdown(s) /\ lspc' = "sent_shutdown" /\ UNCHANGED <<dapc, goal>>
CExit     == lspc = "sent_shutdown" /\ goal = "shutdown_exit" /\ s.m = "wait_exit" /\ s' = MExit(s) /\ lspc' = "sent_exit" /\ UNCHANGED <<dapc, goal>>
CClose    == /\ \/ lspc = "open" /\ goal = "close" /\ s.m = "serve" /\ s' = MLeft(s)
                \/ lspc = "sent_shutdown" /\ goal = "shutdown_close" /\ s.m = "wait_exit" /\ s' = MErr(s)
             /\ lspc' = "closed" /\ UNCHANGED <<dapc, goal>>
(* DAP client: connect, launch a test, pause it, disconnect or drop the socket, in any order and at any time *)
CConnect  == dapc = "none" /\ s.d = "accept" /\ s.exit = -1 /\ lspc \in {"open"} /\ s' = DAccept(s) /\ dapc' = "connected" /\ UNCHANGED <<lspc, goal>>
CLaunch   == dapc = "connected" /\ s.d = "session" /\ s.mach = "none" /\ s' = [s EXCEPT !.mach = "running"] /\ UNCHANGED <<lspc, dapc, goal>>
CPause    == dapc = "connected" /\ s.d = "session" /\ s.mach = "running" /\ s' = [s EXCEPT !.mach = "paused"] /\ UNCHANGED <<lspc, dapc, goal>>
CGone     == dapc = "connected" /\ s.d = "session" /\ s' = [DEndSess(s) EXCEPT !.mach = "none"] /\ dapc' = "gone" /\ UNCHANGED <<lspc, goal>>
CStepBusy == dapc = "connected" /\ s.d = "session" /\ s.mach = "paused" /\ s' = DBusy(s) /\ UNCHANGED <<lspc, dapc, goal>>
(* a DAP request whose handler panics ("HandlerPanics": pause between launch and configurationDone; with "HandlerPanicPoisons"     *)
(* also while holding the context lock: launch without a mos.toml)                                                                 *)
CKill     == /\ dapc = "connected" /\ s.d = "session" /\ "HandlerPanics" \in Deviations
             /\ \E p \in (IF "HandlerPanicPoisons" \in Deviations THEN BOOLEAN ELSE {FALSE}) : s' = DKill(s, p)
             /\ UNCHANGED <<lspc, dapc, goal>>
(* a connected DAP client announces a message of absurd length: with "HugeMessageAborts" the reader thread's allocation fails and *)
(* the whole process is aborted (SIGABRT = status 1006 in the harness' encoding)                                                   *)
CAbort    == /\ dapc = "connected" /\ s.d \in {"accepted", "session", "busy"} /\ s.exit = -1 /\ "HugeMessageAborts" \in Deviations
             /\ s' = [s EXCEPT !.exit = 1006] /\ UNCHANGED <<lspc, dapc, goal>>
CGoneBusy == dapc = "connected" /\ s.d = "busy" /\ dapc' = "gone" /\ UNCHANGED <<s, lspc, goal>>       \* nobody is reading the socket

(* main thread *)
Drain   == s.m = "drain" /\ Srv(MLeft(s))             \* the reader thread stops after `exit`: the receiver closes
Unwrap  == s.m = "left" /\ Srv(MUnwrap(s, Deviations))
SetFlag == s.m = "io" /\ Srv(MSetFlag(s, Deviations))
Join    == MJoinEn(s, Deviations) /\ Srv(MJoin(s, Deviations))
(* debug thread *)
Top     == DTopEn(s) /\ s.exit = -1 /\ Srv(DTop(s))
Bind    == s.d = "new" /\ s.exit = -1 /\ Srv(DBind(s))
Reg     == DRegEn(s) /\ s.exit = -1 /\ Srv(DReg(s, Deviations))
Sig     == s.d = "session" /\ s.sig /\ s.exit = -1 /\ Srv(DSig(s, Deviations))
Drop    == s.d = "ending" /\ s.exit = -1 /\ Srv(DDrop(s))
(* repaired join: main connects to the debug port itself, so a thread blocked in accept() gets a (short-lived) session *)
Wake    == s.d = "accept" /\ s.flag /\ s.m = "join_dbg" /\ "JoinBlockedInAccept" \notin Deviations /\ s.exit = -1 /\ Srv(DAccept(s))
(* ... and that session ends as soon as the waker closes its socket, if it was not told already *)
WakeGone == s.d = "session" /\ s.flag /\ dapc # "connected" /\ s.exit = -1 /\ Srv(DEndSess(s))

MainNext == Drain \/ Unwrap \/ SetFlag \/ Join
DbgNext  == Top \/ Bind \/ Reg \/ Sig \/ Drop \/ Wake \/ WakeGone
LspNext  == CInit \/ CShutdown \/ CExit \/ CClose
DapNext  == CConnect \/ CLaunch \/ CPause \/ CGone \/ CStepBusy \/ CGoneBusy \/ CKill \/ CAbort
Next == MainNext \/ DbgNext \/ LspNext \/ DapNext
(* every step of the server threads that is not blocked is eventually taken; the LSP client carries out its goal; *)
(* the DAP client owes nothing (an attached, idle debugger must not keep the process alive)                        *)
Spec == Init /\ [][Next]_vars /\ WF_vars(MainNext) /\ WF_vars(DbgNext) /\ WF_vars(LspNext)

(* =============================== properties =============================== *)
Terminated == s.exit # -1
(* shutdown + exit: status 0. Closing the pipe: any status the process chooses, but no panic. *)
CleanExit == Terminated => \/ s.exit = 0
                           \/ (goal # "shutdown_exit" /\ s.exit # 101)
Terminates == <>Terminated
(* the same, weakened only by the recorded witness: the panic of the unwrap with a shared context *)
UnwrapWitness == s.m = "panicked" /\ s.refs > 1 /\ s.exit = 101
DeadJoinWitness == s.m = "panicked" /\ s.d = "dead" /\ s.exit = 101
AbortWitness == s.exit = 1006
CleanExit_impl == CleanExit \/ UnwrapWitness \/ DeadJoinWitness \/ AbortWitness
TypeOK == s.refs \in 1..5 /\ s.exit \in {-1, 0, 1, 101, 1006}
DebugThreadAlive == s.d # "dead"
(* "leaves no thread-blocked zombie behind": when the process ends through the regular path (shutdown + exit, or a closed pipe: main *)
(* joins the debug server and returns 0) the debug thread has ended - it is not left blocked in accept() or in a session's select.   *)
(* Only a session thread that is busy inside a step that does not return may be left behind (the deliberate give-up), and a thread  *)
(* that died earlier has nothing left to end.                                                                                      *)
ThreadEndsUnlessBusy == (s.m = "done" /\ s.exit = 0) => s.d \in {"ended", "dead", "busy"}
(* vacuity *)
NeverPaused == s.mach # "paused"
NeverBusyAtShutdown == ~(s.d = "busy" /\ s.m = "wait_exit")
NeverJoined == s.m # "done"
================================================================================
