SPECIFICATION Spec
CONSTANT Deviations <- BusyDev
PROPERTY Terminates
