SPECIFICATION Spec
CONSTANTS LibLines <- NoLib  Lines <- Id3  Prog <- ProgSelf  BpSets <- BpsSelf  MaxReq = 3  Deviations <- NoDev  Fuel = 12
INVARIANT NoSkippedBreakpoint
