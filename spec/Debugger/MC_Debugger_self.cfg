SPECIFICATION Spec
CONSTANTS Prog <- ProgSelf  BpSets <- BpsSelf  MaxReq = 3  Deviations <- NoDev  Fuel = 12
INVARIANT NoSkippedBreakpoint
