SPECIFICATION Spec
CONSTANTS LibLines <- NoLib  Lines <- Id7  Prog <- ProgPush  BpSets <- BpsPush  MaxReq = 2  Deviations <- StepOutDev  Fuel = 40
INVARIANT StepExact
