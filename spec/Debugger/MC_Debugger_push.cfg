SPECIFICATION Spec
CONSTANTS Prog <- ProgPush  BpSets <- BpsPush  MaxReq = 2  Deviations <- NoDev  Fuel = 40
INVARIANT StepExact
