SPECIFICATION Spec
CONSTANTS LibLines <- NoLib  Lines <- Id7  Prog <- ProgLoopSub  BpSets <- Bps2  MaxReq = 2  Deviations <- RaceDev  Fuel = 40
INVARIANT StoppedIsHalted
