SPECIFICATION Spec
CONSTANT Cfgs <- MCCfgs
INVARIANT NoOutputOnError
INVARIANT ChecksBeforeWrites
INVARIANT SuccessWritesAll
PROPERTY Terminates
POSTCONDITION Export
