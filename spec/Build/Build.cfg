SPECIFICATION Spec
CONSTANT Outputs = {"main.prg", "bank2.bin", "main.lst", "main.vs"}
INVARIANT NoOutputOnError
INVARIANT ChecksBeforeWrites
PROPERTY Terminates
