--------------------------------- MODULE Build ---------------------------------
(* `mos build` as the sequence of steps the command performs (mos/src/main.rs reads the    *)
(* configuration, mos/src/commands/build.rs does the rest), each of which may fail, under   *)
(* every configuration of the [build] table of mos.toml.                                    *)
(* C04 (output part): a failing build leaves every file of the target directory exactly as   *)
(* it was; a build is reported failed iff a step failed.  Beyond the property: which files a *)
(* successful build writes under which configuration (Written), validated against the real  *)
(* command by BuildTrace.tla.                                                                *)
EXTENDS Integers, Sequences, FiniteSets, TLC

(* A configuration: [entry, tdir, listing, symbols, fmt, ofn, banks, imports]                *)
(*   entry   path of the entry file, relative to the project root                            *)
(*   tdir    target-directory                                                                *)
(*   listing, symbols (= ["vice"])  booleans                                                 *)
(*   fmt     output-format: "none" (not set) | "prg" | "bin"                                 *)
(*   ofn     output-filename, "" = not set                                                   *)
(*   banks   number of banks the program defines (0 = only the default bank)                 *)
(*   imports does the entry file import inc.asm (which emits bytes)                          *)
(*   cwd     where the command is started: the project root or a subdirectory of it (the     *)
(*           root is found by walking up to the nearest mos.toml; outputs do not move)         *)
(*   style   --error-style: how diagnostics are printed (never whether, nor where they point)  *)
CONSTANTS Cfgs
Steps == <<"config", "mkdir", "parse", "codegen", "checkformat", "merge", "listing", "writebanks", "writelisting", "writesymbols", "done">>
FailPoints == {"none", "config", "parse", "codegen", "merge", "listing", "io"}      \* "listing": the listings cannot be generated (prepared before the first write)

(* strings are opaque to TLC: the stems of the entries in use are tabulated *)
Stem(entry) == CASE entry = "main.asm" -> "main" [] entry = "prog.asm" -> "prog" [] entry = "src/start.asm" -> "start" [] OTHER -> "main"
NBanks(c) == IF c.banks = 0 THEN 1 ELSE c.banks
Format(c) == IF c.fmt # "none" THEN c.fmt ELSE IF NBanks(c) = 1 THEN "prg" ELSE "bin"
BinName(c) == IF c.ofn # "" THEN c.ofn ELSE Stem(c.entry) \o "." \o Format(c)
BankFiles(c) == {BinName(c)}
ListingFiles(c) == IF c.listing THEN {Stem(c.entry) \o ".lst"} \cup (IF c.imports THEN {"inc.lst"} ELSE {}) ELSE {}
SymbolFiles(c) == IF c.symbols THEN {Stem(c.entry) \o ".vs"} ELSE {}
Written(c) == BankFiles(c) \cup ListingFiles(c) \cup SymbolFiles(c)
(* every name some configuration writes, plus a file no build knows about *)
Names == UNION {Written(c) : c \in Cfgs} \cup {"other.txt"}

VARIABLES pc, files, status, failAt, cfg
vars == <<pc, files, status, failAt, cfg>>
(* files: name -> version; version 0 = as before the build, 1 = written by this build *)
Init == /\ pc = 1 /\ status = "running"
        /\ cfg \in Cfgs
        /\ files = [f \in Names |-> 0]
        /\ failAt \in FailPoints                                   \* where (if anywhere) this run fails
Writes(step) == CASE step = "writebanks" -> BankFiles(cfg)
                  [] step = "writelisting" -> ListingFiles(cfg)
                  [] step = "writesymbols" -> SymbolFiles(cfg)
                  [] OTHER -> {}
(* `output-format = "prg"' with more than one bank is rejected by the format check, whatever else happens *)
Fails(s) == s = failAt \/ (s = "checkformat" /\ cfg.fmt = "prg" /\ NBanks(cfg) # 1)
Step == /\ status = "running" /\ pc <= Len(Steps)
        /\ LET s == Steps[pc] IN
           IF Fails(s) THEN status' = "failed" /\ UNCHANGED <<pc, files>>
           ELSE IF s = "done" THEN status' = "ok" /\ UNCHANGED <<pc, files>>
           ELSE /\ files' = [f \in Names |-> IF f \in Writes(s) THEN 1 ELSE files[f]]
                /\ pc' = pc + 1 /\ UNCHANGED status
        /\ UNCHANGED <<failAt, cfg>>
(* an I/O failure can strike while the outputs are being written: the only way a failed build may leave new files *)
IoFail == /\ status = "running" /\ failAt = "io" /\ Steps[pc] \in {"writebanks", "writelisting", "writesymbols"}
          /\ status' = "failed" /\ UNCHANGED <<pc, files, failAt, cfg>>
Next == Step \/ IoFail
Spec == Init /\ [][Next]_vars /\ WF_vars(Next)

(* C04: a build that fails because of the *program* or the configuration writes nothing *)
NoOutputOnError == (status = "failed" /\ failAt # "io") => \A f \in Names : files[f] = 0
(* every check happens before the first write *)
ChecksBeforeWrites == (\E f \in Names : files[f] = 1) => pc > 7
(* a successful build has written exactly the files of its configuration *)
SuccessWritesAll == status = "ok" => \A f \in Names : files[f] = 1 <=> f \in Written(cfg)
(* the target directory exists from step 2 on, even when the build fails later (not an output file) *)
TargetDirCreated == pc > 2
Terminates == <>(status # "running")

(* ---- what one run of the command is expected to leave, for the conformance judge ---- *)
(* fault: "none" | "config" | "parse" | "codegen" | "importparse" | "bpl0" (num-bytes-per-line = 0 with listing on) *)
Outcome(c, fault) == IF (fault \notin {"none", "bpl0"}) \/ (fault = "bpl0" /\ c.listing) \/ (c.fmt = "prg" /\ NBanks(c) # 1) THEN "failed" ELSE "ok"
DirExpected(c, fault) == fault # "config"
================================================================================
