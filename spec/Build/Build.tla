--------------------------------- MODULE Build ---------------------------------
(* `mos build` as the sequence of steps the command performs (mos/src/commands/build.rs),  *)
(* each of which may fail.  C04 (output part): a failing build leaves every file of the     *)
(* target directory exactly as it was; a build is reported failed iff a step failed.        *)
EXTENDS Integers, Sequences, FiniteSets, TLC

CONSTANTS Outputs          \* output file names the project would write (binaries, listings, symbol files)
Steps == <<"mkdir", "parse", "codegen", "checkformat", "merge", "writebanks", "writelisting", "writesymbols", "done">>

VARIABLES pc, files, status, failAt
vars == <<pc, files, status, failAt>>
(* files: name -> version; version 0 = as before the build, 1 = written by this build *)
Init == /\ pc = 1 /\ status = "running"
        /\ files = [f \in Outputs |-> 0]
        /\ failAt \in {"none", "parse", "codegen", "checkformat", "merge", "io"}     \* where (if anywhere) this run fails
Writes(step) == CASE step = "writebanks" -> {f \in Outputs : f \in {"main.prg", "bank2.bin"}}
                  [] step = "writelisting" -> {f \in Outputs : f = "main.lst"}
                  [] step = "writesymbols" -> {f \in Outputs : f = "main.vs"}
                  [] OTHER -> {}
Step == /\ status = "running" /\ pc <= Len(Steps)
        /\ LET s == Steps[pc] IN
           IF s = failAt THEN status' = "failed" /\ UNCHANGED <<pc, files>>
           ELSE IF s = "done" THEN status' = "ok" /\ UNCHANGED <<pc, files>>
           ELSE /\ files' = [f \in Outputs |-> IF f \in Writes(s) THEN 1 ELSE files[f]]
                /\ pc' = pc + 1 /\ UNCHANGED status
        /\ UNCHANGED failAt
(* an I/O failure can strike while the outputs are being written: the only way a failed build may leave new files *)
IoFail == /\ status = "running" /\ failAt = "io" /\ Steps[pc] \in {"writebanks", "writelisting", "writesymbols"}
          /\ status' = "failed" /\ UNCHANGED <<pc, files, failAt>>
Next == Step \/ IoFail
Spec == Init /\ [][Next]_vars /\ WF_vars(Next)

(* C04: a build that fails because of the *program* (parse, codegen, format check, bank merge) writes nothing *)
NoOutputOnError == (status = "failed" /\ failAt # "io") => \A f \in Outputs : files[f] = 0
(* every check happens before the first write *)
ChecksBeforeWrites == (\E f \in Outputs : files[f] = 1) => pc > 5
Terminates == <>(status # "running")
================================================================================
