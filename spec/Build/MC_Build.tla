------------------------------- MODULE MC_Build -------------------------------
(* The configuration grid of Build.tla for TLC, and its export as cases for `mos build`. *)
EXTENDS Build, Json, IOUtils, SequencesExt
MCCfgs == [entry : {"main.asm", "src/start.asm"}, tdir : {"target", "out/bin"}, listing : BOOLEAN, symbols : BOOLEAN,
           fmt : {"none", "prg", "bin"}, ofn : {"", "image.dat"}, banks : {0, 1, 2}, imports : BOOLEAN,
           cwd : {"root", "sub"}, style : {"Short", "Medium", "Rich"}]
Faults == {"none", "config", "parse", "codegen", "importparse", "bpl0"}
Cases == {[cfg |-> c, fault |-> f, outcome |-> Outcome(c, f), dir |-> DirExpected(c, f),
           bank |-> SetToSeq(BankFiles(c)), lst |-> SetToSeq(ListingFiles(c)), sym |-> SetToSeq(SymbolFiles(c)), all |-> SetToSeq(Names)]
          : <<c, f>> \in {p \in MCCfgs \X Faults : p[2] # "importparse" \/ p[1].imports}}
Export == TLCGet("stats").diameter >= 0 /\ ndJsonSerialize(IOEnv.OUT, SetToSeq(Cases))
================================================================================
