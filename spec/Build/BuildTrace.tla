------------------------------- MODULE BuildTrace -------------------------------
(* impl -> spec for the configuration grid of Build.tla.  One record per run of `mos build':          *)
(*  [id, cfg, fault, exit, crashed, dirBefore, dirAfter, before, after: <<[name, sha, mtime]>>,        *)
(*   faultFile, faultLine (where the driver put the fault), locs: <<[file, line, col]>> (every          *)
(*   file:line:col the command printed, whatever the error style)]                                      *)
(* Tier 1 (C04): a run whose program has a fault of a known class (malformed statement: "parse",       *)
(*  "importparse"; undefined symbol: "codegen") exits non-zero and leaves every file as it was.         *)
(* Tier 2 (faithfulness of Build.tla, "drift"): failures that C04 does not speak about (configuration,  *)
(*  prg with several banks) behave like the model; a successful build changes exactly Written(cfg).    *)
EXTENDS Build, Json, IOUtils
Rec == ndJsonDeserialize(IOEnv.TRACE)
VARIABLES l, bad
tvars == <<l, bad>>
V(id, verdict, dev, why) == [id |-> id, verdict |-> verdict, dev |-> dev, why |-> why]

Snap(s) == {<<s[i].name, s[i].sha, s[i].mtime>> : i \in 1..Len(s)}
NamesOf(s) == {s[i].name : i \in 1..Len(s)}
Changed(r) == {n \in NamesOf(r.before) \cup NamesOf(r.after) :
                 {t \in Snap(r.before) : t[1] = n} # {t \in Snap(r.after) : t[1] = n}}
KnownClass(f) == f \in {"parse", "codegen", "importparse"}

Judge(r) ==
  LET exp == Outcome(r.cfg, r.fault) IN
  IF r.crashed THEN <<V(r.id, IF KnownClass(r.fault) THEN "violation" ELSE "drift", "", "mos build crashed")>>
  ELSE IF exp = "failed" THEN
    (IF r.exit = 0 THEN <<V(r.id, IF KnownClass(r.fault) THEN "violation" ELSE "drift", "", "build that must fail (" \o r.fault \o ") exited 0")>>
     ELSE IF Changed(r) # {} THEN <<V(r.id, IF KnownClass(r.fault) THEN "violation" ELSE "drift", "",
                                      "a failing build (" \o r.fault \o ") created or modified an output file under this configuration")>>
     ELSE IF KnownClass(r.fault) /\ ~\E i \in 1..Len(r.locs) : r.locs[i].file = r.faultFile /\ r.locs[i].line = r.faultLine
       THEN <<V(r.id, "violation", "", "no diagnostic names the file and line of the fault (error style " \o r.cfg.style \o ", started in " \o r.cfg.cwd \o ")")>>
     ELSE IF r.dirAfter # (r.dirBefore \/ DirExpected(r.cfg, r.fault)) THEN <<V(r.id, "drift", "", "target directory creation differs from the model")>>
     ELSE <<>>)
  ELSE IF r.exit # 0 THEN <<V(r.id, "drift", "", "a build the model expects to succeed failed")>>
  ELSE IF Changed(r) # Written(r.cfg) THEN <<V(r.id, "drift", "", "a successful build did not write exactly the files of its configuration")>>
  ELSE <<>>

(* the variables of the step machine are not used by the judge: it evaluates Build's constant operators only *)
TInit == l = 1 /\ bad = <<>> /\ pc = 0 /\ files = <<>> /\ status = "" /\ failAt = "" /\ cfg = <<>>
TStep == l <= Len(Rec) /\ bad' = bad \o Judge(Rec[l]) /\ l' = l + 1 /\ UNCHANGED vars
TFinish == l = Len(Rec) + 1 /\ ndJsonSerialize(IOEnv.OUT, bad) /\ l' = l + 1 /\ UNCHANGED <<bad, vars>>
TNext == TStep \/ TFinish
TSpec == TInit /\ [][TNext]_<<tvars, vars>>
Consumed == TLCGet("stats").diameter >= Len(Rec) + 1
================================================================================
