SPECIFICATION TSpec
CONSTANT Cfgs = {}
POSTCONDITION Consumed
