------------------------------- MODULE BuildProof -------------------------------
(* C04 (output part) for EVERY set of configurations, not only the model's grid: an        *)
(* inductive invariant of Build!Spec discharged with the TLA+ proof system (tlapm).        *)
EXTENDS Build, TLAPS

TypeOK == /\ pc \in 1..11
          /\ status \in {"running", "ok", "failed"}
          /\ failAt \in FailPoints
          /\ cfg \in Cfgs
          /\ files \in [Names -> {0, 1}]

(* nothing is written before step 8 is executed; a failure not caused by I/O happens at steps 1..7 *)
IndInv == /\ TypeOK
          /\ pc <= 8 => \A f \in Names : files[f] = 0
          /\ (status = "failed" /\ failAt # "io") => pc <= 7

LEMMA StepsFacts == /\ Len(Steps) = 11
                    /\ Steps[1] = "config" /\ Steps[2] = "mkdir" /\ Steps[3] = "parse" /\ Steps[4] = "codegen" /\ Steps[5] = "checkformat"
                    /\ Steps[6] = "merge" /\ Steps[7] = "listing" /\ Steps[8] = "writebanks" /\ Steps[9] = "writelisting" /\ Steps[10] = "writesymbols"
                    /\ Steps[11] = "done"
  BY DEF Steps

THEOREM InitInv == Init => IndInv
  BY DEF Init, IndInv, TypeOK

THEOREM NextInv == IndInv /\ [Next]_vars => IndInv'
  <1> SUFFICES ASSUME IndInv, [Next]_vars PROVE IndInv'
    OBVIOUS
  <1> USE StepsFacts
  <1>1. CASE Step
    <2>1. pc \in 1..11 /\ status = "running"
      BY <1>1 DEF Step, IndInv, TypeOK
    <2>2. CASE Fails(Steps[pc])
      <3>1. status' = "failed" /\ pc' = pc /\ files' = files /\ failAt' = failAt /\ cfg' = cfg
        BY <1>1, <2>2 DEF Step
      <3>2. failAt # "io" => pc <= 7
        BY <2>1, <2>2 DEF IndInv, TypeOK, Fails, FailPoints
      <3> QED BY <3>1, <3>2 DEF IndInv, TypeOK
    <2>3. CASE ~Fails(Steps[pc]) /\ Steps[pc] = "done"
      <3>1. status' = "ok" /\ pc' = pc /\ files' = files /\ failAt' = failAt /\ cfg' = cfg
        BY <1>1, <2>3 DEF Step
      <3> QED BY <3>1 DEF IndInv, TypeOK
    <2>4. CASE ~Fails(Steps[pc]) /\ Steps[pc] # "done"
      <3>1. /\ files' = [f \in Names |-> IF f \in Writes(Steps[pc]) THEN 1 ELSE files[f]]
            /\ pc' = pc + 1 /\ status' = status /\ failAt' = failAt /\ cfg' = cfg
        BY <1>1, <2>4 DEF Step
      <3>2. pc \in 1..10
        BY <2>1, <2>4
      <3>3. pc <= 7 => Writes(Steps[pc]) = {}
        BY <2>1 DEF Writes
      <3>4. files' \in [Names -> {0, 1}]
        BY <3>1 DEF IndInv, TypeOK
      <3> QED BY <3>1, <3>2, <3>3, <3>4, <2>1 DEF IndInv, TypeOK
    <2> QED BY <2>2, <2>3, <2>4
  <1>2. CASE IoFail
    <2>1. status' = "failed" /\ failAt = "io" /\ UNCHANGED <<pc, files, failAt, cfg>>
      BY <1>2 DEF IoFail
    <2> QED BY <2>1 DEF IndInv, TypeOK
  <1>3. CASE UNCHANGED vars
    BY <1>3 DEF vars, IndInv, TypeOK
  <1> QED BY <1>1, <1>2, <1>3 DEF Next

THEOREM InvImplies == IndInv => NoOutputOnError /\ ChecksBeforeWrites
  BY DEF IndInv, TypeOK, NoOutputOnError, ChecksBeforeWrites

THEOREM Safety == Init /\ [][Next]_vars => [](NoOutputOnError /\ ChecksBeforeWrites)
  <1>1. Init /\ [][Next]_vars => []IndInv
    BY InitInv, NextInv, PTL
  <1> QED BY <1>1, InvImplies, PTL
================================================================================
