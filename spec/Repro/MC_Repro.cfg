SPECIFICATION Spec
CONSTANTS Names = {1, 2} Files = {1, 2} SortKey = "name-span" ImportOrder = "source"
INVARIANT Reproducible
