---------------------------------- MODULE Repro ----------------------------------
(* C10: the build pipeline's stages that iterate hash containers, with the iteration order   *)
(* as explicit nondeterminism.  A stage consumes a set of items and produces an output       *)
(* sequence; reproducibility means the output is a function of the set, whatever order the    *)
(* container yields.                                                                          *)
(*  Imports     pending imports of a file -> order in which files are added to the code map   *)
(*              -> the offset of every span in them (and the numbering of anonymous scopes)    *)
(*  Undefined   set of (name, file, position) -> "unknown identifier" diagnostics, sorted       *)
(*  Symbols     symbol table -> VICE lines, sorted                                              *)
(* SortKey / ImportOrder select the reading: "name" + "hash" is the pinned commit,             *)
(* "name-span" + "source" the repaired one.                                                     *)
EXTENDS Integers, Sequences, FiniteSets, TLC
CONSTANTS Names, Files, SortKey, ImportOrder

Perms(S) == {p \in [1..Cardinality(S) -> S] : \A i, j \in 1..Cardinality(S) : i # j => p[i] # p[j]}

(* undefined-symbol occurrences: a name, the file it occurs in and its position there *)
Occ == [name : Names, file : Files, pos : 1..2]
VARIABLES occs, importPerm, iterPerm, out
vars == <<occs, importPerm, iterPerm, out>>

(* global span of an occurrence: files are laid out one after the other in the order they were added *)
Base(f, order) == LET i == CHOOSE i \in 1..Len(order) : order[i] = f IN (i - 1) * 10
SpanOf(o, order) == Base(o.file, order) + o.pos
(* the source order of the imports is the canonical order; a hash map yields any permutation *)
FileOrder(p) == IF ImportOrder = "source" THEN CHOOSE q \in Perms(Files) : \A i \in 1..Len(q) - 1 : q[i] < q[i + 1] ELSE p

(* stable sort of a sequence by key; ties keep the iteration order *)
Less(a, b, order) == IF SortKey = "name" THEN a.name < b.name
                     ELSE a.name < b.name \/ (a.name = b.name /\ SpanOf(a, order) < SpanOf(b, order))
RECURSIVE Insert(_, _, _)
Insert(x, s, order) == IF s = <<>> THEN <<x>>
                       ELSE IF Less(x, Head(s), order) THEN <<x>> \o s
                       ELSE <<Head(s)>> \o Insert(x, Tail(s), order)
RECURSIVE StableSort(_, _)
StableSort(s, order) == IF s = <<>> THEN <<>> ELSE Insert(s[Len(s)], StableSort(SubSeq(s, 1, Len(s) - 1), order), order)

(* what the user sees: file-relative locations (absolute spans are internal) *)
Render(s) == [i \in 1..Len(s) |-> <<s[i].name, s[i].file, s[i].pos>>]
Diagnostics(S, ip, it) == LET order == FileOrder(ip) IN Render(StableSort(it, order))

Init == /\ occs \in {S \in SUBSET Occ : Cardinality(S) \in 1..3}
        /\ importPerm \in Perms(Files)
        /\ iterPerm = <<>> /\ out = <<>>
Build == /\ out = <<>>
         /\ \E it \in Perms(occs) : iterPerm' = it /\ out' = Diagnostics(occs, importPerm, it)
         /\ UNCHANGED <<occs, importPerm>>
Next == Build
Spec == Init /\ [][Next]_vars

(* C10: the diagnostics are a function of the project alone *)
Reproducible == out # <<>> => \A ip \in Perms(Files) : \A it \in Perms(occs) : Diagnostics(occs, ip, it) = out
================================================================================
