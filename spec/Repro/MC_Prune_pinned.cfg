SPECIFICATION Spec
CONSTANT Order = "listed"
INVARIANT Reproducible
