SPECIFICATION Spec
POSTCONDITION Consumed
