---------------------------------- MODULE Prune ----------------------------------
(* C10 (and C02): the clean-up at the start of an assembly pass.  The symbols the pass that just ended did not define   *)
(* are out of date.  Such a symbol is taken out of the table when it holds no other symbols; when it does (it is also a  *)
(* scope) it only loses its value - and an entry without a value still hides an outer symbol of the same name.  The table *)
(* lists its symbols in hash order, so the clean-up sees the out-of-date symbols in an arbitrary order.                    *)
(*   Order = "listed"          the code as it was: one sweep in listing order; whether a scope whose symbols are all out  *)
(*                             of date is still childless when its turn comes depends on the order -> the same project     *)
(*                             sometimes builds and sometimes ends with `unknown identifier'                               *)
(*   Order = "children-first"  the repair: childless out-of-date symbols are taken out until none is left, the rest lose   *)
(*                             their value                                                                                 *)
EXTENDS Integers, Sequences, FiniteSets
CONSTANT Order
Nodes == 1..4
Perms(S) == {p \in [1..Cardinality(S) -> S] : \A i, j \in 1..Cardinality(S) : i # j => p[i] # p[j]}
VARIABLES parent, outdated, result
vars == <<parent, outdated, result>>

Children(par, alive, n) == {c \in alive : par[c] = n}
(* one sweep in the order listed: <<alive, valueless>> *)
RECURSIVE Sweep(_, _, _, _, _)
Sweep(par, perm, i, alive, hollow) ==
  IF i > Len(perm) THEN <<alive, hollow>>
  ELSE LET n == perm[i] IN
       IF Children(par, alive, n) = {} THEN Sweep(par, perm, i + 1, alive \ {n}, hollow)
       ELSE Sweep(par, perm, i + 1, alive, hollow \cup {n})
(* childless ones first, until none is left *)
RECURSIVE Fix(_, _, _)
Fix(par, alive, todo) ==
  LET gone == {n \in todo : Children(par, alive, n) = {}} IN
  IF gone = {} THEN <<alive, todo>> ELSE Fix(par, alive \ gone, todo \ gone)
Clean(par, perm, S) == IF Order = "listed" THEN Sweep(par, perm, 1, Nodes, {}) ELSE Fix(par, Nodes, S)

Init == /\ parent \in {p \in [Nodes -> 0..3] : \A n \in Nodes : p[n] < n}        \* every forest over four symbols
        /\ outdated \in SUBSET Nodes
        /\ result = <<>>
Next == result = <<>> /\ \E p \in Perms(outdated) : result' = Clean(parent, p, outdated) /\ UNCHANGED <<parent, outdated>>
Spec == Init /\ [][Next]_vars

(* the table after the clean-up is a function of the table before it *)
Reproducible == result # <<>> => \A p \in Perms(outdated) : Clean(parent, p, outdated) = result
(* nothing out of date stays behind as an empty shell: what remains without a value still holds a symbol *)
NoEmptyShell == result # <<>> => \A n \in result[2] : Children(parent, result[1], n) # {}
================================================================================
