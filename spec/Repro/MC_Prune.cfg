SPECIFICATION Spec
CONSTANT Order = "children-first"
INVARIANT Reproducible
INVARIANT NoEmptyShell
