-------------------------------- MODULE ReproTrace --------------------------------
(* impl -> spec for C10.  Record: [id, runs: <<obs>>] where obs = [exit, stdout, files <<[name, sha]>>]   *)
(* of N builds of one project in fresh processes.  Reproducible: all observations are equal.              *)
EXTENDS Integers, Sequences, TLC, Json, IOUtils
Rec == ndJsonDeserialize(IOEnv.TRACE)
VARIABLES l, bad
vars == <<l, bad>>
V(id, verdict, dev, why) == [id |-> id, verdict |-> verdict, dev |-> dev, why |-> why]
Judge(r) ==
  IF \A i \in 1..Len(r.runs) : r.runs[i] = r.runs[1] THEN <<>>
  ELSE IF \A i \in 1..Len(r.runs) : r.runs[i].files = r.runs[1].files /\ r.runs[i].exit = r.runs[1].exit
         THEN <<V(r.id, "violation", "", "repeated builds print different diagnostics (or the same in a different order)")>>
  ELSE <<V(r.id, "violation", "", "repeated builds of the same project produce different output files or exit status")>>
Init == l = 1 /\ bad = <<>>
Step == l <= Len(Rec) /\ bad' = bad \o Judge(Rec[l]) /\ l' = l + 1
Finish == l = Len(Rec) + 1 /\ ndJsonSerialize(IOEnv.OUT, bad) /\ l' = l + 1 /\ UNCHANGED bad
Next == Step \/ Finish
Spec == Init /\ [][Next]_vars
Consumed == TLCGet("stats").diameter >= Len(Rec) + 1
================================================================================
