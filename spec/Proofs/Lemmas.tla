--------------------------------- MODULE Lemmas ---------------------------------
(* Arithmetic facts the specifications lean on, discharged with the TLA+ proof system      *)
(* (tlapm, SMT back end) for ALL integers in the stated ranges - not only the model's.      *)
EXTENDS Integers, TLAPS

(* C01: a relative branch stores d % 256; the CPU reads it back as a signed byte and gets d *)
Signed(b) == IF b >= 128 THEN b - 256 ELSE b
THEOREM BranchRoundTrip == \A d \in -128..127 : (d % 256) \in 0..255 /\ Signed(d % 256) = d
  BY DEF Signed

(* C01/C03: low and high byte recombine to the 16-bit value *)
THEOREM LoHi == \A v \in 0..65535 : (v % 256) + 256 * ((v \div 256) % 256) = v
  <1>1. \A v \in 0..65535 : v = 256 * (v \div 256) + (v % 256) /\ (v \div 256) \in 0..255
    BY Z3T(60)
  <1>2. \A h \in 0..255 : h % 256 = h
    BY Z3T(60)
  <1> QED BY <1>1, <1>2

(* C02/C06: padding chosen by `.align n' leaves the program counter aligned, and is at most n (for the alignments the generators use) *)
THEOREM AlignPads == \A n \in {2, 4, 8, 16, 256} : \A pc \in 0..65535 :
                       LET pad == n - (pc % n) IN pad \in 1..n /\ (pc + pad) % n = 0
  BY Z3T(60)

(* C03: truncating division law for positive operands (the sign cases reduce to it) *)
THEOREM DivLaw == \A a \in 0..1073741824 : \A b \in 1..1073741824 : a = b * (a \div b) + (a % b) /\ (a % b) \in 0..(b - 1)
  OBVIOUS
================================================================================
