SPECIFICATION Spec
CONSTANTS MaxLen = 3 SwallowStopAtoms = TRUE
INVARIANT Lossless
