SPECIFICATION SpecG
CONSTANTS MaxLen = 4 SwallowStopAtoms = FALSE
INVARIANT Lossless
INVARIANT Export
