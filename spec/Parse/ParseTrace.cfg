SPECIFICATION Spec
POSTCONDITION Consumed
