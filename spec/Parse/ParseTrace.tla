-------------------------------- MODULE ParseTrace --------------------------------
(* impl -> spec for C05.  Record: [id, ndiags, panic, elided, text, rendered] where text and  *)
(* rendered are sequences of code points (elided = TRUE: payload left out because the parse   *)
(* reported diagnostics, so the property's antecedent is false).                               *)
EXTENDS Integers, Sequences, TLC, Json, IOUtils
Rec == ndJsonDeserialize(IOEnv.TRACE)
VARIABLES l, bad
vars == <<l, bad>>
V(id, verdict, dev, why) == [id |-> id, verdict |-> verdict, dev |-> dev, why |-> why]

Lower(c) == IF c >= 65 /\ c <= 90 THEN c + 32 ELSE c
(* up to the letter case of keywords and CRLF -> LF *)
Norm(s) == LET t == [i \in 1..Len(s) |-> <<s[i], IF i < Len(s) THEN s[i + 1] ELSE 0>>]
               u == SelectSeq(t, LAMBDA p : ~(p[1] = 13 /\ p[2] = 10)) IN
           [i \in 1..Len(u) |-> Lower(u[i][1])]
Judge(r) ==
  IF r.ndiags > 0 \/ r.panic THEN <<>>                      \* something was reported: nothing is silently ignored
  ELSE IF r.elided THEN <<V(r.id, "violation", "", "harness error: payload elided although no diagnostic")>>
  ELSE IF Norm(r.rendered) = Norm(r.text) THEN <<>>
  ELSE <<V(r.id, "violation", "", "file parsed without diagnostics but re-rendering the tokens does not reproduce its text")>>

Init == l = 1 /\ bad = <<>>
Step == l <= Len(Rec) /\ bad' = bad \o Judge(Rec[l]) /\ l' = l + 1
Finish == l = Len(Rec) + 1 /\ ndJsonSerialize(IOEnv.OUT, bad) /\ l' = l + 1 /\ UNCHANGED bad
Next == Step \/ Finish
Spec == Init /\ [][Next]_vars
Consumed == TLCGet("stats").diameter >= Len(Rec) + 1
================================================================================
