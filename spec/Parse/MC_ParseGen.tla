------------------------------- MODULE MC_ParseGen -------------------------------
(* Same machine, with every terminal state exported as an implementation case (spec -> impl). *)
EXTENDS Parse, Json
(* a line comment runs to the end of the line, so as an atom it must be followed by a line end *)
WellFormed(t) == \A i \in 1..Len(t) : t[i] = "LCOMMENT" => (i = Len(t) \/ t[i + 1] \in {"NL", "CRLF"})
InitG == Init /\ WellFormed(text)
SpecG == InitG /\ [][Next]_vars /\ WF_vars(Next)
Export == phase = "done" => PrintT(<<"CASE", ToJson([text |-> text, diags |-> diags, lossless |-> (consumed = 1..Len(text))])>>)
================================================================================
