--------------------------------- MODULE Parse ---------------------------------
(* The top-level loop of the mos parser over a text abstracted to atoms (C05).            *)
(*  STMT      a complete one-line statement         OPEN / CLOSE   block start `{` / `}`   *)
(*  RPAREN    a `)` no statement accepts             CR             a lone carriage return  *)
(*  NL, CRLF, WS, LCOMMENT, BCOMMENT                trivia                                  *)
(*  JUNK      characters no statement accepts (not a stop character)                       *)
(* Actions mirror the parser: many0(statement | error) per block level, then either the   *)
(* block's closing delimiter (or a diagnostic that it is missing) or, at top level, the   *)
(* end-of-file rule which takes *the rest of the input without a diagnostic*.             *)
(* SwallowStopAtoms = TRUE is the reading of the pinned commit: the error rule needs at    *)
(* least one non-stop character, so a stop atom nobody accepts ends the loop early.        *)
EXTENDS Integers, Sequences, FiniteSets, TLC
CONSTANTS MaxLen, SwallowStopAtoms

Atoms == {"STMT", "OPEN", "CLOSE", "RPAREN", "CR", "NL", "CRLF", "WS", "LCOMMENT", "BCOMMENT", "JUNK"}
Trivia == {"NL", "CRLF", "WS", "LCOMMENT", "BCOMMENT"}
Texts == UNION {[1..n -> Atoms] : n \in 0..MaxLen}

VARIABLES text, pos, depth, consumed, diags, phase
vars == <<text, pos, depth, consumed, diags, phase>>
(* consumed: set of positions accounted for by a token (statement, error, block delimiter) or their trivia *)

At(i) == IF i <= Len(text) THEN text[i] ELSE "EOF"
RECURSIVE Skip(_)
Skip(i) == IF At(i) \in Trivia THEN Skip(i + 1) ELSE i          \* multi-line trivia before a token
StopSet == {"RPAREN", "NL", "CR", "CRLF", "EOF"} \cup (IF depth > 0 THEN {"CLOSE"} ELSE {})
RECURSIVE Till(_)
Till(i) == IF At(i) \in StopSet THEN i ELSE Till(i + 1)         \* take_till: first stop atom at or after i
Span(a, b) == a..(b - 1)

q == Skip(pos)
Statement == /\ phase = "loop" /\ At(q) = "STMT"
             /\ consumed' = consumed \cup Span(pos, q + 1) /\ pos' = q + 1
             /\ UNCHANGED <<text, depth, diags, phase>>
Open == /\ phase = "loop" /\ At(q) = "OPEN"
        /\ consumed' = consumed \cup Span(pos, q + 1) /\ pos' = q + 1 /\ depth' = depth + 1
        /\ UNCHANGED <<text, diags, phase>>
CloseBlock == /\ phase = "loop" /\ depth > 0 /\ At(q) = "CLOSE"
              /\ consumed' = consumed \cup Span(pos, q + 1) /\ pos' = q + 1 /\ depth' = depth - 1
              /\ UNCHANGED <<text, diags, phase>>
(* the error rule: one or more characters up to a stop character; fixed reading: a lone stop atom that nothing else
   accepts (`)`, CR, and CLOSE at top level is not even a stop there) is consumed as an error of its own *)
CanStmt == At(q) \in {"STMT", "OPEN"} \/ (depth > 0 /\ At(q) = "CLOSE")
ErrorRecovery ==
  /\ phase = "loop" /\ ~CanStmt /\ At(q) # "EOF"
  /\ \/ /\ Till(q) > q                                          \* at least one non-stop atom
        /\ consumed' = consumed \cup Span(pos, Till(q)) /\ pos' = Till(q)
     \/ /\ Till(q) = q /\ ~SwallowStopAtoms /\ At(q) \in {"RPAREN", "CR"}
        /\ consumed' = consumed \cup Span(pos, q + 1) /\ pos' = q + 1
  /\ diags' = diags + 1
  /\ UNCHANGED <<text, depth, phase>>
Stuck == ~CanStmt /\ (At(q) = "EOF" \/ (Till(q) = q /\ (SwallowStopAtoms \/ At(q) \notin {"RPAREN", "CR"})))
(* many0 ended inside a block: the closing delimiter is missing -> diagnostic, block ends *)
MissingClose == /\ phase = "loop" /\ depth > 0 /\ Stuck
                /\ diags' = diags + 1 /\ depth' = depth - 1
                /\ UNCHANGED <<text, pos, consumed, phase>>
(* many0 ended at top level: end of file takes the rest, silently *)
Eof == /\ phase = "loop" /\ depth = 0 /\ Stuck
       /\ phase' = "done" /\ consumed' = consumed \cup Span(pos, q)        \* its own leading trivia
       /\ UNCHANGED <<text, pos, depth, diags>>
Next == Statement \/ Open \/ CloseBlock \/ ErrorRecovery \/ MissingClose \/ Eof
Init == text \in Texts /\ pos = 1 /\ depth = 0 /\ consumed = {} /\ diags = 0 /\ phase = "loop"
Spec == Init /\ [][Next]_vars /\ WF_vars(Next)

(* C05: a parse without diagnostics accounts for every position of the text *)
Lossless == (phase = "done" /\ diags = 0) => consumed = 1..Len(text)
(* the parser always finishes *)
Finishes == <>(phase = "done")
================================================================================
