SPECIFICATION Spec
CONSTANTS MaxLen = 4 SwallowStopAtoms = FALSE
INVARIANT Lossless
PROPERTY Finishes
