--------------------------------- MODULE Layout ---------------------------------
(* C08: the layout of a statement does not change its meaning.                            *)
(* Every statement form of the grammar is a sequence of terminals; before each terminal   *)
(* there is a gap of a kind the grammar prescribes:                                       *)
(*    "start"  first terminal of a statement: multi-line trivia (blank lines, comments)   *)
(*    "mws"    multi-line trivia allowed (before { } else from, inside .define maps)       *)
(*    "ws"     single-line trivia allowed (spaces, tabs, block comments)                   *)
(*    "none"   nothing may be inserted (name and ':' of a label, digits of a number ...)   *)
(* and each terminal is either case-variable (mnemonics, directives, register suffixes,    *)
(* hex digits, keyword operands) or not.  A variant chooses a filler for every gap and a   *)
(* casing for every case-variable terminal; its meaning must be that of the canonical      *)
(* spelling (single spaces where the canonical text has them, lower case).                *)
EXTENDS Integers, Sequences, FiniteSets, TLC

T(s, g, c) == [s |-> s, g |-> g, c |-> c]
(* canonical separator of a gap: a blank where two words would fuse, else nothing; recorded per token as sp *)
Tk(s, g, c, sp) == [s |-> s, g |-> g, c |-> c, sp |-> sp]

Forms == <<
 [name |-> "insn-imm",   toks |-> <<Tk("lda","start",TRUE,""), Tk("#","ws",FALSE," "), Tk("$1f","ws",TRUE,"")>>],
 [name |-> "insn-abs",   toks |-> <<Tk("sta","start",TRUE,""), Tk("$d020","ws",TRUE," ")>>],
 [name |-> "insn-zpx",   toks |-> <<Tk("lda","start",TRUE,""), Tk("$10","ws",FALSE," "), Tk(",","ws",FALSE,""), Tk("x","ws",TRUE,"")>>],
 [name |-> "insn-absy",  toks |-> <<Tk("lda","start",TRUE,""), Tk("tbl","ws",FALSE," "), Tk(",","ws",FALSE,""), Tk("y","ws",TRUE,"")>>],
 [name |-> "insn-indx",  toks |-> <<Tk("lda","start",TRUE,""), Tk("(","ws",FALSE," "), Tk("$10","ws",FALSE,""), Tk(",","ws",FALSE,""), Tk("x","ws",TRUE,""), Tk(")","ws",FALSE,"")>>],
 [name |-> "insn-indy",  toks |-> <<Tk("lda","start",TRUE,""), Tk("(","ws",FALSE," "), Tk("$10","ws",FALSE,""), Tk(")","ws",FALSE,""), Tk(",","ws",FALSE,""), Tk("y","ws",TRUE,"")>>],
 [name |-> "insn-ind",   toks |-> <<Tk("jmp","start",TRUE,""), Tk("(","ws",FALSE," "), Tk("$abcd","ws",TRUE,""), Tk(")","ws",FALSE,"")>>],
 [name |-> "insn-imp",   toks |-> <<Tk("asl","start",TRUE,"")>>],
 [name |-> "insn-expr",  toks |-> <<Tk("lda","start",TRUE,""), Tk("#","ws",FALSE," "), Tk("(","ws",FALSE,""), Tk("cv","ws",FALSE,""), Tk("+","ws",FALSE," "), Tk("2","ws",FALSE," "), Tk(")","ws",FALSE,""), Tk("*","ws",FALSE," "), Tk("3","ws",FALSE," ")>>],
 [name |-> "insn-lo",    toks |-> <<Tk("lda","start",TRUE,""), Tk("#","ws",FALSE," "), Tk("<","ws",FALSE,""), Tk("tbl","ws",FALSE,"")>>],
 [name |-> "insn-hi",    toks |-> <<Tk("ldx","start",TRUE,""), Tk("#","ws",FALSE," "), Tk(">","ws",FALSE,""), Tk("tbl","ws",FALSE,"")>>],
 [name |-> "insn-cmp",   toks |-> <<Tk("lda","start",TRUE,""), Tk("#","ws",FALSE," "), Tk("cv","ws",FALSE,""), Tk("==","ws",FALSE," "), Tk("5","ws",FALSE," ")>>],
 [name |-> "insn-defd",  toks |-> <<Tk("lda","start",TRUE,""), Tk("#","ws",FALSE," "), Tk("defined","ws",FALSE,""), Tk("(","ws",FALSE,""), Tk("cv","ws",FALSE,""), Tk(")","ws",FALSE,"")>>],
 [name |-> "branch",     toks |-> <<Tk("bne","start",TRUE,""), Tk("tbl","ws",FALSE," ")>>],
 [name |-> "label",      toks |-> <<Tk("lab1","start",FALSE,""), Tk(":","none",FALSE,""), Tk("nop","start",TRUE," ")>>],
 [name |-> "label-blk",  toks |-> <<Tk("lab2","start",FALSE,""), Tk(":","none",FALSE,""), Tk("{","mws",FALSE," "), Tk("nop","start",TRUE," "), Tk("}","mws",FALSE," ")>>],
 [name |-> "braces",     toks |-> <<Tk("{","start",FALSE,""), Tk("inx","start",TRUE," "), Tk("}","mws",FALSE," ")>>],
 [name |-> "byte",       toks |-> <<Tk(".byte","start",TRUE,""), Tk("1","ws",FALSE," "), Tk(",","ws",FALSE,""), Tk("$ff","ws",TRUE," "), Tk(",","ws",FALSE,""), Tk("cv","ws",FALSE," ")>>],
 [name |-> "word",       toks |-> <<Tk(".word","start",TRUE,""), Tk("tbl","ws",FALSE," "), Tk("+","ws",FALSE," "), Tk("1","ws",FALSE," ")>>],
 [name |-> "dword",      toks |-> <<Tk(".dword","start",TRUE,""), Tk("$12345678","ws",FALSE," ")>>],
 [name |-> "text",       toks |-> <<Tk(".text","start",TRUE,""), Tk("\"hi\"","ws",FALSE," ")>>],
 [name |-> "text-enc",   toks |-> <<Tk(".text","start",TRUE,""), Tk("petscii","ws",TRUE," "), Tk("\"hi\"","ws",FALSE," ")>>],
 [name |-> "text-scr",   toks |-> <<Tk(".text","start",TRUE,""), Tk("petscreen","ws",TRUE," "), Tk("\"a{sv}\"","ws",FALSE," ")>>],
 [name |-> "const",      toks |-> <<Tk(".const","start",TRUE,""), Tk("nc","ws",FALSE," "), Tk("=","ws",FALSE," "), Tk("cv","ws",FALSE," "), Tk("*","ws",FALSE," "), Tk("2","ws",FALSE," "), Tk("lda","start",TRUE,"\n"), Tk("#","ws",FALSE," "), Tk("nc","ws",FALSE,"")>>],
 [name |-> "var",        toks |-> <<Tk(".var","start",TRUE,""), Tk("nv","ws",FALSE," "), Tk("=","ws",FALSE," "), Tk("true","ws",TRUE," "), Tk("lda","start",TRUE,"\n"), Tk("#","ws",FALSE," "), Tk("nv","ws",FALSE,"")>>],
 [name |-> "setpc",      toks |-> <<Tk("*","start",FALSE,""), Tk("=","ws",FALSE," "), Tk("$3000","ws",FALSE," "), Tk("nop","start",TRUE,"\n")>>],
 [name |-> "align",      toks |-> <<Tk(".align","start",TRUE,""), Tk("8","ws",FALSE," "), Tk("nop","start",TRUE,"\n")>>],
 [name |-> "loop",       toks |-> <<Tk(".loop","start",TRUE,""), Tk("2","ws",FALSE," "), Tk("{","mws",FALSE," "), Tk("lda","start",TRUE," "), Tk("#","ws",FALSE," "), Tk("index","ws",FALSE,""), Tk("}","mws",FALSE," ")>>],
 [name |-> "if-else",    toks |-> <<Tk(".if","start",TRUE,""), Tk("cv","ws",FALSE," "), Tk(">","ws",FALSE," "), Tk("3","ws",FALSE," "), Tk("{","mws",FALSE," "), Tk("inx","start",TRUE," "), Tk("}","mws",FALSE," "), Tk("else","mws",TRUE," "), Tk("{","mws",FALSE," "), Tk("iny","start",TRUE," "), Tk("}","mws",FALSE," ")>>],
 [name |-> "if-only",    toks |-> <<Tk(".if","start",TRUE,""), Tk("false","ws",TRUE," "), Tk("{","mws",FALSE," "), Tk("inx","start",TRUE," "), Tk("}","mws",FALSE," "), Tk("dey","start",TRUE,"\n")>>],
 [name |-> "macro",      toks |-> <<Tk(".macro","start",TRUE,""), Tk("mq","ws",FALSE," "), Tk("(","ws",FALSE,""), Tk("pa","ws",FALSE,""), Tk(",","ws",FALSE,""), Tk("pb","ws",FALSE," "), Tk(")","ws",FALSE,""), Tk("{","mws",FALSE," "), Tk("lda","start",TRUE," "), Tk("#","ws",FALSE," "), Tk("pa","ws",FALSE,""), Tk("}","mws",FALSE," "),
                             Tk("mq","start",FALSE,"\n"), Tk("(","ws",FALSE,""), Tk("1","ws",FALSE,""), Tk(",","ws",FALSE,""), Tk("2","ws",FALSE," "), Tk(")","ws",FALSE,"")>>],
 [name |-> "call",       toks |-> <<Tk("mm","start",FALSE,""), Tk("(","ws",FALSE,""), Tk("cv","ws",FALSE,""), Tk(")","ws",FALSE,"")>>],
 [name |-> "segment",    toks |-> <<Tk(".segment","start",TRUE,""), Tk("\"default\"","ws",FALSE," "), Tk("{","mws",FALSE," "), Tk("nop","start",TRUE," "), Tk("}","mws",FALSE," ")>>],
 [name |-> "import",     toks |-> <<Tk(".import","start",TRUE,""), Tk("*","ws",FALSE," "), Tk("as","ws",TRUE," "), Tk("im","ws",FALSE," "), Tk("from","mws",TRUE," "), Tk("\"inc.asm\"","ws",FALSE," "), Tk("lda","start",TRUE,"\n"), Tk("im.iv","ws",FALSE," ")>>],
 [name |-> "import-sel", toks |-> <<Tk(".import","start",TRUE,""), Tk("iv","ws",FALSE," "), Tk("as","ws",TRUE," "), Tk("jv","ws",FALSE," "), Tk("from","mws",TRUE," "), Tk("\"inc.asm\"","ws",FALSE," "), Tk("{","mws",FALSE," "), Tk(".const","start",TRUE," "), Tk("ip","ws",FALSE," "), Tk("=","ws",FALSE," "), Tk("1","ws",FALSE," "), Tk("}","mws",FALSE," "), Tk("lda","start",TRUE,"\n"), Tk("jv","ws",FALSE," ")>>],
 [name |-> "super",      toks |-> <<Tk("sc","start",FALSE,""), Tk(":","none",FALSE,""), Tk("{","mws",FALSE," "), Tk("lda","start",TRUE," "), Tk("#","ws",FALSE," "), Tk("super.cv","ws",TRUE,""), Tk("}","mws",FALSE," ")>>],
 [name |-> "assert",     toks |-> <<Tk(".assert","start",TRUE,""), Tk("1","ws",FALSE," "), Tk("==","ws",FALSE," "), Tk("1","ws",FALSE," "), Tk("\"m\"","ws",FALSE," "), Tk("nop","start",TRUE,"\n")>>],
 [name |-> "trace",      toks |-> <<Tk(".trace","start",TRUE,""), Tk("(","ws",FALSE," "), Tk("cv","ws",FALSE,""), Tk(",","ws",FALSE,""), Tk("*","ws",FALSE," "), Tk(")","ws",FALSE,""), Tk("nop","start",TRUE,"\n")>>],
 [name |-> "define-seg", toks |-> <<Tk(".define","start",TRUE,""), Tk("segment","ws",FALSE," "), Tk("{","mws",FALSE," "), Tk("name","mws",FALSE," "), Tk("=","mws",FALSE," "), Tk("\"s2\"","mws",FALSE," "), Tk("start","mws",FALSE," "), Tk("=","mws",FALSE," "), Tk("$4000","mws",TRUE," "), Tk("}","mws",FALSE," "),
                             Tk(".segment","start",TRUE,"\n"), Tk("\"s2\"","ws",FALSE," "), Tk("{","mws",FALSE," "), Tk("nop","start",TRUE," "), Tk("}","mws",FALSE," ")>>],
 (* forms whose last terminal is a keyword literal (appended: MC_Layout's Pairs refers to the forms above by index) *)
 [name |-> "byte-bool",  toks |-> <<Tk(".byte","start",TRUE,""), Tk("cv","ws",FALSE," "), Tk(",","ws",FALSE,""), Tk("false","ws",TRUE," ")>>],
 [name |-> "const-bool", toks |-> <<Tk(".const","start",TRUE,""), Tk("nb","ws",FALSE," "), Tk("=","ws",FALSE," "), Tk("true","ws",TRUE," ")>>],
 (* the block symbols as operands, with a statement behind them (which may share their line) *)
 [name |-> "blk-back",   toks |-> <<Tk("{","start",FALSE,""), Tk("dex","start",TRUE," "), Tk("bne","start",TRUE,"\n"), Tk("-","ws",FALSE," "), Tk("rts","start",TRUE,"\n"), Tk("}","mws",FALSE,"\n")>>],
 (* a statement with the same error in the entry file and in an imported file (whose text puts it at the same offset as the
    canonical spelling does here): both are reported, wherever the layout moves one of them *)
 [name |-> "err-both",   toks |-> <<Tk(".byte","start",TRUE,""), Tk(".import","start",TRUE,"\n"), Tk("*","ws",FALSE," "), Tk("as","ws",TRUE," "), Tk("ie","ws",FALSE," "), Tk("from","mws",TRUE," "), Tk("\"inc2.asm\"","ws",FALSE," ")>>],
 [name |-> "blk-fwd",    toks |-> <<Tk("{","start",FALSE,""), Tk("beq","start",TRUE," "), Tk("+","ws",FALSE," "), Tk("inx","start",TRUE,"\n"), Tk("}","mws",FALSE,"\n")>>]
>>

WsFillers  == {"", " ", "\t", "  \t ", "/* c */", "/* k */", "/* a /* n */ b */", "/* lda #1 */", " /**/ ", "/** doc **/", "/**** b ****/", "/* x*y / z */"}
MwsFillers == WsFillers \cup {"\n", "\r\n", "\n\n", "// nop\n", " // c\r\n", "\n/* c */\n", "//\n", "//* note */\n"}
StartFillers == MwsFillers
Fillers(g) == CASE g = "ws" -> WsFillers [] g = "mws" -> MwsFillers [] g = "start" -> StartFillers [] OTHER -> {""}
Casings == {"lower", "upper", "mixed"}

(* the variant space: one gap at a time, two gaps at a time, one terminal's casing, and whole-statement transformations *)
GapIdx(f) == {i \in 1..Len(Forms[f].toks) : Forms[f].toks[i].g # "none"}
OneGap  == {[kind |-> "gap", f |-> f, i |-> i, j |-> 0, fill |-> x, fill2 |-> ""] : f \in 1..Len(Forms), i \in 1..30, x \in MwsFillers} 
TwoGaps(S) == {[kind |-> "gap2", f |-> f, i |-> i, j |-> j, fill |-> x, fill2 |-> y] : f \in S, i \in 1..30, j \in 1..30, x \in {" ", "/* c */", "\n"}, y \in {"\t", "/* d */", "// e\n"}}
(* an empty filler is only a layout change where the neighbouring terminals cannot fuse into one word *)
WordChars == {"a","b","c","d","e","f","g","h","i","j","k","l","m","n","o","p","q","r","s","t","u","v","w","x","y","z",
              "0","1","2","3","4","5","6","7","8","9","_",".","$","%"}
Fuses(a, b) == SubSeq(a, Len(a), Len(a)) \in WordChars /\ SubSeq(b, 1, 1) \in WordChars
(* a block symbol `-' / `+' directly in front of the next statement's first word reads as a sign of that word *)
SignFuses(f, i) == Forms[f].toks[i].g = "start" /\ Forms[f].toks[i - 1].s \in {"-", "+"}
NoFuse(f, i, fill) == fill # "" \/ i = 1 \/ ~(Fuses(Forms[f].toks[i - 1].s, Forms[f].toks[i].s) \/ SignFuses(f, i))
Valid(v) == /\ v.i \in GapIdx(v.f) /\ v.fill \in Fillers(Forms[v.f].toks[v.i].g) /\ NoFuse(v.f, v.i, v.fill)
            /\ (v.kind = "gap2" => (v.j \in GapIdx(v.f) /\ v.j > v.i /\ v.fill2 \in Fillers(Forms[v.f].toks[v.j].g)))
CaseVariants == {[kind |-> "case", f |-> f, i |-> i, j |-> 0, fill |-> c, fill2 |-> ""] : f \in 1..Len(Forms), i \in 1..30, c \in {"upper", "mixed"}}
ValidCase(v) == v.i <= Len(Forms[v.f].toks) /\ Forms[v.f].toks[v.i].c
(* the gap between the last terminal and the end of the file: the canonical text ends in one line feed *)
TailFillers == {"", " ", "\t", "\r\n", "\n\n\n", "// c", " // c", "/* c */", " /* c */\n", "\n// c", "\n/* c */", "\n \t"}
TailV == {[kind |-> "tail", f |-> f, i |-> 0, j |-> 0, fill |-> x, fill2 |-> ""] : f \in 1..Len(Forms), x \in TailFillers}
Whole == {[kind |-> w, f |-> f, i |-> 0, j |-> 0, fill |-> "", fill2 |-> ""] : f \in 1..Len(Forms), w \in {"crlf", "allcomment", "allupper", "alltabs"}}
================================================================================
