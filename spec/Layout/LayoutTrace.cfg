SPECIFICATION Spec
POSTCONDITION Consumed
