SPECIFICATION Spec
CONSTANT Pairs = {5, 9, 29}
INVARIANT OnlyLayout
POSTCONDITION Export
