-------------------------------- MODULE MC_Layout --------------------------------
(* TLC enumerates the variant space of Layout.tla; every variant is a state, the token     *)
(* sequence obtained by dropping fillers and folding case is checked to be the canonical   *)
(* one (the variant changes nothing but layout), and the space is exported as cases.       *)
EXTENDS Layout, Json, IOUtils, SequencesExt
CONSTANT Pairs    \* set of form indices for which two gaps are varied together

Variants == {v \in OneGap : Valid(v)} \cup {v \in TwoGaps(Pairs) : Valid(v)} \cup {v \in CaseVariants : ValidCase(v)} \cup Whole \cup TailV

VARIABLES v, toks, phase
vars == <<v, toks, phase>>
(* the token/filler assignment of a variant: sequence of [s, fill, casing] *)
Assign(x) ==
  LET f == Forms[x.f].toks IN
  [i \in 1..Len(f) |->
     [s |-> f[i].s, sp |-> f[i].sp, g |-> f[i].g,
      fill |-> CASE x.kind \in {"gap", "gap2"} /\ i = x.i -> x.fill
                 [] x.kind = "gap2" /\ i = x.j -> x.fill2
                 [] x.kind = "allcomment" /\ f[i].g # "none" -> "/* k */"
                 [] x.kind = "alltabs" /\ f[i].g # "none" /\ f[i].sp = " " -> "\t"
                 [] x.kind = "crlf" /\ f[i].sp = "\n" -> "\r\n"
                 [] OTHER -> "=",                      \* "=" : keep the canonical separator
      casing |-> CASE x.kind = "case" /\ i = x.i -> x.fill
                   [] x.kind = "allupper" /\ f[i].c -> "upper"
                   [] OTHER -> "lower"]]
Init == v \in Variants /\ toks = <<>> /\ phase = "case"
Lay == phase = "case" /\ phase' = "done" /\ toks' = Assign(v) /\ UNCHANGED v
Next == Lay
Spec == Init /\ [][Next]_vars
(* a variant never touches the terminals themselves, never fills a gap the grammar forbids, and only re-cases case-variable terminals *)
OnlyLayout == phase = "done" =>
   /\ [i \in 1..Len(toks) |-> toks[i].s] = [i \in 1..Len(Forms[v.f].toks) |-> Forms[v.f].toks[i].s]
   /\ \A i \in 1..Len(toks) : (toks[i].g = "none" => toks[i].fill = "=") /\ (toks[i].casing # "lower" => Forms[v.f].toks[i].c)
   /\ \A i \in 1..Len(toks) : toks[i].fill = "=" \/ toks[i].fill \in Fillers(toks[i].g)
Export == ndJsonSerialize(IOEnv.OUT, SetToSeq({[v |-> x, form |-> Forms[x.f].name, toks |-> Assign(x)] : x \in Variants}))
================================================================================
