-------------------------------- MODULE LayoutTrace --------------------------------
(* impl -> spec for C08: the observation of a layout/case variant against that of the canonical *)
(* spelling of the same statement form.  Record: [id, can, var] with                              *)
(*   obs = [ok, panic, segs <<[name, start, bytes]>>, syms <<[path, kind, val]>>, msgs <<string>>]   *)
EXTENDS Integers, Sequences, TLC, Json, IOUtils
Rec == ndJsonDeserialize(IOEnv.TRACE)
VARIABLES l, bad
vars == <<l, bad>>
V(id, verdict, dev, why) == [id |-> id, verdict |-> verdict, dev |-> dev, why |-> why]

SameMeaning(a, b) == /\ a.ok = b.ok
                     /\ a.ok => (a.segs = b.segs /\ a.syms = b.syms)
                     /\ ~a.ok => a.msgs = b.msgs            \* the same diagnostics apart from their positions
Judge(r) ==
  IF r.var.panic THEN <<V(r.id, "violation", "", "a layout/case variant crashes the assembler")>>
  ELSE IF SameMeaning(r.can, r.var) THEN <<>>
  ELSE <<V(r.id, "violation", "", "a layout/case variant changes bytes, symbols or diagnostics")>>

Init == l = 1 /\ bad = <<>>
Step == l <= Len(Rec) /\ bad' = bad \o Judge(Rec[l]) /\ l' = l + 1
Finish == l = Len(Rec) + 1 /\ ndJsonSerialize(IOEnv.OUT, bad) /\ l' = l + 1 /\ UNCHANGED bad
Next == Step \/ Finish
Spec == Init /\ [][Next]_vars
Consumed == TLCGet("stats").diameter >= Len(Rec) + 1
================================================================================
