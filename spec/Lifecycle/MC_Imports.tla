-------------------------------- MODULE MC_Imports --------------------------------
EXTENDS Imports, Json, IOUtils, SequencesExt
(* spec -> impl: every import graph over the files, with the model's verdict *)
Graphs == [Files -> ImportSets]
Cyclic(g) == LET R[n \in 0..Cardinality(Files)] == IF n = 0 THEN {<<f, h>> \in Files \X Files : h \in g[f]}
                                                   ELSE R[n - 1] \cup {<<f, h>> \in Files \X Files : \E m \in Files : <<f, m>> \in R[n - 1] /\ h \in g[m]}
             IN \E f \in Files : <<f, f>> \in R[Cardinality(Files)]
Reach(g) == LET R[n \in 0..Cardinality(Files)] == IF n = 0 THEN {"main"} ELSE R[n - 1] \cup UNION {g[f] \cap Files : f \in R[n - 1]} IN R[Cardinality(Files)]
Export == TLCGet("stats").diameter >= 0 /\ ndJsonSerialize(IOEnv.OUT, SetToSeq({[graph |-> [f \in Files |-> SetToSeq(g[f])], cyclic |-> \E f \in Reach(g) : \E h \in Reach(g) : Cyclic([x \in Files |-> IF x \in Reach(g) THEN g[x] ELSE {}]),
                                                  missing |-> \E f \in Reach(g) : Missing \in g[f]] : g \in Graphs}))
================================================================================
