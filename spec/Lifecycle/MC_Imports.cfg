SPECIFICATION Spec
CONSTANTS Files = {"main", "a", "b"} DetectCycles = TRUE MaxDepth = 4
INVARIANT NoOverflow
INVARIANT Depth
PROPERTY Ends
POSTCONDITION Export
