--------------------------------- MODULE MC_Arith ---------------------------------
EXTENDS Arith, Json, IOUtils, SequencesExt
Export == ndJsonSerialize(IOEnv.OUT, SetToSeq({[site |-> x.site, arg |-> x.arg, ctx |-> x.ctx, ideal |-> Ideal(x)] : x \in Cases}))
================================================================================
