--------------------------------- MODULE Imports ---------------------------------
(* C06, import graphs.  A project is a set of files, each importing up to two others (or a   *)
(* missing file).  Parsing uses a work list with de-duplication and always terminates.       *)
(* Emission follows the imports recursively: Enter pushes the imported file on the emission  *)
(* stack.  DetectCycles = FALSE is the pinned commit (a cycle recurses until the stack        *)
(* overflows); TRUE is the repaired reading (re-entering a file on the stack is a diagnostic).*)
EXTENDS Integers, Sequences, FiniteSets, TLC
CONSTANTS Files, DetectCycles, MaxDepth
Missing == "missing"
Targets == Files \cup {Missing}
ImportSets == {S \in SUBSET Targets : Cardinality(S) <= 2}

VARIABLES graph, parsed, todo, stack, pending, diags, phase
vars == <<graph, parsed, todo, stack, pending, diags, phase>>
(* pending: for every stack level the set of imports still to be emitted *)
Init == /\ graph \in [Files -> ImportSets]
        /\ parsed = {} /\ todo = {"main"} /\ stack = <<>> /\ pending = <<>> /\ diags = 0 /\ phase = "parse"
ParseOne == /\ phase = "parse" /\ todo # {}
            /\ \E f \in todo :
                 /\ parsed' = parsed \cup {f}
                 /\ todo' = (todo \ {f}) \cup {g \in graph[f] : g # Missing /\ g \notin parsed /\ g # f}
                 /\ diags' = diags + (IF Missing \in graph[f] THEN 1 ELSE 0)
            /\ UNCHANGED <<graph, stack, pending, phase>>
ParseDone == /\ phase = "parse" /\ todo = {}
             /\ phase' = IF diags > 0 THEN "diagnosed" ELSE "emit"
             /\ stack' = IF diags > 0 THEN <<>> ELSE <<"main">>
             /\ pending' = IF diags > 0 THEN <<>> ELSE <<graph["main"]>>
             /\ UNCHANGED <<graph, parsed, todo, diags>>
Top == Len(stack)
OnStack(f) == \E i \in 1..Len(stack) : stack[i] = f
Enter == /\ phase = "emit" /\ Top > 0 /\ pending[Top] # {}
         /\ \E g \in pending[Top] :
              IF DetectCycles /\ OnStack(g)
                THEN /\ diags' = diags + 1 /\ pending' = [pending EXCEPT ![Top] = @ \ {g}] /\ UNCHANGED <<stack, phase>>
              ELSE IF Top >= MaxDepth
                THEN /\ phase' = "overflow" /\ UNCHANGED <<stack, pending, diags>>       \* the native stack is finite
              ELSE /\ stack' = Append(stack, g) /\ pending' = Append([pending EXCEPT ![Top] = @ \ {g}], graph[g])
                   /\ UNCHANGED <<diags, phase>>
         /\ UNCHANGED <<graph, parsed, todo>>
Leave == /\ phase = "emit" /\ Top > 0 /\ pending[Top] = {}
         /\ stack' = SubSeq(stack, 1, Top - 1) /\ pending' = SubSeq(pending, 1, Top - 1)
         /\ phase' = IF Top = 1 THEN (IF diags > 0 THEN "diagnosed" ELSE "binary") ELSE "emit"
         /\ UNCHANGED <<graph, parsed, todo, diags>>
Next == ParseOne \/ ParseDone \/ Enter \/ Leave
Spec == Init /\ [][Next]_vars /\ WF_vars(Next)

(* C06: no import graph overflows the stack; every run ends with a binary or diagnostics *)
NoOverflow == phase # "overflow"
Ends == <>(phase \in {"binary", "diagnosed", "overflow"})
Depth == Len(stack) <= MaxDepth
================================================================================
