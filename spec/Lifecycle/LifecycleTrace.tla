------------------------------ MODULE LifecycleTrace ------------------------------
(* impl -> spec for C06.  Record: [id, end, site, files (set as sequence), events, hazard]  *)
(* site = normalised panic site ("<file>: <message prefix>") or "" ; hazard = the class of   *)
(* the TLC-generated hazard case or "" for other inputs; ideal = Arith!Ideal of the case when   *)
(* it is evaluated in its context ("diagnostic" / "value-or-diagnostic" / "").                   *)
EXTENDS Lifecycle, Json, IOUtils
Rec == ndJsonDeserialize(IOEnv.TRACE)
VARIABLES l, bad
vars == <<l, bad>>
V(id, verdict, dev, why) == [id |-> id, verdict |-> verdict, dev |-> dev, why |-> why]

Judge(r) ==
  LET files == {r.files[i] : i \in 1..Len(r.files)} IN
  IF r.end = "panic" THEN <<V(r.id, "deviation", "Panic:" \o r.site, "panicked in stage " \o r.stage)>>
  ELSE IF r.end = "abort" THEN <<V(r.id, "deviation", "Abort:" \o r.hazard, "process aborted (stack overflow / signal)")>>
  ELSE IF r.end = "hang" THEN <<V(r.id, "deviation", "Hang:" \o r.hazard, "no result within the watchdog time")>>
  ELSE IF ~WellOrdered(r.events) THEN <<V(r.id, "violation", "", "lifecycle events out of order")>>
  ELSE IF \E i \in 1..Len(r.events) : r.events[i].ev = "codegen" /\ ~LoopEnded(r.events[i])
         THEN <<V(r.id, "deviation", "PassLoop:" \o r.hazard, "the pass loop revisits a state / hits the pass cap: it would not terminate")>>
  ELSE IF \E i \in 1..Len(r.events) : r.events[i].ev \in {"codegen", "parsed", "merge"} /\ ~DiagsOk(r.events[i], files)
         THEN <<V(r.id, "violation", "", "a diagnostic location lies outside the project's files")>>
  ELSE IF r.ideal = "diagnostic" /\ ~\E i \in 1..Len(r.events) : r.events[i].ev \in {"codegen", "parsed", "merge"} /\ Len(r.events[i].diags) > 0
         THEN <<V(r.id, "violation", "", "an operation outside its domain was accepted silently (neither value nor diagnostic is meaningful here)")>>
  ELSE <<>>

Init == l = 1 /\ bad = <<>>
Step == l <= Len(Rec) /\ bad' = bad \o Judge(Rec[l]) /\ l' = l + 1
Finish == l = Len(Rec) + 1 /\ ndJsonSerialize(IOEnv.OUT, bad) /\ l' = l + 1 /\ UNCHANGED bad
Next == Step \/ Finish
Spec == Init /\ [][Next]_vars
Consumed == TLCGet("stats").diameter >= Len(Rec) + 1
================================================================================
