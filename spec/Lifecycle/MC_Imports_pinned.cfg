SPECIFICATION Spec
CONSTANTS Files = {"main", "a"} DetectCycles = FALSE MaxDepth = 4
INVARIANT NoOverflow
