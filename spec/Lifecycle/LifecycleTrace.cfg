SPECIFICATION Spec
POSTCONDITION Consumed
