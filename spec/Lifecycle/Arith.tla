---------------------------------- MODULE Arith ----------------------------------
(* C06, hazard table: every partial operation the evaluator and the directives perform, with  *)
(* argument classes at and beyond the edges of its domain, in every context in which the     *)
(* code may be visited.  The ideal outcome of a case is a value or a diagnostic -- never a    *)
(* crash, a hang or an abort.  TLC enumerates the table; the harness renders each case.       *)
EXTENDS Integers, Sequences, FiniteSets, TLC

Sites == {"literal", "shl", "shl-lhs", "shr", "div", "div-lhs", "mod", "mul", "add", "sub", "neg",
          "align", "loop", "setpc", "seg-start", "seg-pc", "bank-size", "bank-fill", "byte", "branch",
          "seg-name", "bank-name", "useseg-name", "test-name", "nested-call", "macro-recursion", "macro-mutual",
          "shadow-segments", "interp-number", "text-number", "if-string",
          "seg-redefine", "seg-redefine-moved", "bank-redefine",       \* a definition repeated after code was emitted to it
          "seg-target-low", "seg-target-high", "seg-storage-high", "loop-nested",
          "macro-recursion-untaken", "macro-mutual-untaken",
          "mixed-types", "mixed-types-insn", "macro-value", "seg-start-string",
          "import-super", "import-as-super", "import-super-path",   \* `super' where an import expects a name of the imported file
          "import-into-itself",    \* `.import x, x as x.y': the second name would be exported into the first one
          "seg-use-before-define", \* code for a segment in front of its definition: the definition starts the segment afresh, the code would be missing
          "macro-fanout", "macro-fanout-mutual",    \* a macro that invokes itself twice per expansion: depth 64 bounds 2^64 expansions
          "nested-defined", "macro-blocks-3", "macro-blocks-95", "macro-ifs-40",   \* depth that exists only after expansion: blocks x macro recursion
          "loop-untaken-loop",     \* iterations spent inside an untaken branch (analysis mode) count towards the pass budget too
          "segblock-untaken", "segblock-untaken-own",          \* an untaken branch inside a `.segment' block inside an untaken branch / uninvoked macro, and code after it
          "deep-braces", "deep-parens", "long-chain", "nested-calls", "unclosed-parens"}      \* size, not value: recursion and backtracking          \* operands no pass can ever make sense of      \* recursion only through a branch that is not taken (the analysis mode visits it)
NumericSites == {"literal", "shl", "shl-lhs", "shr", "div", "div-lhs", "mod", "mul", "add", "sub", "neg",
                 "align", "loop", "setpc", "seg-start", "seg-pc", "bank-size", "bank-fill", "byte", "branch", "loop-nested"}
(* argument classes (rendered by the harness): zero, minus one, one, 63, 64, 65, 2^16 (the size of the address space), 2^31, 2^63-1, -2^63 (as 0 - 2^63-1 - 1),
   a literal wider than 64 bits in each radix *)
Args == {"0", "-1", "1", "63", "64", "65", "2^16", "2^31", "2^63-1", "-2^63", "wide-dec", "wide-hex", "wide-bin"}
Contexts == {"top", "macro-uninvoked", "macro-invoked", "if-untaken", "if-taken", "loop", "scope"}

Cases == {[site |-> s, arg |-> a, ctx |-> c] : s \in NumericSites, a \in Args, c \in Contexts}
         \cup {[site |-> s, arg |-> "-", ctx |-> c] : s \in Sites \ NumericSites, c \in {"top", "macro-uninvoked", "if-untaken", "scope"}}

(* what the operation means where it is defined; everywhere else a diagnostic is the ideal outcome *)
Ideal(c) ==
  CASE c.site \in {"seg-name", "bank-name", "useseg-name"} -> "diagnostic"      \* a name containing '.' (a test name may be a path)
    [] c.site \in {"nested-call"} -> "value"
    [] c.site \in {"macro-recursion", "macro-mutual", "macro-fanout", "macro-fanout-mutual", "import-into-itself", "seg-use-before-define"} -> "diagnostic"
    [] c.site \in {"seg-target-low", "seg-target-high", "seg-storage-high"} -> "diagnostic"
    [] c.site \in {"mixed-types", "mixed-types-insn", "macro-value", "seg-start-string"} -> "diagnostic"
    [] c.site \in {"seg-redefine", "seg-redefine-moved", "bank-redefine"} -> "diagnostic"
    [] c.site \in {"nested-calls", "unclosed-parens", "nested-defined", "macro-blocks-3", "macro-blocks-95", "macro-ifs-40"} -> "diagnostic"
    [] c.site \in {"import-super", "import-as-super", "import-super-path"} -> "diagnostic"   \* one image cannot hold both definitions    \* never "nothing emitted, build succeeds"          \* code of a relocated segment outside $0000-$FFFF on its target side
    [] c.site = "align" /\ c.arg \in {"0", "-1", "-2^63"} -> "diagnostic"
    [] c.site \in {"div", "mod"} /\ c.arg = "0" -> "value-or-diagnostic"
    [] c.arg \in {"wide-dec", "wide-hex", "wide-bin"} -> "diagnostic"
    [] OTHER -> "value-or-diagnostic"
NeverCrash == \A c \in Cases : Ideal(c) \in {"value", "diagnostic", "value-or-diagnostic"}

VARIABLES c, phase
vars == <<c, phase>>
Init == c \in Cases /\ phase = "case"
Classify == phase = "case" /\ phase' = Ideal(c) /\ UNCHANGED c
Next == Classify
Spec == Init /\ [][Next]_vars
TypeOK == phase \in {"case", "value", "diagnostic", "value-or-diagnostic"}
================================================================================
