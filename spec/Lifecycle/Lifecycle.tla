-------------------------------- MODULE Lifecycle --------------------------------
(* C06: the life of one run of the tool chain on one project, as an acceptance automaton.   *)
(*   start -> parsed -> format* -> [ build passes -> merge -> symbols -> listing* ] -> [ greedy passes ] -> done *)
(* A run is clean when it ends in "done" without panic, hang or abort, every pass loop ends  *)
(* by itself after a bounded number of passes, a project that parses and                     *)
(* assembles without diagnostics yields listings, and every location a diagnostic carries    *)
(* lies inside an existing file of the project.                                              *)
EXTENDS Integers, Sequences, FiniteSets, TLC

Phases == {"init", "started", "parsed", "formatted", "built", "merged", "exported", "listed", "analysed"}
(* which event may follow in which phase, and the phase it leads to *)
NextPhase(ph, e) ==
  CASE ph = "init"      /\ e.ev = "start"   -> "started"
    [] ph = "started"   /\ e.ev = "parsed"  -> "parsed"
    [] ph \in {"parsed", "formatted"} /\ e.ev = "format"  -> "formatted"
    [] ph \in {"parsed", "formatted"} /\ e.ev = "codegen" /\ e.mode = "build" -> "built"
    [] ph = "built"     /\ e.ev = "merge"   -> "merged"          \* BinaryWriter::merge_segments, as `mos build' runs it after codegen
    [] ph = "merged"    /\ e.ev = "symbols" -> "exported"        \* to_vice_symbols
    [] ph \in {"exported", "listed"} /\ e.ev = "listing" -> "listed"
    [] ph \in {"built", "exported", "listed"} /\ e.ev = "codegen" /\ e.mode = "greedy" -> "analysed"
    [] OTHER -> "reject"

RECURSIVE Walk(_, _, _)
Walk(evs, i, ph) == IF i > Len(evs) THEN ph
                    ELSE LET n == NextPhase(ph, evs[i]) IN IF n = "reject" THEN "reject" ELSE Walk(evs, i + 1, n)
WellOrdered(evs) == Walk(evs, 1, "init") # "reject"

Distinct(ds) == Cardinality({ds[i] : i \in 1..Len(ds)}) = Len(ds)
(* a pass loop that ended by itself within the bound the observer allows (the assembler's own bound is lower) *)
LoopEnded(e) == ~e.capped
(* diagnostics point into existing files *)
LocOk(d, files) == ~d.located \/ (d.file \in files /\ d.line >= 1 /\ d.line <= d.nlines /\ d.col >= 1)
DiagsOk(e, files) == \A i \in 1..Len(e.diags) : LocOk(e.diags[i], files)

Codegens(evs) == SelectSeq(evs, LAMBDA e : e.ev = "codegen")
WithDiags(evs) == SelectSeq(evs, LAMBDA e : e.ev \in {"codegen", "parsed", "merge"})
================================================================================
