SPECIFICATION Spec
INVARIANT TypeOK
POSTCONDITION Export
