-------------------------------- MODULE MC_Isa --------------------------------
(* Design-level exploration of the encoder: every (mnemonic, form, value, address) of the *)
(* bounded domain is a state; invariants state what C01 demands of the bytes.             *)
(* The same domain is exported as test cases for the implementation (spec -> impl).       *)
EXTENDS Isa6502, TLC, Json, IOUtils, SequencesExt

Boundary == {0, 1, 127, 128, 254, 255, 256, 257, 4095, 32768, 65534, 65535, 65536, 65537, 16777216}
CONSTANT ExtraVals
Vals  == Boundary \cup ExtraVals
Addrs == {4096}

BranchMn == {m \in Mnemonics : IsBranch(m)}
Dist == -140..140
BAddr == 4352   \* $1100

VARIABLES mn, form, v, addr, res, phase
vars == <<mn, form, v, addr, res, phase>>

(* encoding cases: every mnemonic x form x value;  branch cases: every branch x distance *)
EncCases == {[kind |-> "enc", mn |-> m, form |-> f, v |-> x, addr |-> a] :
               m \in Mnemonics, f \in Forms, x \in Vals, a \in Addrs}
BrCases  == {[kind |-> "br", mn |-> m, form |-> "dir", v |-> BAddr + 2 + d, addr |-> BAddr] :
               m \in BranchMn, d \in Dist}
Cases == EncCases \cup BrCases

Init == /\ \E c \in Cases : mn = c.mn /\ form = c.form /\ v = c.v /\ addr = c.addr
        /\ res = UNSPEC /\ phase = "case"
Assemble == /\ phase = "case" /\ phase' = "done"
            /\ res' = Encode(mn, form, v, addr)
            /\ UNCHANGED <<mn, form, v, addr>>
Next == Assemble
Spec == Init /\ [][Next]_vars

TypeOK == res.k \in {"bytes", "err", "unspec"}
(* what C01 says about produced bytes *)
Shape == (phase = "done" /\ res.k = "bytes") =>
            /\ Len(res.b) \in 1..3
            /\ \A i \in 1..Len(res.b) : res.b[i] \in 0..255
            /\ \E t \in Table : t[1] = mn /\ t[3] = res.b[1]          \* opcode belongs to the mnemonic
            /\ form = "imp" <=> Len(res.b) = 1
ZpExactly == (phase = "done" /\ res.k = "bytes" /\ ~IsBranch(mn) /\ form # "imp") =>
            LET t == CHOOSE t \in Table : t[1] = mn /\ t[3] = res.b[1] IN
            /\ (Len(res.b) = 2) <=> (v <= 255 /\ OpcOf(mn, Short(form)) # NONE)
            /\ Len(res.b) = 2 => res.b[2] = v
            /\ Len(res.b) = 3 => res.b[2] + 256 * res.b[3] = v
            /\ t[2] \in {Short(form), Long(form)}
Rejects == (phase = "done") =>
            /\ (form = "imm" /\ v > 255) => res.k = "err"
            /\ (OpcOf(mn, Short(form)) = NONE /\ OpcOf(mn, Long(form)) = NONE /\ ~(form = "imp" /\ Opc[mn]["imp"] # NONE)
                  /\ ~(IsBranch(mn) /\ form = "dir")) => res.k = "err"
TableOK == TableFunctional /\ TableInjective /\ TableSize
(* relative branches: signed displacement from the next instruction, or rejected *)
BranchRule == (phase = "done" /\ IsBranch(mn) /\ form = "dir") =>
            LET d == v - (addr + 2) IN
            IF d \in -128..127
              THEN res.k = "bytes" /\ Len(res.b) = 2 /\
                   (IF res.b[2] >= 128 THEN res.b[2] - 256 ELSE res.b[2]) = d
              ELSE res.k = "err"

(* spec -> impl: export the case domain once the exploration is complete *)
Export == ndJsonSerialize(IOEnv.OUT, SetToSeq(Cases))
================================================================================
