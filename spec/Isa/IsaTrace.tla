-------------------------------- MODULE IsaTrace --------------------------------
(* impl -> spec: judge what the real assembler produced for each case against Encode.    *)
(* One record per step.  A record is                                                     *)
(*   [id, kind \in {"enc","br","pair","seq"}, mn, form, v, addr, ok, bytes, ndiags, ...]   *)
(* pair records carry a, b (bytes of each statement assembled alone, from the same run)   *)
(* and smn/sform/tform (the shapes of the two statements, used only to name the witness   *)
(* of a known deviation).  br records carry pcafter (pc after the branch, or -1).          *)
EXTENDS Isa6502, TLC, Json, IOUtils, SequencesExt

Rec == ndJsonDeserialize(IOEnv.TRACE)

VARIABLES l, bad
vars == <<l, bad>>

V(id, verdict, dev, why) == [id |-> id, verdict |-> verdict, dev |-> dev, why |-> why]

JudgeEnc(r) ==
  LET e == Encode(r.mn, r.form, r.v, r.addr) IN
  IF e.k = "unspec" THEN <<>>
  ELSE IF e.k = "bytes"
    THEN IF r.ok /\ r.bytes = e.b /\ (r.pcafter = -1 \/ r.pcafter = r.addr + Len(e.b)) THEN <<>>
         ELSE <<V(r.id, "violation", "", "expected bytes differ or rejected")>>
  ELSE \* must be rejected
    IF ~r.ok /\ r.ndiags >= 1 THEN <<>>
    ELSE IF IsBranch(r.mn) /\ r.form = "dir" /\ r.v = 0 /\ r.bytes = <<Opc[r.mn]["rel"], 0>>
      THEN <<V(r.id, "deviation", "BranchToZeroAccepted", "out-of-range branch to literal address 0 assembles")>>
    ELSE <<V(r.id, "violation", "", "accepted a combination that must be rejected")>>

JudgePair(r) ==
  IF r.ok /\ r.bytes = r.a \o r.b THEN <<>>
  ELSE IF r.smn \in {"asl","lsr","rol","ror"} /\ r.sform = "imp" /\ r.tform \in {"indx","indy","ind","macrocall"}
    THEN <<V(r.id, "deviation", "OperandCrossesNewline", "asl/lsr/rol/ror followed by a line starting with name-paren")>>
  ELSE <<V(r.id, "violation", "", "pair does not assemble to the concatenation")>>

(* process level: `mos build` of the one-instruction program; the .prg file is the load address followed by the encoding *)
JudgeProc(r) ==
  LET e == Encode(r.mn, r.form, r.v, r.addr) IN
  IF e.k = "unspec" THEN <<>>
  ELSE IF e.k = "bytes"
    THEN IF r.exit = 0 /\ r.file = <<Lo(r.addr), Hi(r.addr)>> \o e.b THEN <<>>
         ELSE <<V(r.id, "violation", "", "mos build: the .prg file is not load address + encoding")>>
  ELSE IF r.exit # 0 /\ r.file = <<>> THEN <<>>
  ELSE <<V(r.id, "violation", "", "mos build accepted a combination that must be rejected (or wrote a file)")>>

(* one statement assembled several times with different operand values - the iterations of a `.loop' whose operand mentions  *)
(* `index', the calls of a macro whose operand is its parameter: items = <<[mn, form, v]>> in emission order.  Every instance *)
(* is encoded on its own (the zero-page form exactly for ITS value), the image is the concatenation.                          *)
RECURSIVE SeqBytes(_, _, _)
SeqBytes(items, i, addr) ==
  IF i > Len(items) THEN [k |-> "bytes", b |-> <<>>]
  ELSE LET e == Encode(items[i].mn, items[i].form, items[i].v, addr) IN
       IF e.k # "bytes" THEN e
       ELSE LET rest == SeqBytes(items, i + 1, addr + Len(e.b)) IN
            IF rest.k # "bytes" THEN rest ELSE [k |-> "bytes", b |-> e.b \o rest.b]
JudgeSeq(r) ==
  LET e == SeqBytes(r.items, 1, r.addr) IN
  IF e.k = "unspec" THEN <<>>
  ELSE IF e.k = "bytes"
    THEN IF r.ok /\ r.bytes = e.b THEN <<>>
         ELSE <<V(r.id, "violation", "", "instances of one statement with different operand values are not each encoded on their own")>>
  ELSE IF ~r.ok /\ r.ndiags >= 1 THEN <<>>
  ELSE <<V(r.id, "violation", "", "accepted an instance that must be rejected")>>

Judge(r) == IF r.kind = "seq" THEN JudgeSeq(r) ELSE IF r.kind = "pair" THEN JudgePair(r) ELSE IF r.kind = "proc" THEN JudgeProc(r) ELSE JudgeEnc(r)

Init == l = 1 /\ bad = <<>>
Step == /\ l <= Len(Rec)
        /\ bad' = bad \o Judge(Rec[l])
        /\ l' = l + 1
Finish == /\ l = Len(Rec) + 1
          /\ ndJsonSerialize(IOEnv.OUT, bad)
          /\ l' = l + 1 /\ UNCHANGED bad
Next == Step \/ Finish
Spec == Init /\ [][Next]_vars
Consumed == TLCGet("stats").diameter >= Len(Rec) + 1
================================================================================
