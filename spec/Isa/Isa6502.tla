-------------------------------- MODULE Isa6502 --------------------------------
(* The MOS 6502 instruction set as the assembler must implement it (property C01).      *)
(* Written from the ISA (151 official opcodes), not from the implementation's table.    *)
(* `Encode' is the reference: for a mnemonic, a *syntactic* operand form, an operand    *)
(* value and the address of the instruction it yields the bytes, ERR (must be rejected) *)
(* or UNSPEC (the property is silent; any behaviour is accepted).                       *)
EXTENDS Integers, Sequences, FiniteSets

Mnemonics ==
  {"adc","and","asl","bcc","bcs","beq","bit","bmi","bne","bpl","brk","bvc","bvs","clc",
   "cld","cli","clv","cmp","cpx","cpy","dec","dex","dey","eor","inc","inx","iny","jmp",
   "jsr","lda","ldx","ldy","lsr","nop","ora","pha","php","pla","plp","rol","ror","rti",
   "rts","sbc","sec","sed","sei","sta","stx","sty","tax","tay","tsx","txa","txs","tya"}

(* ISA addressing modes *)
IsaModes == {"imp","imm","zp","zpx","zpy","abs","absx","absy","indx","indy","ind","rel"}

(* syntactic operand forms of the assembler language:                                   *)
(*  none  #e   e    e,x    e,y    (e,x)   (e),y   (e)    (e,y)    (e),x                 *)
(* and the forms with a register in both places or on an immediate, which no ISA mode    *)
(* corresponds to:  (e,x),y  (e,x),x  (e,y),x  (e,y),y   #e,x  #e,y                       *)
Forms == {"imp","imm","dir","dirx","diry","indx","indy","ind","indy_inner","indx_outer",
          "indx_y","indx_x","indy_x","indy_y","imm_x","imm_y"}

Table == {
  <<"adc","imm",\h69>>, <<"adc","zp",\h65>>, <<"adc","zpx",\h75>>, <<"adc","abs",\h6D>>,
  <<"adc","absx",\h7D>>, <<"adc","absy",\h79>>, <<"adc","indx",\h61>>, <<"adc","indy",\h71>>,
  <<"and","imm",\h29>>, <<"and","zp",\h25>>, <<"and","zpx",\h35>>, <<"and","abs",\h2D>>,
  <<"and","absx",\h3D>>, <<"and","absy",\h39>>, <<"and","indx",\h21>>, <<"and","indy",\h31>>,
  <<"asl","imp",\h0A>>, <<"asl","zp",\h06>>, <<"asl","zpx",\h16>>, <<"asl","abs",\h0E>>, <<"asl","absx",\h1E>>,
  <<"bcc","rel",\h90>>, <<"bcs","rel",\hB0>>, <<"beq","rel",\hF0>>, <<"bmi","rel",\h30>>,
  <<"bne","rel",\hD0>>, <<"bpl","rel",\h10>>, <<"bvc","rel",\h50>>, <<"bvs","rel",\h70>>,
  <<"bit","zp",\h24>>, <<"bit","abs",\h2C>>,
  <<"brk","imp",\h00>>,
  <<"clc","imp",\h18>>, <<"cld","imp",\hD8>>, <<"cli","imp",\h58>>, <<"clv","imp",\hB8>>,
  <<"cmp","imm",\hC9>>, <<"cmp","zp",\hC5>>, <<"cmp","zpx",\hD5>>, <<"cmp","abs",\hCD>>,
  <<"cmp","absx",\hDD>>, <<"cmp","absy",\hD9>>, <<"cmp","indx",\hC1>>, <<"cmp","indy",\hD1>>,
  <<"cpx","imm",\hE0>>, <<"cpx","zp",\hE4>>, <<"cpx","abs",\hEC>>,
  <<"cpy","imm",\hC0>>, <<"cpy","zp",\hC4>>, <<"cpy","abs",\hCC>>,
  <<"dec","zp",\hC6>>, <<"dec","zpx",\hD6>>, <<"dec","abs",\hCE>>, <<"dec","absx",\hDE>>,
  <<"dex","imp",\hCA>>, <<"dey","imp",\h88>>,
  <<"eor","imm",\h49>>, <<"eor","zp",\h45>>, <<"eor","zpx",\h55>>, <<"eor","abs",\h4D>>,
  <<"eor","absx",\h5D>>, <<"eor","absy",\h59>>, <<"eor","indx",\h41>>, <<"eor","indy",\h51>>,
  <<"inc","zp",\hE6>>, <<"inc","zpx",\hF6>>, <<"inc","abs",\hEE>>, <<"inc","absx",\hFE>>,
  <<"inx","imp",\hE8>>, <<"iny","imp",\hC8>>,
  <<"jmp","abs",\h4C>>, <<"jmp","ind",\h6C>>,
  <<"jsr","abs",\h20>>,
  <<"lda","imm",\hA9>>, <<"lda","zp",\hA5>>, <<"lda","zpx",\hB5>>, <<"lda","abs",\hAD>>,
  <<"lda","absx",\hBD>>, <<"lda","absy",\hB9>>, <<"lda","indx",\hA1>>, <<"lda","indy",\hB1>>,
  <<"ldx","imm",\hA2>>, <<"ldx","zp",\hA6>>, <<"ldx","zpy",\hB6>>, <<"ldx","abs",\hAE>>, <<"ldx","absy",\hBE>>,
  <<"ldy","imm",\hA0>>, <<"ldy","zp",\hA4>>, <<"ldy","zpx",\hB4>>, <<"ldy","abs",\hAC>>, <<"ldy","absx",\hBC>>,
  <<"lsr","imp",\h4A>>, <<"lsr","zp",\h46>>, <<"lsr","zpx",\h56>>, <<"lsr","abs",\h4E>>, <<"lsr","absx",\h5E>>,
  <<"nop","imp",\hEA>>,
  <<"ora","imm",\h09>>, <<"ora","zp",\h05>>, <<"ora","zpx",\h15>>, <<"ora","abs",\h0D>>,
  <<"ora","absx",\h1D>>, <<"ora","absy",\h19>>, <<"ora","indx",\h01>>, <<"ora","indy",\h11>>,
  <<"pha","imp",\h48>>, <<"php","imp",\h08>>, <<"pla","imp",\h68>>, <<"plp","imp",\h28>>,
  <<"rol","imp",\h2A>>, <<"rol","zp",\h26>>, <<"rol","zpx",\h36>>, <<"rol","abs",\h2E>>, <<"rol","absx",\h3E>>,
  <<"ror","imp",\h6A>>, <<"ror","zp",\h66>>, <<"ror","zpx",\h76>>, <<"ror","abs",\h6E>>, <<"ror","absx",\h7E>>,
  <<"rti","imp",\h40>>, <<"rts","imp",\h60>>,
  <<"sbc","imm",\hE9>>, <<"sbc","zp",\hE5>>, <<"sbc","zpx",\hF5>>, <<"sbc","abs",\hED>>,
  <<"sbc","absx",\hFD>>, <<"sbc","absy",\hF9>>, <<"sbc","indx",\hE1>>, <<"sbc","indy",\hF1>>,
  <<"sec","imp",\h38>>, <<"sed","imp",\hF8>>, <<"sei","imp",\h78>>,
  <<"sta","zp",\h85>>, <<"sta","zpx",\h95>>, <<"sta","abs",\h8D>>, <<"sta","absx",\h9D>>,
  <<"sta","absy",\h99>>, <<"sta","indx",\h81>>, <<"sta","indy",\h91>>,
  <<"stx","zp",\h86>>, <<"stx","zpy",\h96>>, <<"stx","abs",\h8E>>,
  <<"sty","zp",\h84>>, <<"sty","zpx",\h94>>, <<"sty","abs",\h8C>>,
  <<"tax","imp",\hAA>>, <<"tay","imp",\hA8>>, <<"tsx","imp",\hBA>>,
  <<"txa","imp",\h8A>>, <<"txs","imp",\h9A>>, <<"tya","imp",\h98>> }

NONE == -1

(* Opc[mn][mode] : opcode byte or NONE.  A constant, evaluated once by TLC. *)
Opc == [mn \in Mnemonics |-> [m \in IsaModes |->
          IF \E t \in Table : t[1] = mn /\ t[2] = m
          THEN (CHOOSE t \in Table : t[1] = mn /\ t[2] = m)[3] ELSE NONE]]

IsBranch(mn) == Opc[mn]["rel"] # NONE

(* one-byte-operand and two-byte-operand ISA modes a syntactic form can denote *)
Short(form) == CASE form = "imm"  -> "imm"
                 [] form = "dir"  -> "zp"
                 [] form = "dirx" -> "zpx"
                 [] form = "diry" -> "zpy"
                 [] form = "indx" -> "indx"
                 [] form = "indy" -> "indy"
                 [] OTHER -> "none"
Long(form)  == CASE form = "dir"  -> "abs"
                 [] form = "dirx" -> "absx"
                 [] form = "diry" -> "absy"
                 [] form = "ind"  -> "ind"
                 [] OTHER -> "none"
OpcOf(mn, mode) == IF mode = "none" THEN NONE ELSE Opc[mn][mode]

Lo(v) == v % 256
Hi(v) == (v \div 256) % 256

Bytes(b) == [k |-> "bytes", b |-> b]
ERR      == [k |-> "err", b |-> <<>>]
UNSPEC   == [k |-> "unspec", b |-> <<>>]

(* The reference encoder.  addr = address of the instruction's first byte. *)
Encode(mn, form, v, addr) ==
  IF form = "imp"
    THEN IF Opc[mn]["imp"] # NONE THEN Bytes(<<Opc[mn]["imp"]>>) ELSE ERR
  ELSE IF IsBranch(mn)
    THEN IF form # "dir" THEN ERR
         ELSE LET d == v - (addr + 2) IN
              IF d >= -128 /\ d <= 127 THEN Bytes(<<Opc[mn]["rel"], d % 256>>) ELSE ERR
  ELSE LET s == OpcOf(mn, Short(form))
           l == OpcOf(mn, Long(form)) IN
       IF s = NONE /\ l = NONE THEN ERR                    \* combination not defined by the ISA
       ELSE IF v < 0 THEN UNSPEC                           \* property is silent on negative operands
       ELSE IF v <= 255
            THEN IF s # NONE THEN Bytes(<<s, v>>)          \* zero-page/one-byte form exactly when one exists
                 ELSE Bytes(<<l, Lo(v), Hi(v)>>)
       ELSE IF l = NONE THEN ERR                           \* immediate > 255, or only a one-byte form exists
       ELSE IF v <= 65535 THEN Bytes(<<l, Lo(v), Hi(v)>>)
       ELSE UNSPEC                                         \* absolute operand beyond 16 bits: silent

Length(mn, form, v, addr) == LET e == Encode(mn, form, v, addr) IN IF e.k = "bytes" THEN Len(e.b) ELSE 0

(* ---- sanity of the table itself, model-checked by MC_Isa ---- *)
Legal == {<<t[1], t[2]>> : t \in Table}
TableFunctional == \A t, u \in Table : (t[1] = u[1] /\ t[2] = u[2]) => t[3] = u[3]
TableInjective  == \A t, u \in Table : t[3] = u[3] => t = u
TableSize       == Cardinality(Table) = 151 /\ Cardinality({t[1] : t \in Table}) = 56
================================================================================
