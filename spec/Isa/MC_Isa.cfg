SPECIFICATION Spec
CONSTANT ExtraVals = {}
INVARIANT TypeOK
INVARIANT Shape
INVARIANT ZpExactly
INVARIANT Rejects
INVARIANT BranchRule
INVARIANT TableOK
POSTCONDITION Export
