SPECIFICATION Spec
POSTCONDITION Consumed
