--------------------------------- MODULE Expr ---------------------------------
(* Expressions of the mos assembler as documented (property C03).                        *)
(*   Eval(t, env, pc)  value of an expression tree: [k|->"num",n] / [k|->"str",s] / UNDEF   *)
(*   Render(t)         token sequence; parentheses are inserted wherever the documentation *)
(*                     fixes no precedence (only {* / %} over {+ -} and left association   *)
(*                     inside one class / of one operator are relied upon)                *)
(*   Store(v, w)       low 8w bits, little-endian;  TextBytes(enc, s)                      *)
(* Strings are sequences of character codes; names are TLA+ strings.                      *)
(* UNDEF marks expressions outside the property's domain (overflow beyond 2^30 -- TLC's   *)
(* integers are 32 bit --, division by zero, shift counts outside 0..31, shifts/modifiers  *)
(* of negative numbers): the judge accepts anything there.                                *)
EXTENDS Integers, Sequences, FiniteSets

MAXV == 1073741824   \* 2^30: every intermediate value must stay inside +-MAXV

Num(n) == [k |-> "num", n |-> n]
Str(s) == [k |-> "str", s |-> s]
UNDEF  == [k |-> "undef"]
IsNum(v) == v.k = "num"
IsStr(v) == v.k = "str"
Abs(x) == IF x < 0 THEN -x ELSE x
InRange(x) == x >= -MAXV /\ x <= MAXV
Chk(x) == IF InRange(x) THEN Num(x) ELSE UNDEF
B(b) == Num(IF b THEN 1 ELSE 0)

RECURSIVE Pow2(_)
Pow2(n) == IF n = 0 THEN 1 ELSE 2 * Pow2(n - 1)

MulC == {"*", "/", "%"}
AddC == {"+", "-"}
ShiftC == {"<<", ">>", "^"}
CmpC == {"==", "!=", ">", ">=", "<", "<="}
LogC == {"&&", "||"}
BinOps == MulC \cup AddC \cup ShiftC \cup CmpC \cup LogC

(* truncating division, as every assembler implements "ordinary integer arithmetic" *)
TDiv(a, b) == LET q == Abs(a) \div Abs(b) IN IF (a < 0) # (b < 0) THEN -q ELSE q
TMod(a, b) == a - b * TDiv(a, b)

RECURSIVE XorNat(_, _)
XorNat(a, b) == IF a = 0 THEN b ELSE IF b = 0 THEN a
                ELSE (((a % 2) + (b % 2)) % 2) + (2 * XorNat(a \div 2, b \div 2))

ApplyNum(op, a, b) ==
  CASE op = "+"  -> Chk(a + b)
    [] op = "-"  -> Chk(a - b)
    [] op = "*"  -> IF a = 0 \/ b = 0 THEN Num(0)
                    ELSE IF Abs(a) <= MAXV \div Abs(b) THEN Chk(a * b) ELSE UNDEF
    [] op = "/"  -> IF b = 0 THEN UNDEF ELSE Num(TDiv(a, b))
    [] op = "%"  -> IF b = 0 THEN UNDEF ELSE Num(TMod(a, b))
    [] op = "<<" -> IF a < 0 \/ b < 0 THEN UNDEF
                    ELSE IF b > 30 THEN (IF a = 0 THEN Num(0) ELSE UNDEF)
                    ELSE IF a <= MAXV \div Pow2(b) THEN Num(a * Pow2(b)) ELSE UNDEF
    [] op = ">>" -> IF a < 0 \/ b < 0 THEN UNDEF                  \* any count, also beyond the word size: floor(a / 2^b)
                    ELSE IF b > 30 THEN Num(0) ELSE Num(a \div Pow2(b))
    [] op = "^"  -> IF a < 0 \/ b < 0 THEN UNDEF ELSE Num(XorNat(a, b))
    [] op = "==" -> B(a = b)
    [] op = "!=" -> B(a # b)
    [] op = ">"  -> B(a > b)
    [] op = ">=" -> B(a >= b)
    [] op = "<"  -> B(a < b)
    [] op = "<=" -> B(a <= b)
    [] op = "&&" -> B(a # 0 /\ b # 0)
    [] op = "||" -> B(a # 0 \/ b # 0)

ApplyStr(op, a, b) ==
  CASE op = "+"  -> Str(a \o b)
    [] op = "==" -> B(a = b)
    [] op = "!=" -> B(a # b)
    [] OTHER -> UNDEF          \* the documentation defines no other string operator

(* decimal digits of a natural number, as character codes *)
RECURSIVE DecNat(_)
DecNat(n) == IF n < 10 THEN <<48 + n>> ELSE Append(DecNat(n \div 10), 48 + (n % 10))
Dec(n) == IF n < 0 THEN <<45>> \o DecNat(-n) ELSE DecNat(n)
AsString(v) == IF IsStr(v) THEN v.s ELSE Dec(v.n)

Defined(env, name) == name \in DOMAIN env

(* Tree shapes (field k):
     num  [n, radix \in {"dec","hex","bin"}, lz]      number literal with lz leading zeros
     bool [b]                                          true / false
     id   [name, mod \in {"", "<", ">"}]              identifier with optional byte modifier
     pc                                                the current program counter *
     par  [e]        fac [nt, ng, e]  (! and - flags on a factor)       def [name]  defined(name)
     bin  [op, l, r]
     istr [parts]    string literal; parts: sequence of [lit |-> codes] / [ref |-> name]   *)
RECURSIVE Eval(_, _, _), Interp(_, _)
Interp(parts, env) ==
  IF parts = <<>> THEN Str(<<>>)
  ELSE LET p == Head(parts)
           rest == Interp(Tail(parts), env) IN
       IF rest.k = "undef" THEN UNDEF
       ELSE IF "lit" \in DOMAIN p THEN Str(p.lit \o rest.s)
       ELSE IF ~Defined(env, p.ref) THEN UNDEF
       ELSE Str(AsString(env[p.ref]) \o rest.s)

Eval(t, env, pc) ==
  CASE t.k = "num"  -> Num(t.n)
    [] t.k = "bool" -> B(t.b)
    [] t.k = "pc"   -> Num(pc)
    [] t.k = "par"  -> Eval(t.e, env, pc)
    [] t.k = "def"  -> B(Defined(env, t.name))
    [] t.k = "istr" -> Interp(t.parts, env)
    [] t.k = "id"   ->
         IF ~Defined(env, t.name) THEN UNDEF
         ELSE LET v == env[t.name] IN
              IF t.mod = "" THEN v
              ELSE IF ~IsNum(v) \/ v.n < 0 THEN UNDEF
              ELSE IF t.mod = "<" THEN Num(v.n % 256) ELSE Num((v.n \div 256) % 256)
    [] t.k = "fac"  ->
         LET v == Eval(t.e, env, pc) IN
         IF ~IsNum(v) THEN (IF t.nt \/ t.ng THEN UNDEF ELSE v)
         ELSE LET a == IF t.ng THEN -v.n ELSE v.n      \* "-x" negates ...
              IN IF t.nt THEN B(a = 0) ELSE Num(a)     \* ... and "!" of that is 1 for 0, else 0
    [] t.k = "bin"  ->
         LET a == Eval(t.l, env, pc)
             b == Eval(t.r, env, pc) IN
         IF a.k = "undef" \/ b.k = "undef" THEN UNDEF
         ELSE IF IsNum(a) /\ IsNum(b) THEN ApplyNum(t.op, a.n, b.n)
         ELSE IF IsStr(a) /\ IsStr(b) THEN ApplyStr(t.op, a.s, b.s)
         ELSE UNDEF

(* ---------------------------------------------------------------- rendering *)
Tighter(a, b) == a \in MulC /\ b \in AddC
SameClass(a, b) == (a \in MulC /\ b \in MulC) \/ (a \in AddC /\ b \in AddC) \/ a = b

RECURSIVE Render(_)
(* every token is a record: [tok |-> "sym"/"pre"/"op", s] | [tok |-> "num", n, radix, lz] | [tok |-> "str", parts] *)
Sym(x) == [tok |-> "sym", s |-> x]
Pre(x) == [tok |-> "pre", s |-> x]     \* prefix (!, unary -, byte modifier): written directly before what follows
Paren(t) == <<Sym("(")>> \o Render(t) \o <<Sym(")")>>
Render(t) ==
  CASE t.k = "num"  -> <<[tok |-> "num", n |-> t.n, radix |-> t.radix, lz |-> t.lz]>>
    [] t.k = "wnum" -> <<[tok |-> "wnum", d |-> t.d, radix |-> t.radix, lz |-> t.lz]>>     \* literal beyond 32 bits (WideExpr.tla): magnitude as base-256 limbs
    [] t.k = "bool" -> <<Sym(IF t.b THEN "true" ELSE "false")>>
    [] t.k = "pc"   -> <<Sym("*")>>
    [] t.k = "par"  -> Paren(t.e)
    [] t.k = "def"  -> <<Sym("defined"), Sym("("), Sym(t.name), Sym(")")>>
    [] t.k = "istr" -> <<[tok |-> "str", parts |-> t.parts]>>
    [] t.k = "id"   -> (IF t.mod = "" THEN <<>> ELSE <<Pre(t.mod)>>) \o <<Sym(t.name)>>
    [] t.k = "fac"  -> (IF t.nt THEN <<Pre("!")>> ELSE <<>>) \o (IF t.ng THEN <<Pre("-")>> ELSE <<>>) \o Render(t.e)
    [] t.k = "bin"  ->
         LET lp == t.l.k = "bin" /\ ~(SameClass(t.l.op, t.op) \/ Tighter(t.l.op, t.op))
             rp == t.r.k = "bin" /\ ~Tighter(t.r.op, t.op) IN
         (IF lp THEN Paren(t.l) ELSE Render(t.l)) \o <<[tok |-> "op", s |-> t.op]>> \o (IF rp THEN Paren(t.r) ELSE Render(t.r))

(* ---------------------------------------------------------------- storing *)
RECURSIVE Pow256(_)
Pow256(n) == IF n = 0 THEN 1 ELSE 256 * Pow256(n - 1)
(* low 8w bits little-endian; \div is floored, so negative values come out in two's complement *)
Store(v, w) == [i \in 1..w |-> (v \div Pow256(i - 1)) % 256]

(* character code -> byte for the encodings, over the unambiguous ASCII subset:
   space..'?' (32..63), '@' (64), 'a'..'z' (97..122), '[' (91), ']' (93) *)
TextDomain == (32..64) \cup (97..122) \cup {91, 93}
(* the Commodore encodings also have the pound sign and the two arrows (U+00A3, U+2191, U+2190) at $5C, $5E, $5F *)
CbmOnly == {163, 8593, 8592}
DomainOf(enc) == IF enc \in {"petscii", "petscreen"} THEN TextDomain \cup CbmOnly ELSE TextDomain
Petscii(c) == CASE c >= 97 /\ c <= 122 -> c - 32
                [] c = 163 -> 92 [] c = 8593 -> 94 [] c = 8592 -> 95
                [] OTHER -> c
Screen(p) == IF p >= 64 /\ p <= 95 THEN p - 64 ELSE p
TextBytes(enc, s) ==
  CASE enc \in {"ascii", ""} -> s
    [] enc = "petscii"   -> [i \in 1..Len(s) |-> Petscii(s[i])]
    [] enc = "petscreen" -> [i \in 1..Len(s) |-> Screen(Petscii(s[i]))]
================================================================================
