------------------------------- MODULE MC_ExprSim -------------------------------
(* Deeper expression trees than the exhaustive domain of MC_Expr, by TLC simulation:      *)
(* a tree grows by wrapping it with a binary operator and a fresh leaf on either side,    *)
(* by parenthesising it under a flag, or by becoming the operand of a comparison.         *)
(* Every tree reached at depth D is printed as a case for the implementation.             *)
EXTENDS ExprEnv, TLC, Json
CONSTANT D
VARIABLES tree, d
vars == <<tree, d>>
SimLeaves == {N(1,"dec",0), N(2,"dec",0), N(3,"bin",2), N(7,"dec",1), N(10,"hex",0), N(255,"hex",0), Id("ca",""), Id("cb",""), Id("cw","<"), [k |-> "pc"]}
Init == tree \in SimLeaves /\ d = 0
Grow == /\ d < D /\ d' = d + 1
        /\ \/ \E op \in BinOps, f \in Flagged(SimLeaves) : tree' = Bin(op, tree, f)
           \/ \E op \in BinOps, f \in Flagged(SimLeaves) : tree' = Bin(op, f, tree)
           \/ \E f \in Flags \ {<<FALSE, FALSE>>} : tree' = Fac(f[1], f[2], Par(tree))
Next == Grow
Spec == Init /\ [][Next]_vars
Emit == d < D \/ PrintT(<<"CASE", ToJson([tree |-> tree, toks |-> Render(tree), dir |-> "dword", enc |-> ""])>>)
================================================================================
