SPECIFICATION Spec
CONSTANT D = 3
INVARIANT Emit
