-------------------------------- MODULE ExprEnv --------------------------------
(* The fixed environment every C03 case is evaluated in, and the case domain.      *)
(* The harness renders the same environment as .const definitions and a label.     *)
EXTENDS Expr

PC0 == 8192   \* $2000: origin; the label lbl and the data directive both sit here
Env == [ca |-> Num(5), cb |-> Num(-3), cw |-> Num(4660), cz |-> Num(0), cf |-> Num(1193046), fa |-> Num(8), lbl |-> Num(PC0),   \* cf = $123456: wider than an address
        sa |-> Str(<<97, 98>>), sb |-> Str(<<99>>)]

N(n, radix, lz) == [k |-> "num", n |-> n, radix |-> radix, lz |-> lz]
Id(name, mod)   == [k |-> "id", name |-> name, mod |-> mod]
Fac(nt, ng, e)  == [k |-> "fac", nt |-> nt, ng |-> ng, e |-> e]
Bin(op, l, r)   == [k |-> "bin", op |-> op, l |-> l, r |-> r]
Par(e)          == [k |-> "par", e |-> e]
Lit(s)          == [k |-> "istr", parts |-> <<[lit |-> s]>>]

Leaves == { N(0,"dec",0), N(1,"dec",0), N(2,"dec",0), N(3,"bin",2), N(7,"dec",1), N(31,"dec",0),
            N(255,"hex",0), N(256,"hex",1), N(65535,"hex",0), N(100000,"dec",0),
            [k |-> "bool", b |-> TRUE], [k |-> "bool", b |-> FALSE],
            Id("ca",""), Id("cb",""), Id("cw",""), Id("cz",""), Id("lbl",""),
            Id("cw","<"), Id("cw",">"), Id("lbl","<"), Id("lbl",">"), Id("cf","<"), Id("cf",">"), Id("fa",""), [k |-> "def", name |-> "fa"],
            [k |-> "pc"], [k |-> "def", name |-> "ca"], [k |-> "def", name |-> "nope"] }
Flags == {<<FALSE,FALSE>>, <<TRUE,FALSE>>, <<FALSE,TRUE>>, <<TRUE,TRUE>>}
Flagged(S) == {IF f[1] \/ f[2] THEN Fac(f[1], f[2], e) ELSE e : f \in Flags, e \in S}
Small5 == { N(0,"dec",0), N(1,"dec",0), Id("ca",""), Id("cb",""), N(256,"hex",1) }
Small3 == { N(7,"dec",1), N(2,"dec",0), Id("cb","") }
Small4 == Small3 \cup { N(256,"hex",1) }

SetA == Flagged(Leaves) \cup {Fac(f[1], f[2], Par(e)) : f \in Flags \ {<<FALSE,FALSE>>}, e \in Small5}
SetB == {Bin(op, l, r) : op \in BinOps, l \in Leaves, r \in Leaves}
SetC == {Bin(op, l, r) : op \in BinOps, l \in Flagged(Small5), r \in Flagged(Small5)}
SetD(S) == {Bin(o2, Bin(o1, a, b), c) : o1 \in BinOps, o2 \in BinOps, a \in S, b \in S, c \in S}
      \cup {Bin(o2, a, Bin(o1, b, c)) : o1 \in BinOps, o2 \in BinOps, a \in S, b \in S, c \in S}
(* a flagged parenthesised operation as the left or the right operand of another operation: -(a + b) * c, c - !(a == b) *)
E2 == { N(7,"dec",1), Id("cb","") }
SetE == {Bin(o2, Fac(f[1], f[2], Par(Bin(o1, a, b))), c) : o1 \in {"+", "*", "==", "&&"}, o2 \in BinOps, f \in Flags \ {<<FALSE,FALSE>>}, a \in E2, b \in E2, c \in Small3}
   \cup {Bin(o2, c, Fac(f[1], f[2], Par(Bin(o1, a, b)))) : o1 \in {"+", "*", "==", "&&"}, o2 \in BinOps, f \in Flags \ {<<FALSE,FALSE>>}, a \in E2, b \in E2, c \in Small3}
StrLeaves == { Id("sa",""), Id("sb",""), Lit(<<97, 98>>), Lit(<<>>), Lit(<<104, 105, 32, 49, 33>>), Lit(<<97, 163, 98>>), Lit(<<8593, 8592>>),
               [k |-> "istr", parts |-> <<[lit |-> <<120>>], [ref |-> "sa"], [lit |-> <<121>>]>>],
               [k |-> "istr", parts |-> <<[ref |-> "ca"], [ref |-> "sb"]>>],
               [k |-> "istr", parts |-> <<[ref |-> "cb"]>>] }
SetS == StrLeaves \cup {Bin(op, l, r) : op \in {"+", "==", "!="}, l \in StrLeaves, r \in StrLeaves}
             \cup {Bin("+", Bin("+", a, b), c) : a \in {Id("sa","")}, b \in StrLeaves, c \in {Id("sb","")}}

NumCases(T) == {[tree |-> t, dir |-> "dword", enc |-> ""] : t \in T}
NarrowCases(T) == {[tree |-> t, dir |-> d, enc |-> ""] : t \in T, d \in {"byte", "word"}}
StrCases == {[tree |-> t, dir |-> "text", enc |-> e] : t \in SetS, e \in {"", "ascii", "petscii", "petscreen"}}
            \cup {[tree |-> t, dir |-> "byte", enc |-> ""] : t \in {x \in SetS : x.k = "bin" /\ x.op # "+"}}
================================================================================
