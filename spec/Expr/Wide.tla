--------------------------------- MODULE Wide ---------------------------------
(* Integers wider than TLC's 32 bits, as sign + little-endian base-256 magnitude.          *)
(* The assembler computes in 64-bit integers and property C03 speaks of "ordinary integer  *)
(* arithmetic"; Expr.tla can only follow it inside +-2^30.  This module gives the same     *)
(* operations on arbitrary magnitudes, so that the expression semantics (WideExpr.tla) is  *)
(* decided on the whole 64-bit domain.  Base 256 makes a limb a byte: Store and the byte   *)
(* modifiers read limbs directly.                                                          *)
(*   W(neg, d): d is trimmed (no most-significant zero limbs), zero is [FALSE, <<>>].      *)
(* MC_Wide.tla checks every operation against TLC's native integers on a domain that      *)
(* crosses limb boundaries, and the algebraic laws on 64-bit values.                       *)
EXTENDS Integers, Sequences

RECURSIVE Trim(_)
Trim(s) == IF s = <<>> THEN s ELSE IF s[Len(s)] = 0 THEN Trim(SubSeq(s, 1, Len(s) - 1)) ELSE s
W(neg, d) == LET t == Trim(d) IN [neg |-> neg /\ t # <<>>, d |-> t]
WZero == [neg |-> FALSE, d |-> <<>>]
WOne  == [neg |-> FALSE, d |-> <<1>>]
IsZero(w) == w.d = <<>>
Limb(s, i) == IF i >= 1 /\ i <= Len(s) THEN s[i] ELSE 0
MaxN(a, b) == IF a > b THEN a ELSE b

(* ------------------------------------------------------------ native <-> wide *)
RECURSIVE NatLimbs(_)
NatLimbs(n) == IF n = 0 THEN <<>> ELSE <<n % 256>> \o NatLimbs(n \div 256)
FromInt(n) == IF n < 0 THEN W(TRUE, NatLimbs(-n)) ELSE W(FALSE, NatLimbs(n))
RECURSIVE MagInt(_)
MagInt(s) == IF s = <<>> THEN 0 ELSE s[1] + 256 * MagInt(Tail(s))
SmallEnough(w) == Len(w.d) <= 3 \/ (Len(w.d) = 4 /\ w.d[4] < 64)      \* |w| < 2^30
ToInt(w) == IF w.neg THEN -MagInt(w.d) ELSE MagInt(w.d)                \* only where SmallEnough(w)

(* ------------------------------------------------------------ magnitudes *)
RECURSIVE CmpFrom(_, _, _)
CmpFrom(a, b, i) == IF i = 0 THEN 0 ELSE IF a[i] # b[i] THEN (IF a[i] < b[i] THEN -1 ELSE 1) ELSE CmpFrom(a, b, i - 1)
CmpMag(a, b) == IF Len(a) # Len(b) THEN (IF Len(a) < Len(b) THEN -1 ELSE 1) ELSE CmpFrom(a, b, Len(a))

RECURSIVE AddFrom(_, _, _, _)
AddFrom(a, b, i, c) ==
  IF i > MaxN(Len(a), Len(b)) THEN (IF c = 0 THEN <<>> ELSE <<c>>)
  ELSE LET s == Limb(a, i) + Limb(b, i) + c IN <<s % 256>> \o AddFrom(a, b, i + 1, s \div 256)
AddMag(a, b) == Trim(AddFrom(a, b, 1, 0))

RECURSIVE SubFrom(_, _, _, _)
SubFrom(a, b, i, br) ==       \* a >= b
  IF i > Len(a) THEN <<>>
  ELSE LET s == a[i] - Limb(b, i) - br IN <<(s + 256) % 256>> \o SubFrom(a, b, i + 1, IF s < 0 THEN 1 ELSE 0)
SubMag(a, b) == Trim(SubFrom(a, b, 1, 0))

RECURSIVE MulSmallFrom(_, _, _, _)
MulSmallFrom(a, m, i, c) ==   \* m in 0..255
  IF i > Len(a) THEN (IF c = 0 THEN <<>> ELSE <<c>>)
  ELSE LET s == a[i] * m + c IN <<s % 256>> \o MulSmallFrom(a, m, i + 1, s \div 256)
MulSmall(a, m) == Trim(MulSmallFrom(a, m, 1, 0))
ShiftLimbs(a, k) == IF a = <<>> THEN a ELSE [i \in 1..k |-> 0] \o a

RECURSIVE MulFrom(_, _, _)
MulFrom(a, b, j) == IF j > Len(b) THEN <<>> ELSE AddMag(ShiftLimbs(MulSmall(a, b[j]), j - 1), MulFrom(a, b, j + 1))
MulMag(a, b) == MulFrom(a, b, 1)

(* largest q in lo..hi with q * b <= r  (b # 0, lo * b <= r) *)
RECURSIVE QDigit(_, _, _, _)
QDigit(b, r, lo, hi) ==
  IF lo = hi THEN lo
  ELSE LET mid == (lo + hi + 1) \div 2 IN
       IF CmpMag(MulSmall(b, mid), r) <= 0 THEN QDigit(b, r, mid, hi) ELSE QDigit(b, r, lo, mid - 1)
(* schoolbook long division, most significant limb first: <<quotient, remainder>> *)
RECURSIVE DivFrom(_, _, _, _)
DivFrom(a, b, i, rem) ==
  IF i = 0 THEN <<<<>>, rem>>
  ELSE LET r1 == Trim(<<a[i]>> \o rem)
           q  == QDigit(b, r1, 0, 255)
           r2 == SubMag(r1, MulSmall(b, q))
           rest == DivFrom(a, b, i - 1, r2) IN
       <<rest[1] \o <<q>>, rest[2]>>
DivModMag(a, b) == LET r == DivFrom(a, b, Len(a), <<>>) IN <<Trim(r[1]), r[2]>>

(* ------------------------------------------------------------ signed *)
WNeg(a) == W(~a.neg, a.d)
WAdd(a, b) ==
  IF a.neg = b.neg THEN W(a.neg, AddMag(a.d, b.d))
  ELSE LET c == CmpMag(a.d, b.d) IN
       IF c = 0 THEN WZero ELSE IF c > 0 THEN W(a.neg, SubMag(a.d, b.d)) ELSE W(b.neg, SubMag(b.d, a.d))
WSub(a, b) == WAdd(a, WNeg(b))
WMul(a, b) == W(a.neg # b.neg, MulMag(a.d, b.d))
WCmp(a, b) ==      \* -1, 0, 1
  IF a.neg # b.neg THEN (IF a.neg THEN -1 ELSE 1)
  ELSE IF a.neg THEN CmpMag(b.d, a.d) ELSE CmpMag(a.d, b.d)
(* truncating division: the quotient rounds towards zero, the remainder has the sign of the dividend *)
WTDiv(a, b) == W(a.neg # b.neg, DivModMag(a.d, b.d)[1])
WTMod(a, b) == W(a.neg, DivModMag(a.d, b.d)[2])

RECURSIVE Pow2S(_)
Pow2S(n) == IF n = 0 THEN 1 ELSE 2 * Pow2S(n - 1)
(* non-negative a, count k >= 0 *)
WShl(a, k) == W(FALSE, ShiftLimbs(MulSmall(a.d, Pow2S(k % 8)), k \div 8))
WShr(a, k) == IF k \div 8 >= Len(a.d) THEN WZero
              ELSE W(FALSE, DivModMag(SubSeq(a.d, (k \div 8) + 1, Len(a.d)), <<Pow2S(k % 8)>>)[1])
RECURSIVE XorByte(_, _)
XorByte(a, b) == IF a = 0 THEN b ELSE IF b = 0 THEN a ELSE (((a % 2) + (b % 2)) % 2) + (2 * XorByte(a \div 2, b \div 2))
WXor(a, b) == W(FALSE, [i \in 1..MaxN(Len(a.d), Len(b.d)) |-> XorByte(Limb(a.d, i), Limb(b.d, i))])

(* fits a signed 64-bit integer: -2^63 .. 2^63 - 1 *)
FitsI64(w) == \/ Len(w.d) <= 7
              \/ Len(w.d) = 8 /\ w.d[8] < 128
              \/ w.neg /\ w.d = <<0, 0, 0, 0, 0, 0, 0, 128>>

(* low n bytes, little-endian, two's complement for negatives *)
RECURSIVE NegBytes(_, _, _, _)
NegBytes(d, i, n, carry) ==   \* (~x + 1) limb by limb
  IF i > n THEN <<>>
  ELSE LET s == (255 - Limb(d, i)) + carry IN <<s % 256>> \o NegBytes(d, i + 1, n, s \div 256)
WStore(w, n) == IF w.neg THEN NegBytes(w.d, 1, n, 1) ELSE [i \in 1..n |-> Limb(w.d, i)]

(* decimal digits as character codes *)
RECURSIVE DecMag(_)
DecMag(d) == IF d = <<>> THEN <<>>
             ELSE LET qr == DivModMag(d, <<10>>) IN DecMag(qr[1]) \o <<48 + MagInt(qr[2])>>
WDec(w) == IF IsZero(w) THEN <<48>> ELSE (IF w.neg THEN <<45>> ELSE <<>>) \o DecMag(w.d)
================================================================================
