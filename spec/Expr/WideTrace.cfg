SPECIFICATION Spec
POSTCONDITION Consumed
