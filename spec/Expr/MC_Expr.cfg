SPECIFICATION Spec
CONSTANT Deep = FALSE
INVARIANT TypeOK
INVARIANT CmpBool
INVARIANT DivLaw
INVARIANT StoreLaw
INVARIANT Balanced
POSTCONDITION Export
