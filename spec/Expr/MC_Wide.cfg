SPECIFICATION Spec
CONSTANT Deep = FALSE
INVARIANT TypeOK
INVARIANT Agree
INVARIANT Laws
INVARIANT StoreLaw
INVARIANT DecLaw
POSTCONDITION Export
CHECK_DEADLOCK FALSE
