-------------------------------- MODULE MC_Expr --------------------------------
(* Design-level exploration of the expression semantics over the bounded tree domain, *)
(* with algebraic laws as invariants, and export of the domain as implementation cases *)
EXTENDS ExprEnv, TLC, Json, IOUtils, SequencesExt
CONSTANT Deep   \* TRUE: depth-2 trees over four leaves (thorough), FALSE: over three (quick)

Cases == NumCases(SetA) \cup NumCases(SetB) \cup NumCases(SetC)
         \cup NumCases(SetD(IF Deep THEN Small4 ELSE Small3)) \cup NumCases(SetE)
         \cup NarrowCases(SetA) \cup NarrowCases({t \in SetB : t.op \in {"+", "-", "*"}})
         \cup StrCases

VARIABLES c, val, phase
vars == <<c, val, phase>>
Init == c \in Cases /\ val = UNDEF /\ phase = "case"
Evaluate == phase = "case" /\ phase' = "done" /\ val' = Eval(c.tree, Env, PC0) /\ UNCHANGED c
Next == Evaluate
Spec == Init /\ [][Next]_vars

TypeOK == val.k \in {"num", "str", "undef"}
(* comparisons and logical operators yield 0 or 1 *)
CmpBool == (phase = "done" /\ c.tree.k = "bin" /\ c.tree.op \in CmpC \cup LogC /\ val.k # "undef") => val.n \in {0, 1}
(* ordinary integer arithmetic: the division law and the sign of the remainder *)
DivLaw == (phase = "done" /\ c.tree.k = "bin" /\ c.tree.op \in {"/", "%"} /\ val.k = "num") =>
            LET a == Eval(c.tree.l, Env, PC0).n
                b == Eval(c.tree.r, Env, PC0).n IN
            /\ a = b * TDiv(a, b) + TMod(a, b)
            /\ Abs(TMod(a, b)) < Abs(b)
            /\ (TMod(a, b) = 0 \/ (TMod(a, b) < 0) = (a < 0))
(* bytes of a 16 bit value recombine *)
ByteLaw == \A v \in {0, 255, 256, 4660, 65535} : (v % 256) + 256 * ((v \div 256) % 256) = v
(* stored bytes recombine to the value (two's complement for negatives) *)
StoreLaw == (phase = "done" /\ val.k = "num") =>
            LET s == Store(val.n, 4)
                u == s[1] + 256 * s[2] + 65536 * s[3] + 16777216 * (s[4] % 128) IN
            /\ \A i \in 1..4 : s[i] \in 0..255
            /\ (val.n >= 0 => (s[4] < 128 /\ u = val.n))
            /\ (val.n < 0  => (s[4] >= 128 /\ u - 1073741824 - 1073741824 = val.n))
(* rendering is balanced *)
RECURSIVE Depth(_, _)
Depth(toks, d) == IF toks = <<>> THEN d
                  ELSE IF d < 0 THEN -1
                  ELSE Depth(Tail(toks), IF Head(toks).s = "(" THEN d + 1 ELSE IF Head(toks).s = ")" THEN d - 1 ELSE d)
Balanced == phase = "case" => LET r == Render(c.tree)
                                  ps == SelectSeq(r, LAMBDA x : x.tok = "sym" /\ x.s \in {"(", ")"}) IN Depth(ps, 0) = 0

Export == ndJsonSerialize(IOEnv.OUT, SetToSeq({[tree |-> x.tree, dir |-> x.dir, enc |-> x.enc, toks |-> Render(x.tree)] : x \in Cases}))
================================================================================
