-------------------------------- MODULE MC_Wide --------------------------------
(* Design level for the 64-bit part of C03.                                                *)
(*  1. Wide.tla's operations are TLC's native integer operations wherever both exist       *)
(*     (NativeAgree: a constant-level check over a domain that crosses limb boundaries).   *)
(*  2. WEval refines Eval: on ExprEnv's whole case domain the wide evaluator yields the     *)
(*     value Expr.tla yields whenever Expr.tla defines one (Agree).                        *)
(*  3. On the 64-bit case domain the results obey ordinary integer arithmetic (Laws),      *)
(*     fit 64 bits and are normalised; the domain is exported for the implementation.      *)
EXTENDS WideEnv, TLC, Json, IOUtils, SequencesExt
CONSTANT Deep

S1 == {-16777217, -16777216, -65537, -65536, -65535, -257, -256, -255, -2, -1, 0, 1, 2, 3, 7, 10, 127, 128, 255, 256, 257, 4095, 65535, 65536, 65537, 16777215, 16777216, 1000000}
S2 == {-32768, -257, -256, -255, -3, -1, 0, 1, 2, 10, 255, 256, 257, 1000, 32767}
NatS == {x \in S1 : x >= 0}
NativeAgree ==
  /\ \A a \in S1 : ToInt(FromInt(a)) = a /\ FromInt(a).d = Trim(FromInt(a).d)
  /\ \A a \in S1, b \in S1 : /\ ToInt(WAdd(FromInt(a), FromInt(b))) = a + b
                             /\ ToInt(WSub(FromInt(a), FromInt(b))) = a - b
                             /\ WCmp(FromInt(a), FromInt(b)) = (IF a < b THEN -1 ELSE IF a = b THEN 0 ELSE 1)
                             /\ b # 0 => /\ ToInt(WTDiv(FromInt(a), FromInt(b))) = TDiv(a, b)
                                         /\ ToInt(WTMod(FromInt(a), FromInt(b))) = TMod(a, b)
  /\ \A a \in S2, b \in S2 : ToInt(WMul(FromInt(a), FromInt(b))) = a * b
  /\ \A a \in NatS, b \in NatS : ToInt(WXor(FromInt(a), FromInt(b))) = XorNat(a, b)
  /\ \A a \in {0, 1, 3, 255, 256, 1000}, k \in 0..20 : /\ ToInt(WShl(FromInt(a), k)) = a * Pow2(k)
                                                       /\ ToInt(WShr(FromInt(a * Pow2(k) + (Pow2(k) - 1)), k)) = a
  /\ \A a \in S1, n \in 1..4 : WStore(FromInt(a), n) = Store(a, n)
  /\ \A a \in S1 : WDec(FromInt(a)) = Dec(a)
ASSUME NativeAgree

OldCases == NumCases(SetA) \cup NumCases(SetB) \cup NumCases(SetC) \cup NumCases(SetD(Small3)) \cup NumCases(SetE) \cup StrCases
Cases == {[c EXCEPT !.old = TRUE] : c \in {[tree |-> x.tree, dir |-> x.dir, enc |-> x.enc, old |-> TRUE] : x \in OldCases}}
         \cup {[tree |-> x.tree, dir |-> x.dir, enc |-> x.enc, old |-> FALSE] : x \in WCases(Deep)}

VARIABLES c, val, phase
vars == <<c, val, phase>>
Init == c \in Cases /\ val = UNDEF /\ phase = "case"
Evaluate == phase = "case" /\ phase' = "done" /\ val' = WEval(c.tree, WEnv, PC0) /\ UNCHANGED c
Next == Evaluate
Spec == Init /\ [][Next]_vars

TypeOK == phase = "done" => \/ val.k \in {"str", "undef"}
                            \/ val.k = "wnum" /\ FitsI64(val.w) /\ val.w.d = Trim(val.w.d) /\ (val.w.neg => val.w.d # <<>>)
                                              /\ \A i \in 1..Len(val.w.d) : val.w.d[i] \in 0..255
(* the wide evaluator refines Expr.tla's: same value wherever Expr.tla defines one, undefined only where it is undefined too *)
Agree == (phase = "done" /\ c.old) =>
           LET v == Eval(c.tree, Env, PC0) IN
           /\ v.k # "undef" => val = Widen(v)
           /\ val.k = "undef" => v.k = "undef"
(* ordinary integer arithmetic on 64-bit values *)
Laws == (phase = "done" /\ ~c.old /\ c.tree.k = "bin" /\ val.k = "wnum") =>
          LET a == WEval(c.tree.l, WEnv, PC0)
              b == WEval(c.tree.r, WEnv, PC0)
              op == c.tree.op IN
          (IsW(a) /\ IsW(b)) =>
          /\ op = "+" => WSub(val.w, b.w) = a.w /\ WSub(val.w, a.w) = b.w
          /\ op = "-" => WAdd(val.w, b.w) = a.w
          /\ op = "*" => (IsZero(b.w) \/ (WTDiv(val.w, b.w) = a.w /\ IsZero(WTMod(val.w, b.w))))
          /\ op \in {"/", "%"} => LET q == WTDiv(a.w, b.w)
                                      r == WTMod(a.w, b.w) IN
                                  /\ WAdd(WMul(b.w, q), r) = a.w
                                  /\ CmpMag(r.d, b.w.d) < 0
                                  /\ (IsZero(r) \/ r.neg = a.w.neg)
          /\ (op = "<<" /\ WCmp(b.w, W63) <= 0) => WShr(val.w, ToInt(b.w)) = a.w
          /\ op \in CmpC \cup LogC => val.w \in {WZero, WOne}
          /\ op = "<" => (val.w = WOne) = (WSub(a.w, b.w).neg)
(* stored bytes: eight bytes of two's complement recombine to the value (+ 2^64 for negatives); fewer bytes are a prefix *)
StoreLaw == (phase = "done" /\ val.k = "wnum") =>
              LET s8 == WStore(val.w, 8)
                  u  == W(FALSE, s8)
                  two64 == W(FALSE, <<0, 0, 0, 0, 0, 0, 0, 0, 1>>) IN
              /\ Len(s8) = 8 /\ \A i \in 1..8 : s8[i] \in 0..255
              /\ (IF val.w.neg THEN WAdd(val.w, two64) ELSE val.w) = u
              /\ \A n \in {1, 2, 4} : WStore(val.w, n) = SubSeq(s8, 1, n)
(* the decimal spelling reads back as the value *)
RECURSIVE ReadDec(_, _)
ReadDec(s, acc) == IF s = <<>> THEN acc ELSE ReadDec(Tail(s), W(FALSE, AddMag(MulSmall(acc.d, 10), NatLimbs(Head(s) - 48))))
DecLaw == (phase = "done" /\ val.k = "wnum") =>
            LET s == WDec(val.w) IN
            IF val.w.neg THEN Head(s) = 45 /\ ReadDec(Tail(s), WZero) = WNeg(val.w) ELSE ReadDec(s, WZero) = val.w

(* vacuity control, checked once at start-up: the 64-bit case domain reaches results beyond 32 bits of either sign, products *)
(* beyond 64 bits (outside the property), and truncating stores                                                                *)
ValOf(x) == WEval(x.tree, WEnv, PC0)
NonVacuous ==
  /\ \E x \in NumCases(WSetB) : LET v == ValOf(x) IN v.k = "wnum" /\ ~v.w.neg /\ Len(v.w.d) > 4
  /\ \E x \in NumCases(WSetB) : LET v == ValOf(x) IN v.k = "wnum" /\ v.w.neg /\ Len(v.w.d) > 4
  /\ \E x \in NumCases(WSetB) : x.tree.op = "*" /\ ValOf(x).k = "undef" /\ ValOf([x EXCEPT !.tree = x.tree.l]).k = "wnum" /\ ValOf([x EXCEPT !.tree = x.tree.r]).k = "wnum"
  /\ \E x \in NumCases(WSetB) : x.tree.op = "/" /\ LET v == ValOf(x) IN v.k = "wnum" /\ Len(v.w.d) > 4
  /\ \E x \in WStrCases : LET v == ValOf(x) IN v.k = "str" /\ Len(v.s) > 15
ASSUME NonVacuous

Export == ndJsonSerialize(IOEnv.OUT, SetToSeq({[tree |-> x.tree, dir |-> x.dir, enc |-> x.enc, toks |-> Render(x.tree)] : x \in WCases(Deep)}))
================================================================================
