------------------------------- MODULE WideTrace -------------------------------
(* impl -> spec for the 64-bit part of C03: the bytes the real assembler stored for       *)
(* `.byte/.word/.dword/.text <expr>` judged against WEval / WStore / TextBytes.            *)
(* Record: [id, tree, dir, enc, ok, bytes, ndiags].                                        *)
EXTENDS WideEnv, TLC, Json, IOUtils

Rec == ndJsonDeserialize(IOEnv.TRACE)
VARIABLES l, bad
vars == <<l, bad>>
V(id, verdict, dev, why) == [id |-> id, verdict |-> verdict, dev |-> dev, why |-> why]

Width(dir) == CASE dir = "byte" -> 1 [] dir = "word" -> 2 [] dir = "dword" -> 4 [] OTHER -> 0

Judge(r) ==
  LET v == WEval(r.tree, WEnv, PC0) IN
  IF v.k = "undef" THEN <<>>                                      \* outside the property's domain
  ELSE IF r.dir = "text"
    THEN IF v.k # "str" \/ \E i \in 1..Len(v.s) : v.s[i] \notin DomainOf(r.enc) THEN <<>>
         ELSE IF r.ok /\ r.bytes = TextBytes(r.enc, v.s) THEN <<>>
         ELSE <<V(r.id, "violation", "", "text bytes differ from TextBytes(enc, value)")>>
  ELSE IF v.k # "wnum" THEN <<>>                                  \* data directive on a string: unspecified
  ELSE IF r.ok /\ r.bytes = WStore(v.w, Width(r.dir)) THEN <<>>
  ELSE <<V(r.id, "violation", "", "stored bytes differ from the low bytes of the 64-bit value of the expression")>>

Init == l = 1 /\ bad = <<>>
Step == l <= Len(Rec) /\ bad' = bad \o Judge(Rec[l]) /\ l' = l + 1
Finish == l = Len(Rec) + 1 /\ ndJsonSerialize(IOEnv.OUT, bad) /\ l' = l + 1 /\ UNCHANGED bad
Next == Step \/ Finish
Spec == Init /\ [][Next]_vars
Consumed == TLCGet("stats").diameter >= Len(Rec) + 1
================================================================================
