------------------------------- MODULE ExprTrace -------------------------------
(* impl -> spec: the bytes the real assembler stored for `.byte/.word/.dword/.text <expr>` *)
(* judged against Eval/Store/TextBytes.  Record: [id, tree, dir, enc, ok, bytes, ndiags].   *)
EXTENDS ExprEnv, TLC, Json, IOUtils

Rec == ndJsonDeserialize(IOEnv.TRACE)
VARIABLES l, bad
vars == <<l, bad>>
V(id, verdict, dev, why) == [id |-> id, verdict |-> verdict, dev |-> dev, why |-> why]

Width(dir) == CASE dir = "byte" -> 1 [] dir = "word" -> 2 [] dir = "dword" -> 4 [] OTHER -> 0

Judge(r) ==
  LET v == Eval(r.tree, Env, PC0) IN
  IF v.k = "undef" THEN <<>>                                      \* outside the property's domain
  ELSE IF r.dir = "text"
    THEN IF v.k # "str" \/ \E i \in 1..Len(v.s) : v.s[i] \notin DomainOf(r.enc) THEN <<>>
         ELSE IF r.ok /\ r.bytes = TextBytes(r.enc, v.s) THEN <<>>
         ELSE <<V(r.id, "violation", "", "text bytes differ from TextBytes(enc, value)")>>
  ELSE IF v.k # "num" THEN <<>>                                   \* data directive on a string: unspecified
  ELSE IF r.ok /\ r.bytes = Store(v.n, Width(r.dir)) THEN <<>>
  ELSE <<V(r.id, "violation", "", "stored bytes differ from Store(Eval(expr))")>>

Init == l = 1 /\ bad = <<>>
Step == l <= Len(Rec) /\ bad' = bad \o Judge(Rec[l]) /\ l' = l + 1
Finish == l = Len(Rec) + 1 /\ ndJsonSerialize(IOEnv.OUT, bad) /\ l' = l + 1 /\ UNCHANGED bad
Next == Step \/ Finish
Spec == Init /\ [][Next]_vars
Consumed == TLCGet("stats").diameter >= Len(Rec) + 1
================================================================================
