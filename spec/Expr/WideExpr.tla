------------------------------- MODULE WideExpr -------------------------------
(* The expression semantics of Expr.tla on the assembler's whole 64-bit domain.           *)
(* Same trees, same operators, same reading of the documentation; values are Wide.tla     *)
(* integers.  A literal leaf is either Expr's [k |-> "num", n] or                          *)
(* [k |-> "wnum", d, radix, lz] with the magnitude d as little-endian base-256 limbs.      *)
(* A value that does not fit a signed 64-bit integer is outside the property (UNDEF), like *)
(* division by zero and shifts/modifiers of negative numbers in Expr.tla.                  *)
(* MC_Wide.tla checks that WEval agrees with Eval wherever Eval is defined.                *)
EXTENDS Expr, Wide

WNum(w) == [k |-> "wnum", w |-> w]
IsW(v) == v.k = "wnum"
WChk(w) == IF FitsI64(w) THEN WNum(w) ELSE UNDEF
WB(b) == WNum(IF b THEN WOne ELSE WZero)
W63 == FromInt(63)

WApplyNum(op, a, b) ==
  CASE op = "+"  -> WChk(WAdd(a, b))
    [] op = "-"  -> WChk(WSub(a, b))
    [] op = "*"  -> WChk(WMul(a, b))
    [] op = "/"  -> IF IsZero(b) THEN UNDEF ELSE WChk(WTDiv(a, b))
    [] op = "%"  -> IF IsZero(b) \/ ~FitsI64(WTDiv(a, b)) THEN UNDEF ELSE WNum(WTMod(a, b))   \* -2^63 % -1: the quotient overflows, left open
    [] op = "<<" -> IF a.neg \/ b.neg THEN UNDEF
                    ELSE IF WCmp(b, W63) > 0 THEN (IF IsZero(a) THEN WNum(WZero) ELSE UNDEF)
                    ELSE WChk(WShl(a, ToInt(b)))
    [] op = ">>" -> IF a.neg \/ b.neg THEN UNDEF
                    ELSE IF WCmp(b, W63) > 0 THEN WNum(WZero) ELSE WNum(WShr(a, ToInt(b)))
    [] op = "^"  -> IF a.neg \/ b.neg THEN UNDEF ELSE WNum(WXor(a, b))
    [] op = "==" -> WB(WCmp(a, b) = 0)
    [] op = "!=" -> WB(WCmp(a, b) # 0)
    [] op = ">"  -> WB(WCmp(a, b) > 0)
    [] op = ">=" -> WB(WCmp(a, b) >= 0)
    [] op = "<"  -> WB(WCmp(a, b) < 0)
    [] op = "<=" -> WB(WCmp(a, b) <= 0)
    [] op = "&&" -> WB(~IsZero(a) /\ ~IsZero(b))
    [] op = "||" -> WB(~IsZero(a) \/ ~IsZero(b))

(* Expr's value of the same thing *)
Widen(v) == IF v.k = "num" THEN WNum(FromInt(v.n)) ELSE v
WidenEnv(env) == [x \in DOMAIN env |-> Widen(env[x])]

WAsString(v) == IF IsStr(v) THEN v.s ELSE WDec(v.w)

RECURSIVE WEval(_, _, _), WInterp(_, _)
WInterp(parts, env) ==
  IF parts = <<>> THEN Str(<<>>)
  ELSE LET p == Head(parts)
           rest == WInterp(Tail(parts), env) IN
       IF rest.k = "undef" THEN UNDEF
       ELSE IF "lit" \in DOMAIN p THEN Str(p.lit \o rest.s)
       ELSE IF ~Defined(env, p.ref) THEN UNDEF
       ELSE Str(WAsString(env[p.ref]) \o rest.s)

WEval(t, env, pc) ==
  CASE t.k = "num"  -> WNum(FromInt(t.n))
    [] t.k = "wnum" -> WChk(W(FALSE, t.d))            \* a literal that does not fit 64 bits is outside the property
    [] t.k = "bool" -> WB(t.b)
    [] t.k = "pc"   -> WNum(FromInt(pc))
    [] t.k = "par"  -> WEval(t.e, env, pc)
    [] t.k = "def"  -> WB(Defined(env, t.name))
    [] t.k = "istr" -> WInterp(t.parts, env)
    [] t.k = "id"   ->
         IF ~Defined(env, t.name) THEN UNDEF
         ELSE LET v == env[t.name] IN
              IF t.mod = "" THEN v
              ELSE IF ~IsW(v) \/ v.w.neg THEN UNDEF
              ELSE IF t.mod = "<" THEN WNum(W(FALSE, <<Limb(v.w.d, 1)>>)) ELSE WNum(W(FALSE, <<Limb(v.w.d, 2)>>))
    [] t.k = "fac"  ->
         LET v == WEval(t.e, env, pc) IN
         IF ~IsW(v) THEN (IF t.nt \/ t.ng THEN UNDEF ELSE v)
         ELSE LET a == IF t.ng THEN WNeg(v.w) ELSE v.w IN
              IF ~FitsI64(a) THEN UNDEF                \* -(-2^63)
              ELSE IF t.nt THEN WB(IsZero(a)) ELSE WNum(a)
    [] t.k = "bin"  ->
         LET a == WEval(t.l, env, pc)
             b == WEval(t.r, env, pc) IN
         IF a.k = "undef" \/ b.k = "undef" THEN UNDEF
         ELSE IF IsW(a) /\ IsW(b) THEN WApplyNum(t.op, a.w, b.w)
         ELSE IF IsStr(a) /\ IsStr(b) THEN Widen(ApplyStr(t.op, a.s, b.s))
         ELSE UNDEF

================================================================================
