-------------------------------- MODULE WideEnv --------------------------------
(* Environment and case domain of the 64-bit part of C03: ExprEnv's constants plus        *)
(* constants and literals around 2^31, 2^32, 2^40, 2^62 and the ends of the i64 range.    *)
(* The harness renders WPrelude's definitions in front of every case (checks/C03).         *)
EXTENDS ExprEnv, WideExpr, TLC

P(d) == WNum(W(FALSE, d))
M(d) == WNum(W(TRUE, d))
L31  == <<0, 0, 0, 128>>                          \* 2^31
L32m == <<255, 255, 255, 255>>                    \* 2^32 - 1
L32  == <<0, 0, 0, 0, 1>>                         \* 2^32
L40x == <<154, 120, 86, 52, 18>>                  \* $123456789A
L62  == <<0, 0, 0, 0, 0, 0, 0, 64>>               \* 2^62
L63m == <<255, 255, 255, 255, 255, 255, 255, 127>> \* 2^63 - 1
L63  == <<0, 0, 0, 0, 0, 0, 0, 128>>              \* 2^63: no 64-bit value
D3e9 == <<0, 94, 208, 178>>                       \* 3000000000
D1e18 == <<0, 0, 100, 167, 179, 182, 224, 13>>    \* 10^18

WEnv == WidenEnv(Env) @@ [wa |-> P(L32m), wb |-> M(L31), wq |-> P(<<1, 0, 0, 0, 1>>), wx |-> P(L40x), wm |-> M(L63), wt |-> P(L63m)]

WN(d, radix, lz) == [k |-> "wnum", d |-> d, radix |-> radix, lz |-> lz]
BigLeaves == { WN(<<255, 255, 255, 127>>, "hex", 0), WN(L31, "hex", 0), WN(L32m, "hex", 0), WN(L32, "hex", 1), WN(L32, "bin", 0),
               WN(L40x, "hex", 0), WN(L62, "hex", 0), WN(L63m, "hex", 0), WN(L63, "hex", 0), WN(D3e9, "dec", 0), WN(D1e18, "dec", 1),
               Id("wa",""), Id("wb",""), Id("wq",""), Id("wx",""), Id("wm",""), Id("wt",""),
               Id("wa","<"), Id("wx",">"), Id("wq","<") }
MixLeaves == { N(0,"dec",0), N(1,"dec",0), N(2,"dec",0), N(3,"bin",2), N(31,"dec",0), N(32,"dec",0), N(63,"dec",0), N(64,"dec",0), N(255,"hex",0), N(65536,"hex",0),
               Id("ca",""), Id("cb","") }
WLeaves == BigLeaves \cup MixLeaves
W3 == { WN(L32m, "hex", 0), Id("wb",""), N(3,"bin",2) }
W4 == W3 \cup { Id("wx","") }

WSetA == Flagged(BigLeaves) \cup {Fac(f[1], f[2], Par(e)) : f \in Flags \ {<<FALSE,FALSE>>}, e \in {Id("wa",""), Id("wb",""), Id("wm",""), Id("wt","")}}
WSetB == {Bin(op, l, r) : op \in BinOps, l \in WLeaves, r \in WLeaves} \ {Bin(op, l, r) : op \in BinOps, l \in MixLeaves, r \in MixLeaves}
WSetC == {Bin(op, l, r) : op \in {"+", "-", "*", "/", "%", "==", "<"}, l \in Flagged(W4), r \in Flagged(W4)}
WSetD(S) == SetD(S)
WStrLeaves == { [k |-> "istr", parts |-> <<[ref |-> "wa"]>>], [k |-> "istr", parts |-> <<[lit |-> <<120>>], [ref |-> "wb"], [lit |-> <<121>>]>>],
                [k |-> "istr", parts |-> <<[ref |-> "wm"], [ref |-> "wt"]>>], [k |-> "istr", parts |-> <<[ref |-> "wx"], [ref |-> "cb"]>>] }
WStrCases == {[tree |-> t, dir |-> "text", enc |-> e] : t \in WStrLeaves, e \in {"", "petscii"}}
             \cup {[tree |-> Bin(op, l, r), dir |-> "byte", enc |-> ""] : op \in {"==", "!="}, l \in WStrLeaves, r \in WStrLeaves}

WCases(deep) == NumCases(WSetA) \cup NumCases(WSetB) \cup NumCases(WSetC) \cup NumCases(WSetD(IF deep THEN W4 ELSE W3))
                \cup NarrowCases(WSetA) \cup NarrowCases({t \in WSetB : t.op \in {"+", "-", "*", ">>"}})
                \cup WStrCases
================================================================================
