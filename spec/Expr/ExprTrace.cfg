SPECIFICATION Spec
POSTCONDITION Consumed
