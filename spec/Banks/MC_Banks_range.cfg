SPECIFICATION Spec
CONSTANT Profile = "layout"
CONSTANT MaxBanks = 1
CONSTANT MaxSegs = 2
CONSTANT Deviations = {}
CONSTANT Base = 65530
CONSTANT Starts = {"0", "1", "2", "4", "5", "7", "prev", "prev1"}
CONSTANT Lens = {1, 2, 3}
CONSTANT Sizes = {99999, 6}
INVARIANT Strict
INVARIANT SameAsFunction
INVARIANT MergePrefix
INVARIANT NoPartialOutput
PROPERTY Monotone
POSTCONDITION Export
