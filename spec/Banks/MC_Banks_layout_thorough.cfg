SPECIFICATION Spec
CONSTANT Profile = "layout"
CONSTANT MaxBanks = 1
CONSTANT MaxSegs = 3
CONSTANT Deviations = {}
CONSTANT Base = 4096
CONSTANT Starts = {"0", "1", "2", "4", "5", "prev", "prev1"}
CONSTANT Lens = {1, 2, 3}
CONSTANT Sizes = {99999, 4, 6}
INVARIANT Strict
INVARIANT SameAsFunction
INVARIANT MergePrefix
INVARIANT NoPartialOutput
PROPERTY Monotone
POSTCONDITION Export
