------------------------------ MODULE BanksTrace ------------------------------
(* impl -> spec for C09: what the real code wrote for a configuration, judged against Banks.tla.   *)
(* One record per step:                                                                            *)
(*   [id, mode \in {"lib","proc"}, cfg (see Banks.tla), ok, files : <<[name, data]>>,               *)
(*    hasBanks, banks : <<[name, lo, hi, data]>>, errk : <<error classes>>, ndiags,                 *)
(*    devs : <<names of the deviations that are open findings>>]                                    *)
(* mode "proc": a `mos build` process run with a generated mos.toml; files = every file in the      *)
(*   target directory.  mode "lib": mos-core in-process (codegen + merge_segments + write_banks     *)
(*   with default name out.bin, no header: the driver hands cfg over with fmt = bin, out = out.bin) *)
(*   and additionally the merged banks (range and bytes).                                           *)
(* Tier 1 (verdict): Banks!Reject, built from the declarative part only.  A rejection is a          *)
(*   "deviation" only when the configuration matches a narrow witness AND the observation is        *)
(*   exactly what the algorithmic part predicts with that deviation switched on.                    *)
(* Tier 2 (faithfulness): the observation is acceptable but differs from Banks!Outcome under the    *)
(*   open deviations -> "drift" (the model no longer describes the code).                          *)
EXTENDS Banks, Json, IOUtils

Rec == ndJsonDeserialize(IOEnv.TRACE)
VARIABLES l, bad
vars == <<l, bad>>
V(id, verdict, dev, why) == [id |-> id, verdict |-> verdict, dev |-> dev, why |-> why]

ToSet(s) == {s[i] : i \in Idx(s)}

(* the merged banks seen in-process: range and bytes of every bank, in definition order *)
BanksWhy(a, r) ==
  IF ~(r.hasBanks /\ r.ok) \/ a.unspec \/ a.must # {} THEN ""
  ELSE IF Len(r.banks) # Len(a.banks) THEN "number of merged banks differs from the bank definitions"
  ELSE IF \E j \in Idx(a.banks) : r.banks[j].name # a.banks[j].name THEN "merged banks are not in definition order"
  ELSE IF \E j \in Idx(a.banks) : r.banks[j].data # a.banks[j].data THEN "a merged bank's bytes differ from its image"
  ELSE IF \E j \in Idx(a.banks) : a.banks[j].written /\ (r.banks[j].lo # a.banks[j].lo \/ r.banks[j].hi # a.banks[j].hi)
         THEN "a merged bank's range is not lowest..highest written address (+ padding)"
  ELSE ""

Judge(r) ==
  IF ~WellFormed(r.cfg) THEN <<V(r.id, "malformed", "", "generator produced a configuration outside the documented shape")>>
  ELSE
  LET a == Analyse(r.cfg)
      o == [ok |-> r.ok, files |-> r.files]
      why == Reject(a, o) IN
  IF why # "" THEN
       LET d == KnownDeviation(r.cfg, o) IN
       IF d # "" THEN <<V(r.id, "deviation", d, why)>> ELSE <<V(r.id, "violation", "", why)>>
  ELSE LET bw == BanksWhy(a, r) IN
  IF bw # "" THEN
       LET d == KnownDeviationBanks(r.cfg, r.banks) IN
       IF d # "" THEN <<V(r.id, "deviation", d, bw)>> ELSE <<V(r.id, "violation", "", bw)>>
  ELSE IF a.unspec THEN <<>>
  ELSE LET m == Outcome(r.cfg, ToSet(r.devs)) IN
       IF ~SameOutcome(o, m) THEN <<V(r.id, "drift", "", "acceptable, but not what Banks!Outcome computes (ok/files)")>>
       ELSE IF ~r.ok /\ ToSet(r.errk) # m.errs THEN <<V(r.id, "drift", "", "rejected with other diagnostics than Banks!Outcome predicts")>>
       ELSE <<>>

Init == l = 1 /\ bad = <<>>
Step == l <= Len(Rec) /\ bad' = bad \o Judge(Rec[l]) /\ l' = l + 1
Finish == l = Len(Rec) + 1 /\ ndJsonSerialize(IOEnv.OUT, bad) /\ l' = l + 1 /\ UNCHANGED bad
Next == Step \/ Finish
Spec == Init /\ [][Next]_vars
Consumed == TLCGet("stats").diameter >= Len(Rec) + 1
================================================================================
