SPECIFICATION Spec
CONSTANT Profile = "assign"
CONSTANT MaxBanks = 2
CONSTANT MaxSegs = 3
CONSTANT Deviations = {"SingleSegmentBankOverridden", "PrgHeaderInSeparateFile"}
CONSTANT Base = 4096
CONSTANT Starts = {}
CONSTANT Lens = {}
CONSTANT Sizes = {}
INVARIANT Refines
INVARIANT SameAsFunction
INVARIANT MergePrefix
INVARIANT NoPartialOutput
PROPERTY Monotone
POSTCONDITION Export
