SPECIFICATION Spec
CONSTANT Profile = "layout"
CONSTANT MaxBanks = 1
CONSTANT MaxSegs = 2
CONSTANT Deviations = {}
CONSTANT Base = 4096
CONSTANT Starts = {"0", "2", "prev"}
CONSTANT Lens = {1, 3}
CONSTANT Sizes = {88888, 0, 65536, 65537}
INVARIANT Strict
INVARIANT SameAsFunction
INVARIANT MergePrefix
INVARIANT NoPartialOutput
PROPERTY Monotone
POSTCONDITION Export
