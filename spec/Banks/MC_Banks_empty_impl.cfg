SPECIFICATION Spec
CONSTANT Profile = "layout"
CONSTANT MaxBanks = 1
CONSTANT MaxSegs = 3
CONSTANT Deviations = {"EmptySegmentStretchesBank"}
CONSTANT Base = 4096
CONSTANT Starts = {"0", "2", "5", "prev"}
CONSTANT Lens = {0, 2}
CONSTANT Sizes = {99999, 5}
INVARIANT Refines
INVARIANT SameAsFunction
INVARIANT MergePrefix
INVARIANT NoPartialOutput
PROPERTY Monotone
POSTCONDITION Export
