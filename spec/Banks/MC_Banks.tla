------------------------------ MODULE MC_Banks ------------------------------
(* Design level for C09: the build pipeline of the code (emit range check, finalize, prg check,   *)
(* validity loop, Bank::merge per segment, size check per bank, header, write per bank) run as a  *)
(* state machine over EVERY configuration of a small family on a 16-address line, with the       *)
(* declarative reading of the property (Banks!Analyse) as invariant.                              *)
(*   Profile "layout": one bank (size/fill options) x 1..MaxSegs segments at every relative       *)
(*       placement (disjoint, adjacent, overlapping, below the bank start, start = previous end), *)
(*       write on/off.                                                                            *)
(*   Profile "assign": 1..MaxBanks banks (filename own/shared/default, sized+filled,              *)
(*       create-segment) x 1..MaxSegs segments with every bank reference (none, each bank,        *)
(*       unknown) x format x output-filename.                                                     *)
(* Deviations = {} is the ideal reading (must refine the property with no exception);             *)
(* Deviations = the open findings is the code as it is: the invariant is weakened exactly by the  *)
(* witness predicates of Banks.tla.  The configurations are exported as cases (spec -> impl).     *)
EXTENDS Banks, Json, IOUtils, SequencesExt

CONSTANTS Profile, MaxBanks, MaxSegs, Deviations, Base,
          Starts, Lens, Sizes    \* profile "layout": start alphabet, segment lengths, bank sizes (cfg files take no negative numbers: 99999 = no size, 88888 = size -1)

BName == <<"b1", "b2", "b3", "b4">>
SName == <<"s1", "s2", "s3", "s4", "s5", "s6">>
On(v) == [on |-> TRUE, v |-> v]
OnS(s) == [on |-> TRUE, s |-> s]
Lit(v) == [k |-> "lit", v |-> v, of |-> ""]
SegBytes(i, n) == [k \in 1..n |-> 16 * i + k]
Names == [prg |-> "main.prg", bin |-> "main.bin"]

(* ---- profile "layout" *)
LBankOpts == {[size |-> IF sz = 99999 THEN Off ELSE IF sz = 88888 THEN On(-1) ELSE On(sz), fill |-> fl] : sz \in Sizes, fl \in {Off, On(170)}}
LPlace == {[st |-> st, len |-> n, write |-> w] :
             st \in Starts, n \in Lens, w \in BOOLEAN}
LStart(p, i) == CASE p.st = "prev"  -> [k |-> "end", v |-> 0, of |-> SName[i - 1]]
                  [] p.st = "prev1" -> [k |-> "end", v |-> 1, of |-> SName[i - 1]]
                  [] p.st = "0" -> Lit(Base + 0) [] p.st = "1" -> Lit(Base + 1) [] p.st = "2" -> Lit(Base + 2)
                  [] p.st = "4" -> Lit(Base + 4) [] p.st = "5" -> Lit(Base + 5) [] p.st = "7" -> Lit(Base + 7)
LayoutCfgs ==
  {[banks |-> <<[name |-> "b1", size |-> bo.size, fill |-> bo.fill, fname |-> OffS, create |-> FALSE]>>,
    segs |-> [i \in DOMAIN pl |-> [name |-> SName[i], start |-> LStart(pl[i], i), pc |-> Off, write |-> pl[i].write,
                              bank |-> OnS("b1"), origin |-> "user", bytes |-> SegBytes(i, pl[i].len)]],
    fmt |-> "unset", out |-> OffS, names |-> Names] :
     bo \in LBankOpts,
     pl \in {f \in UNION {[1..m -> LPlace] : m \in 1..MaxSegs} : f[1].st \notin {"prev", "prev1"}}}

(* ---- profile "assign" *)
ABankOpts == {"plain", "own", "shared", "sized", "create"}
ABank(j, o) == [name |-> BName[j],
                size |-> IF o = "sized" THEN On(6) ELSE Off,
                fill |-> IF o \in {"sized", "shared"} THEN On(170) ELSE Off,
                fname |-> IF o = "own" THEN OnS(<<"f1.bin", "f2.bin", "f3.bin", "f4.bin">>[j]) ELSE IF o = "shared" THEN OnS("s.bin") ELSE OffS,
                create |-> o = "create"]
ARefs(nb) == {"none", "zz"} \cup {BName[j] : j \in 1..nb}
ARef(r) == IF r = "none" THEN OffS ELSE OnS(r)
(* created segments first (their banks are defined before the user segments), then the user segments *)
ASegs(bo, refs) ==
  LET created == SelectSeq([j \in Idx(bo) |-> j], LAMBDA j : bo[j] = "create")
      cs == [k \in Idx(created) |-> [name |-> BName[created[k]], start |-> Lit(Base + 9 + 2 * k), pc |-> Off, write |-> TRUE,
                                     bank |-> OnS(BName[created[k]]), origin |-> "bank", bytes |-> SegBytes(6 + k, 1)]]
      us == [i \in Idx(refs) |-> [name |-> SName[i], start |-> Lit(Base + 3 * (i - 1)), pc |-> Off, write |-> TRUE,
                                  bank |-> ARef(refs[i]), origin |-> "user", bytes |-> SegBytes(i, 2)]]
  IN cs \o us
AssignCfgs ==
  {[banks |-> [j \in Idx(bo) |-> ABank(j, bo[j])], segs |-> ASegs(bo, refs), fmt |-> fm, out |-> ou, names |-> Names] :
     bo \in UNION {[1..m -> ABankOpts] : m \in 1..MaxBanks},
     refs \in UNION {[1..m -> ARefs(MaxBanks)] : m \in 1..MaxSegs},
     fm \in {"prg", "bin", "unset"}, ou \in {OffS, OnS("game.out")}}

Configs == IF Profile = "layout" THEN LayoutCfgs ELSE AssignCfgs

(* ---------------------------------------------------------------- the pipeline as a state machine *)
VARIABLES cfg, phase, banks, segs, errs, bi, done, cur, merged, files, wi
vars == <<cfg, phase, banks, segs, errs, bi, done, cur, merged, files, wi>>

Init == /\ cfg \in Configs
        /\ phase = "emit" /\ banks = <<>> /\ segs = <<>> /\ errs = {} /\ bi = 0 /\ done = {}
        /\ cur = EmptyBank(DefaultBank) /\ merged = <<>> /\ files = <<>> /\ wi = 0

Fail(k) == phase' = "failed" /\ errs' = errs \cup k

(* codegen: definitions inside their ranges, every byte placed inside $0000-$ffff *)
Emit == /\ phase = "emit"
        /\ segs' = Placed(cfg)
        /\ IF CodegenErrs(cfg, segs') # {} THEN Fail(CodegenErrs(cfg, segs')) ELSE phase' = "finalize" /\ UNCHANGED errs
        /\ UNCHANGED <<cfg, banks, bi, done, cur, merged, files, wi>>
(* codegen finalize() *)
Fin == /\ phase = "finalize"
       /\ LET f == Finalize(cfg, segs, Deviations) IN
          /\ banks' = f.banks /\ segs' = f.segs
          /\ IF f.err THEN Fail({"nobank"}) ELSE phase' = "prgcheck" /\ UNCHANGED errs
       /\ UNCHANGED <<cfg, bi, done, cur, merged, files, wi>>
(* build.rs: prg needs exactly one bank *)
PrgCheck == /\ phase = "prgcheck"
            /\ IF cfg.fmt = "prg" /\ Len(banks) # 1 THEN Fail({"prgmulti"}) ELSE phase' = "check" /\ UNCHANGED errs
            /\ UNCHANGED <<cfg, banks, segs, bi, done, cur, merged, files, wi>>
(* merge_segments: validity loop (errors are collected, merging goes on) *)
Check == /\ phase = "check"
         /\ errs' = IF CheckAssign(banks, segs) THEN errs \cup {"unknownbank"} ELSE errs
         /\ phase' = "merge" /\ bi' = 1 /\ done' = {} /\ cur' = EmptyBank(banks[1])
         /\ UNCHANGED <<cfg, banks, segs, merged, files, wi>>
(* Bank::merge of the next selected segment of bank bi *)
Todo == Selected(segs, banks[bi]) \ done
MergeSeg == /\ phase = "merge" /\ Todo # {}
            /\ LET i == BMin(Todo) IN cur' = BankMerge(cur, segs[i], Deviations) /\ done' = done \cup {i}
            /\ UNCHANGED <<cfg, phase, banks, segs, errs, bi, merged, files, wi>>
(* size check / padding of bank bi, then the next bank or the end of merge_segments *)
Size == /\ phase = "merge" /\ Todo = {}
        /\ LET r == SizeBank(cur)
               e2 == errs \cup r.err
               m2 == Append(merged, r.bank) IN
           /\ merged' = m2 /\ errs' = e2
           /\ IF bi < Len(banks) THEN bi' = bi + 1 /\ cur' = EmptyBank(banks[bi + 1]) /\ done' = {} /\ UNCHANGED phase
              ELSE /\ UNCHANGED <<bi, cur, done>>
                   /\ phase' = IF e2 # {} THEN "failed" ELSE "header"
        /\ UNCHANGED <<cfg, banks, segs, files, wi>>
(* build.rs: prg header bank *)
Header == /\ phase = "header"
          /\ merged' = IF OutFmt(cfg) = "prg" THEN <<HeaderBank(cfg, merged[1], Deviations)>> \o merged ELSE merged
          /\ phase' = "write" /\ wi' = 1
          /\ UNCHANGED <<cfg, banks, segs, errs, bi, done, cur, files>>
(* write_banks: one bank per step *)
Write == /\ phase = "write" /\ wi <= Len(merged)
         /\ files' = WriteOne(files, merged[wi], DefName(cfg)) /\ wi' = wi + 1
         /\ UNCHANGED <<cfg, phase, banks, segs, errs, bi, done, cur, merged>>
Finish == /\ phase = "write" /\ wi > Len(merged) /\ phase' = "done"
          /\ UNCHANGED <<cfg, banks, segs, errs, bi, done, cur, merged, files, wi>>
Next == Emit \/ Fin \/ PrgCheck \/ Check \/ MergeSeg \/ Size \/ Header \/ Write \/ Finish
Spec == Init /\ [][Next]_vars

(* ---------------------------------------------------------------- invariants *)
Result == [ok |-> phase = "done", files |-> files]
Ended == phase \in {"done", "failed"}

(* C09: the run ends in what the property demands, except under a known deviation's witness *)
Refines == Ended => \/ Accepts(cfg, Result)
                    \/ (KnownDeviation(cfg, Result) \in Deviations)
(* with the deviations switched on the model is the code: nothing else may differ *)
Strict == Ended => Accepts(cfg, Result)
(* the run and the function Outcome are the same algorithm *)
SameAsFunction == Ended => LET m == Outcome(cfg, Deviations) IN
                           /\ m.ok = (phase = "done") /\ (m.ok => m.files = files) /\ (~m.ok => m.errs = errs)
(* while a bank is being merged its image is the declarative image of the segments merged so far  *)
(* (range = lowest..highest address, later wins, gaps hold the fill value): the inductive core     *)
MergePrefix == (phase = "merge" /\ "EmptySegmentStretchesBank" \notin Deviations) =>
                  LET full == {i \in done : Len(segs[i].bytes) > 0}
                      im == ImageOf(segs, full, FillOf(banks[bi])) IN
                  /\ cur.data = im.data /\ (full # {} => cur.lo = im.lo /\ cur.hi = im.hi)
(* files are only ever created after every check has passed, and failed runs leave none *)
NoPartialOutput == (phase = "failed" => files = <<>>) /\ (files # <<>> => errs = {})
(* a written file never shrinks and every bank is written exactly once (action property) *)
Monotone == [][\A i \in Idx(files) : /\ i <= Len(files') /\ files'[i].name = files[i].name
                                     /\ Len(files'[i].data) >= Len(files[i].data)]_vars

(* vacuity witnesses: each is expected to be VIOLATED (the situation exists in the space) *)
NoSuccess == phase # "done"
NoOverlapWin == ~(phase = "merge" /\ \E i, j \in done : i < j /\ segs[i].lo < segs[j].hi /\ segs[j].lo < segs[i].hi /\ segs[j].lo < segs[i].lo)
NoPrepend == ~(phase = "merge" /\ \E i \in done : cur.lo < segs[BMin(done)].lo)
NoPadding == ~(phase = "done" /\ \E i \in Idx(merged) : merged[i].opt.size.on /\ Len(merged[i].data) = merged[i].opt.size.v
                                   /\ Len(Image(cfg, Placed(cfg), merged[i].opt).data) < merged[i].opt.size.v)
NoTwoFiles == ~(phase = "done" /\ Len(files) >= 2)
NoSharedFile == ~(phase = "done" /\ \E i \in Idx(files) : \E j, k \in Idx(banks) : j # k /\ FName(cfg, banks[j]) = files[i].name /\ FName(cfg, banks[k]) = files[i].name)
NoWriteOff == ~(phase = "done" /\ \E i \in Idx(segs) : ~segs[i].write)
NoHeader == ~(phase = "done" /\ OutFmt(cfg) = "prg" /\ Len(files) = 1 /\ Len(files[1].data) > 2)
NoOversize == ~(phase = "failed" /\ "oversize" \in errs)
NoShort == ~(phase = "failed" /\ "short" \in errs)
NoUnknownBank == ~(phase = "failed" /\ "unknownbank" \in errs)
NoNoBank == ~(phase = "failed" /\ "nobank" \in errs)
NoPrgMulti == ~(phase = "failed" /\ "prgmulti" \in errs)
NoEmptyLater == ~(phase = "done" /\ WitnessEmpty(cfg))
NoRangeErr == ~(phase = "failed" /\ "range" \in errs)
NoSizeRange == ~(phase = "failed" /\ "sizerange" \in errs)
NoUndefSeg == ~(phase = "failed" /\ "undefseg" \in errs)
NoZeroSize == ~(phase = "done" /\ banks[1].size.on /\ banks[1].size.v = 0)

(* spec -> impl: export the configurations *)
Export == TLCGet("stats").diameter >= 0 /\ ndJsonSerialize(IOEnv.OUT, SetToSeq(Configs))
=============================================================================
