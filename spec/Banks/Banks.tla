------------------------------- MODULE Banks -------------------------------
(* C09: output files lay out banks and segments exactly as configured.                         *)
(*                                                                                              *)
(* Part 1 (declarative): what the property says the output of a configuration is               *)
(*   Image / Padded / Files / MustErr / MayErr / Unspec / Accepts.                              *)
(* Part 2 (algorithmic, implementation-shaped): what the code does, step operator by step       *)
(*   operator, transcribed from                                                                 *)
(*     mos-core/src/codegen/mod.rs      finalize()          -> Finalize                          *)
(*     mos-core/src/codegen/segment.rs  emit() range check  -> EmitRange                         *)
(*     mos-core/src/codegen/mod.rs      .define segment/bank range rules -> NeverDefined, CodegenErrs *)
(*     mos-core/src/io/binary_writer.rs Bank::merge         -> BankMerge                         *)
(*                                      merge_segments      -> Selected, SizeBank, CheckAssign   *)
(*                                      write_banks         -> WriteOne                          *)
(*     mos/src/commands/build.rs        output_format/filename, prg check, header -> OutFmt ...  *)
(*   MC_Banks.tla runs these operators as a state machine (one action per step) and TLC checks   *)
(*   that every run refines part 1; Outcome(cfg, D) is the same algorithm as a function, used    *)
(*   by the judge BanksTrace.tla.                                                               *)
(*                                                                                              *)
(* A configuration:                                                                             *)
(*   cfg  == [banks : Seq(Bank), segs : Seq(Seg), fmt : {"prg","bin","unset"},                   *)
(*            out : OptS, names : [prg : STRING, bin : STRING]]                                  *)
(*   Bank == [name, size : Opt, fill : Opt, fname : OptS, create : BOOLEAN]   (definition order) *)
(*   Seg  == [name, start : [k : {"lit","end","start"}, v : Int, of : STRING], pc : Opt,         *)
(*            write : BOOLEAN, bank : OptS, origin : {"user","bank","default"}, bytes : Seq]     *)
(*           in the order in which the assembler registers them: a user segment at its          *)
(*           `.define segment`, a "bank" segment (create-segment) at the definition of its bank, *)
(*           "default" = the segment the assembler creates when the source defines none.         *)
(*           start is the address of the first byte the program writes into the segment:         *)
(*           a literal, or segments.<of>.end + v, or segments.<of>.start + v.                    *)
(*   Opt  == [on : BOOLEAN, v : Int]     OptS == [on : BOOLEAN, s : STRING]                      *)
(*   names = the default output file names for the two formats (<entry stem>.prg / .bin);        *)
(*           strings are opaque to TLC, so the renderer supplies them as data.                   *)
(* Deviations (parameter D of the algorithmic part; names of known defects of the code):         *)
(*   "SingleSegmentBankOverridden"  finalize() re-assigns the only segment of a program to the   *)
(*        first bank even when it names another (or an unknown) bank                             *)
(*   "PrgHeaderInSeparateFile"      the prg header is written to the default file name even when *)
(*        the (only) bank has its own filename                                                   *)
(*   "EmptySegmentStretchesBank"    Bank::merge lets a segment that holds no byte stretch a bank  *)
(*        that already holds data (min/max with the empty range start..start)                     *)
EXTENDS Integers, Sequences, FiniteSets, TLC

Off  == [on |-> FALSE, v |-> 0]
OffS == [on |-> FALSE, s |-> ""]
Idx(s) == 1..Len(s)
BMax(S) == CHOOSE x \in S : \A y \in S : y <= x
BMin(S) == CHOOSE x \in S : \A y \in S : x <= y
Rep(v, n) == [k \in 1..n |-> v]
RECURSIVE Flat(_)
Flat(ss) == IF Len(ss) = 0 THEN <<>> ELSE Head(ss) \o Flat(Tail(ss))
MapSeq(s, Op(_)) == [i \in Idx(s) |-> Op(s[i])]

NoBank == "?unassigned"
DefaultBank == [name |-> "default", size |-> Off, fill |-> Off, fname |-> OffS, create |-> FALSE]
EffBanks(cfg) == IF Len(cfg.banks) = 0 THEN <<DefaultBank>> ELSE cfg.banks
BankNames(cfg) == {EffBanks(cfg)[j].name : j \in Idx(EffBanks(cfg))}
SegNames(cfg) == {cfg.segs[i].name : i \in Idx(cfg.segs)}
SegIx(cfg, n) == CHOOSE i \in Idx(cfg.segs) : cfg.segs[i].name = n
FillOf(b) == IF b.fill.on THEN b.fill.v ELSE 0

(* ---------------------------------------------------------------- well-formed cases *)
RECURSIVE Resolves(_, _, _)
Resolves(cfg, i, fuel) ==
  LET s == cfg.segs[i] IN
  IF s.start.k = "lit" THEN TRUE
  ELSE IF fuel = 0 \/ s.start.of \notin SegNames(cfg) THEN FALSE
  ELSE Resolves(cfg, SegIx(cfg, s.start.of), fuel - 1)

WellFormed(cfg) ==
  /\ \A i, j \in Idx(cfg.segs) : i # j => cfg.segs[i].name # cfg.segs[j].name
  /\ \A i, j \in Idx(cfg.banks) : i # j => cfg.banks[i].name # cfg.banks[j].name
  /\ \A i \in Idx(cfg.segs) : Resolves(cfg, i, Len(cfg.segs))
  /\ \A i \in Idx(cfg.segs) : cfg.segs[i].origin = "bank" =>
        \E j \in Idx(cfg.banks) : cfg.banks[j].create /\ cfg.banks[j].name = cfg.segs[i].name
                                  /\ cfg.segs[i].bank = [on |-> TRUE, s |-> cfg.banks[j].name]
  /\ \A j \in Idx(cfg.banks) : cfg.banks[j].create => cfg.banks[j].name \in SegNames(cfg)
  /\ \A i \in Idx(cfg.segs) : cfg.segs[i].origin = "default" => Len(cfg.segs) = 1 /\ ~cfg.segs[i].bank.on
  /\ cfg.fmt \in {"prg", "bin", "unset"}

(* ---------------------------------------------------------------- part 1: declarative *)
RECURSIVE StartOf(_, _)
StartOf(cfg, i) ==
  LET s == cfg.segs[i] IN
  IF s.start.k = "lit" THEN s.start.v
  ELSE LET j == SegIx(cfg, s.start.of) IN
       IF s.start.k = "end" THEN StartOf(cfg, j) + Len(cfg.segs[j].bytes) + s.start.v
       ELSE StartOf(cfg, j) + s.start.v

(* the configured segments with their addresses resolved: [name, lo, hi, bytes, write, bank, origin] *)
Placed(cfg) == [i \in Idx(cfg.segs) |->
   LET s == cfg.segs[i]  lo == StartOf(cfg, i) IN
   [name |-> s.name, lo |-> lo, hi |-> lo + Len(s.bytes), bytes |-> s.bytes, write |-> s.write,
    bank |-> s.bank, origin |-> s.origin]]

(* which bank a segment belongs to, as configured *)
BankOf(cfg, i) ==
  LET s == cfg.segs[i] IN
  IF s.bank.on THEN s.bank.s
  ELSE IF Len(cfg.banks) = 0 THEN "default"          \* no banks defined: everything goes to the default bank
  ELSE IF Len(cfg.segs) = 1 THEN cfg.banks[1].name   \* a lone segment without a bank: the first bank
  ELSE NoBank

(* the image of a set I of placed segments (indices into ps): lowest to highest address written, each      *)
(* segment's bytes at (address - lowest), the later-defined (higher index) segment wins, gaps hold fill    *)
ImageOf(ps, I, fill) ==
  IF I = {} THEN [lo |-> 0, hi |-> 0, data |-> <<>>]
  ELSE LET lo == BMin({ps[i].lo : i \in I})
           hi == BMax({ps[i].hi : i \in I}) IN
       [lo |-> lo, hi |-> hi,
        data |-> [k \in 1..(hi - lo) |->
                   LET a == lo + k - 1
                       cover == {i \in I : ps[i].lo <= a /\ a < ps[i].hi} IN
                   IF cover = {} THEN fill
                   ELSE LET w == BMax(cover) IN ps[w].bytes[a - ps[w].lo + 1]]]

Written(cfg, ps, b) == {i \in Idx(ps) : ps[i].write /\ Len(ps[i].bytes) > 0 /\ BankOf(cfg, i) = b.name}
Image(cfg, ps, b) == ImageOf(ps, Written(cfg, ps, b), FillOf(b))
Pad(b, data) == IF b.size.on /\ Len(data) < b.size.v THEN data \o Rep(FillOf(b), b.size.v - Len(data)) ELSE data

OutFmt(cfg) == IF cfg.fmt = "unset" THEN (IF Len(EffBanks(cfg)) = 1 THEN "prg" ELSE "bin") ELSE cfg.fmt
DefName(cfg) == IF cfg.out.on THEN cfg.out.s ELSE IF OutFmt(cfg) = "prg" THEN cfg.names.prg ELSE cfg.names.bin
FName(cfg, b) == IF b.fname.on THEN b.fname.s ELSE DefName(cfg)
PrgHeader(lo) == <<lo % 256, (lo \div 256) % 256>>

(* everything the property determines about cfg *)
Analyse(cfg) ==
  LET ps   == Placed(cfg)
      eb   == EffBanks(cfg)
      img  == [j \in Idx(eb) |-> Image(cfg, ps, eb[j])]
      pad  == [j \in Idx(eb) |-> Pad(eb[j], img[j].data)]
      fn   == [j \in Idx(eb) |-> FName(cfg, eb[j])]
      fns  == {fn[j] : j \in Idx(eb)}
      hdr(f) == IF OutFmt(cfg) = "prg" /\ fn[1] = f THEN PrgHeader(img[1].lo) ELSE <<>>
      cat(f) == Flat([j \in Idx(eb) |-> IF fn[j] = f THEN pad[j] ELSE <<>>])
      must == (IF \E i \in Idx(ps) : Len(ps[i].bytes) > 0 /\ (ps[i].lo < 0 \/ ps[i].hi > 65536) THEN {"range"} ELSE {})
         \cup (IF \E i \in Idx(ps) : ps[i].bank.on /\ ps[i].bank.s \notin BankNames(cfg) THEN {"unknownbank"} ELSE {})
         \cup (IF \E i \in Idx(ps) : BankOf(cfg, i) = NoBank THEN {"nobank"} ELSE {})
         \cup (IF \E j \in Idx(eb) : eb[j].size.on /\ Len(img[j].data) > eb[j].size.v THEN {"oversize"} ELSE {})
         \cup (IF \E j \in Idx(eb) : eb[j].size.on /\ Len(img[j].data) < eb[j].size.v /\ ~eb[j].fill.on THEN {"short"} ELSE {})
      (* may be rejected or built, the property does not say which:                                      *)
      (*   a lone user segment that names no bank although banks are defined ("no bank" vs the documented *)
      (*   default-segment rule); format prg requested with several banks (documented limitation)        *)
      may  == (IF Len(cfg.segs) = 1 /\ cfg.segs[1].origin = "user" /\ ~cfg.segs[1].bank.on /\ Len(cfg.banks) > 0 THEN {"nobank"} ELSE {})
         \cup (IF cfg.fmt = "prg" /\ Len(eb) # 1 THEN {"prgmulti"} ELSE {})
         (*   a size beyond the address space (> 65536; a bank cannot hold that many bytes, so only padding could *)
         (*   reach it): the code reports it as a diagnostic since ec96d7b; padding to `size` is accepted as well. *)
         (*   (a negative size needs no rule: every image is larger than it -> "oversize" in must)                *)
         \cup (IF \E j \in Idx(eb) : eb[j].size.on /\ eb[j].size.v > 65536 THEN {"sizerange"} ELSE {})
         (*   a segment without bytes whose start lies outside the address space: no data is outside $0000-$FFFF, *)
         (*   but the definition itself may be refused (the code does since the range fixes)                       *)
         \cup (IF \E i \in Idx(ps) : Len(ps[i].bytes) = 0 /\ (ps[i].lo < 0 \/ ps[i].lo > 65535) THEN {"range"} ELSE {})
      (* outside what the property determines: the prg header of a bank that holds no byte.  (A segment without *)
      (* bytes writes no address: it is simply not part of any image - see Written.)                             *)
      unspec ==
                \/ OutFmt(cfg) = "prg" /\ Len(img[1].data) = 0
                (* a fill value that is not a byte cannot be "held" by any byte of a file (the code keeps its low 8 bits) *)
                \/ \E j \in Idx(eb) : eb[j].fill.on /\ eb[j].fill.v \notin 0..255
  IN [must |-> must, may |-> may, unspec |-> unspec,
      banks |-> [j \in Idx(eb) |-> [name |-> eb[j].name, lo |-> img[j].lo, hi |-> img[j].lo + Len(pad[j]), data |-> pad[j], written |-> Len(img[j].data) > 0]],
      files |-> [f \in fns |-> hdr(f) \o cat(f)]]

(* an outcome: [ok : BOOLEAN, files : Seq([name, data])]  (files in any order) *)
FilesFn(o) == [f \in {o.files[i].name : i \in Idx(o.files)} |-> o.files[CHOOSE i \in Idx(o.files) : o.files[i].name = f].data]
UniqueNames(o) == \A i, j \in Idx(o.files) : i # j => o.files[i].name # o.files[j].name

(* why an outcome is not what the property demands ("" = it is) *)
Reject(a, o) ==
  IF a.unspec THEN ""
  ELSE IF a.must # {} THEN (IF o.ok \/ Len(o.files) > 0 THEN "configuration must be rejected without output, but files were written" ELSE "")
  ELSE IF ~o.ok THEN (IF a.may # {} THEN "" ELSE "a valid configuration was rejected")
  ELSE IF ~UniqueNames(o) THEN "two output files with one name"
  ELSE IF DOMAIN FilesFn(o) # DOMAIN a.files THEN "set of output files differs from the bank filenames"
  ELSE IF \E f \in DOMAIN a.files : Len(FilesFn(o)[f]) # Len(a.files[f]) THEN "an output file has the wrong length (truncated, unpadded or missing header)"
  ELSE IF FilesFn(o) # a.files THEN "an output file has the right length but wrong bytes (offset, overlap order, fill or header)"
  ELSE ""
Accepts(cfg, o) == Reject(Analyse(cfg), o) = ""

(* ---------------------------------------------------------------- part 2: the algorithm of the code *)
(* runtime segment: [name, lo, hi, bytes, write, bank : OptS]; runtime bank: [name, lo, hi, data, opt] *)

(* segment.rs emit(): start > $ffff or end > $10000 is refused *)
EmitRange(ps) == \E i \in Idx(ps) : Len(ps[i].bytes) > 0 /\ (ps[i].lo > 65535 \/ ps[i].hi > 65536 \/ ps[i].lo < 0)

(* codegen/mod.rs `.define segment` / `.define bank` (since the range fixes): a user segment whose `start` (when it *)
(* can be evaluated) or `pc` is outside $0000-$FFFF and a bank whose `size` is outside 0..65536 are rejected at the *)
(* definition; all diagnostics of a pass are collected.  A definition that is rejected in EVERY pass (literal start   *)
(* or pc, bank size) never creates the segment / the bank and its create-segment segment, so every `.segment "x"`    *)
(* block naming it reports "unknown identifier" as well.  A start that depends on another segment cannot be          *)
(* evaluated in the first pass: the segment is created then (at 0) and stays registered when a later pass rejects    *)
(* the definition, so its blocks produce no second diagnostic.                                                       *)
InAddr(v) == v >= 0 /\ v <= 65535
BadSizeBanks(cfg) == {cfg.banks[j].name : j \in {j \in Idx(cfg.banks) : cfg.banks[j].size.on /\ (cfg.banks[j].size.v < 0 \/ cfg.banks[j].size.v > 65536)}}
BadPc(s) == s.pc.on /\ ~InAddr(s.pc.v)
NeverDefined(cfg) == {i \in Idx(cfg.segs) :
   \/ cfg.segs[i].origin = "user" /\ ((cfg.segs[i].start.k = "lit" /\ ~InAddr(cfg.segs[i].start.v)) \/ BadPc(cfg.segs[i]))
   \/ cfg.segs[i].origin = "bank" /\ cfg.segs[i].name \in BadSizeBanks(cfg)}
(* the error kinds of the code generation stage ({} = code generation succeeds) *)
CodegenErrs(cfg, ps) ==
       (IF EmitRange([i \in Idx(ps) |-> IF i \in NeverDefined(cfg) THEN [ps[i] EXCEPT !.bytes = <<>>] ELSE ps[i]])   \* bodies of undefined segments never run
           \/ \E i \in Idx(ps) : cfg.segs[i].origin = "user" /\ (~InAddr(ps[i].lo) \/ BadPc(cfg.segs[i])) THEN {"range"} ELSE {})
  \cup (IF BadSizeBanks(cfg) # {} THEN {"sizerange"} ELSE {})
  \cup (IF \E i \in NeverDefined(cfg) : Len(cfg.segs[i].bytes) > 0 THEN {"undefseg"} ELSE {})

(* codegen/mod.rs finalize(): default bank, lone-segment rule, unassigned check *)
Finalize(cfg, ps, D) ==
  LET nob == Len(cfg.banks) = 0
      bks == IF nob THEN <<DefaultBank>> ELSE cfg.banks
      s1  == [i \in Idx(ps) |-> IF nob /\ ~ps[i].bank.on THEN [ps[i] EXCEPT !.bank = [on |-> TRUE, s |-> "default"]] ELSE ps[i]]
      lone == Len(s1) = 1 /\ ("SingleSegmentBankOverridden" \in D \/ ~s1[1].bank.on)
      s2  == IF lone THEN <<[s1[1] EXCEPT !.bank = [on |-> TRUE, s |-> bks[1].name]]>> ELSE s1
  IN [banks |-> bks, segs |-> s2, err |-> \E i \in Idx(s2) : ~s2[i].bank.on]

(* merge_segments: validity loop *)
CheckAssign(bks, segs) == \E i \in Idx(segs) : segs[i].bank.s \notin {bks[j].name : j \in Idx(bks)}

(* merge_segments: the segments merged into bank b, in registration order *)
Selected(segs, b) == {i \in Idx(segs) : segs[i].bank.s = b.name /\ segs[i].write}
EmptyBank(b) == [name |-> b.name, lo |-> 0, hi |-> 0, data |-> <<>>, opt |-> b]

(* Bank::merge.  As written, the code takes min/max with the range start..start of a segment that holds no byte, so  *)
(* such a segment stretches a bank that already holds data (deviation "EmptySegmentStretchesBank"); without the       *)
(* deviation a segment without data leaves a bank that holds data untouched.                                         *)
BankMerge(bk, sg, D) ==
  IF sg.lo >= sg.hi /\ bk.lo < bk.hi /\ "EmptySegmentStretchesBank" \notin D THEN bk ELSE
  LET f == FillOf(bk.opt)
      grown == IF bk.lo >= bk.hi
                 THEN [bk EXCEPT !.lo = sg.lo, !.hi = sg.hi, !.data = Rep(f, sg.hi - sg.lo)]
                 ELSE LET nlo == IF sg.lo < bk.lo THEN sg.lo ELSE bk.lo
                          nhi == IF sg.hi > bk.hi THEN sg.hi ELSE bk.hi
                          pre == IF nlo < bk.lo THEN Rep(f, bk.lo - nlo) ELSE <<>>
                          post == IF nhi > bk.hi THEN Rep(f, nhi - bk.hi) ELSE <<>>
                      IN [bk EXCEPT !.lo = nlo, !.hi = nhi, !.data = pre \o bk.data \o post]
      off == sg.lo - grown.lo
  IN [grown EXCEPT !.data = [k \in 1..Len(grown.data) |->
                               IF k > off /\ k <= off + Len(sg.bytes) THEN sg.bytes[k - off] ELSE grown.data[k]]]

(* merge_segments: size check and padding; returns [bank, err] *)
SizeBank(bk) ==
  LET o == bk.opt  n == Len(bk.data) IN
  IF ~o.size.on \/ n = o.size.v THEN [bank |-> bk, err |-> {}]
  ELSE IF n < o.size.v
    THEN IF o.fill.on THEN [bank |-> [bk EXCEPT !.hi = bk.hi + (o.size.v - n), !.data = bk.data \o Rep(o.fill.v, o.size.v - n)], err |-> {}]
         ELSE [bank |-> bk, err |-> {"short"}]
  ELSE [bank |-> bk, err |-> {"oversize"}]

(* build.rs: header bank put in front when the format is prg *)
HeaderBank(cfg, first, D) ==
  [name |-> "prg_header", lo |-> 0, hi |-> 2, data |-> PrgHeader(first.lo),
   opt |-> [DefaultBank EXCEPT !.name = "prg_header",
            !.fname = IF "PrgHeaderInSeparateFile" \in D THEN OffS ELSE first.opt.fname]]

(* write_banks: one bank appended to (or creating) its file; files = Seq([name, data]) in creation order *)
WriteOne(files, bk, defname) ==
  LET f == IF bk.opt.fname.on THEN bk.opt.fname.s ELSE defname IN
  IF \E i \in Idx(files) : files[i].name = f
    THEN [i \in Idx(files) |-> IF files[i].name = f THEN [files[i] EXCEPT !.data = @ \o bk.data] ELSE files[i]]
    ELSE Append(files, [name |-> f, data |-> bk.data])

(* the same steps as a function (the judge needs the result, not the run) *)
RECURSIVE MergeAll(_, _, _, _)
MergeAll(bk, segs, todo, D) ==       \* todo: set of selected indices still to merge, smallest first
  IF todo = {} THEN bk ELSE LET i == BMin(todo) IN MergeAll(BankMerge(bk, segs[i], D), segs, todo \ {i}, D)
RECURSIVE WriteAll(_, _, _)
WriteAll(files, bks, defname) ==
  IF Len(bks) = 0 THEN files ELSE WriteAll(WriteOne(files, Head(bks), defname), Tail(bks), defname)

Failed(kinds) == [ok |-> FALSE, files |-> <<>>, errs |-> kinds, banks |-> <<>>]
Outcome(cfg, D) ==
  LET ps == Placed(cfg) IN
  IF CodegenErrs(cfg, ps) # {} THEN Failed(CodegenErrs(cfg, ps))
  ELSE LET fin == Finalize(cfg, ps, D) IN
  IF fin.err THEN Failed({"nobank"})
  ELSE IF cfg.fmt = "prg" /\ Len(fin.banks) # 1 THEN Failed({"prgmulti"})
  ELSE LET sized == [j \in Idx(fin.banks) |-> SizeBank(MergeAll(EmptyBank(fin.banks[j]), fin.segs, Selected(fin.segs, fin.banks[j]), D))]
           errs == (IF CheckAssign(fin.banks, fin.segs) THEN {"unknownbank"} ELSE {}) \cup UNION {sized[j].err : j \in Idx(sized)}
       IN IF errs # {} THEN Failed(errs)
          ELSE LET merged == [j \in Idx(sized) |-> sized[j].bank]
                   out == IF OutFmt(cfg) = "prg" THEN <<HeaderBank(cfg, merged[1], D)>> \o merged ELSE merged
               IN [ok |-> TRUE, files |-> WriteAll(<<>>, out, DefName(cfg)), errs |-> {},
                   banks |-> [j \in Idx(merged) |-> [name |-> merged[j].name, lo |-> merged[j].lo, hi |-> merged[j].hi, data |-> merged[j].data]]]

(* ---------------------------------------------------------------- known deviations: narrow witnesses *)
(* the input shapes under which the code is known to break the property *)
WitnessLone(cfg) == /\ Len(cfg.segs) = 1 /\ cfg.segs[1].bank.on
                    /\ cfg.segs[1].bank.s # EffBanks(cfg)[1].name
WitnessHeader(cfg) == /\ OutFmt(cfg) = "prg" /\ Len(EffBanks(cfg)) = 1
                      /\ EffBanks(cfg)[1].fname.on /\ EffBanks(cfg)[1].fname.s # DefName(cfg)
(* a writable segment without bytes that is registered after a writable segment with bytes of the same bank *)
WitnessEmpty(cfg) == \E i, j \in Idx(cfg.segs) : /\ j < i /\ cfg.segs[i].write /\ cfg.segs[j].write
                                                  /\ Len(cfg.segs[i].bytes) = 0 /\ Len(cfg.segs[j].bytes) > 0
                                                  /\ BankOf(cfg, i) = BankOf(cfg, j)
SameOutcome(o, m) == o.ok = m.ok /\ (o.ok => UniqueNames(o) /\ FilesFn(o) = FilesFn(m))
(* "" or the name of the known deviation that explains outcome o exactly *)
KnownDeviation(cfg, o) ==
  IF WitnessLone(cfg) /\ SameOutcome(o, Outcome(cfg, {"SingleSegmentBankOverridden"})) THEN "SingleSegmentBankOverridden"
  ELSE IF WitnessHeader(cfg) /\ SameOutcome(o, Outcome(cfg, {"PrgHeaderInSeparateFile"})) THEN "PrgHeaderInSeparateFile"
  ELSE IF WitnessEmpty(cfg) /\ SameOutcome(o, Outcome(cfg, {"EmptySegmentStretchesBank"})) THEN "EmptySegmentStretchesBank"
  ELSE IF WitnessLone(cfg) /\ WitnessHeader(cfg)
          /\ SameOutcome(o, Outcome(cfg, {"SingleSegmentBankOverridden", "PrgHeaderInSeparateFile"})) THEN "SingleSegmentBankOverridden"
  ELSE ""
(* the same for the merged banks seen in-process (the lone-segment rule can hide in identical files) *)
KnownDeviationBanks(cfg, obanks) ==
  IF WitnessLone(cfg) /\ obanks = Outcome(cfg, {"SingleSegmentBankOverridden"}).banks THEN "SingleSegmentBankOverridden"
  ELSE IF WitnessEmpty(cfg) /\ obanks = Outcome(cfg, {"EmptySegmentStretchesBank"}).banks THEN "EmptySegmentStretchesBank"
  ELSE ""
=============================================================================
