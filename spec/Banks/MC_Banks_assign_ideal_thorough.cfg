SPECIFICATION Spec
CONSTANT Profile = "assign"
CONSTANT MaxBanks = 3
CONSTANT MaxSegs = 3
CONSTANT Deviations = {}
CONSTANT Base = 4096
CONSTANT Starts = {}
CONSTANT Lens = {}
CONSTANT Sizes = {}
INVARIANT Strict
INVARIANT SameAsFunction
INVARIANT MergePrefix
INVARIANT NoPartialOutput
PROPERTY Monotone
