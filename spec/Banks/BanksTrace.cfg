SPECIFICATION Spec
POSTCONDITION Consumed
