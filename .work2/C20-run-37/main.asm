.test "t" {
    ldx #1
    jsr spin
    brk
    spin: jmp spin
}
