.test "t" {
    ldx #3
    loop: jsr sub
    iny
    dex
    bne loop
    lda #7
    brk
    sub: iny
    rts
}
