.test "t" {
    ldx #2
    loop: jsr sub
    iny
    dex
    bne loop
    lda #9
    brk
    sub: iny
    nop
    rts
}
