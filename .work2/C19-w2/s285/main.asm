.test "t" {
    ldx #22
    loop: jsr sub
    dex
    bne loop
    brk
    sub: iny
    rts
}
