.test "t" {
    ldx #30
    loop: jsr sub
    dex
    bne loop
    brk
    sub: iny
    rts
}
