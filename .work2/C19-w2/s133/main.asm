.test "t" {
    ldx #3
    loop: jsr sub
    dex
    bne loop
    lda #0
    brk
    sub: iny
    nop
    rts
}
