.test "t" {
    ldx #26
    loop: jsr sub
    dex
    bne loop
    brk
    sub: iny
    rts
}
