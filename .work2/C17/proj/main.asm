nop
