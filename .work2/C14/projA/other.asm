oth: nop
  jmp oth
