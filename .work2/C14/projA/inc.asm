ext: nop
