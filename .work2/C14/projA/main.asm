.import * from "inc.asm"
foo: {
  lda bar // é汉 x
  bar: nop
}
  lda foo.bar
  sta ext
