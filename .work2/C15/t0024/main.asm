a: {
  a: {
    .word super.a  // super.a "a"
  }
  b: nop
  .word a.b  // a.b "b"
}
b: nop
.word a.a  // a.a "a"
