b: {
  zz7: {
    .word zz7  // a "a"
  }
  b: nop
  .word super.b  // super.b "b"
}
a: nop
.word b.zz7  // b.a "a"
