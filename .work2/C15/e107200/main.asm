.macro m(q) {
  .word q  // q "q"
}
.macro n(p) {
  .word p  // p "p"
}
s: {
  .const zz9 = 12
  n(2)
  .word zz9  // m "m"
}
.const x = 21
.if 1 {
  m(2)
  .word x  // x "x"
} else {
  m(2)
  .word x  // x "x"
}
m(2)
