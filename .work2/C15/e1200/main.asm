.macro zz0(q) {
  .word q  // q "q"
  .word q  // q "q"
}
.if 1 {
  .if 0 {
    .word zz0  // m "m"
    .word zz0  // m "m"
  }
  .if 0 {
    zz0(2)
    zz0(2)
  }
} else {
  .if 0 {
    zz0(2)
    .word c  // c "c"
  }
}
zz0(2)
c: {
  .if 0 {
    .word c  // c "c"
    zz0(2)
  } else {
    zz0(2)
  }
  zz0(2)
  .const m = 14
}
.const b = 15
.word c.m  // c.m "m"
