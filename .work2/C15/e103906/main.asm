zz0: {
  a: {
    .word .b  // super.b "b"
  }
  b: nop
  .word super.zz0  // super.b "b"
}
a: nop
.word a  // a "a"
