a: {
  c: {
    .word super.c  // super.b "b"
  }
  a: nop
  .word super.b  // super.b "b"
}
b: nop
.word a.a  // a.a "a"
