a: {
  a: {
    .word super.a  // super.a "a"
  }
  zz9: nop
  .word a.zz9  // a.b "b"
}
b: nop
.word a.a  // a.a "a"
