.import * from "inc.asm"
.word c  // c "c"
.if 0 {
  .word c  // b "b"
  .word c  // c "c"
}
c: {
  .if 0 {
    .word super.c  // super.c "c"
  }
  c: nop
}
c: {
  .word c  // b "b"
  b: {
    a: nop
    .word c.b.a  // b.b.a "a"
    b: nop
  }
}
