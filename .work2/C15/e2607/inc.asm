.word c  // b "b"
