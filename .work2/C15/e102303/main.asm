a: {
  a: {
    .word super.a  // super.a "a"
  }
  a: nop
  .word a  // b "b"
}
b: nop
.word a.a  // a.a "a"
