.word b  // c "c"
b: nop
{
  .word b  // c "c"
}
