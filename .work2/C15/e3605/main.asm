.import * from "inc.asm"
.word c  // c "c"
.const c = 3
.word c  // c "c"
b: {
  .word c  // c "c"
  .const c = 5
  .if 1 {
    .word c  // c "c"
  } else {
    .word b.c  // a.c "c"
  }
}
b: {
  .if 1 {
    .word c  // c "c"
    .word c  // c "c"
  } else {
    .word b  // b "b"
  }
}
