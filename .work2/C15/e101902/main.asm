a: {
  zz4: {
    .word zz4  // b "b"
  }
  a: nop
  .word a  // a "a"
}
b: nop
.word b  // b "b"
