zz7: {
  b: {
    .word zz7.a  // b.a "a"
  }
  a: nop
  .word super.a  // super.a "a"
}
a: nop
.word zz7.a  // b.a "a"
