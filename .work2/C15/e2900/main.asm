.import * from "inc.asm"
.if 0 {
  .if 0 {
    .word zz0  // b "b"
  }
}
.if 0 {
  .if 0 {
    .word zz0  // b "b"
    .word zz0  // b "b"
  }
} else {
  .word zz0  // b "b"
}
.word zz0  // b "b"
.word zz0  // b "b"
.word zz0  // b "b"
.word zz0  // b "b"
