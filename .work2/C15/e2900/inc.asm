zz0: {
  .word super.zz0  // super.b "b"
}
