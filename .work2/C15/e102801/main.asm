c: {
  b: {
    .word .b  // super.b "b"
  }
  a: nop
  .word c  // a "a"
}
b: nop
.word c.a  // a.a "a"
