zz0: {
  a: {
    .word zz0  // b "b"
  }
  b: nop
  .word super.zz0  // super.b "b"
}
a: nop
.word zz0  // b "b"
