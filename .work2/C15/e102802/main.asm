a: {
  zz4: {
    .word super.zz4  // super.b "b"
  }
  a: nop
  .word a  // a "a"
}
b: nop
.word a.a  // a.a "a"
