zz8: {
  b: {
    .word .b  // super.b "b"
  }
  a: nop
  .word zz8.a  // a.a "a"
}
b: nop
.word zz8  // a "a"
