.macro m(q) {
  .word q  // q "q"
}
.macro n(p) {
  .word p  // p "p"
}
s: {
  .const zz2 = 12
  n(2)
  .word zz2  // y "y"
}
.const x = 21
.if 1 {
  m(2)
  .word s.zz2  // s.y "y"
} else {
  n(2)
  .word x  // x "x"
}
m(2)
