.macro m(p, a) {
  .word p  // p "p"
}
.word c  // c "c"
.word c.c  // c.c "c"
{
  c: {
    m(5, 2)
  }
  .const b = 8
}
.const a = 9
c: {
  .const c = 11
  .if 0 {
    m(2, 2)
    m(2, 2)
  }
}
