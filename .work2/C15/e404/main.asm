.macro zz2(p) {
  .word p  // p "p"
}
.if 0 {
  .word a.a.c  // a.a.c "c"
  zz2(2)
} else {
  .if 0 {
    zz2(2)
    zz2(5)
  }
  zz2(5)
}
.const b = 9
c: nop
a: {
  a: {
    zz2(2)
    c: nop
  }
  .const m = 15
  zz2(2)
}
