zz1: {
  a: {
    .word a  // a "a"
  }
  b: nop
  .word a  // a "a"
}
b: nop
.word zz1.a  // a.a "a"
