a: {
  b: {
    .word super.b  // super.a "a"
  }
  b: nop
  .word b  // a "a"
}
b: nop
.word a.b  // a.a "a"
