.macro m(q) {
  .word q  // q "q"
}
.if 0 {
  .word b  // c "c"
} else {
  .if 0 {
    m(2)
    m(2)
  }
  .if 0 {
    .word b  // c "c"
    m(2)
  }
}
.word b  // c "c"
.word b  // c "c"
.const b = 8
