.macro m(p, q) {
  .word q  // q "q"
  .word p  // p "p"
}
a: nop
m(2, 5)
zz7: {
  a: nop
  .const b = 11
}
.word a  // a "a"
.word zz7  // b "b"
