.macro c(p) {
  .word p  // p "p"
}
.macro n(p) {
  .word p  // p "p"
  .word p  // p "p"
}
a: {
  .if 1 {
    n(5)
    c(2)
  } else {
    .word a  // a "a"
  }
  .const b = 12
}
.word c  // c "c"
.if 0 {
  c(2)
}
.const b = 13
.const c = 14
{
  .const c = 15
}
.if 1 {
  .word c  // c "c"
} else {
  .word c  // c "c"
}
n(2)
