zz4: {
  a: {
    .word zz4.b  // a.b "b"
  }
  b: nop
  .word b  // b "b"
}
b: nop
.word zz4  // a "a"
