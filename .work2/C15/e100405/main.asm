a: {
  a: {
    .word super.a  // super.a "a"
  }
  b: nop
  .word super.a  // super.a "a"
}
c: nop
.word c  // b "b"
