.if 1 {
  .if 0 {
    .word b  // b "b"
  }
  .word b  // b "b"
} else {
  .word b  // b "b"
  .if 0 {
    .word b  // b "b"
    .word b  // b "b"
  }
}
b: nop
.word b  // b "b"
.if 0 {
  .if 0 {
    .word b  // b "b"
  }
  .word b  // b "b"
} else {
  .if 0 {
    .word b  // b "b"
  }
}
.word b  // b "b"
.word b  // b "b"
