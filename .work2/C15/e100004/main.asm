zz9: {
  b: {
    .word .a  // super.a "a"
  }
  a: nop
  .word zz9.a  // a.a "a"
}
b: nop
.word zz9  // a "a"
