zz9: {
  b: {
    .word .b  // super.b "b"
  }
  a: nop
  .word super.b  // super.b "b"
}
b: nop
.word zz9.a  // a.a "a"
