a: {
  zz9: {
    .word super.zz9  // super.a "a"
  }
  b: nop
  .word a.b  // a.b "b"
}
b: nop
.word a.zz9  // a.a "a"
