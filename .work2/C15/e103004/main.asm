zz2: {
  b: {
    .word zz2.a  // b.a "a"
  }
  a: nop
  .word super.a  // super.a "a"
}
a: nop
.word zz2  // b "b"
