a: {
  a: {
    .word super.a  // super.a "a"
  }
  b: nop
  .word super.a  // super.a "a"
}
zz5: nop
.word zz5  // b "b"
