c: {
  b: {
    .word .b  // super.b "b"
  }
  a: nop
  .word a  // a "a"
}
a: nop
.word c.a  // b.a "a"
