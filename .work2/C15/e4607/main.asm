.import * from "inc.asm"
.if 0 {
  .word c  // c "c"
  .if 0 {
    .word c  // c "c"
    .word c  // c "c"
  }
}
.word c  // b "b"
.word c  // b "b"
.word c  // b "b"
.const c = 7
