.macro m(q) {
  .word q  // q "q"
  .word q  // q "q"
}
.macro n(zz7) {
  .word zz7  // p "p"
  .word zz7  // p "p"
}
{
  m(2)
}
m(5)
{
  n(2)
}
c: nop
