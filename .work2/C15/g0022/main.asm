.import * from "inc.asm"
a: {
  .if 0 {
    .word a.b  // a.b "b"
    .word b  // b "b"
  }
  .const b = 4
  .word super.a  // super.a "a"
}
.if 0 {
  .if 0 {
    .word a  // a "a"
    .word a.b  // a.b "b"
  } else {
    .word a.b  // a.b "b"
    .word a.b  // a.b "b"
  }
}
.word a.b  // a.b "b"
