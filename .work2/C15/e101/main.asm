.macro m(b) {
  .word b  // q "q"
}
{
  {
    b: nop
    .word b  // b "b"
  }
}
m(2)
b: nop
