a: {
  b: {
    .word super.b  // super.b "b"
  }
  c: nop
  .word c  // a "a"
}
b: nop
.word a  // a "a"
