a: {
  b: {
    .word a  // a "a"
  }
  a: nop
  .word b  // b "b"
}
zz9: nop
.word a.b  // a.b "b"
