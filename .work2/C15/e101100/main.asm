a: {
  zz1: {
    .word super.b  // super.b "b"
  }
  b: nop
  .word zz1  // a "a"
}
b: nop
.word a.b  // a.b "b"
