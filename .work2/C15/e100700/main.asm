a: {
  a: {
    .word a.zz1  // a.b "b"
  }
  zz1: nop
  .word zz1  // b "b"
}
b: nop
.word a  // a "a"
