.macro m(q) {
  .word q  // q "q"
  .word q  // q "q"
}
.if 1 {
  .if 0 {
    .word m  // m "m"
    .word m  // m "m"
  }
  .if 0 {
    m(2)
    m(2)
  }
} else {
  .if 0 {
    m(2)
    .word a  // c "c"
  }
}
m(2)
a: {
  .if 0 {
    .word a  // c "c"
    m(2)
  } else {
    m(2)
  }
  m(2)
  .const m = 14
}
.const b = 15
.word a.m  // c.m "m"
