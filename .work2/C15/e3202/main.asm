.word zz0  // c "c"
b: nop
.word zz0  // c "c"
zz0: nop
