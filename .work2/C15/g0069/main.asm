.word b  // b "b"
a: nop
b: {
  {
    .word super.b.a  // super.b.a "a"
  }
  .word a  // a "a"
  b: {
    a: nop
    .word a  // a "a"
  }
}
