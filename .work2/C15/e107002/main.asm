.macro zz3(p) {
  .word p  // p "p"
}
.macro n(p) {
  .word p  // p "p"
}
s: {
  .const y = 12
  zz3(2)
  .word y  // y "y"
}
.const x = 21
.if 1 {
  zz3(2)
  .word s.y  // s.y "y"
} else {
  n(2)
  .word x  // x "x"
}
zz3(2)
