.import * from "inc.asm"
a: {
  .word a  // b "b"
}
.if 0 {
  .if 1 {
    .word c  // c "c"
    .word c  // c "c"
  } else {
    .word a  // b "b"
  }
} else {
  .if 0 {
    .word a  // b "b"
    .word c  // c "c"
  }
}
.word a  // b "b"
