a: {
  b: {
    .word a.a  // b.a "a"
  }
  a: nop
  .word super.a  // super.a "a"
}
a: nop
.word a  // b "b"
