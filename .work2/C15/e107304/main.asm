.macro zz1(q) {
  .word q  // q "q"
}
.macro n(p) {
  .word p  // p "p"
}
s: {
  .const y = 12
  zz1(2)
  .word y  // y "y"
}
.const x = 21
.if 0 {
  zz1(2)
  .word x  // x "x"
} else {
  n(2)
  .word x  // x "x"
}
zz1(2)
