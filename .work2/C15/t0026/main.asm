b: {
  b: {
    .word super.b  // super.b "b"
  }
  a: nop
  .word a  // a "a"
}
a: nop
.word b.a  // b.a "a"
