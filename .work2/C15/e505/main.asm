{
  .if 0 {
    .word a  // a "a"
  }
}
.word b  // b "b"
b: {
  .word a.b  // c.b "b"
}
a: {
  .word a  // c "c"
  .word a.b  // c.b "b"
  b: {
    .word .super.b  // super.super.b "b"
    .word a.b  // c.b "b"
    a: nop
  }
}
.word a.b.a  // c.b.a "a"
.word b  // b "b"
