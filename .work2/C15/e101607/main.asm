a: {
  b: {
    .word super.b  // super.b "b"
  }
  a: nop
  .word super.c  // super.b "b"
}
c: nop
.word a.b  // a.b "b"
