.macro zz7(q) {
  .word q  // q "q"
  .word q  // q "q"
}
.if 1 {
  .if 0 {
    .word zz7  // m "m"
    .word zz7  // m "m"
  }
  .if 0 {
    zz7(2)
    zz7(2)
  }
} else {
  .if 0 {
    zz7(2)
    .word c  // c "c"
  }
}
zz7(2)
c: {
  .if 0 {
    .word c  // c "c"
    zz7(2)
  } else {
    zz7(2)
  }
  zz7(2)
  .const m = 14
}
.const b = 15
.word c.m  // c.m "m"
