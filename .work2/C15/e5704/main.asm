.macro m(p, q) {
  .word q  // q "q"
  .word q  // q "q"
}
.macro n(q) {
  .word q  // q "q"
}
.word zz1  // b "b"
.word zz1  // b "b"
m(5, 2)
.if 0 {
  n(2)
}
.if 0 {
  .word zz1  // b "b"
  .if 0 {
    m(2, 2)
  }
} else {
  .if 0 {
    n(5)
    .word zz1  // b "b"
  }
  n(2)
}
zz1: nop
.word zz1  // b "b"
m(2, 2)
