c: {
  .if 0 {
    .word c.c  // b.c "c"
  } else {
    .word c  // b "b"
    .word c.c.c  // b.c.c "c"
  }
  c: {
    .word c  // c "c"
    .word c  // b "b"
    .const c = 4
  }
}
.word c.c  // b.c "c"
.if 1 {
  .if 0 {
    .word c.c  // b.c "c"
    .word c.c  // b.c "c"
  }
} else {
  .if 0 {
    .word c  // b "b"
    .word c.c  // b.c "c"
  }
  .if 1 {
    .word c  // c "c"
    .word c.c  // b.c "c"
  } else {
    .word c  // c "c"
    .word c  // b "b"
  }
}
