.import * from "inc.asm"
b: {
  .word b  // b "b"
  .if 0 {
    .word b  // b "b"
  }
  .if 1 {
    .word c  // c "c"
    .word c  // c "c"
  } else {
    .word b  // b "b"
    .word c  // c "c"
  }
}
.if 0 {
  .if 0 {
    .word b  // b "b"
    .word c  // c "c"
  } else {
    .word c  // c "c"
  }
  .word b  // b "b"
}
.const c = 4
