.if 1 {
  .if 0 {
    .word zz4  // b "b"
  }
  .word zz4  // b "b"
} else {
  .word zz4  // b "b"
  .if 0 {
    .word zz4  // b "b"
    .word zz4  // b "b"
  }
}
zz4: nop
.word zz4  // b "b"
.if 0 {
  .if 0 {
    .word zz4  // b "b"
  }
  .word zz4  // b "b"
} else {
  .if 0 {
    .word zz4  // b "b"
  }
}
.word zz4  // b "b"
.word zz4  // b "b"
