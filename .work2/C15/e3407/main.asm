.macro a(q) {
  .word q  // q "q"
  .word q  // q "q"
}
.macro n(q) {
  .word q  // q "q"
}
.word b  // b "b"
.word b  // b "b"
.word a  // m "m"
{
  .const m = 9
}
b: {
  .word a  // m "m"
}
.if 0 {
  a(2)
}
n(2)
