c: {
  .word super.b  // super.b "b"
}
{
  .word b  // a "a"
}
.const b = 3
.word b  // a "a"
b: nop
