c: {
  b: {
    .word c.a  // a.a "a"
  }
  a: nop
  .word b  // b "b"
}
b: nop
.word c  // a "a"
