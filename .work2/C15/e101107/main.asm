a: {
  a: {
    .word super.b  // super.b "b"
  }
  b: nop
  .word a  // a "a"
}
c: nop
.word a.b  // a.b "b"
