a: {
  a: {
    .word a.b  // a.b "b"
  }
  b: nop
  .word b  // b "b"
}
c: nop
.word a  // a "a"
