.macro m(q) {
  .word q  // q "q"
  .word q  // q "q"
}
.macro n(q) {
  .word q  // q "q"
}
.word b  // b "b"
.word b  // b "b"
.word m  // m "m"
{
  .const m = 9
}
b: {
  .word m  // m "m"
}
.if 0 {
  m(2)
}
n(2)
