.macro m(p) {
  .word p  // p "p"
}
.macro a(p) {
  .word p  // p "p"
}
s: {
  .const m = 12
  a(2)
  .word m  // m "m"
}
.const x = 21
.if 0 {
  a(2)
  .word x  // x "x"
} else {
  m(2)
  .word x  // x "x"
}
m(2)
