b: {
  c: {
    .word super.b  // super.b "b"
  }
  b: nop
  .word super.b  // super.b "b"
}
a: nop
.word a  // a "a"
