b: {
  .if 0 {
    .word b.zz6  // b.c "c"
  } else {
    .word b  // b "b"
    .word b.zz6.c  // b.c.c "c"
  }
  zz6: {
    .word zz6  // c "c"
    .word b  // b "b"
    .const c = 4
  }
}
.word b.zz6  // b.c "c"
.if 1 {
  .if 0 {
    .word b.zz6  // b.c "c"
    .word b.zz6  // b.c "c"
  }
} else {
  .if 0 {
    .word b  // b "b"
    .word b.zz6  // b.c "c"
  }
  .if 1 {
    .word c  // c "c"
    .word b.zz6  // b.c "c"
  } else {
    .word c  // c "c"
    .word b  // b "b"
  }
}
