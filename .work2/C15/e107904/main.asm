.macro m(q) {
  .word q  // q "q"
}
.macro n(p) {
  .word p  // p "p"
}
s: {
  .const zz6 = 12
  m(2)
  .word zz6  // y "y"
}
.const x = 21
.if 1 {
  m(2)
  .word s.zz6  // s.y "y"
} else {
  n(2)
  .word x  // x "x"
}
n(2)
