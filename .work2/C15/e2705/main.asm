.macro m(q) {
  .word q  // q "q"
}
a: {
  .word a  // b "b"
  c: {
    m(2)
    .word a  // a "a"
    .word a  // b "b"
  }
}
a: nop
c: nop
{
  a: nop
}
.word a  // b "b"
{
  .word super.c  // super.c "c"
}
