a: {
  a: {
    .word super.a  // super.a "a"
  }
  b: nop
  .word super.a  // super.a "a"
}
zz8: nop
.word zz8  // b "b"
