zz9: {
  a: {
    .word a  // a "a"
  }
  b: nop
  .word super.a  // super.a "a"
}
a: nop
.word zz9  // b "b"
