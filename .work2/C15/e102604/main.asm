b: {
  b: {
    .word super.b  // super.b "b"
  }
  zz7: nop
  .word zz7  // a "a"
}
a: nop
.word b.zz7  // b.a "a"
