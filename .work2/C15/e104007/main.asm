c: {
  b: {
    .word .super.b  // super.super.b "b"
  }
  a: nop
  .word c.a  // a.a "a"
}
b: nop
.word c.a  // a.a "a"
