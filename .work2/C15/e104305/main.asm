a: {
  a: {
    .word a.a  // b.a "a"
  }
  b: nop
  .word super.a  // super.b "b"
}
a: nop
.word a.a  // b.a "a"
