b: {
  a: {
    .word a  // a "a"
  }
  b: nop
  .word super.c  // super.a "a"
}
c: nop
.word b  // b "b"
