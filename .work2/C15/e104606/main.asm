a: {
  b: {
    .word zz0  // a "a"
  }
  zz0: nop
  .word b  // b "b"
}
b: nop
.word a.b  // a.b "b"
