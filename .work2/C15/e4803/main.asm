{
  .if 0 {
    .word c  // c "c"
    .word c.c.a  // a.c.a "a"
  } else {
    .word c  // c "c"
    .word c  // a "a"
  }
}
.word c  // a "a"
c: {
  .word c.c  // a.c "c"
  .word c  // a "a"
  c: {
    .const a = 4
  }
}
c: {
  .if 0 {
    .word super.c.c.a  // super.a.c.a "a"
    .word c.a  // c.a "a"
  }
}
