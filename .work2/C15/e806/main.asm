.macro m(q) {
  .word q  // q "q"
}
c: {
  {
    b: nop
  }
}
b: {
  .const zz4 = 8
}
m(5)
.word b  // b "b"
.word b.zz4  // b.a "a"
