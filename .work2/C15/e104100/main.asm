b: {
  zz2: {
    .word b.a  // b.a "a"
  }
  a: nop
  .word zz2  // b "b"
}
a: nop
.word a  // a "a"
