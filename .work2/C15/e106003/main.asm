.macro m(p) {
  .word p  // p "p"
}
.macro a(p) {
  .word p  // p "p"
}
s: {
  .const m = 12
  m(2)
  .word m  // m "m"
}
.const x = 21
.if 1 {
  m(2)
  .word x  // x "x"
} else {
  a(2)
  .word x  // x "x"
}
a(2)
