b: {
  a: {
    .word super.super.b  // super.super.b "b"
  }
  b: nop
  .word b.a  // b.a "a"
}
zz1: nop
.word zz1  // a "a"
