.if 1 {
  .if 0 {
    .word c  // c "c"
    .word a  // a "a"
  }
} else {
  .if 0 {
    .word a  // a "a"
  }
  .word a  // a "a"
}
b: {
  .word a  // a "a"
  .word b  // b "b"
}
.const a = 3
.word a  // a "a"
.word b  // b "b"
.const c = 4
