{
  .word zz9  // c "c"
  .if 0 {
    .word zz9  // c "c"
  } else {
    .word zz9  // c "c"
  }
}
.word zz9  // c "c"
.word zz9  // c "c"
.word zz9  // c "c"
zz9: {
  .word super.zz9  // super.c "c"
}
