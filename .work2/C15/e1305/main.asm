.const b = 2
a: {
  b: nop
  .word b  // b "b"
  .const c = 5
}
c: {
  .word b  // b "b"
}
.if 0 {
  .if 0 {
    .word a.b  // a.b "b"
    .word c  // c "c"
  }
  .if 0 {
    .word b  // b "b"
  }
}
{
  a: nop
  .word a  // b "b"
}
{
  b: nop
}
