.word zz4  // b "b"
.word zz4  // b "b"
c: nop
.word c  // c "c"
{
  .word super.c  // super.c "c"
  b: {
    .word b  // b "b"
    b: nop
  }
}
.const zz4 = 5
