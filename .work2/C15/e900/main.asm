.import * from "inc.asm"
.if 0 {
  .word zz7  // a "a"
  .if 0 {
    .word zz7  // a "a"
  }
}
.word zz7  // a "a"
.word zz7  // a "a"
zz7: nop
