.word zz7  // a "a"
