.word zz6  // c "c"
zz6: nop
{
  .word zz6  // c "c"
}
