b: {
  a: {
    .word a  // a "a"
  }
  zz9: nop
  .word super.a  // super.a "a"
}
a: nop
.word b  // b "b"
