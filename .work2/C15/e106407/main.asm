.macro m(p) {
  .word p  // p "p"
}
.macro n(p) {
  .word p  // p "p"
}
s: {
  .const y = 12
  m(2)
  .word y  // y "y"
}
.const c = 21
.if 1 {
  m(2)
  .word c  // x "x"
} else {
  m(2)
  .word c  // x "x"
}
m(2)
