.macro m(q) {
  .word q  // q "q"
}
.macro n(p) {
  .word p  // p "p"
}
s: {
  .const y = 12
  m(2)
  .word y  // y "y"
}
.const c = 21
.if 0 {
  m(2)
  .word c  // x "x"
} else {
  n(2)
  .word c  // x "x"
}
m(2)
