{
  .if 0 {
    .word a  // a "a"
  }
}
.word b  // b "b"
b: {
  .word c.zz6  // c.b "b"
}
c: {
  .word c  // c "c"
  .word c.zz6  // c.b "b"
  zz6: {
    .word super.super.b  // super.super.b "b"
    .word c.zz6  // c.b "b"
    a: nop
  }
}
.word c.zz6.a  // c.b.a "a"
.word b  // b "b"
