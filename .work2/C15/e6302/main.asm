.import * from "inc.asm"
zz3: {
  .if 0 {
    .word zz3.a  // b.a "a"
  }
  a: {
    .word zz3  // b "b"
    .const a = 9
    .word .b.b  // super.b.b "b"
  }
  b: {
    .word .super.zz3  // super.super.b "b"
    .const b = 11
    .word b  // b "b"
  }
}
.if 0 {
  .if 0 {
    .word zz3.b.b  // b.b.b "b"
    .word zz3  // b "b"
  }
}
.if 0 {
  .word a.a  // a.a "a"
  .if 0 {
    .word zz3.b  // b.b "b"
  }
}
.word c  // c "c"
