.import * from "inc.asm"
zz4: nop
a: {
  .word zz4  // c "c"
  .if 0 {
    .word super.b  // super.b "b"
  } else {
    .word a  // a "a"
    .word b  // b "b"
  }
  .word super.a  // super.a "a"
}
.if 0 {
  .if 0 {
    .word zz4  // c "c"
  }
}
.const b = 7
.if 0 {
  .if 0 {
    .word a  // a "a"
  }
}
.word zz4  // c "c"
