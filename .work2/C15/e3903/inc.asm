a: {
  c: nop
  .word a  // a "a"
}
