a: {
  a: {
    .word super.a  // super.a "a"
  }
  zz3: nop
  .word a.a  // a.a "a"
}
b: nop
.word a.zz3  // a.b "b"
