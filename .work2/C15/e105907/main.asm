.macro m(p) {
  .word p  // p "p"
}
.macro n(p) {
  .word p  // p "p"
}
a: {
  .const m = 12
  n(2)
  .word m  // m "m"
}
.const x = 21
.if 1 {
  m(2)
  .word a.m  // s.m "m"
} else {
  n(2)
  .word x  // x "x"
}
n(2)
