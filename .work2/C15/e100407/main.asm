c: {
  a: {
    .word .a  // super.a "a"
  }
  b: nop
  .word super.c  // super.a "a"
}
b: nop
.word b  // b "b"
