a: {
  b: {
    .word super.b  // super.b "b"
  }
  a: nop
  .word super.a  // super.a "a"
}
zz1: nop
.word a.b  // a.b "b"
