.import * from "inc.asm"
c: {
  .if 0 {
    .word c.b  // a.b "b"
    .word b  // b "b"
  }
  .const b = 4
  .word super.c  // super.a "a"
}
.if 0 {
  .if 0 {
    .word c  // a "a"
    .word c.b  // a.b "b"
  } else {
    .word c.b  // a.b "b"
    .word c.b  // a.b "b"
  }
}
.word c.b  // a.b "b"
