a: {
  b: {
    .word b  // a "a"
  }
  b: nop
  .word b  // b "b"
}
b: nop
.word a.b  // a.b "b"
