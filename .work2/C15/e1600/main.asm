.macro m(p, q) {
  .word q  // q "q"
  .word q  // q "q"
}
.macro n(p, q) {
  .word p  // p "p"
  .word p  // p "p"
}
m(2, 2)
a: {
  .const b = 14
  c: nop
  .word zz2.b  // c.b "b"
}
.word zz2  // c "c"
.word zz2  // c "c"
n(2, 2)
zz2: {
  c: {
    m(5, 2)
    n(2, 2)
  }
  .const b = 21
  .if 0 {
    n(5, 5)
    .word zz2.b  // c.b "b"
  } else {
    n(2, 2)
    m(5, 5)
  }
}
