.word zz6  // a "a"
zz6: nop
.word zz6  // a "a"
.word zz6  // a "a"
