zz5: {
  a: {
    .word zz5.b  // a.b "b"
  }
  b: nop
  .word a  // a "a"
}
b: nop
.word zz5.b  // a.b "b"
