.import * from "inc.asm"
c: {
  .word c  // b "b"
  .if 0 {
    .word c  // b "b"
  }
  .if 1 {
    .word c  // c "c"
    .word c  // c "c"
  } else {
    .word c  // b "b"
    .word c  // c "c"
  }
}
.if 0 {
  .if 0 {
    .word c  // b "b"
    .word c  // c "c"
  } else {
    .word c  // c "c"
  }
  .word c  // b "b"
}
.const c = 4
