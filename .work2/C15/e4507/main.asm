.macro m(b) {
  .word b  // q "q"
  .word b  // q "q"
}
.macro n(p) {
  .word p  // p "p"
  .word p  // p "p"
}
{
  m(2)
}
m(5)
{
  n(2)
}
c: nop
