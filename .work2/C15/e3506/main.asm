.macro m(q) {
  .word q  // q "q"
  .word q  // q "q"
}
.const zz3 = 6
{
  b: nop
}
b: {
  .if 1 {
    .word c  // c "c"
    .word c  // c "c"
  } else {
    .word b  // b "b"
    m(2)
  }
  m(5)
}
.word b  // b "b"
.const c = 11
{
  .if 0 {
    m(5)
    .word b  // b "b"
  }
}
