a: {
  b: {
    .word super.a  // super.a "a"
  }
  a: nop
  .word a.a  // a.a "a"
}
c: nop
.word a  // a "a"
