a: {
  a: {
    .word b  // b "b"
  }
  b: nop
  .word super.a  // super.a "a"
}
zz6: nop
.word a.a  // a.a "a"
