a: {
  b: {
    .word super.b  // super.b "b"
  }
  a: nop
  .word super.a  // super.a "a"
}
c: nop
.word a.b  // a.b "b"
