.macro zz6(q) {
  .word q  // q "q"
}
.if 0 {
  .word c  // c "c"
} else {
  .if 0 {
    zz6(2)
    zz6(2)
  }
  .if 0 {
    .word c  // c "c"
    zz6(2)
  }
}
.word c  // c "c"
.word c  // c "c"
.const c = 8
