{
  b: nop
}
.const zz2 = 3
.if 0 {
  .word b  // b "b"
  .word b  // b "b"
} else {
  .if 0 {
    .word zz2  // a "a"
    .word b  // b "b"
  }
  .if 0 {
    .word b  // b "b"
  }
}
.word zz2  // a "a"
