.macro m(q) {
  .word q  // q "q"
}
.macro zz5(p) {
  .word p  // p "p"
}
s: {
  .const m = 12
  zz5(2)
  .word m  // m "m"
}
.const x = 21
.if 0 {
  zz5(2)
  .word x  // x "x"
} else {
  m(2)
  .word x  // x "x"
}
zz5(2)
