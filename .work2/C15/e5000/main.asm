.word zz8  // c "c"
zz8: nop
{
  .word zz8  // c "c"
}
