a: {
  a: {
    .word a.a  // a.a "a"
  }
  b: nop
  .word a.b  // a.b "b"
}
zz9: nop
.word a.a  // a.a "a"
