.macro zz6(q) {
  .word q  // q "q"
}
.macro n(p) {
  .word p  // p "p"
}
s: {
  .const y = 12
  n(2)
  .word y  // y "y"
}
.const x = 21
.if 0 {
  zz6(2)
  .word x  // x "x"
} else {
  zz6(2)
  .word x  // x "x"
}
zz6(2)
