.macro m(p) {
  .word p  // p "p"
}
.macro n(p) {
  .word p  // p "p"
}
s: {
  .const zz6 = 12
  m(2)
  .word zz6  // m "m"
}
.const x = 21
.if 1 {
  n(2)
  .word s.zz6  // s.m "m"
} else {
  n(2)
  .word x  // x "x"
}
n(2)
