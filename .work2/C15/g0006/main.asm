.import * from "inc.asm"
.word c  // c "c"
.if 0 {
  .word c  // c "c"
  .if 0 {
    .word c  // c "c"
  }
}
c: nop
.word b  // b "b"
.if 1 {
  .word b  // b "b"
} else {
  .if 0 {
    .word c  // c "c"
  }
  .if 0 {
    .word c  // c "c"
  }
}
