.macro m(q) {
  .word q  // q "q"
}
.macro n(p) {
  .word p  // p "p"
  .word p  // p "p"
}
.word zz5  // a "a"
zz5: {
  b: nop
  .const c = 11
}
b: nop
.if 0 {
  n(2)
}
.word zz5  // a "a"
.word zz5.b  // a.b "b"
c: {
  {
    m(2)
  }
}
m(2)
