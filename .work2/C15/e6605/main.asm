{
  .word a  // c "c"
  .if 0 {
    .word a  // c "c"
  } else {
    .word a  // c "c"
  }
}
.word a  // c "c"
.word a  // c "c"
.word a  // c "c"
a: {
  .word super.a  // super.c "c"
}
