c: {
  b: {
    .word .b  // super.b "b"
  }
  a: nop
  .word super.b  // super.b "b"
}
b: nop
.word c.a  // a.a "a"
