.macro zz6(q) {
  .word q  // q "q"
}
{
  {
    b: nop
    .word b  // b "b"
  }
}
zz6(2)
b: nop
