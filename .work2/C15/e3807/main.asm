.macro m(a) {
  .word a  // p "p"
  .word a  // p "p"
}
.macro n(p) {
  .word p  // p "p"
}
.word a  // a "a"
.if 0 {
  .if 0 {
    .word a  // a "a"
    m(2)
  }
} else {
  .word c  // c "c"
}
a: {
  .if 0 {
    n(2)
    .word c  // c "c"
  } else {
    m(5)
    .word c  // c "c"
  }
}
c: {
  .word a  // a "a"
  .word c  // c "c"
}
.word c  // c "c"
.word c  // c "c"
