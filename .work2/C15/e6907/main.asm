.word c  // b "b"
a: nop
c: {
  {
    .word .b.a  // super.b.a "a"
  }
  .word a  // a "a"
  b: {
    a: nop
    .word a  // a "a"
  }
}
