.macro m(p) {
  .word p  // p "p"
  .word p  // p "p"
}
.word b  // c "c"
b: nop
.if 0 {
  m(5)
  m(2)
}
