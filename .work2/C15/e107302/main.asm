.macro m(q) {
  .word q  // q "q"
}
.macro n(p) {
  .word p  // p "p"
}
s: {
  .const zz9 = 12
  m(2)
  .word zz9  // y "y"
}
.const x = 21
.if 0 {
  m(2)
  .word x  // x "x"
} else {
  n(2)
  .word x  // x "x"
}
m(2)
