.macro m(p) {
  .word p  // p "p"
}
.macro n(p) {
  .word p  // p "p"
  .word p  // p "p"
}
b: {
  .const c = 10
}
.if 0 {
  .word b  // b "b"
} else {
  .word b.c  // b.b "b"
  .word c  // c "c"
}
c: nop
m(2)
n(2)
