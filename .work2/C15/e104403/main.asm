a: {
  a: {
    .word a.c  // a.b "b"
  }
  c: nop
  .word a.c  // a.b "b"
}
b: nop
.word a  // a "a"
