.import * from "inc.asm"
zz2: {
  a: nop
  c: nop
  .if 0 {
    .word b.c  // b.c "c"
  }
}
.if 0 {
  .if 0 {
    .word b.c  // b.c "c"
  }
}
.if 1 {
  .word a  // a "a"
} else {
  .word zz2.c  // c.c "c"
  .word a  // a "a"
}
a: nop
b: {
  .word zz2  // c "c"
  c: {
    .word c  // c "c"
  }
}
.if 0 {
  .if 0 {
    .word zz2  // c "c"
    .word a  // a "a"
  }
  .word zz2.c  // c.c "c"
}
