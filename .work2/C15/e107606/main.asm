.macro zz5(q) {
  .word q  // q "q"
}
.macro n(p) {
  .word p  // p "p"
}
s: {
  .const y = 12
  zz5(2)
  .word y  // y "y"
}
.const x = 21
.if 1 {
  zz5(2)
  .word x  // x "x"
} else {
  n(2)
  .word x  // x "x"
}
n(2)
