.macro m(p, q) {
  .word q  // q "q"
  .word q  // q "q"
}
.macro n(p, q) {
  .word p  // p "p"
  .word p  // p "p"
}
m(2, 2)
a: {
  .const b = 14
  c: nop
  .word c.c  // c.b "b"
}
.word c  // c "c"
.word c  // c "c"
n(2, 2)
c: {
  c: {
    m(5, 2)
    n(2, 2)
  }
  .const c = 21
  .if 0 {
    n(5, 5)
    .word c.c  // c.b "b"
  } else {
    n(2, 2)
    m(5, 5)
  }
}
