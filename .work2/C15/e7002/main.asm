.import * from "inc.asm"
b: nop
.const zz6 = 4
a: nop
