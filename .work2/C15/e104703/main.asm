a: {
  c: {
    .word super.c  // super.b "b"
  }
  a: nop
  .word a  // a "a"
}
b: nop
.word a  // a "a"
