.word b  // b "b"
.word b.a.b  // b.c.b "b"
b: {
  a: {
    .word b.a  // b.c "c"
    b: nop
  }
}
.if 0 {
  .word c  // c "c"
} else {
  .if 0 {
    .word a.c  // a.c "c"
  }
}
a: {
  {
    c: nop
  }
  .const b = 7
  c: nop
}
