.import * from "inc.asm"
.word c  // c "c"
.if 0 {
  .word b  // b "b"
  .word c  // c "c"
}
c: {
  .if 0 {
    .word super.c  // super.c "c"
  }
  a: nop
}
b: {
  .word b  // b "b"
  b: {
    a: nop
    .word b.b.a  // b.b.a "a"
    b: nop
  }
}
