.macro zz5(p) {
  .word p  // p "p"
}
.macro n(p) {
  .word p  // p "p"
}
s: {
  .const y = 12
  zz5(2)
  .word y  // y "y"
}
.const x = 21
.if 1 {
  zz5(2)
  .word x  // x "x"
} else {
  zz5(2)
  .word x  // x "x"
}
zz5(2)
