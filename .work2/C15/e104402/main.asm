a: {
  a: {
    .word a.zz4  // a.b "b"
  }
  zz4: nop
  .word a.zz4  // a.b "b"
}
b: nop
.word a  // a "a"
