b: nop
