.import * from "inc.asm"
.word zz4  // c "c"
.if 0 {
  .word zz4  // c "c"
  .if 0 {
    .word zz4  // c "c"
  }
}
zz4: nop
.word b  // b "b"
.if 1 {
  .word b  // b "b"
} else {
  .if 0 {
    .word zz4  // c "c"
  }
  .if 0 {
    .word zz4  // c "c"
  }
}
