a: {
  a: {
    .word a.a  // a.a "a"
  }
  b: nop
  .word a.b  // a.b "b"
}
c: nop
.word a.a  // a.a "a"
