c: {
  b: {
    .word c.a  // a.a "a"
  }
  a: nop
  .word c.b  // a.b "b"
}
b: nop
.word b  // b "b"
