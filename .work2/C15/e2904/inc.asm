zz2: {
  .word super.zz2  // super.b "b"
}
