.import * from "inc.asm"
.if 0 {
  .if 0 {
    .word zz2  // b "b"
  }
}
.if 0 {
  .if 0 {
    .word zz2  // b "b"
    .word zz2  // b "b"
  }
} else {
  .word zz2  // b "b"
}
.word zz2  // b "b"
.word zz2  // b "b"
.word zz2  // b "b"
.word zz2  // b "b"
