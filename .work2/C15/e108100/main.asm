.macro m(q) {
  .word q  // q "q"
}
.macro n(p) {
  .word p  // p "p"
}
s: {
  .const m = 12
  n(2)
  .word m  // m "m"
}
.const zz4 = 21
.if 1 {
  m(2)
  .word s.m  // s.m "m"
} else {
  n(2)
  .word zz4  // x "x"
}
m(2)
