.import * from "inc.asm"
.word c  // c "c"
.if 0 {
  .word zz7  // b "b"
  .word c  // c "c"
}
c: {
  .if 0 {
    .word super.c  // super.c "c"
  }
  c: nop
}
zz7: {
  .word zz7  // b "b"
  b: {
    a: nop
    .word zz7.b.a  // b.b.a "a"
    b: nop
  }
}
