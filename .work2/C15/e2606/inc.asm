.word zz7  // b "b"
