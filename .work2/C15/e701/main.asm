.if 1 {
  .if 0 {
    .word c  // c "c"
    .word b  // a "a"
  }
} else {
  .if 0 {
    .word b  // a "a"
  }
  .word b  // a "a"
}
b: {
  .word b  // a "a"
  .word b  // b "b"
}
.const b = 3
.word b  // a "a"
.word b  // b "b"
.const c = 4
