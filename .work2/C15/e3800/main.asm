.macro m(p) {
  .word p  // p "p"
  .word p  // p "p"
}
.macro n(p) {
  .word p  // p "p"
}
.word a  // a "a"
.if 0 {
  .if 0 {
    .word a  // a "a"
    m(2)
  }
} else {
  .word zz9  // c "c"
}
a: {
  .if 0 {
    n(2)
    .word zz9  // c "c"
  } else {
    m(5)
    .word zz9  // c "c"
  }
}
zz9: {
  .word a  // a "a"
  .word zz9  // c "c"
}
.word zz9  // c "c"
.word zz9  // c "c"
