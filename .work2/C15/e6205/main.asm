.macro c(q) {
  .word q  // q "q"
}
.if 0 {
  .word c  // c "c"
} else {
  .if 0 {
    c(2)
    c(2)
  }
  .if 0 {
    .word c  // c "c"
    c(2)
  }
}
.word c  // c "c"
.word c  // c "c"
.const c = 8
