a: {
  b: {
    .word super.b  // super.b "b"
  }
  a: nop
  .word a  // a "a"
}
zz6: nop
.word a  // a "a"
