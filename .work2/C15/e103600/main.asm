a: {
  a: {
    .word super.a  // super.a "a"
  }
  zz5: nop
  .word zz5  // b "b"
}
b: nop
.word a.zz5  // a.b "b"
