zz6: {
  a: {
    .word zz6.a  // a.a "a"
  }
  b: nop
  .word zz6.b  // a.b "b"
}
b: nop
.word zz6.a  // a.a "a"
