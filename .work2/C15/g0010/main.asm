.word b  // b "b"
.word a  // a "a"
.word b  // b "b"
.word b  // b "b"
a: {
  .word b  // b "b"
}
b: {
  .word b  // b "b"
}
