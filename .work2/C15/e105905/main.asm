.macro m(p) {
  .word p  // p "p"
}
.macro c(p) {
  .word p  // p "p"
}
s: {
  .const m = 12
  c(2)
  .word m  // m "m"
}
.const x = 21
.if 1 {
  m(2)
  .word s.m  // s.m "m"
} else {
  c(2)
  .word x  // x "x"
}
c(2)
