.word zz6  // b "b"
.word a  // a "a"
.word zz6  // b "b"
.word zz6  // b "b"
a: {
  .word zz6  // b "b"
}
zz6: {
  .word zz6  // b "b"
}
