.import * from "inc.asm"
.word zz0  // c "c"
.const zz0 = 3
.word zz0  // c "c"
a: {
  .word zz0  // c "c"
  .const c = 5
  .if 1 {
    .word c  // c "c"
  } else {
    .word a.c  // a.c "c"
  }
}
b: {
  .if 1 {
    .word zz0  // c "c"
    .word zz0  // c "c"
  } else {
    .word b  // b "b"
  }
}
