a: {
  c: {
    .word b  // b "b"
  }
  b: nop
  .word super.a  // super.a "a"
}
b: nop
.word a.c  // a.a "a"
