zz7: {
  b: {
    .word .super.b  // super.super.b "b"
  }
  a: nop
  .word zz7.a  // a.a "a"
}
b: nop
.word zz7.a  // a.a "a"
