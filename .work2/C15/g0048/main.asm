{
  .if 0 {
    .word c  // c "c"
    .word a.c.a  // a.c.a "a"
  } else {
    .word c  // c "c"
    .word a  // a "a"
  }
}
.word a  // a "a"
a: {
  .word a.c  // a.c "c"
  .word a  // a "a"
  c: {
    .const a = 4
  }
}
c: {
  .if 0 {
    .word super.a.c.a  // super.a.c.a "a"
    .word c.a  // c.a "a"
  }
}
