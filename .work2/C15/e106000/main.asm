.macro m(p) {
  .word p  // p "p"
}
.macro n(p) {
  .word p  // p "p"
}
s: {
  .const zz0 = 12
  m(2)
  .word zz0  // m "m"
}
.const x = 21
.if 1 {
  m(2)
  .word x  // x "x"
} else {
  n(2)
  .word x  // x "x"
}
n(2)
