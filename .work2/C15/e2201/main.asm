.import * from "inc.asm"
a: {
  .if 0 {
    .word a.c  // a.b "b"
    .word c  // b "b"
  }
  .const c = 4
  .word super.a  // super.a "a"
}
.if 0 {
  .if 0 {
    .word a  // a "a"
    .word a.c  // a.b "b"
  } else {
    .word a.c  // a.b "b"
    .word a.c  // a.b "b"
  }
}
.word a.c  // a.b "b"
