.macro m(p) {
  .word p  // p "p"
}
.macro c(p) {
  .word p  // p "p"
  .word p  // p "p"
}
.word b  // b "b"
b: {
  m(2)
}
.if 0 {
  c(5)
}
.const c = 11
.if 0 {
  .word c  // c "c"
} else {
  .word b  // b "b"
  .if 0 {
    .word b  // b "b"
  }
}
.word b  // b "b"
m(5)
m(5)
