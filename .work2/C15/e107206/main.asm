.macro m(q) {
  .word q  // q "q"
}
.macro n(zz0) {
  .word zz0  // p "p"
}
s: {
  .const m = 12
  n(2)
  .word m  // m "m"
}
.const x = 21
.if 1 {
  m(2)
  .word x  // x "x"
} else {
  m(2)
  .word x  // x "x"
}
m(2)
