.macro m(p) {
  .word p  // p "p"
}
.if 0 {
  .word a  // a "a"
  m(2)
} else {
  .word c  // c "c"
}
a: nop
.const c = 7
.if 0 {
  .if 0 {
    .word a  // a "a"
  }
  m(5)
} else {
  .word a  // a "a"
  .if 0 {
    m(5)
  }
}
.if 1 {
  .if 0 {
    m(2)
    m(2)
  }
} else {
  .word c  // c "c"
  .word c  // c "c"
}
