a: {
  a: {
    .word super.zz4  // super.b "b"
  }
  zz4: nop
  .word a  // a "a"
}
b: nop
.word a.zz4  // a.b "b"
