a: {
  a: {
    .word super.a  // super.b "b"
  }
  a: nop
  .word a  // b "b"
}
b: nop
.word b  // b "b"
