.const b = 2
.word b  // b "b"
