.import * from "inc.asm"
.if 1 {
  .if 0 {
    .word b  // b "b"
  }
} else {
  .if 1 {
    .word b  // b "b"
    .word b  // b "b"
  } else {
    .word b  // b "b"
    .word b  // b "b"
  }
}
.word b  // b "b"
.if 1 {
  .word b  // b "b"
  .if 0 {
    .word b  // b "b"
  }
} else {
  .if 0 {
    .word b  // b "b"
    .word b  // b "b"
  }
  .if 0 {
    .word b  // b "b"
    .word b  // b "b"
  }
}
