{
  .if 0 {
    .word c  // c "c"
    .word zz8.c.a  // a.c.a "a"
  } else {
    .word c  // c "c"
    .word zz8  // a "a"
  }
}
.word zz8  // a "a"
zz8: {
  .word zz8.c  // a.c "c"
  .word zz8  // a "a"
  c: {
    .const a = 4
  }
}
c: {
  .if 0 {
    .word super.zz8.c.a  // super.a.c.a "a"
    .word c.a  // c.a "a"
  }
}
