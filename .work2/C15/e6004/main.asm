.word b  // b "b"
.word b  // b "b"
c: nop
.word c  // c "c"
{
  .word super.c  // super.c "c"
  zz4: {
    .word zz4  // b "b"
    b: nop
  }
}
.const b = 5
