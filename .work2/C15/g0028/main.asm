.macro m(q) {
  .word q  // q "q"
}
.macro n(p) {
  .word p  // p "p"
  .word p  // p "p"
}
.word a  // a "a"
a: {
  b: nop
  .const c = 11
}
b: nop
.if 0 {
  n(2)
}
.word a  // a "a"
.word a.b  // a.b "b"
c: {
  {
    m(2)
  }
}
m(2)
