a: {
  zz0: {
    .word super.zz0  // super.b "b"
  }
  a: nop
  .word super.b  // super.b "b"
}
b: nop
.word a.zz0  // a.b "b"
