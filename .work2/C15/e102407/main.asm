c: {
  a: {
    .word .a  // super.a "a"
  }
  b: nop
  .word c.b  // a.b "b"
}
b: nop
.word c.a  // a.a "a"
