.macro m(p) {
  .word p  // p "p"
}
.macro n(p) {
  .word p  // p "p"
}
s: {
  .const zz2 = 12
  m(2)
  .word zz2  // m "m"
}
.const x = 21
.if 1 {
  n(2)
  .word s.zz2  // s.m "m"
} else {
  m(2)
  .word x  // x "x"
}
m(2)
