.word c  // a "a"
.word c  // a "a"
