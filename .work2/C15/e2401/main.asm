.import * from "inc.asm"
.word c  // a "a"
.const c = 4
.word c  // a "a"
