b: {
  b: {
    .word b.b  // a.b "b"
  }
  a: nop
  .word b.a  // a.a "a"
}
b: nop
.word b  // a "a"
