.import * from "inc.asm"
.const b = 5
.if 0 {
  .word b  // a "a"
}
.word b  // a "a"
