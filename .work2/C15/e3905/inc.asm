b: {
  b: nop
  .word b  // a "a"
}
