a: {
  zz0: {
    .word zz0  // b "b"
  }
  a: nop
  .word a  // a "a"
}
b: nop
.word b  // b "b"
