a: {
  a: {
    .word a.b  // a.b "b"
  }
  b: nop
  .word a  // a "a"
}
zz4: nop
.word a.b  // a.b "b"
