.macro zz4(q) {
  .word q  // q "q"
}
.if 0 {
  .word c  // c "c"
} else {
  .if 0 {
    zz4(2)
    zz4(2)
  }
  .if 0 {
    .word c  // c "c"
    zz4(2)
  }
}
.word c  // c "c"
.word c  // c "c"
.const c = 8
