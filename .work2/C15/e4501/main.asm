.macro m(q) {
  .word q  // q "q"
  .word q  // q "q"
}
.macro n(b) {
  .word b  // p "p"
  .word b  // p "p"
}
{
  m(2)
}
m(5)
{
  n(2)
}
c: nop
