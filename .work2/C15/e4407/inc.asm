a: {
  .word a  // b "b"
  .word a  // b "b"
  .const b = 4
}
