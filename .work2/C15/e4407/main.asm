.import * from "inc.asm"
.if 1 {
  .if 0 {
    .word a  // b "b"
    .word a  // b "b"
  } else {
    .word c  // c "c"
  }
  .word a  // b "b"
} else {
  .word a  // b "b"
}
.word c  // c "c"
c: nop
