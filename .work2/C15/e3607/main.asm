.import * from "inc.asm"
.word b  // c "c"
.const b = 3
.word b  // c "c"
a: {
  .word b  // c "c"
  .const c = 5
  .if 1 {
    .word c  // c "c"
  } else {
    .word a.c  // a.c "c"
  }
}
b: {
  .if 1 {
    .word b  // c "c"
    .word b  // c "c"
  } else {
    .word b  // b "b"
  }
}
