zz1: {
  b: {
    .word .a  // super.a "a"
  }
  a: nop
  .word a  // a "a"
}
a: nop
.word a  // a "a"
