.import * from "inc.asm"
.if 1 {
  .if 0 {
    .word zz0  // b "b"
  }
} else {
  .if 1 {
    .word zz0  // b "b"
    .word zz0  // b "b"
  } else {
    .word zz0  // b "b"
    .word zz0  // b "b"
  }
}
.word zz0  // b "b"
.if 1 {
  .word zz0  // b "b"
  .if 0 {
    .word zz0  // b "b"
  }
} else {
  .if 0 {
    .word zz0  // b "b"
    .word zz0  // b "b"
  }
  .if 0 {
    .word zz0  // b "b"
    .word zz0  // b "b"
  }
}
