.const zz0 = 2
.word zz0  // b "b"
