.macro m(p) {
  .word p  // p "p"
}
.macro n(zz0) {
  .word zz0  // q "q"
  .word zz0  // q "q"
}
{
  n(5)
}
c: {
  .const c = 11
  .const a = 12
}
n(5)
m(2)
n(5)
m(2)
