.word zz9  // b "b"
.word a  // a "a"
.word zz9  // b "b"
.word zz9  // b "b"
a: {
  .word zz9  // b "b"
}
zz9: {
  .word zz9  // b "b"
}
