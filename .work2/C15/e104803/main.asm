b: {
  a: {
    .word super.super.b  // super.super.b "b"
  }
  a: nop
  .word super.b  // super.b "b"
}
a: nop
.word a  // a "a"
