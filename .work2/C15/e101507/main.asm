b: {
  c: {
    .word super.a  // super.a "a"
  }
  a: nop
  .word c  // b "b"
}
a: nop
.word a  // a "a"
