.import * from "inc.asm"
.word b  // b "b"
.if 0 {
  .if 1 {
    .word b  // b "b"
    .word b  // b "b"
  } else {
    .word b  // b "b"
  }
}
a: {
  .word super.a  // super.a "a"
  .word b  // b "b"
  b: {
    .word b  // b "b"
    .word c  // c "c"
    .word super.super.a  // super.super.a "a"
  }
}
c: {
  .const b = 6
}
