.macro m(p) {
  .word p  // p "p"
}
.macro zz5(p) {
  .word p  // p "p"
}
s: {
  .const m = 12
  zz5(2)
  .word m  // m "m"
}
.const x = 21
.if 0 {
  m(2)
  .word x  // x "x"
} else {
  zz5(2)
  .word x  // x "x"
}
m(2)
