{
  .if 0 {
    .word a  // a "a"
  }
}
.word b  // b "b"
b: {
  .word zz8.b  // c.b "b"
}
zz8: {
  .word zz8  // c "c"
  .word zz8.b  // c.b "b"
  b: {
    .word .super.b  // super.super.b "b"
    .word zz8.b  // c.b "b"
    a: nop
  }
}
.word zz8.b.a  // c.b.a "a"
.word b  // b "b"
