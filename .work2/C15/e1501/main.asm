.macro m(p) {
  .word p  // p "p"
}
.macro b(q) {
  .word q  // q "q"
  .word q  // q "q"
}
.word b  // b "b"
.const c = 9
.const b = 10
a: {
  b: {
    .const m = 13
  }
  {
    .word m  // m "m"
  }
  a: {
    .word m  // m "m"
    .const c = 15
  }
}
.if 0 {
  b(5)
}
m(5)
