.import * from "inc.asm"
a: nop
zz1: {
  b: {
    c: nop
    .word zz1  // c "c"
  }
}
b: {
  .word zz1  // c "c"
  .if 0 {
    .word b  // b "b"
    .word zz1  // c "c"
  } else {
    .word zz1  // c "c"
    .word b  // b "b"
  }
}
.word a  // a "a"
.if 0 {
  .if 0 {
    .word b  // b "b"
    .word b.c  // b.c "c"
  }
  .if 0 {
    .word b  // b "b"
    .word zz1.b.c  // c.b.c "c"
  }
}
.word zz1.b  // c.b "b"
