.import * from "inc.asm"
.if 0 {
  .word c  // c "c"
  .if 0 {
    .word c  // c "c"
    .word c  // c "c"
  }
}
.word b  // b "b"
.word b  // b "b"
.word b  // b "b"
.const b = 7
