a: {
  b: {
    .word super.b  // super.b "b"
  }
  zz9: nop
  .word zz9  // a "a"
}
b: nop
.word a.zz9  // a.a "a"
