.import * from "inc.asm"
.if 0 {
  .word c  // c "c"
  .if 0 {
    .word c  // c "c"
    .word c  // c "c"
  }
}
.word zz3  // b "b"
.word zz3  // b "b"
.word zz3  // b "b"
.const zz3 = 7
