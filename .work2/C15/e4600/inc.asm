c: {
  .word c  // c "c"
  .word super.c  // super.c "c"
  a: nop
}
