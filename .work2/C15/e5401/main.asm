.if 1 {
  .if 0 {
    .word a  // b "b"
  }
  .word a  // b "b"
} else {
  .word a  // b "b"
  .if 0 {
    .word a  // b "b"
    .word a  // b "b"
  }
}
a: nop
.word a  // b "b"
.if 0 {
  .if 0 {
    .word a  // b "b"
  }
  .word a  // b "b"
} else {
  .if 0 {
    .word a  // b "b"
  }
}
.word a  // b "b"
.word a  // b "b"
