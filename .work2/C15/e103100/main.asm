zz4: {
  a: {
    .word zz4.b  // a.b "b"
  }
  b: nop
  .word a  // a "a"
}
b: nop
.word zz4.b  // a.b "b"
