.import * from "inc.asm"
.word zz9  // b "b"
zz9: {
  c: {
    .word zz9.c  // b.c "c"
    .word c  // c "c"
  }
  .if 0 {
    .word c  // c "c"
  }
}
.word c  // c "c"
.const c = 5
a: {
  .if 0 {
    .word a  // a "a"
    .word zz9.c  // b.c "c"
  } else {
    .word super.zz9  // super.b "b"
  }
  c: {
    .word c  // c "c"
  }
  .word a  // a "a"
}
.if 0 {
  .if 0 {
    .word c  // c "c"
    .word a.c  // a.c "c"
  }
  .word zz9.c  // b.c "c"
}
