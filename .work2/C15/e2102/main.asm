.macro m(zz3) {
  .word zz3  // q "q"
  .word zz3  // q "q"
}
.const a = 6
.word a  // a "a"
b: nop
m(2)
