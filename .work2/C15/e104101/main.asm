b: {
  c: {
    .word b.a  // b.a "a"
  }
  a: nop
  .word c  // b "b"
}
a: nop
.word a  // a "a"
