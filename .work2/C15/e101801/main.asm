c: {
  b: {
    .word b  // b "b"
  }
  a: nop
  .word super.c  // super.b "b"
}
a: nop
.word c  // b "b"
