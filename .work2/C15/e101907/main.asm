a: {
  b: {
    .word b  // b "b"
  }
  a: nop
  .word a  // a "a"
}
c: nop
.word c  // b "b"
