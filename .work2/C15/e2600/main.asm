.import * from "inc.asm"
.word c  // c "c"
.if 0 {
  .word zz4  // b "b"
  .word c  // c "c"
}
c: {
  .if 0 {
    .word super.c  // super.c "c"
  }
  c: nop
}
zz4: {
  .word zz4  // b "b"
  b: {
    a: nop
    .word zz4.b.a  // b.b.a "a"
    b: nop
  }
}
