.word zz4  // b "b"
