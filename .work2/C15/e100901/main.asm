a: {
  c: {
    .word super.c  // super.a "a"
  }
  b: nop
  .word a.c  // a.a "a"
}
b: nop
.word a.b  // a.b "b"
