b: {
  b: {
    .word super.b  // super.a "a"
  }
  b: nop
  .word b  // a "a"
}
a: nop
.word a  // a "a"
