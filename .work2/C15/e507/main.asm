{
  .if 0 {
    .word a  // a "a"
  }
}
.word b  // b "b"
b: {
  .word b.b  // c.b "b"
}
b: {
  .word b  // c "c"
  .word b.b  // c.b "b"
  b: {
    .word .super.b  // super.super.b "b"
    .word b.b  // c.b "b"
    a: nop
  }
}
.word b.b.a  // c.b.a "a"
.word b  // b "b"
