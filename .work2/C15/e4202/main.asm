zz1: {
  .if 0 {
    .word zz1.c  // b.c "c"
  } else {
    .word zz1  // b "b"
    .word zz1.c.c  // b.c.c "c"
  }
  c: {
    .word c  // c "c"
    .word zz1  // b "b"
    .const c = 4
  }
}
.word zz1.c  // b.c "c"
.if 1 {
  .if 0 {
    .word zz1.c  // b.c "c"
    .word zz1.c  // b.c "c"
  }
} else {
  .if 0 {
    .word zz1  // b "b"
    .word zz1.c  // b.c "c"
  }
  .if 1 {
    .word c  // c "c"
    .word zz1.c  // b.c "c"
  } else {
    .word c  // c "c"
    .word zz1  // b "b"
  }
}
