a: {
  c: {
    .word super.b  // super.b "b"
  }
  b: nop
  .word c  // a "a"
}
b: nop
.word a.b  // a.b "b"
