.word b  // b "b"
.word b  // b "b"
.word b  // b "b"
.const b = 2
.word b  // b "b"
