.word b  // b "b"
.word b.c.b  // b.c.b "b"
b: {
  c: {
    .word b.c  // b.c "c"
    b: nop
  }
}
.if 0 {
  .word c  // c "c"
} else {
  .if 0 {
    .word zz4.c  // a.c "c"
  }
}
zz4: {
  {
    c: nop
  }
  .const b = 7
  c: nop
}
