a: {
  a: {
    .word a.a  // a.a "a"
  }
  b: nop
  .word a  // a "a"
}
b: nop
.word a.b  // a.b "b"
