a: {
  a: {
    .word super.super.b  // super.super.b "b"
  }
  c: nop
  .word super.b  // super.b "b"
}
b: nop
.word a.c  // a.b "b"
