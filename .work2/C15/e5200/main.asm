.word zz8  // a "a"
zz8: nop
.word zz8  // a "a"
.word zz8  // a "a"
