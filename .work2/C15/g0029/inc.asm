b: {
  .word super.b  // super.b "b"
}
