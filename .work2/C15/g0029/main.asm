.import * from "inc.asm"
.if 0 {
  .if 0 {
    .word b  // b "b"
  }
}
.if 0 {
  .if 0 {
    .word b  // b "b"
    .word b  // b "b"
  }
} else {
  .word b  // b "b"
}
.word b  // b "b"
.word b  // b "b"
.word b  // b "b"
.word b  // b "b"
