zz8: {
  b: {
    .word .a  // super.a "a"
  }
  a: nop
  .word zz8.b  // a.b "b"
}
b: nop
.word b  // b "b"
