.macro m(q) {
  .word q  // q "q"
  .word q  // q "q"
}
c: {
  b: {
    .word b  // b "b"
  }
  m(2)
}
a: nop
.word b  // b "b"
.word c.b  // c.b "b"
.if 1 {
  .if 0 {
    m(2)
  }
} else {
  .if 0 {
    m(2)
    .word c  // c "c"
  }
  .word a  // a "a"
}
b: {
  .const m = 13
  .word b.m  // b.m "m"
  c: nop
}
