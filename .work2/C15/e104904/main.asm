b: {
  zz8: {
    .word super.super.b  // super.super.b "b"
  }
  b: nop
  .word b.zz8  // b.a "a"
}
a: nop
.word a  // a "a"
