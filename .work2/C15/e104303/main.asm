b: {
  a: {
    .word b.a  // b.a "a"
  }
  b: nop
  .word super.b  // super.b "b"
}
c: nop
.word b.a  // b.a "a"
