.word b  // b "b"
.word zz8  // a "a"
.word b  // b "b"
.word b  // b "b"
zz8: {
  .word b  // b "b"
}
b: {
  .word b  // b "b"
}
