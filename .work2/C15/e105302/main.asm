.macro m(q) {
  .word q  // q "q"
}
.macro zz7(p) {
  .word p  // p "p"
}
s: {
  .const m = 12
  zz7(2)
  .word m  // m "m"
}
.const x = 21
.if 1 {
  zz7(2)
  .word x  // x "x"
} else {
  m(2)
  .word x  // x "x"
}
zz7(2)
