c: {
  .word super.b  // super.b "b"
}
{
  .word zz8  // a "a"
}
.const zz8 = 3
.word zz8  // a "a"
b: nop
