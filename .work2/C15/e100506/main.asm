a: {
  zz8: {
    .word super.zz8  // super.b "b"
  }
  a: nop
  .word super.a  // super.a "a"
}
b: nop
.word a.zz8  // a.b "b"
