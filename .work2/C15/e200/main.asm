.macro m(p, q) {
  .word q  // q "q"
  .word p  // p "p"
}
zz7: nop
m(2, 5)
b: {
  a: nop
  .const b = 11
}
.word zz7  // a "a"
.word b  // b "b"
