a: {
  c: {
    .word a.a  // a.a "a"
  }
  a: nop
  .word a.c  // a.b "b"
}
b: nop
.word b  // b "b"
