a: {
  b: {
    .word super.super.b  // super.super.b "b"
  }
  c: nop
  .word a.c  // a.a "a"
}
b: nop
.word a.c  // a.a "a"
