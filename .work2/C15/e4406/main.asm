.import * from "inc.asm"
.if 1 {
  .if 0 {
    .word zz1  // b "b"
    .word zz1  // b "b"
  } else {
    .word c  // c "c"
  }
  .word zz1  // b "b"
} else {
  .word zz1  // b "b"
}
.word c  // c "c"
c: nop
