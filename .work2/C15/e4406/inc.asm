zz1: {
  .word zz1  // b "b"
  .word zz1  // b "b"
  .const b = 4
}
