.word zz3  // b "b"
.word zz3  // b "b"
.word zz3  // b "b"
.const zz3 = 2
.word zz3  // b "b"
