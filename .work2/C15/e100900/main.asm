a: {
  zz4: {
    .word super.zz4  // super.a "a"
  }
  b: nop
  .word a.zz4  // a.a "a"
}
b: nop
.word a.b  // a.b "b"
