b: {
  b: {
    .word super.b  // super.b "b"
  }
  zz0: nop
  .word b.zz0  // b.a "a"
}
a: nop
.word b  // b "b"
