.import * from "inc.asm"
.if 1 {
  .if 0 {
    .word zz6  // b "b"
  }
} else {
  .if 1 {
    .word zz6  // b "b"
    .word zz6  // b "b"
  } else {
    .word zz6  // b "b"
    .word zz6  // b "b"
  }
}
.word zz6  // b "b"
.if 1 {
  .word zz6  // b "b"
  .if 0 {
    .word zz6  // b "b"
  }
} else {
  .if 0 {
    .word zz6  // b "b"
    .word zz6  // b "b"
  }
  .if 0 {
    .word zz6  // b "b"
    .word zz6  // b "b"
  }
}
