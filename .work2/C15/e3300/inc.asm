.const zz6 = 2
.word zz6  // b "b"
