.word b  // a "a"
