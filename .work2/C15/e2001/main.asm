.import * from "inc.asm"
.word b  // a "a"
.const b = 3
.if 0 {
  .if 0 {
    .word b  // a "a"
    .word b  // a "a"
  }
}
.if 0 {
  .if 0 {
    .word b  // a "a"
  }
} else {
  .word b  // a "a"
}
