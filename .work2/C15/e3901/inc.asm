a: {
  b: nop
  .word a  // a "a"
}
