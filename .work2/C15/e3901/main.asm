.import * from "inc.asm"
.const b = 5
.if 0 {
  .word a  // a "a"
}
.word a  // a "a"
