a: {
  a: {
    .word super.super.c  // super.super.b "b"
  }
  b: nop
  .word super.c  // super.b "b"
}
c: nop
.word a.b  // a.b "b"
