.if 1 {
  .if 0 {
    .word c  // c "c"
    .word zz8  // a "a"
  }
} else {
  .if 0 {
    .word zz8  // a "a"
  }
  .word zz8  // a "a"
}
b: {
  .word zz8  // a "a"
  .word b  // b "b"
}
.const zz8 = 3
.word zz8  // a "a"
.word b  // b "b"
.const c = 4
