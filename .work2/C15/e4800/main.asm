{
  .if 0 {
    .word c  // c "c"
    .word a.c.zz1  // a.c.a "a"
  } else {
    .word c  // c "c"
    .word a  // a "a"
  }
}
.word a  // a "a"
a: {
  .word a.c  // a.c "c"
  .word a  // a "a"
  c: {
    .const zz1 = 4
  }
}
c: {
  .if 0 {
    .word super.a.c.zz1  // super.a.c.a "a"
    .word c.a  // c.a "a"
  }
}
