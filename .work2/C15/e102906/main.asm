zz5: {
  a: {
    .word .a  // super.a "a"
  }
  b: nop
  .word a  // a "a"
}
b: nop
.word zz5.a  // a.a "a"
