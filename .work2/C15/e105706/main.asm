.macro m(p) {
  .word p  // p "p"
}
.macro n(p) {
  .word p  // p "p"
}
s: {
  .const zz8 = 12
  m(2)
  .word zz8  // y "y"
}
.const x = 21
.if 0 {
  m(2)
  .word x  // x "x"
} else {
  n(2)
  .word x  // x "x"
}
n(2)
