a: {
  b: {
    .word a.b  // a.b "b"
  }
  b: nop
  .word a.b  // a.a "a"
}
b: nop
.word a  // a "a"
