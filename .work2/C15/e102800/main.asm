zz5: {
  b: {
    .word .b  // super.b "b"
  }
  a: nop
  .word zz5  // a "a"
}
b: nop
.word zz5.a  // a.a "a"
