c: {
  .word super.b  // super.b "b"
}
{
  .word zz7  // a "a"
}
.const zz7 = 3
.word zz7  // a "a"
b: nop
