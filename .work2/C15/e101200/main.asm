a: {
  b: {
    .word a.b  // a.b "b"
  }
  zz2: nop
  .word a.zz2  // a.a "a"
}
b: nop
.word a  // a "a"
