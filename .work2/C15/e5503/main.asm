.macro m(p, q) {
  .word p  // p "p"
  .word p  // p "p"
}
.macro b(p) {
  .word p  // p "p"
}
.word c  // c "c"
.word c  // c "c"
c: {
  .word super.c  // super.c "c"
  m(2, 2)
}
.if 0 {
  m(2, 2)
}
{
  .if 0 {
    m(5, 2)
  }
}
b(2)
