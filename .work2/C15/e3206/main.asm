.word zz8  // c "c"
b: nop
.word zz8  // c "c"
zz8: nop
