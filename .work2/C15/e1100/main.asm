{
  b: nop
}
.const a = 3
.if 0 {
  .word b  // b "b"
  .word b  // b "b"
} else {
  .if 0 {
    .word a  // a "a"
    .word b  // b "b"
  }
  .if 0 {
    .word b  // b "b"
  }
}
.word a  // a "a"
