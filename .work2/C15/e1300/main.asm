.const zz1 = 2
a: {
  b: nop
  .word zz1  // b "b"
  .const c = 5
}
c: {
  .word zz1  // b "b"
}
.if 0 {
  .if 0 {
    .word a.b  // a.b "b"
    .word c  // c "c"
  }
  .if 0 {
    .word zz1  // b "b"
  }
}
{
  b: nop
  .word zz1  // b "b"
}
{
  b: nop
}
