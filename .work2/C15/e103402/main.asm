zz6: {
  a: {
    .word .super.zz6  // super.super.b "b"
  }
  b: nop
  .word super.zz6  // super.b "b"
}
a: nop
.word zz6.a  // b.a "a"
