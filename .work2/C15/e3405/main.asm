.macro b(q) {
  .word q  // q "q"
  .word q  // q "q"
}
.macro n(q) {
  .word q  // q "q"
}
.word b  // b "b"
.word b  // b "b"
.word b  // m "m"
{
  .const m = 9
}
b: {
  .word b  // m "m"
}
.if 0 {
  b(2)
}
n(2)
