b: {
  a: {
    .word .a  // super.a "a"
  }
  b: nop
  .word b.b  // a.b "b"
}
b: nop
.word b.a  // a.a "a"
