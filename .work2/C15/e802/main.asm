.macro zz9(q) {
  .word q  // q "q"
}
c: {
  {
    b: nop
  }
}
b: {
  .const a = 8
}
zz9(5)
.word b  // b "b"
.word b.a  // b.a "a"
