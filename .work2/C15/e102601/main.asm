b: {
  b: {
    .word super.b  // super.b "b"
  }
  c: nop
  .word c  // a "a"
}
a: nop
.word b.c  // b.a "a"
