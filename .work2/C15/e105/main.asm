.macro b(q) {
  .word q  // q "q"
}
{
  {
    b: nop
    .word b  // b "b"
  }
}
b(2)
b: nop
