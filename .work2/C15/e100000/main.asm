a: {
  b: {
    .word super.a  // super.a "a"
  }
  a: nop
  .word a.a  // a.a "a"
}
zz6: nop
.word a  // a "a"
