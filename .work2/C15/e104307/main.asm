b: {
  a: {
    .word b.a  // b.a "a"
  }
  c: nop
  .word super.b  // super.b "b"
}
a: nop
.word b.a  // b.a "a"
