.macro m(p) {
  .word p  // p "p"
}
.macro zz4(p) {
  .word p  // p "p"
}
s: {
  .const y = 12
  m(2)
  .word y  // y "y"
}
.const x = 21
.if 0 {
  zz4(2)
  .word x  // x "x"
} else {
  zz4(2)
  .word x  // x "x"
}
m(2)
