.import * from "inc.asm"
.if 0 {
  .if 0 {
    .word a  // b "b"
  }
}
.if 0 {
  .if 0 {
    .word a  // b "b"
    .word a  // b "b"
  }
} else {
  .word a  // b "b"
}
.word a  // b "b"
.word a  // b "b"
.word a  // b "b"
.word a  // b "b"
