a: {
  .word super.a  // super.b "b"
}
