c: nop
zz9: nop
