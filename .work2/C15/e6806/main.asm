.import * from "inc.asm"
.if 0 {
  .word zz9  // b "b"
} else {
  .if 0 {
    .word c  // c "c"
  }
}
.word c  // c "c"
.word zz9  // b "b"
