.macro m(p) {
  .word p  // p "p"
}
.macro n(p) {
  .word p  // p "p"
}
s: {
  .const y = 12
  m(2)
  .word y  // y "y"
}
.const a = 21
.if 1 {
  n(2)
  .word s.y  // s.y "y"
} else {
  m(2)
  .word a  // x "x"
}
m(2)
