.word zz5  // b "b"
.word zz5  // b "b"
.word zz5  // b "b"
.const zz5 = 2
.word zz5  // b "b"
