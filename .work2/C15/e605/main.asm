.import * from "inc.asm"
.word b  // c "c"
.if 0 {
  .word b  // c "c"
  .if 0 {
    .word b  // c "c"
  }
}
b: nop
.word b  // b "b"
.if 1 {
  .word b  // b "b"
} else {
  .if 0 {
    .word b  // c "c"
  }
  .if 0 {
    .word b  // c "c"
  }
}
