.macro a(p, q) {
  .word p  // p "p"
}
.macro n(q) {
  .word q  // q "q"
}
.const b = 9
a: nop
.word b  // b "b"
.word b  // b "b"
{
  .word super.b  // super.b "b"
}
a(2, 2)
n(2)
