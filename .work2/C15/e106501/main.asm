.macro a(q) {
  .word q  // q "q"
}
.macro n(p) {
  .word p  // p "p"
}
s: {
  .const m = 12
  a(2)
  .word m  // m "m"
}
.const x = 21
.if 0 {
  a(2)
  .word s.m  // s.m "m"
} else {
  a(2)
  .word x  // x "x"
}
n(2)
