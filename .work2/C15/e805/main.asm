.macro c(q) {
  .word q  // q "q"
}
c: {
  {
    b: nop
  }
}
b: {
  .const a = 8
}
c(5)
.word b  // b "b"
.word b.a  // b.a "a"
