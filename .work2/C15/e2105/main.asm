.macro m(q) {
  .word q  // q "q"
  .word q  // q "q"
}
.const c = 6
.word c  // a "a"
b: nop
m(2)
