.word b  // b "b"
a: nop
b: {
  {
    .word super.b.b  // super.b.a "a"
  }
  .word a  // a "a"
  b: {
    b: nop
    .word b  // a "a"
  }
}
