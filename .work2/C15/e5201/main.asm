.word b  // a "a"
b: nop
.word b  // a "a"
.word b  // a "a"
