zz0: {
  b: {
    .word zz0.b  // a.b "b"
  }
  a: nop
  .word zz0.a  // a.a "a"
}
b: nop
.word zz0  // a "a"
