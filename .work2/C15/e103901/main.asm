b: {
  a: {
    .word super.c  // super.b "b"
  }
  c: nop
  .word super.b  // super.b "b"
}
a: nop
.word a  // a "a"
