.macro m(p) {
  .word p  // p "p"
}
.macro zz6(q) {
  .word q  // q "q"
  .word q  // q "q"
}
.word c  // c "c"
.const c = 9
m(2)
.if 0 {
  zz6(5)
}
.const b = 11
a: {
  c: {
    a: nop
    m(5)
  }
  zz6(2)
  b: nop
}
.word a.c.a  // a.c.a "a"
m(5)
