.word zz9  // b "b"
.word zz9  // b "b"
.word zz9  // b "b"
.const zz9 = 2
.word zz9  // b "b"
