b: {
  a: {
    .word super.a  // super.b "b"
  }
  a: nop
  .word a  // a "a"
}
a: nop
.word b  // b "b"
