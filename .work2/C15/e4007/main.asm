c: {
  .word super.b  // super.b "b"
}
{
  .word c  // a "a"
}
.const c = 3
.word c  // a "a"
b: nop
