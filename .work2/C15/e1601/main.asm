.macro m(p, q) {
  .word q  // q "q"
  .word q  // q "q"
}
.macro n(p, q) {
  .word p  // p "p"
  .word p  // p "p"
}
m(2, 2)
a: {
  .const b = 14
  c: nop
  .word b.b  // c.b "b"
}
.word b  // c "c"
.word b  // c "c"
n(2, 2)
b: {
  c: {
    m(5, 2)
    n(2, 2)
  }
  .const b = 21
  .if 0 {
    n(5, 5)
    .word b.b  // c.b "b"
  } else {
    n(2, 2)
    m(5, 5)
  }
}
