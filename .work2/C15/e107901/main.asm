.macro m(q) {
  .word q  // q "q"
}
.macro n(p) {
  .word p  // p "p"
}
c: {
  .const y = 12
  m(2)
  .word y  // y "y"
}
.const x = 21
.if 1 {
  m(2)
  .word c.y  // s.y "y"
} else {
  n(2)
  .word x  // x "x"
}
n(2)
