.import * from "inc.asm"
b: {
  .word b  // b "b"
  .if 0 {
    .word b  // b "b"
  }
  .if 1 {
    .word zz5  // c "c"
    .word zz5  // c "c"
  } else {
    .word b  // b "b"
    .word zz5  // c "c"
  }
}
.if 0 {
  .if 0 {
    .word b  // b "b"
    .word zz5  // c "c"
  } else {
    .word zz5  // c "c"
  }
  .word b  // b "b"
}
.const zz5 = 4
