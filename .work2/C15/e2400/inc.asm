.word zz0  // a "a"
.word zz0  // a "a"
