.import * from "inc.asm"
.word zz0  // a "a"
.const zz0 = 4
.word zz0  // a "a"
