a: {
  c: {
    .word a.c  // a.a "a"
  }
  b: nop
  .word c  // a "a"
}
b: nop
.word a.b  // a.b "b"
