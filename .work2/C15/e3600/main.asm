.import * from "inc.asm"
.word zz6  // c "c"
.const zz6 = 3
.word zz6  // c "c"
a: {
  .word zz6  // c "c"
  .const c = 5
  .if 1 {
    .word c  // c "c"
  } else {
    .word a.c  // a.c "c"
  }
}
b: {
  .if 1 {
    .word zz6  // c "c"
    .word zz6  // c "c"
  } else {
    .word b  // b "b"
  }
}
