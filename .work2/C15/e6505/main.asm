.import * from "inc.asm"
a: nop
a: {
  b: {
    c: nop
    .word a  // c "c"
  }
}
b: {
  .word a  // c "c"
  .if 0 {
    .word b  // b "b"
    .word a  // c "c"
  } else {
    .word a  // c "c"
    .word b  // b "b"
  }
}
.word a  // a "a"
.if 0 {
  .if 0 {
    .word b  // b "b"
    .word b.c  // b.c "c"
  }
  .if 0 {
    .word b  // b "b"
    .word a.b.c  // c.b.c "c"
  }
}
.word a.b  // c.b "b"
