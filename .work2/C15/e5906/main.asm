.word b  // b "b"
.word b.zz0.b  // b.c.b "b"
b: {
  zz0: {
    .word b.zz0  // b.c "c"
    b: nop
  }
}
.if 0 {
  .word c  // c "c"
} else {
  .if 0 {
    .word a.c  // a.c "c"
  }
}
a: {
  {
    c: nop
  }
  .const b = 7
  c: nop
}
