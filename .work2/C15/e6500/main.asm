.import * from "inc.asm"
a: nop
c: {
  b: {
    c: nop
    .word c  // c "c"
  }
}
zz9: {
  .word c  // c "c"
  .if 0 {
    .word zz9  // b "b"
    .word c  // c "c"
  } else {
    .word c  // c "c"
    .word zz9  // b "b"
  }
}
.word a  // a "a"
.if 0 {
  .if 0 {
    .word zz9  // b "b"
    .word b.c  // b.c "c"
  }
  .if 0 {
    .word zz9  // b "b"
    .word c.b.c  // c.b.c "c"
  }
}
.word c.b  // c.b "b"
