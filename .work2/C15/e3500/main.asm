.macro zz8(q) {
  .word q  // q "q"
  .word q  // q "q"
}
.const a = 6
{
  b: nop
}
b: {
  .if 1 {
    .word c  // c "c"
    .word c  // c "c"
  } else {
    .word b  // b "b"
    zz8(2)
  }
  zz8(5)
}
.word b  // b "b"
.const c = 11
{
  .if 0 {
    zz8(5)
    .word b  // b "b"
  }
}
