.word a  // a "a"
a: nop
.word a  // a "a"
.word a  // a "a"
