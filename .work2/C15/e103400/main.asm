zz1: {
  a: {
    .word .super.zz1  // super.super.b "b"
  }
  b: nop
  .word super.zz1  // super.b "b"
}
a: nop
.word zz1.a  // b.a "a"
