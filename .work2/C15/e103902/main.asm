b: {
  a: {
    .word super.b  // super.b "b"
  }
  b: nop
  .word super.b  // super.b "b"
}
zz7: nop
.word zz7  // a "a"
