.macro zz4(p, q) {
  .word p  // p "p"
  .word p  // p "p"
}
.macro n(p) {
  .word p  // p "p"
}
.word c  // c "c"
.word c  // c "c"
c: {
  .word super.c  // super.c "c"
  zz4(2, 2)
}
.if 0 {
  zz4(2, 2)
}
{
  .if 0 {
    zz4(5, 2)
  }
}
n(2)
