.macro c(p) {
  .word p  // p "p"
}
.macro n(p) {
  .word p  // p "p"
}
s: {
  .const y = 12
  c(2)
  .word y  // y "y"
}
.const x = 21
.if 1 {
  c(2)
  .word x  // x "x"
} else {
  c(2)
  .word x  // x "x"
}
c(2)
