.word b  // b "b"
.word b  // b "b"
b: nop
.word b  // c "c"
{
  .word super.b  // super.c "c"
  b: {
    .word b  // b "b"
    b: nop
  }
}
.const b = 5
