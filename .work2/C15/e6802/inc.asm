zz1: nop
b: nop
