.import * from "inc.asm"
.if 0 {
  .word b  // b "b"
} else {
  .if 0 {
    .word zz1  // c "c"
  }
}
.word zz1  // c "c"
.word b  // b "b"
