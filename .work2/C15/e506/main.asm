{
  .if 0 {
    .word a  // a "a"
  }
}
.word b  // b "b"
b: {
  .word zz2.b  // c.b "b"
}
zz2: {
  .word zz2  // c "c"
  .word zz2.b  // c.b "b"
  b: {
    .word .super.b  // super.super.b "b"
    .word zz2.b  // c.b "b"
    a: nop
  }
}
.word zz2.b.a  // c.b.a "a"
.word b  // b "b"
