.macro m(q) {
  .word q  // q "q"
}
.macro n(p) {
  .word p  // p "p"
}
s: {
  .const zz3 = 12
  n(2)
  .word zz3  // y "y"
}
.const x = 21
.if 1 {
  n(2)
  .word s.zz3  // s.y "y"
} else {
  n(2)
  .word x  // x "x"
}
m(2)
