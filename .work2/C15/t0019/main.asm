a: {
  b: {
    .word b  // b "b"
  }
  a: nop
  .word a  // a "a"
}
b: nop
.word b  // b "b"
