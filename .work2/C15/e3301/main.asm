.import * from "inc.asm"
.if 1 {
  .if 0 {
    .word c  // b "b"
  }
} else {
  .if 1 {
    .word c  // b "b"
    .word c  // b "b"
  } else {
    .word c  // b "b"
    .word c  // b "b"
  }
}
.word c  // b "b"
.if 1 {
  .word c  // b "b"
  .if 0 {
    .word c  // b "b"
  }
} else {
  .if 0 {
    .word c  // b "b"
    .word c  // b "b"
  }
  .if 0 {
    .word c  // b "b"
    .word c  // b "b"
  }
}
