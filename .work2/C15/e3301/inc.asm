.const c = 2
.word c  // b "b"
