a: {
  b: {
    .word a.a  // a.a "a"
  }
  a: nop
  .word a.b  // a.b "b"
}
zz6: nop
.word zz6  // b "b"
