.macro m(p, q) {
  .word p  // p "p"
}
.word zz3  // c "c"
.word zz3.c  // c.c "c"
{
  c: {
    m(5, 2)
  }
  .const b = 8
}
.const a = 9
zz3: {
  .const c = 11
  .if 0 {
    m(2, 2)
    m(2, 2)
  }
}
