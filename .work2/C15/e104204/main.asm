zz9: {
  b: {
    .word zz9.a  // a.a "a"
  }
  a: nop
  .word zz9.b  // a.b "b"
}
b: nop
.word b  // b "b"
