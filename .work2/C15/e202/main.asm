.macro m(p, zz7) {
  .word zz7  // q "q"
  .word p  // p "p"
}
a: nop
m(2, 5)
b: {
  a: nop
  .const b = 11
}
.word a  // a "a"
.word b  // b "b"
