.macro m(p) {
  .word p  // p "p"
}
.macro n(p) {
  .word p  // p "p"
  .word p  // p "p"
}
b: {
  .const zz5 = 10
}
.if 0 {
  .word b  // b "b"
} else {
  .word b.zz5  // b.b "b"
  .word c  // c "c"
}
c: nop
m(2)
n(2)
