b: {
  c: {
    .word super.c  // super.b "b"
  }
  a: nop
  .word b.a  // b.a "a"
}
a: nop
.word b  // b "b"
