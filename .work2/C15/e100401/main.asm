a: {
  a: {
    .word super.a  // super.a "a"
  }
  b: nop
  .word super.a  // super.a "a"
}
a: nop
.word a  // b "b"
