zz2: {
  b: {
    .word b  // b "b"
  }
  a: nop
  .word super.zz2  // super.b "b"
}
a: nop
.word zz2  // b "b"
