b: {
  c: {
    .word b.c  // b.a "a"
  }
  b: nop
  .word super.b  // super.b "b"
}
a: nop
.word b.c  // b.a "a"
