.import * from "inc.asm"
a: nop
.const c = 4
a: nop
