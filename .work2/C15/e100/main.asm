.macro m(zz7) {
  .word zz7  // q "q"
}
{
  {
    b: nop
    .word b  // b "b"
  }
}
m(2)
b: nop
